(* Proofs/StripMachine.v -- the two-phase scanner of next_bytes computes "filter
   kept" under a byte-at-a-time machine [mstep], and leaves that machine's state
   behind.  Consequences: concatenated pieces = machine output (C01), chunked =
   one-shot for every partition (C03). *)
From Coq Require Import NArith List Bool Lia.
From AV Require Import Generated.Table Model.Base Model.Utf8parse Model.Parser Model.Strip Proofs.TableFacts.
Import ListNotations.
Local Open Scope N_scope.

Definition bytes_ok (bs : list N) : Prop := Forall (fun b => b < 256) bs.

(* ---- the byte-at-a-time machine ------------------------------------------ *)

Definition norm (st : state) (u : u8parser) : state * u8parser :=
  if state_eqb st Utf8 then (Ground, u8_new) else (st, u).

Definition mstep (st : state) (u : u8parser) (b : N) : option (state * u8parser * bool) :=
  if state_eqb st Utf8 && negb (is_ascii b) then
    let '(u1, done) := utf8_add u b in
    Some (if done then Ground else st, u1, true)
  else
    let '(st0, u0) := norm st u in
    '(ns, a) <- state_change st0 b ;;
    if is_printable_bytes a b then
      if state_eqb ns Utf8 then Some (ns, fst (utf8_add u0 b), true)
      else Some (st0, u0, true)
    else Some (if state_eqb ns Anywhere then st0 else ns, u0, false).

Fixpoint mrun (st : state) (u : u8parser) (bs : list N) : option (state * u8parser * list N) :=
  match bs with
  | [] => Some (st, u, [])
  | b :: rest =>
      '(st1, u1, k) <- mstep st u b ;;
      '(st2, u2, out) <- mrun st1 u1 rest ;;
      Some (st2, u2, if k then b :: out else out)
  end.

Lemma mrun_app : forall a b st u st1 u1 o1,
  mrun st u a = Some (st1, u1, o1) ->
  mrun st u (a ++ b) =
    match mrun st1 u1 b with
    | Some (st2, u2, o2) => Some (st2, u2, o1 ++ o2)
    | None => None
    end.
Proof.
  induction a as [|x a IH]; intros b st u st1 u1 o1 H; cbn [mrun app] in *.
  - inversion H; subst. destruct (mrun st1 u1 b) as [[[? ?] ?]|]; reflexivity.
  - destruct (mstep st u x) as [[[sx ux] k]|]; [|discriminate].
    destruct (mrun sx ux a) as [[[sa ua] oa]|] eqn:Ha; [|discriminate].
    inversion H; subst. rewrite (IH b _ _ _ _ _ Ha).
    destruct (mrun st1 u1 b) as [[[? ?] ?]|]; [|reflexivity].
    destruct k; reflexivity.
Qed.

(* ---- facts about states --------------------------------------------------- *)

Lemma state_eqb_eq a b : state_eqb a b = true <-> a = b.
Proof. destruct a, b; cbn; split; intros H; try reflexivity; try discriminate. Qed.

Lemma state_eqb_refl a : state_eqb a a = true.
Proof. now apply state_eqb_eq. Qed.

Lemma state_eqb_neq a b : state_eqb a b = false <-> a <> b.
Proof.
  split.
  - intros H E. subst. rewrite state_eqb_refl in H. discriminate.
  - intros H. destruct (state_eqb a b) eqn:E; [|reflexivity]. apply state_eqb_eq in E. contradiction.
Qed.

(* when not in a multi-byte character the decoder is idle *)
Inductive Inv (st : state) (u : u8parser) : Prop :=
  mkInv : (st <> Utf8 -> u = u8_new) -> Inv st u.

(* a printable byte either leaves the state alone or begins a UTF-8 character from Ground *)
Definition printable_shape (s : state) (b : N) : bool :=
  match state_change s b with
  | Some (ns, a) =>
      if is_printable_bytes a b
      then state_eqb ns Anywhere || (state_eqb ns Utf8 && state_eqb s Ground && negb (is_ascii b)
                                     && negb (snd (utf8_add u8_new b)))
      else true
  | None => false
  end.

Lemma printable_shape_all :
  forallb (fun s => forallb (printable_shape s) all_bytes) all_states = true.
Proof. vm_compute. reflexivity. Qed.

Lemma printable_shape_ok s b : b < 256 -> printable_shape s b = true.
Proof. exact (forall_states_bytes _ printable_shape_all s b). Qed.

(* a decoder that reports completion is idle again *)
Definition u8states : list u8state :=
  [U8Ground; U8Tail3; U8Tail2; U8Tail1; U8_3_2_e0; U8_3_2_ed; U8_4_3_f0; U8_4_3_f4].

Lemma utf8_add_done : forall u b u1,
  b < 256 -> is_ascii b = false -> utf8_add u b = (u1, true) -> u1 = u8_new.
Proof.
  intros [pt us] b u1 Hb Ha H. unfold utf8_add, u8_parser_advance in H. cbn [u8st u8point] in H.
  assert (Hcases : forallb (fun s => forallb (fun b =>
            if is_ascii b then true else
            match u8_advance s b with
            | (s', InvalidSequence) | (s', SetByte1) =>
                match s' with U8Ground => true | _ => false end
            | (_, EmitByte) => false
            | _ => true
            end) all_bytes) u8states = true) by (vm_compute; reflexivity).
  rewrite forallb_forall in Hcases.
  assert (Hin : In us u8states) by (destruct us; cbn; tauto).
  specialize (Hcases us Hin). pose proof (forall_bytes _ Hcases b Hb) as Hc. cbv beta in Hc.
  rewrite Ha in Hc.
  destruct (u8_advance us b) as [s' a]. destruct a; cbn in H; inversion H; subst;
    try discriminate; destruct s'; try discriminate; reflexivity.
Qed.

Lemma mstep_inv st u b st1 u1 k :
  b < 256 -> Inv st u -> mstep st u b = Some (st1, u1, k) -> Inv st1 u1.
Proof.
  intros Hb [HI] H. unfold mstep in H.
  destruct (state_eqb st Utf8 && negb (is_ascii b)) eqn:E.
  - apply andb_true_iff in E as [E1 E2]. apply negb_true_iff in E2.
    destruct (utf8_add u b) as [u' done] eqn:Ha. inversion H; subst.
    destruct done.
    + constructor. intros _. eapply utf8_add_done; eauto.
    + apply state_eqb_eq in E1. subst. constructor. intros C. contradiction.
  - assert (Hn : exists st0 u0, norm st u = (st0, u0) /\ u0 = u8_new /\ st0 <> Utf8).
    { unfold norm. destruct (state_eqb st Utf8) eqn:E1.
      - exists Ground, u8_new. repeat split. discriminate.
      - exists st, u. apply state_eqb_neq in E1. repeat split; auto. }
    destruct Hn as (st0 & u0 & Hn & Hu0 & Hs0). rewrite Hn in H.
    destruct (state_change st0 b) as [[ns a]|]; [|discriminate].
    destruct (is_printable_bytes a b).
    + destruct (state_eqb ns Utf8) eqn:E2; inversion H; subst.
      * apply state_eqb_eq in E2. subst. constructor. intros C. contradiction.
      * constructor. intros _. reflexivity.
    + inversion H; subst. constructor. intros _. reflexivity.
Qed.

Lemma mrun_inv : forall bs st u st1 u1 o,
  bytes_ok bs -> Inv st u -> mrun st u bs = Some (st1, u1, o) -> Inv st1 u1.
Proof.
  induction bs as [|b bs IH]; intros st u st1 u1 o Hok HI H; cbn [mrun] in H.
  - inversion H; subst. exact HI.
  - inversion Hok; subst.
    destruct (mstep st u b) as [[[sx ux] k]|] eqn:Hs; [|discriminate].
    destruct (mrun sx ux bs) as [[[sa ua] oa]|] eqn:Hr; [|discriminate].
    inversion H; subst.
    match goal with Hf : Forall _ bs |- _ => apply (IH sx ux st1 u1 oa Hf) end; [|exact Hr].
    eapply mstep_inv; [|exact HI|exact Hs]. assumption.
Qed.

(* an ASCII byte is processed identically from a broken character and from Ground *)
Lemma mstep_ascii_norm u b :
  is_ascii b = true -> mstep Utf8 u b = mstep Ground u8_new b.
Proof. intros Ha. unfold mstep, norm. rewrite Ha. cbn. reflexivity. Qed.

Lemma mrun_ascii_norm u b r :
  is_ascii b = true -> mrun Utf8 u (b :: r) = mrun Ground u8_new (b :: r).
Proof. intros Ha. cbn [mrun]. rewrite (mstep_ascii_norm u b Ha). reflexivity. Qed.

(* ---- the take phase -------------------------------------------------------- *)

(* states the scanner may be in where the machine is in (sm, um), given the next byte *)
Definition agrees (sm : state) (um : u8parser) (st : state) (u : u8parser) (r : list N) : Prop :=
  (st = sm /\ u = um) \/
  (exists b r', r = b :: r' /\ is_ascii b = true /\ sm = Utf8 /\ st = Ground /\ u = u8_new).

Lemma agrees_mrun sm um st u r : agrees sm um st u r -> mrun st u r = mrun sm um r.
Proof.
  intros [[-> ->]|(b & r' & -> & Ha & -> & -> & ->)]; [reflexivity|].
  symmetry. now apply mrun_ascii_norm.
Qed.

Lemma nb_take_spec : forall bs st u t r st' u',
  bytes_ok bs -> Inv st u ->
  nb_take bs st u = Some (t, r, st', u') ->
  bs = t ++ r /\
  exists sm um, mrun st u t = Some (sm, um, t) /\ agrees sm um st' u' r /\
  (r = [] \/ exists b r' sx ux, r = b :: r' /\ mstep sm um b = Some (sx, ux, false)).
Proof.
  induction bs as [|b bs IH]; intros st u t r st' u' Hok HI H; cbn [nb_take] in H.
  - inversion H; subst. split; [reflexivity|]. exists st', u'. cbn. repeat split; auto. left; auto.
  - inversion Hok as [|? ? Hb Hok']; subst.
    destruct (state_eqb st Utf8 && negb (is_ascii b)) eqn:E.
    + destruct (utf8_add u b) as [u1 done] eqn:Ha.
      destruct (nb_take bs (if done then Ground else st) u1) as [[[[t1 r1] s1] v1]|] eqn:Ht; [|discriminate].
      inversion H; subst.
      assert (Hm : mstep st u b = Some (if done then Ground else st, u1, true)).
      { unfold mstep. rewrite E, Ha. reflexivity. }
      assert (HI1 : Inv (if done then Ground else st) u1) by (eapply mstep_inv; eauto).
      destruct (IH _ _ _ _ _ _ Hok' HI1 Ht) as (Hbs & sm & um & Hrun & Hag & Hr).
      split; [cbn; now rewrite Hbs|].
      exists sm, um. cbn [mrun]. rewrite Hm, Hrun. auto.
    + destruct (norm st u) as [st0 u0] eqn:Hn.
      assert (Hn' : (if state_eqb st Utf8 then (Ground, u8_new) else (st, u)) = (st0, u0)) by exact Hn.
      rewrite Hn' in H.
      destruct (state_change st0 b) as [[ns a]|] eqn:Hsc; [|discriminate].
      destruct (is_printable_bytes a b) eqn:Hp; cbn [negb] in H.
      * (* printable: the byte is taken *)
        destruct (state_eqb ns Utf8) eqn:Ens.
        -- destruct (utf8_add u0 b) as [u1 d1] eqn:Ha.
           destruct (nb_take bs ns u1) as [[[[t1 r1] s1] v1]|] eqn:Ht; [|discriminate].
           inversion H; subst.
           assert (Hm : mstep st u b = Some (ns, u1, true)).
           { unfold mstep. rewrite E, Hn, Hsc, Hp, Ens, Ha. reflexivity. }
           assert (HI1 : Inv ns u1) by (eapply mstep_inv; eauto).
           destruct (IH _ _ _ _ _ _ Hok' HI1 Ht) as (Hbs & sm & um & Hrun & Hag & Hr).
           split; [cbn; now rewrite Hbs|].
           exists sm, um. cbn [mrun]. rewrite Hm, Hrun. auto.
        -- destruct (nb_take bs st0 u0) as [[[[t1 r1] s1] v1]|] eqn:Ht; [|discriminate].
           inversion H; subst.
           assert (Hm : mstep st u b = Some (st0, u0, true)).
           { unfold mstep. rewrite E, Hn, Hsc, Hp, Ens. reflexivity. }
           assert (HI1 : Inv st0 u0) by (eapply mstep_inv; eauto).
           destruct (IH _ _ _ _ _ _ Hok' HI1 Ht) as (Hbs & sm & um & Hrun & Hag & Hr).
           split; [cbn; now rewrite Hbs|].
           exists sm, um. cbn [mrun]. rewrite Hm, Hrun. auto.
      * (* not printable: the run ends here, the byte is left to the next scan *)
        inversion H; subst. split; [reflexivity|].
        exists st, u. cbn [mrun]. split; [reflexivity|]. split.
        -- unfold norm in Hn. destruct (state_eqb st Utf8) eqn:E1.
           ++ inversion Hn; subst. right. exists b, bs. apply state_eqb_eq in E1.
              rewrite E1 in *. cbn in E. apply negb_false_iff in E. auto.
           ++ inversion Hn; subst. left; auto.
        -- right. exists b, bs. eexists. eexists. split; [reflexivity|].
           unfold mstep. rewrite E, Hn, Hsc, Hp. reflexivity.
Qed.

(* ---- the skip phase -------------------------------------------------------- *)

Lemma nb_skip_spec : forall bs st u bs1 st1 u1,
  bytes_ok bs -> Inv st u ->
  nb_skip bs st u = Some (bs1, st1, u1) ->
  exists pre sm um,
    bs = pre ++ bs1 /\ mrun st u pre = Some (sm, um, []) /\
    ((bs1 = [] /\ st1 = sm /\ u1 = um) \/
     (exists b r sx ux, bs1 = b :: r /\ mstep sm um b = Some (sx, ux, true) /\
        nb_take bs1 st1 u1 = nb_take bs1 sm um)).
Proof.
  induction bs as [|b bs IH]; intros st u bs1 st1 u1 Hok HI H; cbn [nb_skip] in H.
  - inversion H; subst. exists [], st1, u1. cbn. repeat split; auto.
  - inversion Hok as [|? ? Hb Hok']; subst.
    destruct (state_eqb st Utf8 && negb (is_ascii b)) eqn:E.
    + (* inside a character: the take phase continues it *)
      inversion H; subst. exists [], st1, u1. cbn [app mrun]. repeat split; auto.
      right. destruct (utf8_add u1 b) as [ux d] eqn:Ha.
      exists b, bs. eexists. eexists. split; [reflexivity|]. split; [|reflexivity].
      unfold mstep. rewrite E, Ha. reflexivity.
    + destruct (norm st u) as [st0 u0] eqn:Hn.
      assert (Hn' : (if state_eqb st Utf8 then (Ground, u8_new) else (st, u)) = (st0, u0)) by exact Hn.
      rewrite Hn' in H.
      destruct (state_change st0 b) as [[ns a]|] eqn:Hsc; [|discriminate].
      assert (Hu0 : u0 = u8_new /\ st0 <> Utf8).
      { destruct HI as [HI']. unfold norm in Hn. destruct (state_eqb st Utf8) eqn:E1; inversion Hn; subst.
        - split; [reflexivity|discriminate].
        - apply state_eqb_neq in E1. split; auto. }
      destruct Hu0 as [Hu0 Hs0].
      destruct (is_printable_bytes a b) eqn:Hp.
      * (* the scan stops at this printable byte, with the state already updated *)
        inversion H; subst bs1 st1 u1. clear H.
        exists [], st, u. cbn [app mrun]. split; [reflexivity|]. split; [reflexivity|].
        right.
        pose proof (printable_shape_ok st0 b Hb) as Hsh. unfold printable_shape in Hsh.
        rewrite Hsc, Hp in Hsh.
        destruct (state_eqb ns Anywhere) eqn:EA.
        -- (* no state change *)
           assert (Ens : state_eqb ns Utf8 = false).
           { apply state_eqb_eq in EA. subst. reflexivity. }
           exists b, bs, st0, u0. split; [reflexivity|]. split.
           ++ unfold mstep. rewrite E, Hn, Hsc, Hp, Ens. reflexivity.
           ++ (* nb_take from (st0,u0) = nb_take from (st,u) *)
              cbn [nb_take]. rewrite E.
              assert (E0 : state_eqb st0 Utf8 = false) by (now apply state_eqb_neq).
              rewrite E0. cbn [andb]. rewrite Hn'. reflexivity.
        -- cbn [orb] in Hsh.
           apply andb_true_iff in Hsh as [Hsh Hnd]. apply andb_true_iff in Hsh as [Hsh Hna].
           apply andb_true_iff in Hsh as [Ens Hg].
           apply state_eqb_eq in Hg. apply negb_true_iff in Hna. apply negb_true_iff in Hnd.
           subst st0 u0. exists b, bs, ns, (fst (utf8_add u8_new b)).
           split; [reflexivity|]. split.
           ++ unfold mstep. rewrite E, Hn, Hsc, Hp, Ens. reflexivity.
           ++ (* take from (Utf8, u8_new) feeds the lead byte itself *)
              apply state_eqb_eq in Ens. subst ns.
              assert (Hst : st = Ground /\ u = u8_new).
              { unfold norm in Hn. destruct (state_eqb st Utf8) eqn:E1.
                - cbn in E. rewrite Hna in E. cbn in E. discriminate.
                - inversion Hn; subst. split; auto. }
              destruct Hst as [-> ->].
              cbn [nb_take]. rewrite Hna.
              replace (state_eqb Utf8 Utf8) with true by reflexivity.
              replace (state_eqb Ground Utf8) with false by reflexivity.
              cbn [andb negb]. rewrite Hsc, Hp. cbn [negb].
              replace (state_eqb Utf8 Utf8) with true by reflexivity.
              destruct (utf8_add u8_new b) as [ux d] eqn:Ha. cbn [snd] in Hnd. subst d.
              reflexivity.
      * (* not printable: keep scanning *)
        set (st2 := if state_eqb ns Anywhere then st0 else ns) in *.
        assert (Hm : mstep st u b = Some (st2, u0, false)).
        { unfold mstep. rewrite E, Hn, Hsc, Hp. reflexivity. }
        assert (HI2 : Inv st2 u0) by (eapply mstep_inv; eauto).
        destruct (IH _ _ _ _ _ Hok' HI2 H) as (pre & sm & um & Hbs & Hrun & Hcase).
        exists (b :: pre), sm, um. split; [cbn; now rewrite Hbs|]. split.
        -- cbn [mrun]. rewrite Hm, Hrun. reflexivity.
        -- exact Hcase.
Qed.

(* ---- one call and the whole iterator --------------------------------------- *)

Lemma nb_take_nonempty b r st u t r' st' u' sx ux :
  mstep st u b = Some (sx, ux, true) ->
  nb_take (b :: r) st u = Some (t, r', st', u') -> t <> [].
Proof.
  intros Hm H. cbn [nb_take] in H. unfold mstep in Hm.
  destruct (state_eqb st Utf8 && negb (is_ascii b)).
  - destruct (utf8_add u b). destruct (nb_take r _ _) as [[[[? ?] ?] ?]|]; [|discriminate].
    inversion H; subst. discriminate.
  - unfold norm in Hm. destruct (if state_eqb st Utf8 then (Ground, u8_new) else (st, u)) as [st0 u0].
    destruct (state_change st0 b) as [[ns a]|]; [|discriminate].
    destruct (is_printable_bytes a b); cbn [negb] in *.
    + destruct (state_eqb ns Utf8).
      * destruct (utf8_add u0 b). destruct (nb_take r _ _) as [[[[? ?] ?] ?]|]; [|discriminate].
        inversion H; subst. discriminate.
      * destruct (nb_take r _ _) as [[[[? ?] ?] ?]|]; [|discriminate].
        inversion H; subst. discriminate.
    + inversion Hm.
Qed.

Theorem bytes_iter_spec : forall fuel bs off st u ps bs' st' u',
  (length bs < fuel)%nat -> bytes_ok bs -> Inv st u ->
  bytes_iter fuel bs off st u = Some (ps, bs', st', u') ->
  bs' = [] /\ mrun st u bs = Some (st', u', concat (map p_bytes ps)).
Proof.
  induction fuel as [|fuel IH]; intros bs off st u ps bs' st' u' Hlen Hok HI H; [lia|].
  cbn [bytes_iter] in H. unfold next_bytes in H.
  destruct (nb_skip bs st u) as [[[bs1 st1] u1]|] eqn:Hsk; [|discriminate].
  destruct (nb_skip_spec _ _ _ _ _ _ Hok HI Hsk) as (pre & sm & um & Hbs & Hrun & Hcase).
  assert (Hok1 : bytes_ok bs1).
  { subst bs. unfold bytes_ok in *. apply Forall_app in Hok. tauto. }
  assert (Hokpre : bytes_ok pre).
  { subst bs. unfold bytes_ok in *. apply Forall_app in Hok. tauto. }
  assert (HIm : Inv sm um) by (eapply mrun_inv; eauto).
  destruct Hcase as [(-> & -> & ->)|(b & r & sx & ux & -> & Hm & Htk)].
  - (* reached the end of the slice *)
    cbn [nb_take] in H. inversion H; subst. split; [reflexivity|].
    rewrite app_nil_r. cbn. exact Hrun.
  - rewrite Htk in H.
    destruct (nb_take (b :: r) sm um) as [[[[t bs2] st2] u2]|] eqn:Ht; [|discriminate].
    pose proof (nb_take_nonempty _ _ _ _ _ _ _ _ _ _ Hm Ht) as Hne.
    destruct (nb_take_spec _ _ _ _ _ _ _ Hok1 HIm Ht) as (Hsplit & sm2 & um2 & Hrun2 & Hag & _).
    destruct t as [|t0 t]; [contradiction|].
    set (pc := mkPiece (off + N.of_nat (length bs - length (b :: r))) (t0 :: t)) in *.
    destruct (bytes_iter fuel bs2 _ st2 u2) as [[[[ps2 bs3] st3] u3]|] eqn:Hit; [|discriminate].
    inversion H; subst ps bs' st' u'. clear H.
    assert (Hok2 : bytes_ok bs2).
    { rewrite Hsplit in Hok1. unfold bytes_ok in *. apply Forall_app in Hok1. tauto. }
    assert (Hokt : bytes_ok (t0 :: t)).
    { rewrite Hsplit in Hok1. unfold bytes_ok in *. apply Forall_app in Hok1. tauto. }
    assert (HI2m : Inv sm2 um2) by (eapply mrun_inv; eauto).
    assert (HI2 : Inv st2 u2).
    { destruct Hag as [[-> ->]|(b' & r' & _ & _ & _ & -> & ->)]; [exact HI2m|]. constructor. intros _. reflexivity. }
    assert (Hlen2 : (length bs2 < fuel)%nat).
    { subst bs. rewrite Hsplit in Hlen. rewrite !app_length in Hlen. cbn [length] in Hlen. lia. }
    destruct (IH _ _ _ _ _ _ _ _ Hlen2 Hok2 HI2 Hit) as (-> & Hrun3).
    split; [reflexivity|].
    rewrite (agrees_mrun _ _ _ _ _ Hag) in Hrun3.
    subst bs. rewrite Hsplit.
    rewrite (mrun_app pre _ _ _ _ _ _ Hrun).
    rewrite (mrun_app (t0 :: t) _ _ _ _ _ _ Hrun2). rewrite Hrun3.
    cbn [map concat p_bytes pc app]. reflexivity.
Qed.

(* totality: the scanners never hit the panic value on bytes *)
Lemma nb_take_total : forall bs st u, bytes_ok bs -> exists x, nb_take bs st u = Some x.
Proof.
  induction bs as [|b bs IH]; intros st u Hok; cbn [nb_take]; [eauto|].
  inversion Hok as [|? ? Hb Hok']; subst.
  destruct (state_eqb st Utf8 && negb (is_ascii b)).
  - destruct (utf8_add u b) as [u1 d]. destruct (IH (if d then Ground else st) u1 Hok') as [[[[t r] s] v] ->]. eauto.
  - destruct (if state_eqb st Utf8 then (Ground, u8_new) else (st, u)) as [st0 u0].
    destruct (state_change_total st0 b Hb) as (ns & a & ->).
    destruct (is_printable_bytes a b); cbn [negb]; [|eauto].
    destruct (state_eqb ns Utf8).
    + destruct (utf8_add u0 b) as [u1 d]. destruct (IH ns u1 Hok') as [[[[t r] s] v] ->]. eauto.
    + destruct (IH st0 u0 Hok') as [[[[t r] s] v] ->]. eauto.
Qed.

Lemma nb_skip_total : forall bs st u, bytes_ok bs -> exists x, nb_skip bs st u = Some x.
Proof.
  induction bs as [|b bs IH]; intros st u Hok; cbn [nb_skip]; [eauto|].
  inversion Hok as [|? ? Hb Hok']; subst.
  destruct (state_eqb st Utf8 && negb (is_ascii b)); [eauto|].
  destruct (if state_eqb st Utf8 then (Ground, u8_new) else (st, u)) as [st0 u0].
  destruct (state_change_total st0 b Hb) as (ns & a & ->).
  destruct (is_printable_bytes a b); [eauto|]. apply IH, Hok'.
Qed.

Lemma nb_skip_suffix : forall bs st u bs1 st1 u1,
  nb_skip bs st u = Some (bs1, st1, u1) -> exists pre, bs = pre ++ bs1.
Proof.
  induction bs as [|b bs IH]; intros st u bs1 st1 u1 H; cbn [nb_skip] in H.
  - inversion H; subst. exists []. reflexivity.
  - destruct (state_eqb st Utf8 && negb (is_ascii b)).
    + inversion H; subst. exists []. reflexivity.
    + destruct (if state_eqb st Utf8 then (Ground, u8_new) else (st, u)) as [st0 u0].
      destruct (state_change st0 b) as [[ns a]|]; [|discriminate].
      destruct (is_printable_bytes a b).
      * inversion H; subst. exists []. reflexivity.
      * destruct (IH _ _ _ _ _ H) as [pre ->]. exists (b :: pre). reflexivity.
Qed.

Lemma nb_take_split : forall bs st u t r st' u',
  nb_take bs st u = Some (t, r, st', u') -> bs = t ++ r.
Proof.
  induction bs as [|b bs IH]; intros st u t r st' u' H; cbn [nb_take] in H.
  - inversion H; subst. reflexivity.
  - destruct (state_eqb st Utf8 && negb (is_ascii b)).
    + destruct (utf8_add u b) as [u1 d].
      destruct (nb_take bs _ u1) as [[[[t1 r1] s1] v1]|] eqn:Ht; [|discriminate].
      inversion H; subst. cbn. f_equal. eapply IH; eauto.
    + destruct (if state_eqb st Utf8 then (Ground, u8_new) else (st, u)) as [st0 u0].
      destruct (state_change st0 b) as [[ns a]|]; [|discriminate].
      destruct (is_printable_bytes a b); cbn [negb] in H.
      * destruct (state_eqb ns Utf8).
        -- destruct (utf8_add u0 b) as [u1 d].
           destruct (nb_take bs ns u1) as [[[[t1 r1] s1] v1]|] eqn:Ht; [|discriminate].
           inversion H; subst. cbn. f_equal. eapply IH; eauto.
        -- destruct (nb_take bs st0 u0) as [[[[t1 r1] s1] v1]|] eqn:Ht; [|discriminate].
           inversion H; subst. cbn. f_equal. eapply IH; eauto.
      * inversion H; subst. reflexivity.
Qed.

Theorem bytes_iter_total : forall fuel bs off st u,
  (length bs < fuel)%nat -> bytes_ok bs -> exists x, bytes_iter fuel bs off st u = Some x.
Proof.
  induction fuel as [|fuel IH]; intros bs off st u Hlen Hok; [lia|].
  cbn [bytes_iter]. unfold next_bytes.
  destruct (nb_skip_total bs st u Hok) as [[[bs1 st1] u1] Hsk]. rewrite Hsk.
  destruct (nb_skip_suffix _ _ _ _ _ _ Hsk) as [pre Hpre].
  assert (Hok1 : bytes_ok bs1).
  { subst bs. unfold bytes_ok in *. apply Forall_app in Hok. tauto. }
  destruct (nb_take_total bs1 st1 u1 Hok1) as [[[[t bs2] st2] u2] Ht]. rewrite Ht.
  destruct t as [|t0 t]; [eauto|].
  pose proof (nb_take_split _ _ _ _ _ _ _ Ht) as Hsp.
  assert (Hok2 : bytes_ok bs2).
  { rewrite Hsp in Hok1. unfold bytes_ok in *. apply Forall_app in Hok1. tauto. }
  assert (Hlen2 : (length bs2 < fuel)%nat).
  { subst bs. rewrite Hsp in Hlen. rewrite !app_length in Hlen. cbn [length] in Hlen. lia. }
  destruct (IH bs2 (off + N.of_nat (length bs - length bs1) + N.of_nat (length (t0 :: t))) st2 u2 Hlen2 Hok2)
    as [[[[ps bs3] st3] u3] Hit].
  rewrite Hit. eauto.
Qed.
