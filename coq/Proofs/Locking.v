(* Proofs/Locking.v -- C19: lock-once shape of every modelled operation, the
   interleaving theorem (induction over executions with the lock invariant), the
   atomic register, AtomicChoice's round trip. *)
From Coq Require Import NArith List Bool Arith Lia.
From AV Require Import Generated.Table Generated.Locking Spec.Atomicity
  Model.Base Model.Utf8parse Model.Parser Model.Strip Model.Locking.
Import ListNotations.

(* ------------------------------------------------------------------------- *)
(* every operation locks once                                                  *)

Lemma lk_strip_write_inner : forall st u buf es st' u',
  lk_strip_write st u buf = Some (es, st', u') -> exists ins, es = map LkInner ins.
Proof.
  intros st u buf es st' u' H. unfold lk_strip_write in H.
  destruct (strip_next_bytes buf st u) as [[[[ps r] st1] u1]|]; [|discriminate].
  inversion H; subst. exists (map (fun p => LkW (p_bytes p)) ps).
  rewrite map_map. reflexivity.
Qed.

Lemma lk_strip_write_all_inner : forall st u buf es st' u',
  lk_strip_write_all st u buf = Some (es, st', u') -> exists ins, es = map LkInner ins.
Proof.
  intros st u buf es st' u' H. unfold lk_strip_write_all in H.
  destruct (strip_next_bytes buf st u) as [[[[ps r] st1] u1]|]; [|discriminate].
  inversion H; subst. exists (map (fun p => LkWA (p_bytes p)) ps).
  rewrite map_map. reflexivity.
Qed.

Lemma lk_strip_write_fmt_inner : forall frags st u es st' u',
  lk_strip_write_fmt st u frags = Some (es, st', u') -> exists ins, es = map LkInner ins.
Proof.
  induction frags as [|f rest IH]; intros st u es st' u' H; cbn [lk_strip_write_fmt] in H.
  - inversion H; subst. exists []. reflexivity.
  - destruct (lk_strip_write_all st u f) as [[[e1 st1] u1]|] eqn:E1; [|discriminate].
    destruct (lk_strip_write_fmt st1 u1 rest) as [[[e2 st2] u2]|] eqn:E2; [|discriminate].
    inversion H; subst.
    apply lk_strip_write_all_inner in E1. destruct E1 as [i1 ->].
    apply IH in E2. destruct E2 as [i2 ->].
    exists (i1 ++ i2). rewrite map_app. reflexivity.
Qed.

(* [Acquire], inner calls only, [Release] *)
Theorem ops_lock_once : forall s op tr s',
  lk_op_trace s op = Some (tr, s') ->
  exists ins, tr = LkAcquire :: map LkInner ins ++ [LkRelease].
Proof.
  intros s op tr s' H. destruct s as [|st u]; destruct op as [buf|bufs| |buf|frags];
    cbn [lk_op_trace] in H.
  - inversion H; subst. exists [LkW buf]. reflexivity.
  - inversion H; subst. exists [LkWV bufs]. reflexivity.
  - inversion H; subst. exists [LkF]. reflexivity.
  - inversion H; subst. exists [LkWA buf]. reflexivity.
  - inversion H; subst. exists (map LkWA frags). rewrite map_map. reflexivity.
  - destruct (lk_strip_write st u buf) as [[[es st1] u1]|] eqn:E; [|discriminate].
    inversion H; subst. apply lk_strip_write_inner in E. destruct E as [ins ->]. exists ins. reflexivity.
  - destruct (lk_strip_write st u (lk_first_nonempty bufs)) as [[[es st1] u1]|] eqn:E; [|discriminate].
    inversion H; subst. apply lk_strip_write_inner in E. destruct E as [ins ->]. exists ins. reflexivity.
  - inversion H; subst. exists [LkF]. reflexivity.
  - destruct (lk_strip_write_all st u buf) as [[[es st1] u1]|] eqn:E; [|discriminate].
    inversion H; subst. apply lk_strip_write_all_inner in E. destruct E as [ins ->]. exists ins. reflexivity.
  - destruct (lk_strip_write_fmt st u frags) as [[[es st1] u1]|] eqn:E; [|discriminate].
    inversion H; subst. apply lk_strip_write_fmt_inner in E. destruct E as [ins ->]. exists ins. reflexivity.
Qed.

Lemma lk_inner_of_map : forall ins, lk_inner_of (map LkInner ins ++ [LkRelease]) = ins.
Proof. induction ins as [|i r IH]; cbn; [reflexivity | rewrite IH; reflexivity]. Qed.

Lemma lk_inner_of_wrap : forall ins, lk_inner_of (lk_wrap ins) = ins.
Proof. intros ins. unfold lk_wrap. cbn [lk_inner_of]. apply lk_inner_of_map. Qed.

(* no Acquire or Release among the inner events, said without an existential *)
Theorem ops_lock_once_wrap : forall s op tr s',
  lk_op_trace s op = Some (tr, s') -> tr = lk_wrap (lk_inner_of tr).
Proof.
  intros s op tr s' H. destruct (ops_lock_once _ _ _ _ H) as [ins ->].
  change (LkAcquire :: map LkInner ins ++ [LkRelease]) with (lk_wrap ins).
  rewrite lk_inner_of_wrap. reflexivity.
Qed.

Lemma lk_profile_inner : forall ins, lk_profile (map LkInner ins ++ [LkRelease]) = [AtGive].
Proof. induction ins as [|i r IH]; cbn; [reflexivity | assumption]. Qed.

(* every modelled call has the lock profile the specification asks for *)
Theorem ops_profile : forall s op tr s',
  lk_op_trace s op = Some (tr, s') -> lk_profile tr = at_call_profile.
Proof.
  intros s op tr s' H. destruct (ops_lock_once _ _ _ _ H) as [ins ->].
  cbn [lk_profile]. rewrite lk_profile_inner. reflexivity.
Qed.

Lemma prog_ops_wrap : forall ops s trs,
  lk_prog_ops s ops = Some trs -> trs = map lk_wrap (map lk_inner_of trs).
Proof.
  induction ops as [|op rest IH]; intros s trs H; cbn [lk_prog_ops] in H.
  - inversion H. reflexivity.
  - destruct (lk_op_trace s op) as [[tr s1]|] eqn:E; [|discriminate].
    destruct (lk_prog_ops s1 rest) as [trs1|] eqn:E1; [|discriminate].
    inversion H; subst. cbn [map]. f_equal.
    + eapply ops_lock_once_wrap; eassumption.
    + eapply IH; eassumption.
Qed.

Lemma prog_ops_events : forall ops s trs,
  lk_prog_ops s ops = Some trs -> concat trs = lk_thread_events (map lk_inner_of trs).
Proof.
  intros ops s trs H. unfold lk_thread_events. rewrite <- (prog_ops_wrap _ _ _ H). reflexivity.
Qed.

(* ------------------------------------------------------------------------- *)
(* list helpers                                                                *)

Lemma lk_upd_same : forall (A : Type) (l : list A) t x y d,
  nth_error l t = Some y -> nth t (lk_upd l t x) d = x.
Proof.
  induction l as [|a l IH]; intros [|t] x y d H; cbn in *; try discriminate; try reflexivity.
  eapply IH; eassumption.
Qed.

Lemma lk_upd_other : forall (A : Type) (l : list A) t t' x d,
  t' <> t -> nth t' (lk_upd l t x) d = nth t' l d.
Proof.
  induction l as [|a l IH]; intros [|t] [|t'] x d H; cbn; try reflexivity; try congruence.
  apply IH. congruence.
Qed.

Lemma thread_events_cons : forall op r,
  lk_thread_events (op :: r) = LkAcquire :: map LkInner op ++ LkRelease :: lk_thread_events r.
Proof.
  intros op r. unfold lk_thread_events, lk_wrap. cbn [map concat app].
  rewrite <- app_assoc. reflexivity.
Qed.

Lemma at_blocks_out_app : forall (A : Type) (a b : list (nat * list A)),
  at_blocks_out (a ++ b) = at_blocks_out a ++ at_blocks_out b.
Proof. intros. unfold at_blocks_out. apply flat_map_app. Qed.

Lemma at_of_thread_app : forall (A : Type) t (a b : list (nat * list A)),
  at_of_thread t (a ++ b) = at_of_thread t a ++ at_of_thread t b.
Proof. intros. unfold at_of_thread. rewrite filter_app, map_app. reflexivity. Qed.

Lemma at_of_thread_one_same : forall (A : Type) t (e : list A), at_of_thread t [(t, e)] = [e].
Proof. intros. unfold at_of_thread. cbn. rewrite Nat.eqb_refl. reflexivity. Qed.

Lemma at_of_thread_one_other : forall (A : Type) t h (e : list A), h <> t -> at_of_thread t [(h, e)] = [].
Proof.
  intros. unfold at_of_thread. cbn. destruct (Nat.eqb h t) eqn:E; [|reflexivity].
  apply Nat.eqb_eq in E. congruence.
Qed.

(* ------------------------------------------------------------------------- *)
(* the lock invariant                                                          *)

Definition lk_inv (progs : list (list (list lk_inner))) (s : lk_state) : Prop :=
  exists (done : list (nat * list lk_inner)) (cur : option (nat * list lk_inner)),
    lk_out s = at_blocks_out (done ++ at_cur_blocks cur) /\
    lk_acqs s = map fst (done ++ at_cur_blocks cur) /\
    match cur with
    | None => lk_owner s = None /\ lk_depth s = 0%nat
    | Some (h, _) => lk_owner s = Some h /\ lk_depth s = 1%nat
    end /\
    forall t, exists rest,
      nth t progs [] = at_of_thread t done ++ rest /\
      match cur with
      | None => nth t (lk_threads s) [] = lk_thread_events rest
      | Some (h, e) =>
          if Nat.eqb h t
          then exists more rest', rest = (e ++ more) :: rest' /\
               nth t (lk_threads s) [] = map LkInner more ++ LkRelease :: lk_thread_events rest'
          else nth t (lk_threads s) [] = lk_thread_events rest
      end.

Lemma lk_inv_init : forall progs, lk_inv progs (lk_init (map lk_thread_events progs)).
Proof.
  intros progs. exists [], None. cbn. repeat split; try reflexivity.
  intros t. exists (nth t progs []). split; [reflexivity|].
  change (@nil lk_event) with (lk_thread_events []). apply map_nth.
Qed.

Lemma thread_events_head_acquire : forall rest e evs,
  lk_thread_events rest = e :: evs ->
  e = LkAcquire /\ exists op rest', rest = op :: rest' /\ evs = map LkInner op ++ LkRelease :: lk_thread_events rest'.
Proof.
  intros [|op rest'] e evs H.
  - discriminate.
  - rewrite thread_events_cons in H. inversion H; subst. split; [reflexivity|].
    exists op, rest'. split; reflexivity.
Qed.

Ltac lk_simpl := cbn [lk_out lk_acqs lk_owner lk_depth lk_threads at_cur_blocks] in *.

Lemma lk_inv_step : forall progs s t s', lk_inv progs s -> lk_step s t s' -> lk_inv progs s'.
Proof.
  intros progs s t s' (done & cur & Hout & Hacq & Hlock & Hthr) Hstep.
  inversion Hstep; subst; cbn [lk_out lk_acqs lk_owner lk_depth lk_threads] in *.
  - (* acquire, lock free *)
    destruct cur as [[h e]|]; [destruct Hlock; discriminate|].
    pose proof (nth_error_nth _ _ (@nil lk_event) H) as Hn.
    destruct (Hthr t) as (rest0 & Hp & Ht). rewrite Hn in Ht. symmetry in Ht.
    apply thread_events_head_acquire in Ht. destruct Ht as (_ & op & rest' & -> & ->).
    exists done, (Some (t, [])). lk_simpl. rewrite app_nil_r in *.
    repeat split.
    + rewrite at_blocks_out_app. cbn. rewrite app_nil_r. assumption.
    + rewrite map_app. cbn. rewrite Hacq. reflexivity.
    + intros t'. destruct (Nat.eqb t t') eqn:E.
      * apply Nat.eqb_eq in E. subst t'. exists (op :: rest'). split; [assumption|].
        exists op, rest'. split; [reflexivity|]. eapply lk_upd_same; eassumption.
      * apply Nat.eqb_neq in E. destruct (Hthr t') as (r' & Hp' & Ht').
        exists r'. split; [assumption|]. rewrite lk_upd_other by congruence. assumption.
  - (* acquire by the holder: its remaining events start with an inner call or Release *)
    destruct cur as [[h e]|]; [|destruct Hlock; discriminate].
    destruct Hlock as [Ho Hd]. inversion Ho; subst h.
    pose proof (nth_error_nth _ _ (@nil lk_event) H) as Hn.
    destruct (Hthr t) as (rest0 & Hp & Ht). rewrite Nat.eqb_refl in Ht.
    destruct Ht as (more & rest' & _ & Ht). rewrite Hn in Ht.
    destruct more; cbn in Ht; discriminate.
  - (* inner call *)
    pose proof (nth_error_nth _ _ (@nil lk_event) H) as Hn.
    destruct cur as [[h e]|].
    + destruct Hlock as [Ho Hd].
      destruct (Nat.eqb h t) eqn:E.
      * apply Nat.eqb_eq in E. subst h.
        destruct (Hthr t) as (rest0 & Hp & Ht). rewrite Nat.eqb_refl in Ht.
        destruct Ht as (more & rest' & -> & Ht). rewrite Hn in Ht.
        destruct more as [|i' more]; cbn in Ht; [discriminate|]. injection Ht as -> ->.
        exists done, (Some (t, e ++ [i'])). lk_simpl.
        repeat split.
        -- rewrite Hout. rewrite !at_blocks_out_app. rewrite <- app_assoc. f_equal.
           cbn. unfold at_block. cbn. rewrite !app_nil_r. rewrite map_app. reflexivity.
        -- rewrite Hacq. rewrite !map_app. reflexivity.
        -- assumption.
        -- assumption.
        -- intros t'. destruct (Nat.eqb t t') eqn:E'.
           ++ apply Nat.eqb_eq in E'. subst t'. exists ((e ++ i' :: more) :: rest').
              split; [assumption|]. exists more, rest'. split.
              ** rewrite <- app_assoc. reflexivity.
              ** eapply lk_upd_same; eassumption.
           ++ apply Nat.eqb_neq in E'. destruct (Hthr t') as (r' & Hp' & Ht').
              apply Nat.eqb_neq in E'. rewrite E' in Ht'. apply Nat.eqb_neq in E'.
              exists r'. split; [assumption|]. rewrite lk_upd_other by congruence. assumption.
      * destruct (Hthr t) as (rest0 & Hp & Ht). rewrite E in Ht. rewrite Hn in Ht. symmetry in Ht.
        apply thread_events_head_acquire in Ht. destruct Ht as [Ht _]. discriminate.
    + destruct (Hthr t) as (rest0 & Hp & Ht). rewrite Hn in Ht. symmetry in Ht.
      apply thread_events_head_acquire in Ht. destruct Ht as [Ht _]. discriminate.
  - (* release, last level *)
    destruct cur as [[h e]|]; [|destruct Hlock; discriminate].
    destruct Hlock as [Ho Hd]. inversion Ho; subst h.
    pose proof (nth_error_nth _ _ (@nil lk_event) H) as Hn.
    destruct (Hthr t) as (rest0 & Hp & Ht). rewrite Nat.eqb_refl in Ht.
    destruct Ht as (more & rest' & -> & Ht). rewrite Hn in Ht.
    destruct more as [|i' more]; cbn in Ht; [|discriminate]. injection Ht as ->.
    rewrite app_nil_r in Hp.
    exists (done ++ [(t, e)]), None. lk_simpl. rewrite app_nil_r.
    repeat split; try assumption.
    intros t'. destruct (Nat.eqb t t') eqn:E.
    + apply Nat.eqb_eq in E. subst t'. exists rest'. split.
      * rewrite at_of_thread_app, at_of_thread_one_same, <- app_assoc. assumption.
      * eapply lk_upd_same; eassumption.
    + destruct (Hthr t') as (r' & Hp' & Ht'). rewrite E in Ht'. apply Nat.eqb_neq in E.
      exists r'. split.
      * rewrite at_of_thread_app, at_of_thread_one_other, app_nil_r by assumption. assumption.
      * rewrite lk_upd_other by congruence. assumption.
  - (* release of a nested level: the invariant says depth 1 *)
    destruct cur as [[h e]|]; destruct Hlock as [_ Hd]; discriminate.
Qed.

Lemma lk_inv_exec : forall progs s sched s', lk_exec s sched s' -> lk_inv progs s -> lk_inv progs s'.
Proof.
  intros progs s sched s' H. induction H; intros Hi; [assumption|].
  apply IHlk_exec. eapply lk_inv_step; eassumption.
Qed.

Lemma lk_inv_atomic : forall progs s, lk_inv progs s -> at_atomic_output progs (lk_acqs s) (lk_out s).
Proof.
  intros progs s (done & cur & Hout & Hacq & Hlock & Hthr).
  exists done, cur. split; [assumption|]. split; [assumption|].
  intros t. destruct (Hthr t) as (rest & Hp & Ht). exists rest. split; [assumption|].
  destruct cur as [[h e]|]; [|exact I].
  intros ->. rewrite Nat.eqb_refl in Ht. destruct Ht as (more & rest' & -> & _).
  exists more, rest'. reflexivity.
Qed.

(* for EVERY set of thread programs (lists of lock-once operations), EVERY schedule
   and EVERY length of execution *)
Theorem no_interleaving_abstract : forall (progs : list (list (list lk_inner))) sched final,
  lk_exec (lk_init (map lk_thread_events progs)) sched final ->
  at_atomic_output progs (lk_acqs final) (lk_out final).
Proof.
  intros progs sched final H. apply lk_inv_atomic.
  eapply lk_inv_exec; [eassumption|]. apply lk_inv_init.
Qed.

Lemma thread_events_nil : forall rest, lk_thread_events rest = [] -> rest = [].
Proof. intros [|op r] H; [reflexivity|]. rewrite thread_events_cons in H. discriminate. Qed.

Lemma finished_nth : forall s t, lk_finished s -> nth t (lk_threads s) [] = [].
Proof.
  intros s t H. unfold lk_finished in H.
  destruct (nth_in_or_default t (lk_threads s) []) as [Hin|Hd]; [|assumption].
  rewrite Forall_forall in H. apply H. assumption.
Qed.

Theorem no_interleaving_finished_abstract : forall (progs : list (list (list lk_inner))) sched final,
  lk_exec (lk_init (map lk_thread_events progs)) sched final -> lk_finished final ->
  at_serial progs (lk_acqs final) (lk_out final).
Proof.
  intros progs sched final H Hfin.
  assert (Hi : lk_inv progs final) by (eapply lk_inv_exec; [eassumption | apply lk_inv_init]).
  destruct Hi as (done & cur & Hout & Hacq & Hlock & Hthr).
  destruct cur as [[h e]|].
  - exfalso. destruct (Hthr h) as (rest & _ & Ht). rewrite Nat.eqb_refl in Ht.
    destruct Ht as (more & rest' & _ & Ht). rewrite finished_nth in Ht by assumption.
    destruct more; discriminate.
  - cbn [at_cur_blocks] in *. rewrite app_nil_r in *. exists done. split; [assumption|]. split; [assumption|].
    intros t. destruct (Hthr t) as (rest & Hp & Ht). rewrite finished_nth in Ht by assumption.
    symmetry in Ht. apply thread_events_nil in Ht. subst rest. rewrite app_nil_r in Hp. symmetry. assumption.
Qed.

(* ---- the same for the modelled operations of AutoStream / StripStream ------ *)

Lemma forall2_events : forall (threads : list (lk_stream * list lk_op)) (trs : list (list (list lk_event))),
  Forall2 (fun th tr => lk_prog_ops (fst th) (snd th) = Some tr) threads trs ->
  map (@concat lk_event) trs = map lk_thread_events (map (map lk_inner_of) trs).
Proof.
  intros threads trs H. induction H as [|th tr ths trs' H1 H2 IH]; [reflexivity|].
  cbn [map]. f_equal; [|assumption]. eapply prog_ops_events; eassumption.
Qed.

Theorem no_interleaving : forall (threads : list (lk_stream * list lk_op)) (trs : list (list (list lk_event))),
  Forall2 (fun th tr => lk_prog_ops (fst th) (snd th) = Some tr) threads trs ->
  forall sched final,
  lk_exec (lk_init (map (@concat lk_event) trs)) sched final ->
  at_atomic_output (map (map lk_inner_of) trs) (lk_acqs final) (lk_out final) /\
  (lk_finished final -> at_serial (map (map lk_inner_of) trs) (lk_acqs final) (lk_out final)).
Proof.
  intros threads trs H sched final Hex. rewrite (forall2_events _ _ H) in Hex. split.
  - eapply no_interleaving_abstract; eassumption.
  - intros Hfin. eapply no_interleaving_finished_abstract; eassumption.
Qed.

(* ---- consequences on the byte stream ---------------------------------------- *)

Lemma at_bytes_app : forall (A B : Type) (f : A -> list B) a b,
  at_bytes f (a ++ b) = at_bytes f a ++ at_bytes f b.
Proof. intros. unfold at_bytes. apply flat_map_app. Qed.

Lemma at_bytes_block : forall (A B : Type) (f : A -> list B) (b : nat * list A),
  at_bytes f (at_block b) = at_op_bytes f (snd b).
Proof.
  intros A B f [t op]. unfold at_bytes, at_block, at_op_bytes. cbn [fst snd].
  induction op as [|a r IH]; cbn; [reflexivity|]. rewrite IH. reflexivity.
Qed.

(* the byte stream of a serial output is the concatenation of the operations' byte strings *)
Theorem serial_bytes : forall (A B : Type) (f : A -> list B) (done : list (nat * list A)),
  at_bytes f (at_blocks_out done) = concat (map (fun b => at_op_bytes f (snd b)) done).
Proof.
  intros A B f done. induction done as [|b r IH]; [reflexivity|].
  unfold at_blocks_out in *. cbn [flat_map map concat]. rewrite at_bytes_app, at_bytes_block, IH. reflexivity.
Qed.

(* every whole operation sits contiguously in a serial output *)
Theorem block_contiguous : forall (A : Type) (done : list (nat * list A)) b,
  In b done -> exists pre post, at_blocks_out done = pre ++ at_block b ++ post.
Proof.
  intros A done b Hin. apply in_split in Hin. destruct Hin as (l1 & l2 & ->).
  exists (at_blocks_out l1), (at_blocks_out l2). rewrite at_blocks_out_app. reflexivity.
Qed.

Lemma of_thread_in : forall (A : Type) t (op : list A) done,
  In op (at_of_thread t done) -> In (t, op) done.
Proof.
  intros A t op done H. unfold at_of_thread in H. apply in_map_iff in H.
  destruct H as ([t' op'] & Heq & Hf). cbn in Heq. subst op'. apply filter_In in Hf.
  destruct Hf as [Hin E]. cbn in E. apply Nat.eqb_eq in E. subst t'. assumption.
Qed.

(* finished run: the bytes of every operation of every thread are contiguous in the output *)
Theorem serial_op_contiguous : forall (A B : Type) (f : A -> list B) progs acqs out t op,
  at_serial progs acqs out -> In op (nth t progs []) ->
  exists pre post, at_bytes f out = pre ++ at_op_bytes f op ++ post.
Proof.
  intros A B f progs acqs out t op (done & -> & _ & Hthr) Hin.
  rewrite <- Hthr in Hin. apply of_thread_in in Hin.
  destruct (block_contiguous _ _ _ Hin) as (pre & post & ->).
  exists (at_bytes f pre), (at_bytes f post). rewrite !at_bytes_app, at_bytes_block. reflexivity.
Qed.

(* ------------------------------------------------------------------------- *)
(* the atomic register                                                         *)

Lemma reg_legal_reads : forall (V : Type) (h : list (reg_ev V)) cur,
  reg_legal cur h -> forall v, In (RegRead v) h -> v = cur \/ In (RegWrite v) h.
Proof.
  induction h as [|[w|r] h IH]; intros cur Hl v Hin; cbn in *.
  - contradiction.
  - destruct Hin as [Hin|Hin]; [discriminate|].
    destruct (IH _ Hl _ Hin) as [->|Hw]; right; [left; reflexivity | right; assumption].
  - destruct Hl as [-> Hl]. destruct Hin as [Hin|Hin].
    + inversion Hin. left. reflexivity.
    + destruct (IH _ Hl _ Hin) as [->|Hw]; [left; reflexivity | right; right; assumption].
Qed.

Theorem reg_legal_reads_written : forall (V : Type) (init : V) h, reg_legal init h -> reg_reads_written init h.
Proof. intros V init h Hl v Hin. eapply reg_legal_reads; eassumption. Qed.

Lemma reg_legal_app : forall (V : Type) (h1 h2 : list (reg_ev V)) cur,
  reg_legal cur (h1 ++ h2) -> reg_legal (reg_value cur h1) h2.
Proof.
  induction h1 as [|[w|r] h1 IH]; intros h2 cur Hl; cbn in *.
  - assumption.
  - apply IH. assumption.
  - destruct Hl as [_ Hl]. apply IH. assumption.
Qed.

Lemma reg_legal_quiet : forall (V : Type) (h : list (reg_ev V)) cur,
  reg_legal cur h -> reg_no_write h -> forall v, In (RegRead v) h -> v = cur.
Proof.
  intros V h cur Hl Hnw v Hin. destruct (reg_legal_reads _ _ _ Hl _ Hin) as [->|Hw]; [reflexivity|].
  exfalso. eapply Hnw. eassumption.
Qed.

Theorem reg_legal_reads_last : forall (V : Type) (init : V) h, reg_legal init h -> reg_reads_last init h.
Proof.
  intros V init h Hl h1 h2 -> Hnw v Hin.
  eapply reg_legal_quiet; [apply reg_legal_app; eassumption | assumption | assumption].
Qed.

(* [reg_value] is the last write, the initial value when there is none *)
Theorem reg_value_last_write : forall (V : Type) (h : list (reg_ev V)) init,
  reg_value init h = match reg_last_write h with Some w => w | None => init end.
Proof.
  induction h as [|[w|r] h IH]; intros init; cbn; [reflexivity| |apply IH].
  rewrite IH. destruct (reg_last_write h); reflexivity.
Qed.

(* AtomicChoice *)
Theorem choice_roundtrip : forall c, lk_to_choice (lk_from_choice c) = Some c.
Proof. intros c. destruct c; reflexivity. Qed.

(* get cannot panic, and the run is a legal register history over ColorChoice *)
Lemma reg_run_legal : forall ops c,
  exists h, lk_reg_run (lk_from_choice c) ops = Some h /\ reg_legal c h /\ length h = length ops.
Proof.
  induction ops as [|[w|] ops IH]; intros c; cbn [lk_reg_run].
  - exists []. repeat split.
  - destruct (IH w) as (h & -> & Hl & Hn). exists (RegWrite w :: h). cbn. repeat split; [assumption | congruence].
  - rewrite choice_roundtrip. destruct (IH c) as (h & -> & Hl & Hn).
    exists (RegRead c :: h). cbn. repeat split; [assumption | congruence].
Qed.

Theorem register : forall ops : list lk_reg_op,
  exists h,
    lk_reg_run lk_reg_init ops = Some h /\
    length h = length ops /\
    reg_legal lk_choice_init h /\
    reg_reads_written lk_choice_init h /\
    reg_reads_last lk_choice_init h.
Proof.
  intros ops. unfold lk_reg_init. destruct (reg_run_legal ops lk_choice_init) as (h & Hr & Hl & Hn).
  exists h. repeat split; try assumption.
  - apply reg_legal_reads_written. assumption.
  - apply reg_legal_reads_last. assumption.
Qed.

(* the writes of the history are the sets of the run, in order: nothing else is ever read *)
Fixpoint lk_sets (ops : list lk_reg_op) : list lk_choice :=
  match ops with [] => [] | LkSet c :: r => c :: lk_sets r | LkGet :: r => lk_sets r end.

Fixpoint reg_writes {V : Type} (h : list (reg_ev V)) : list V :=
  match h with [] => [] | RegWrite v :: r => v :: reg_writes r | RegRead _ :: r => reg_writes r end.

Theorem register_writes_are_sets : forall ops cell h,
  lk_reg_run cell ops = Some h -> reg_writes h = lk_sets ops.
Proof.
  induction ops as [|[w|] ops IH]; intros cell h H; cbn [lk_reg_run] in H.
  - inversion H. reflexivity.
  - destruct (lk_reg_run (lk_from_choice w) ops) as [h'|] eqn:E; [|discriminate].
    inversion H; subst. cbn. f_equal. eapply IH; eassumption.
  - destruct (lk_to_choice cell) as [c|]; [|discriminate].
    destruct (lk_reg_run cell ops) as [h'|] eqn:E; [|discriminate].
    inversion H; subst. cbn. eapply IH; eassumption.
Qed.

(* ------------------------------------------------------------------------- *)
(* the relation and the function describe the same machine                     *)

Lemma step_fn_sound : forall s t s', lk_step_fn s t = Some s' -> lk_step s t s'.
Proof.
  intros [ts o d acqs out] t s' H. unfold lk_step_fn in H. cbn [lk_threads lk_owner lk_depth lk_acqs lk_out] in H.
  destruct (nth_error ts t) as [[|[| i |] rest]|] eqn:E; try discriminate.
  - destruct o as [h|].
    + destruct (Nat.eqb h t) eqn:Eh; [|discriminate]. apply Nat.eqb_eq in Eh. subst h.
      inversion H; subst. eapply lk_step_acquire_again; eassumption.
    + destruct d; [|discriminate]. inversion H; subst. eapply lk_step_acquire_free; eassumption.
  - inversion H; subst. eapply lk_step_inner; eassumption.
  - destruct o as [h|]; [|discriminate]. destruct d as [|[|d]]; [discriminate| |].
    + destruct (Nat.eqb h t) eqn:Eh; [|discriminate]. apply Nat.eqb_eq in Eh. subst h.
      inversion H; subst. eapply lk_step_release_last; eassumption.
    + destruct (Nat.eqb h t) eqn:Eh; [|discriminate]. apply Nat.eqb_eq in Eh. subst h.
      inversion H; subst. eapply lk_step_release_inner; eassumption.
Qed.

Theorem run_sound : forall sched s s', lk_run s sched = Some s' -> lk_exec s sched s'.
Proof.
  induction sched as [|t r IH]; intros s s' H; cbn [lk_run] in H.
  - inversion H. constructor.
  - destruct (lk_step_fn s t) as [s1|] eqn:E; [|discriminate].
    econstructor; [apply step_fn_sound; eassumption | apply IH; assumption].
Qed.

(* ------------------------------------------------------------------------- *)
(* finished runs of modelled programs: every call's bytes are contiguous       *)

Theorem print_bytes_contiguous : forall (threads : list (lk_stream * list lk_op)) (trs : list (list (list lk_event))),
  Forall2 (fun th tr => lk_prog_ops (fst th) (snd th) = Some tr) threads trs ->
  forall sched final,
  lk_exec (lk_init (map (@concat lk_event) trs)) sched final -> lk_finished final ->
  forall t tr, In tr (nth t trs []) ->
  exists pre post,
    at_bytes lk_inner_bytes (lk_out final) = pre ++ at_op_bytes lk_inner_bytes (lk_inner_of tr) ++ post.
Proof.
  intros threads trs H sched final Hex Hfin t tr Hin.
  destruct (no_interleaving _ _ H _ _ Hex) as [_ Hs]. specialize (Hs Hfin).
  eapply serial_op_contiguous; [eassumption|].
  change (@nil (list lk_inner)) with (map lk_inner_of []). rewrite map_nth.
  apply in_map. eassumption.
Qed.

(* ------------------------------------------------------------------------- *)
(* two threads: the premises are satisfiable, and the lock is what matters      *)

(* thread 0 prints "a" ESC[1m / "b" through a stripping stream, thread 1 prints
   "x" / "y" through a pass-through stream, each with one formatted write of two
   fragments *)
Definition ex_threads : list (lk_stream * list lk_op) :=
  [ (lk_never, [LkWriteFmt [[97; 27; 91; 49; 109]; [98]]]);
    (lk_always_ansi, [LkWriteFmt [[120]; [121]]]) ]%N.

Definition ex_trs : list (list (list lk_event)) :=
  [ [ [LkAcquire; LkInner (LkWA [97]); LkInner (LkWA [98]); LkRelease] ];
    [ [LkAcquire; LkInner (LkWA [120]); LkInner (LkWA [121]); LkRelease] ] ]%N.

Example ex_premises :
  Forall2 (fun th tr => lk_prog_ops (fst th) (snd th) = Some tr) ex_threads ex_trs.
Proof. repeat constructor. Qed.

(* thread 1 takes the stream first; thread 0 waits; both finish *)
Example ex_locked_run :
  exists final,
    lk_exec (lk_init (map (@concat lk_event) ex_trs)) [1; 1; 1; 1; 0; 0; 0; 0]%nat final /\
    lk_finished final /\
    lk_acqs final = [1; 0]%nat /\
    lk_out final = [(1%nat, LkWA [120%N]); (1%nat, LkWA [121%N]); (0%nat, LkWA [97%N]); (0%nat, LkWA [98%N])].
Proof.
  eexists. split; [apply run_sound; vm_compute; reflexivity|].
  split; [repeat constructor|]. split; reflexivity.
Qed.

(* the same calls WITHOUT the lock (Acquire / Release removed from the traces) *)
Definition ex_unlocked : list (list lk_event) :=
  map (fun trs => map LkInner (concat (map lk_inner_of trs))) ex_trs.

Example ex_unlocked_interleaves :
  exists final,
    lk_exec (lk_init ex_unlocked) [0; 1; 0; 1]%nat final /\
    lk_finished final /\
    lk_out final = [(0%nat, LkWA [97%N]); (1%nat, LkWA [120%N]); (0%nat, LkWA [98%N]); (1%nat, LkWA [121%N])] /\
    forall acqs, ~ at_serial (map (map lk_inner_of) ex_trs) acqs (lk_out final).
Proof.
  eexists. split; [apply run_sound; vm_compute; reflexivity|].
  split; [repeat constructor|]. split; [reflexivity|].
  intros acqs (done & Hout & _ & Hthr). cbn [lk_out] in Hout.
  assert (Hin : In (0%nat, [LkWA [97%N]; LkWA [98%N]]) done).
  { apply of_thread_in. rewrite (Hthr 0%nat). left. reflexivity. }
  destruct (block_contiguous _ _ _ Hin) as (pre & post & Hc). rewrite Hc in Hout. clear - Hout.
  unfold at_block in Hout. cbn [fst snd map app] in Hout.
  do 5 (destruct pre as [|? pre]; cbn [app] in Hout; try discriminate Hout;
        try (injection Hout; intros; discriminate)).
Qed.
