(* Proofs/WinconRuns.v -- the styled-run extractor of the wincon adapter
   (Model/Wincon: wn_loop / wincon_next / wincon_iter / extract_next /
   extract_chunks) only decides where the runs are cut: flattened to tagged
   characters, what it yields is the tagging obtained by folding the capture over
   the parser's event stream, each character tagged with the capture's style at
   the time it was pushed.  Hence chunk-by-chunk extraction equals one-shot
   extraction (C03), for ALL inputs.  Also: totality of the SGR decoder. *)
From Coq Require Import NArith List Bool Lia Arith.
From AV Require Import Generated.Table Spec.Utf8 Spec.Vt Spec.Sgr Model.Base Model.Utf8parse
  Model.Parser Model.Strip Model.Wincon
  Proofs.TableFacts Proofs.VtFacts Proofs.ParserSim Proofs.VtCancel.
Import ListNotations.
Local Open Scope N_scope.

Definition bytes_lt (bs : list N) : Prop := Forall (fun b => b < 256) bs.

Ltac conj_split := repeat match goal with |- _ /\ _ => split end.

(* ---- 1. the SGR decoder never fails ------------------------------------------ *)

Lemma rng_digit lo v : in_rng lo (lo + 7) v = true ->
  csub v lo = Some (v - lo) /\ to_ansi_color (v - lo) = Some (v - lo).
Proof.
  unfold in_rng, csub, to_ansi_color. intros H. apply andb_true_iff in H.
  destruct H as [A B]. apply N.leb_le in A, B.
  rewrite (proj2 (N.leb_le lo v) A). split; [reflexivity|].
  replace (v - lo <=? 7) with true; [reflexivity|]. symmetry. apply N.leb_le. lia.
Qed.

Ltac vs_if :=
  match goal with
  | |- exists r, (if ?c then _ else _) = Some r =>
      let H := fresh "Hc" in destruct c eqn:H; [try (eexists; reflexivity) | ]
  end.

Lemma value_step_total : forall d v, exists r, value_step d v = Some r.
Proof.
  intros d v. unfold value_step.
  destruct (d_state d).
  - repeat (vs_if;
      try (match goal with
           | H : in_rng ?lo _ v = true |- _ =>
               destruct (rng_digit lo v H) as [E1 E2]; rewrite E1, E2; eexists; reflexivity
           end)).
    eexists; reflexivity.
  - repeat vs_if. eexists; reflexivity.
  - eexists; reflexivity.
  - destruct (d_r d); [destruct (d_g d)|]; eexists; reflexivity.
  - repeat vs_if. eexists; reflexivity.
Qed.

Lemma values_loop_total : forall vs d, exists d', values_loop d vs = Some d'.
Proof.
  induction vs as [|v vs IH]; intros d; cbn [values_loop].
  - eexists; reflexivity.
  - destruct (value_step_total d v) as [[d1 brk] E]. rewrite E.
    destruct brk; [eexists; reflexivity | apply IH].
Qed.

Lemma params_loop_total : forall ps d, exists d', params_loop d ps = Some d'.
Proof.
  induction ps as [|p ps IH]; intros d; cbn [params_loop].
  - eexists; reflexivity.
  - destruct (values_loop_total p d) as [d1 E]. rewrite E. apply IH.
Qed.

Lemma sgr_dispatch_total : forall s ps, exists s', sgr_dispatch s ps = Some s'.
Proof.
  intros s ps. unfold sgr_dispatch.
  destruct (params_loop_total ps (mkD s WNormal None None TFg)) as [d E]. rewrite E.
  eexists; reflexivity.
Qed.

(* ---- 2. the style comparison decides equality --------------------------------- *)

Lemma colour_eqb_eq a b : colour_eqb a b = true -> a = b.
Proof.
  destruct a, b; cbn; try discriminate.
  - intros H. apply N.eqb_eq in H. now subst.
  - intros H. apply N.eqb_eq in H. now subst.
  - intros H. repeat rewrite andb_true_iff in H. destruct H as [[A B] C].
    apply N.eqb_eq in A, B, C. now subst.
Qed.

Lemma colour_eqb_refl a : colour_eqb a a = true.
Proof. destruct a; cbn; rewrite ?N.eqb_refl; reflexivity. Qed.

Lemma opt_colour_eqb_eq a b : opt_colour_eqb a b = true -> a = b.
Proof.
  destruct a, b; cbn; try discriminate; [|reflexivity].
  intros H. apply colour_eqb_eq in H. now subst.
Qed.

Lemma opt_colour_eqb_refl a : opt_colour_eqb a a = true.
Proof. destruct a; cbn; [apply colour_eqb_refl | reflexivity]. Qed.

Lemma sstyle_eqb_eq a b : sstyle_eqb a b = true -> a = b.
Proof.
  unfold sstyle_eqb. intros H. repeat rewrite andb_true_iff in H.
  destruct H as [[[A B] C] D].
  apply opt_colour_eqb_eq in A, B, C. apply N.eqb_eq in D.
  destruct a, b; cbn in *; now subst.
Qed.

Lemma sstyle_eqb_refl a : sstyle_eqb a a = true.
Proof. unfold sstyle_eqb. rewrite !opt_colour_eqb_refl, N.eqb_refl. reflexivity. Qed.

(* ---- 3. the tagging of an event stream ----------------------------------------- *)

(* characters an event pushes onto the capture *)
Definition ev_chars (e : event) : list N :=
  match e with
  | EPrint cp => [cp]
  | EExecute b => if is_ascii_whitespace b then [b] else []
  | _ => []
  end.

(* the capture's style after an event (the decoder is total, see above) *)
Definition cap_style_step (s : sstyle) (e : event) : sstyle :=
  match e with
  | ECsi ps ints ign action =>
      if ign then s
      else if negb (action =? 109) then s
      else if negb (match ints with [] => true | _ => false end) then s
      else match sgr_dispatch s ps with Some s' => s' | None => s end
  | _ => s
  end.

Definition tag_ev (s : sstyle) (e : event) : list (sstyle * N) := map (pair s) (ev_chars e).

Fixpoint tags (s : sstyle) (es : list event) : list (sstyle * N) :=
  match es with
  | [] => []
  | e :: rest => tag_ev s e ++ tags (cap_style_step s e) rest
  end.

Definition style_after (s : sstyle) (es : list event) : sstyle := fold_left cap_style_step es s.

Lemma tags_app : forall a b s, tags s (a ++ b) = tags s a ++ tags (style_after s a) b.
Proof.
  induction a as [|e a IH]; intros b s; cbn [app tags style_after fold_left].
  - reflexivity.
  - rewrite IH. rewrite app_assoc. reflexivity.
Qed.

Lemma style_after_app : forall a b s, style_after s (a ++ b) = style_after (style_after s a) b.
Proof. intros. unfold style_after. apply fold_left_app. Qed.

(* runs -> tagged characters *)
Definition flatten (rs : list (sstyle * list N)) : list (sstyle * N) :=
  flat_map (fun r => map (pair (fst r)) (snd r)) rs.

Lemma flatten_app a b : flatten (a ++ b) = flatten a ++ flatten b.
Proof. unfold flatten. apply flat_map_app. Qed.

Lemma flatten_concat : forall xss, flatten (concat xss) = concat (map flatten xss).
Proof.
  induction xss as [|x xss IH]; cbn [concat map]; [reflexivity|].
  rewrite flatten_app, IH. reflexivity.
Qed.

(* what the next run will carry: the pending text tagged with [ready]'s style (the
   style before the change) or, if no change is pending, the current style *)
Definition pstyle (c : capture) : sstyle :=
  match c_ready c with Some s => s | None => c_style c end.
Definition pend (c : capture) : list (sstyle * N) := map (pair (pstyle c)) (c_printable c).
Definition pend0 (c : capture) : list (sstyle * N) := map (pair (c_style c)) (c_printable c).

(* ---- 4. one event, one byte ------------------------------------------------------ *)

Definition is_csi (e : event) : bool := match e with ECsi _ _ _ _ => true | _ => false end.

(* the events of one byte: a CSI dispatch comes alone *)
Definition csi_alone (evs : list event) : Prop :=
  Forall (fun e => is_csi e = false) evs \/ exists ps i g a, evs = [ECsi ps i g a].

Lemma capture_event_noncsi c e : is_csi e = false ->
  capture_event c e = Some (mkCap (c_style c) (c_printable c ++ ev_chars e) (c_ready c))
  /\ cap_style_step (c_style c) e = c_style c.
Proof.
  intros H. destruct c as [s pr rd]. destruct e; try discriminate H;
    cbn [capture_event ev_chars cap_style_step c_style c_printable c_ready];
    rewrite ?app_nil_r; try (split; reflexivity).
  destruct (is_ascii_whitespace b); rewrite ?app_nil_r; split; reflexivity.
Qed.

Lemma capture_events_noncsi : forall evs c, Forall (fun e => is_csi e = false) evs ->
  capture_events c evs = Some (mkCap (c_style c) (c_printable c ++ flat_map ev_chars evs) (c_ready c))
  /\ tags (c_style c) evs = map (pair (c_style c)) (flat_map ev_chars evs)
  /\ style_after (c_style c) evs = c_style c.
Proof.
  induction evs as [|e evs IH]; intros c H.
  - cbn [capture_events flat_map tags map style_after fold_left]. rewrite app_nil_r.
    destruct c; repeat split; reflexivity.
  - inversion H as [|? ? He Hr]; subst.
    destruct (capture_event_noncsi c e He) as [E1 E2].
    cbn [capture_events flat_map tags style_after fold_left]. rewrite E1, E2.
    destruct (IH (mkCap (c_style c) (c_printable c ++ ev_chars e) (c_ready c)) Hr) as (A & B & C).
    cbn [c_style c_printable c_ready] in A, B, C.
    rewrite A. rewrite <- app_assoc. split; [reflexivity|]. split.
    + rewrite B. unfold tag_ev. rewrite map_app. reflexivity.
    + exact C.
Qed.

Lemma capture_event_csi c ps i g a :
  exists c1, capture_event c (ECsi ps i g a) = Some c1 /\
    c_printable c1 = c_printable c /\
    c_style c1 = cap_style_step (c_style c) (ECsi ps i g a) /\
    (c_ready c = None ->
       pstyle c1 = pstyle c \/ c_printable c = []) /\
    (c_ready c = None -> c_ready c1 <> None -> c_printable c1 <> []).
Proof.
  cbn [capture_event cap_style_step].
  destruct g.
  { exists c. repeat split; auto; try (intros H1 H2; congruence). }
  destruct (negb (a =? 109)).
  { exists c. repeat split; auto; try (intros H1 H2; congruence). }
  destruct (negb match i with [] => true | _ :: _ => false end).
  { exists c. repeat split; auto; try (intros H1 H2; congruence). }
  destruct (sgr_dispatch_total (c_style c) ps) as [s' E]. rewrite E.
  eexists. split; [reflexivity|]. cbn [c_printable c_style c_ready].
  split; [reflexivity|]. split; [reflexivity|].
  unfold pstyle. cbn [c_ready c_style]. unfold style_eqb.
  destruct (sstyle_eqb s' (c_style c)) eqn:Eq; cbn [negb andb].
  - apply sstyle_eqb_eq in Eq. subst s'. split.
    + intros H. rewrite H. left. reflexivity.
    + intros H H1. congruence.
  - destruct (c_printable c) eqn:Ep; cbn [negb].
    + split; [intros; right; reflexivity | intros H H1; congruence].
    + split; [intros H; rewrite H; left; reflexivity | intros; discriminate].
Qed.

Lemma cap_byte : forall evs c, c_ready c = None -> csi_alone evs ->
  exists c1, capture_events c evs = Some c1 /\
    pend c1 = pend c ++ tags (c_style c) evs /\
    c_style c1 = style_after (c_style c) evs /\
    (c_ready c1 <> None -> c_printable c1 <> []).
Proof.
  intros evs c Hr [Hn | (ps & i & g & a & ->)].
  - destruct (capture_events_noncsi evs c Hn) as (A & B & C).
    eexists. split; [exact A|]. unfold pend, pstyle. cbn [c_ready c_style c_printable].
    rewrite Hr, B, C, map_app. repeat split. intros H. congruence.
  - destruct (capture_event_csi c ps i g a) as (c1 & E & P1 & P2 & P3 & P4).
    exists c1. cbn [capture_events]. rewrite E. split; [reflexivity|].
    cbn [tags tag_ev ev_chars map app style_after fold_left]. rewrite app_nil_r.
    split; [|split; [exact P2 | exact (P4 Hr)]].
    unfold pend. rewrite P1. destruct (P3 Hr) as [H | H].
    + rewrite H. reflexivity.
    + rewrite H. reflexivity.
Qed.

(* ---- 5. the specification's events of one byte ------------------------------------- *)

Definition trans_ok2 (v : vstate) (b : N) : bool :=
  let '(tgt, a) := vt_trans v b in
  implb (vact_eqb a TCsiDispatch)
        (opt_vstate_eqb tgt (Some VGround) && negb (vstate_eqb v VDcsPass) && negb (vstate_eqb v VOsc))
  && implb (vact_eqb a TExecute) (negb (b =? 32) && negb (b =? 27))
  && implb (vact_eqb a TPrint) (32 <=? b).

Lemma trans_ok2_all :
  forallb (fun v => forallb (trans_ok2 v) all_bytes) all_vstates = true.
Proof. vm_compute. reflexivity. Qed.

Lemma trans_ok2_holds : forall v b, b < 256 -> trans_ok2 v b = true.
Proof. exact (forall_vstates_bytes _ trans_ok2_all). Qed.

Lemma vact_eqb_refl a : vact_eqb a a = true.
Proof. now apply vact_eqb_eq. Qed.

Lemma exit_noncsi s b : Forall (fun e => is_csi e = false) (exit_events s b).
Proof. unfold exit_events. destruct (vs s); repeat constructor. Qed.

Lemma enter_noncsi s t b : Forall (fun e => is_csi e = false) (snd (enter s t b)).
Proof.
  unfold enter. destruct t; try destruct (final_params s); cbn [snd]; repeat constructor.
Qed.

Lemma action_noncsi s a b : a <> TCsiDispatch ->
  Forall (fun e => is_csi e = false) (snd (do_action s a b)).
Proof.
  intros H. destruct a; try congruence; cbn [do_action snd]; repeat constructor.
  destruct (utf8_lead b); cbn [snd]; constructor.
Qed.

Lemma step_csi_alone : forall v b, b < 256 -> csi_alone (snd (vt_step v b)).
Proof.
  intros v b Hb. unfold vt_step.
  destruct (uni v) as [[u acc]|].
  { left. destruct (utf8_cont u b); cbn [snd]; repeat constructor. }
  pose proof (trans_ok2_holds (vs v) b Hb) as Hok. unfold trans_ok2 in Hok.
  destruct (vt_trans (vs v) b) as [tgt a] eqn:E.
  destruct (vact_eqb a TCsiDispatch) eqn:Ea.
  - apply vact_eqb_eq in Ea. subst a. cbn [vact_eqb implb] in Hok.
    repeat rewrite andb_true_iff in Hok. destruct Hok as [[[[A B] C] _] _].
    destruct tgt as [t|]; [|discriminate A]. cbn [opt_vstate_eqb] in A.
    apply vstate_eqb_eq in A. subst t.
    right. unfold exit_events.
    destruct (vs v); try discriminate B; try discriminate C;
      cbn [do_action enter]; destruct (final_params v) as [ps ig]; cbn [snd app];
      eexists _, _, _, _; reflexivity.
  - assert (Hne : a <> TCsiDispatch).
    { intros ->. cbn in Ea. discriminate. }
    left. destruct tgt as [t|].
    + pose proof (action_noncsi v a b Hne) as H1.
      destruct (do_action v a b) as [s1 ev_act]. cbn [snd] in H1.
      pose proof (enter_noncsi s1 t b) as H2.
      destruct (enter s1 t b) as [s2 ev_entry]. cbn [snd] in *.
      apply Forall_app. split; [apply exit_noncsi|]. apply Forall_app. split; assumption.
    + apply action_noncsi, Hne.
Qed.

(* ---- 6. the loops -------------------------------------------------------------------- *)

Lemma wn_loop_ready : forall bs p c s, c_ready c = Some s -> wn_loop bs p c = Some (bs, p, c).
Proof. intros bs p c s H. destruct bs; cbn [wn_loop]; rewrite H; reflexivity. Qed.

Lemma run_app : forall a b p p1 e1,
  run cfg_default p a = Some (p1, e1) ->
  run cfg_default p (a ++ b) =
    match run cfg_default p1 b with Some (p2, e2) => Some (p2, e1 ++ e2) | None => None end.
Proof.
  induction a as [|x a IH]; intros b p p1 e1 H.
  - cbn [run] in H. inversion H; subst. cbn [app].
    destruct (run cfg_default p1 b) as [[p2 e2]|]; reflexivity.
  - cbn [run app] in *. destruct (advance cfg_default p x) as [[q ex]|]; [|discriminate].
    destruct (run cfg_default q a) as [[q2 e2]|] eqn:E; [|discriminate].
    inversion H; subst. rewrite (IH b q p1 e2 E).
    destruct (run cfg_default p1 b) as [[p3 e3]|]; [|reflexivity].
    rewrite app_assoc. reflexivity.
Qed.

Lemma pend_reset c : pend (mkCap (c_style c) (c_printable c) None) = pend0 c.
Proof. reflexivity. Qed.

Lemma wn_loop_spec : forall bs p v c,
  bytes_lt bs -> R p v -> c_ready c = None ->
  exists bs0 bs1 p1 c1,
    wn_loop bs p c = Some (bs1, p1, c1) /\ bs = bs0 ++ bs1 /\
    R p1 (fst (vt_run v bs0)) /\
    run cfg_default p bs0 = Some (p1, snd (vt_run v bs0)) /\
    pend c1 = pend c ++ tags (c_style c) (snd (vt_run v bs0)) /\
    c_style c1 = style_after (c_style c) (snd (vt_run v bs0)) /\
    (c_ready c1 = None -> bs1 = []) /\
    (c_ready c1 <> None -> c_printable c1 <> []) /\
    (bs <> [] -> (length bs1 < length bs)%nat).
Proof.
  induction bs as [|b rest IH]; intros p v c Hbs HR Hrd.
  - exists [], [], p, c. cbn [wn_loop]. rewrite Hrd.
    cbn [vt_run fst snd tags style_after fold_left run app]. rewrite app_nil_r.
    conj_split; auto; try (intros; congruence).
  - inversion Hbs as [|? ? Hb Hrest]; subst.
    destruct (step_sim p v b HR Hb) as (p1 & Ha & HR1).
    destruct (cap_byte (snd (vt_step v b)) c Hrd (step_csi_alone v b Hb))
      as (c1 & Hc & Hp & Hs & Hne).
    cbn [wn_loop]. rewrite Hrd, Ha, Hc.
    destruct (c_ready c1) as [sr|] eqn:Hr1.
    + (* a style change is ready: stop after this byte *)
      exists [b], rest, p1, c1.
      rewrite (wn_loop_ready rest p1 c1 sr Hr1).
      rewrite vt_run_single. cbn [fst snd run]. rewrite Ha, !app_nil_r.
      assert (Hne' : c_printable c1 <> []) by (apply Hne; discriminate).
      conj_split; auto; try (intros; first [congruence | cbn [length]; lia]).
    + destruct (IH p1 (fst (vt_step v b)) c1 Hrest HR1 Hr1)
        as (bs0 & bs1 & p2 & c2 & Hw & Hsplit & HR2 & Hrun & Hp2 & Hs2 & Hend & Hne2 & Hlen).
      exists (b :: bs0), bs1, p2, c2.
      rewrite Hw. rewrite vt_run_cons. cbn [fst snd run]. rewrite Ha, Hrun.
      conj_split; auto.
      * cbn [app]. now rewrite Hsplit.
      * rewrite Hp2, Hp, Hs, tags_app, app_assoc. reflexivity.
      * rewrite Hs2, Hs, style_after_app. reflexivity.
      * intros _. cbn [length]. destruct rest as [|r rest'].
        { destruct bs0; [|discriminate Hsplit]. cbn [app] in Hsplit. subst bs1. cbn. lia. }
        { assert (Hl : (length bs1 < length (r :: rest'))%nat) by (apply Hlen; discriminate).
          cbn [length] in *. lia. }
Qed.

Lemma wincon_iter_spec : forall fuel bs p v c,
  bytes_lt bs -> R p v ->
  (length bs + (match c_printable c with [] => 0 | _ => 1 end) < fuel)%nat ->
  exists its p',
    wincon_iter fuel bs p c
      = Some (its, p', mkCap (style_after (c_style c) (snd (vt_run v bs))) [] None) /\
    run cfg_default p bs = Some (p', snd (vt_run v bs)) /\ R p' (fst (vt_run v bs)) /\
    flatten its = pend0 c ++ tags (c_style c) (snd (vt_run v bs)) /\
    Forall (fun r => snd r <> []) its.
Proof.
  induction fuel as [|f IH]; intros bs p v c Hbs HR Hfuel; [lia|].
  cbn [wincon_iter]. unfold wincon_next.
  destruct (wn_loop_spec bs p v (mkCap (c_style c) (c_printable c) None) Hbs HR eq_refl)
    as (bs0 & bs1 & p1 & c1 & Hw & Hsplit & HR1 & Hrun & Hp & Hs & Hend & Hne & Hlen).
  rewrite Hw. rewrite pend_reset in Hp. cbn [c_style] in Hp, Hs.
  destruct (c_printable c1) as [|ch t] eqn:Hpr.
  - (* nothing pending: the input is consumed *)
    assert (Hr1 : c_ready c1 = None).
    { destruct (c_ready c1) eqn:E; [|reflexivity]. exfalso. apply Hne; congruence. }
    pose proof (Hend Hr1) as Hb1. subst bs1. rewrite app_nil_r in Hsplit. subst bs0.
    exists [], p1. split.
    { f_equal. f_equal. destruct c1 as [s1 pr1 rd1]. cbn [c_style c_printable c_ready] in *.
      subst. reflexivity. }
    split; [exact Hrun|]. split; [exact HR1|]. split; [|constructor].
    unfold pend in Hp. rewrite Hpr in Hp. cbn [map] in Hp. cbn [flatten flat_map]. exact Hp.
  - (* a run is cut *)
    assert (Hbs1 : bytes_lt bs1).
    { unfold bytes_lt in *. rewrite Hsplit in Hbs. apply Forall_app in Hbs. tauto. }
    assert (Hf : (length bs1 + 0 < f)%nat).
    { destruct bs as [|b0 bs'].
      - destruct bs0; [|discriminate Hsplit]. cbn [app] in Hsplit. subst bs1.
        cbn [vt_run snd tags] in Hp. rewrite app_nil_r in Hp.
        assert (Hl : length (pend c1) = length (pend0 c)) by now rewrite Hp.
        unfold pend, pend0 in Hl. rewrite !map_length, Hpr in Hl.
        destruct (c_printable c); [discriminate Hl|]. cbn [length] in *. lia.
      - assert (Hl : (length bs1 < length (b0 :: bs'))%nat) by (apply Hlen; discriminate).
        destruct (c_printable c); lia. }
    destruct (IH bs1 p1 (fst (vt_run v bs0)) (mkCap (c_style c1) [] (c_ready c1)) Hbs1 HR1 Hf)
      as (its & p' & Hit & Hrun2 & HR2 & Hfl & Hall).
    cbn [c_style c_printable] in Hit, Hfl. rewrite Hit.
    exists ((match c_ready c1 with Some s => s | None => c_style c1 end, ch :: t) :: its), p'.
    subst bs. rewrite (VtCancel.vt_run_app bs0 v bs1). cbn [fst snd].
    split.
    { rewrite style_after_app, <- Hs. reflexivity. }
    split.
    { rewrite (run_app bs0 bs1 p p1 _ Hrun), Hrun2. reflexivity. }
    split; [exact HR2|]. split.
    + change (flatten ((match c_ready c1 with Some s => s | None => c_style c1 end, ch :: t) :: its))
        with (map (pair (pstyle c1)) (ch :: t) ++ flatten its).
      rewrite <- Hpr. fold (pend c1). rewrite Hp, Hfl. unfold pend0 at 2. cbn [c_printable map app].
      rewrite tags_app, <- Hs, app_assoc. reflexivity.
    + constructor; [cbn [snd]; discriminate | exact Hall].
Qed.

Theorem extract_next_spec : forall bs p v c,
  bytes_lt bs -> R p v ->
  exists its p',
    extract_next bs p c
      = Some (its, p', mkCap (style_after (c_style c) (snd (vt_run v bs))) [] None) /\
    run cfg_default p bs = Some (p', snd (vt_run v bs)) /\ R p' (fst (vt_run v bs)) /\
    flatten its = pend0 c ++ tags (c_style c) (snd (vt_run v bs)) /\
    Forall (fun r => snd r <> []) its.
Proof.
  intros bs p v c Hbs HR. unfold extract_next.
  destruct (wincon_iter_spec (S (S (length bs))) bs p v (mkCap (c_style c) (c_printable c) None) Hbs HR)
    as (its & p' & H).
  { cbn [c_printable]. destruct (c_printable c); lia. }
  exists its, p'. exact H.
Qed.

(* ---- 7. chunks ------------------------------------------------------------------------- *)

Theorem extract_chunks_spec : forall chunks p v c,
  bytes_lt (concat chunks) -> R p v -> c_printable c = [] -> c_ready c = None ->
  exists itss p',
    extract_chunks chunks p c
      = Some (itss, p', mkCap (style_after (c_style c) (snd (vt_run v (concat chunks)))) [] None) /\
    run cfg_default p (concat chunks) = Some (p', snd (vt_run v (concat chunks))) /\
    R p' (fst (vt_run v (concat chunks))) /\
    flatten (concat itss) = tags (c_style c) (snd (vt_run v (concat chunks))) /\
    Forall (fun r => snd r <> []) (concat itss).
Proof.
  induction chunks as [|ch rest IH]; intros p v c Hbs HR Hpr Hrd.
  - exists [], p. cbn [extract_chunks concat vt_run fst snd style_after fold_left tags run flatten flat_map].
    destruct c as [s pr rd]. cbn [c_style c_printable c_ready] in *. subst.
    conj_split; auto.
  - cbn [concat] in Hbs. unfold bytes_lt in Hbs. apply Forall_app in Hbs. destruct Hbs as [Hb1 Hb2].
    destruct (extract_next_spec ch p v c Hb1 HR) as (its & p1 & He & Hrun & HR1 & Hfl & Hall).
    cbn [extract_chunks]. rewrite He.
    destruct (IH p1 (fst (vt_run v ch)) (mkCap (style_after (c_style c) (snd (vt_run v ch))) [] None)
                 Hb2 HR1 eq_refl eq_refl)
      as (itss & p2 & Hc & Hrun2 & HR2 & Hfl2 & Hall2).
    cbn [c_style] in Hc, Hfl2. rewrite Hc.
    exists (its :: itss), p2. cbn [concat].
    rewrite (VtCancel.vt_run_app ch v (concat rest)). cbn [fst snd].
    split.
    { rewrite style_after_app. reflexivity. }
    split.
    { rewrite (run_app ch (concat rest) p p1 _ Hrun), Hrun2. reflexivity. }
    split; [exact HR2|]. split.
    + rewrite flatten_app, Hfl, Hfl2, tags_app. unfold pend0. rewrite Hpr. reflexivity.
    + apply Forall_app. split; assumption.
Qed.

(* ---- 8. merging is a function of the flattening ------------------------------------------ *)

Lemma merge_runs_head : forall s t rest, t <> [] ->
  exists t' rest', merge_runs ((s, t) :: rest) = (s, t ++ t') :: rest'.
Proof.
  intros s t rest _. cbn [merge_runs].
  destruct (merge_runs rest) as [|[s' t'] rest'].
  - exists [], []. rewrite app_nil_r. reflexivity.
  - destruct (style_eqb s s').
    + exists t', rest'. reflexivity.
    + exists [], ((s', t') :: rest'). rewrite app_nil_r. reflexivity.
Qed.

Lemma group_runs_run : forall t s c cs,
  group_runs ((s, c) :: map (pair s) t ++ cs) =
  match group_runs cs with
  | (s', t') :: rest' =>
      if sstyle_eqb s s' then (s, (c :: t) ++ t') :: rest' else (s, c :: t) :: (s', t') :: rest'
  | [] => [(s, c :: t)]
  end.
Proof.
  induction t as [|c2 t IH]; intros s c cs.
  - cbn [map app group_runs]. reflexivity.
  - cbn [map app]. change (group_runs ((s, c) :: (s, c2) :: map (pair s) t ++ cs))
      with (match group_runs ((s, c2) :: map (pair s) t ++ cs) with
            | (s', t0) :: rest' =>
                if sstyle_eqb s s' then (s, c :: t0) :: rest' else (s, [c]) :: (s', t0) :: rest'
            | [] => [(s, [c])]
            end).
    rewrite IH.
    destruct (group_runs cs) as [|[s' t'] rest']; [|destruct (sstyle_eqb s s')];
      rewrite sstyle_eqb_refl; reflexivity.
Qed.

Lemma merge_is_group : forall rs, Forall (fun r => snd r <> []) rs ->
  merge_runs rs = group_runs (flatten rs).
Proof.
  induction rs as [|[s t] rest IH]; intros H; [reflexivity|].
  inversion H as [|? ? Ht Hrest]; subst. cbn [snd] in Ht.
  destruct t as [|c t]; [congruence|].
  change (flatten ((s, c :: t) :: rest)) with ((s, c) :: map (pair s) t ++ flatten rest).
  rewrite group_runs_run. cbn [merge_runs]. rewrite (IH Hrest). unfold style_eqb. reflexivity.
Qed.

(* ---- 9. C03: chunked extraction equals one-shot extraction --------------------------------- *)

Theorem wincon_chunked : forall chunks, bytes_lt (concat chunks) ->
  exists itss its p c,
    extract_chunks chunks parser_new capture_default = Some (itss, p, c) /\
    extract_next (concat chunks) parser_new capture_default = Some (its, p, c) /\
    flatten (concat itss) = flatten its /\
    Forall (fun r => snd r <> []) (concat itss) /\ Forall (fun r => snd r <> []) its /\
    merge_runs (concat itss) = merge_runs its.
Proof.
  intros chunks Hbs.
  destruct (extract_chunks_spec chunks parser_new vt_init capture_default Hbs R_init eq_refl eq_refl)
    as (itss & p1 & Hc & Hrun1 & _ & Hfl1 & Hall1).
  destruct (extract_next_spec (concat chunks) parser_new vt_init capture_default Hbs R_init)
    as (its & p2 & He & Hrun2 & _ & Hfl2 & Hall2).
  assert (p1 = p2) by congruence. subst p2.
  exists itss, its, p1, (mkCap (style_after (c_style capture_default) (snd (vt_run vt_init (concat chunks)))) [] None).
  split; [exact Hc|]. split; [exact He|].
  assert (Hfl : flatten (concat itss) = flatten its).
  { rewrite Hfl1, Hfl2. reflexivity. }
  split; [exact Hfl|]. split; [exact Hall1|]. split; [exact Hall2|].
  rewrite (merge_is_group _ Hall1), (merge_is_group _ Hall2), Hfl. reflexivity.
Qed.

(* the general form: from any reachable parser state and any capture without
   pending text; the state carried after the last chunk is the one-shot state *)
Theorem wincon_chunked_from : forall chunks p v c,
  bytes_lt (concat chunks) -> R p v -> c_printable c = [] -> c_ready c = None ->
  exists itss its p' c',
    extract_chunks chunks p c = Some (itss, p', c') /\
    extract_next (concat chunks) p c = Some (its, p', c') /\
    flatten (concat itss) = flatten its /\
    merge_runs (concat itss) = merge_runs its.
Proof.
  intros chunks p v c Hbs HR Hpr Hrd.
  destruct (extract_chunks_spec chunks p v c Hbs HR Hpr Hrd)
    as (itss & p1 & Hc & Hrun1 & _ & Hfl1 & Hall1).
  destruct (extract_next_spec (concat chunks) p v c Hbs HR)
    as (its & p2 & He & Hrun2 & _ & Hfl2 & Hall2).
  assert (p1 = p2) by congruence. subst p2.
  exists itss, its, p1, (mkCap (style_after (c_style c) (snd (vt_run v (concat chunks)))) [] None).
  split; [exact Hc|]. split; [exact He|].
  assert (Hfl : flatten (concat itss) = flatten its).
  { rewrite Hfl1, Hfl2. unfold pend0. rewrite Hpr. reflexivity. }
  split; [exact Hfl|].
  rewrite (merge_is_group _ Hall1), (merge_is_group _ Hall2), Hfl. reflexivity.
Qed.
