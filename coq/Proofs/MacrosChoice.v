(* Proofs/MacrosChoice.v -- the print macros (Generated/MacrosFn.v) composed with the colour decision of C09 (the hand model
   Model/Choice.v choice_model, which Proofs/ChoiceGen.v proves equal to the TRANSLATED `choice(&raw)`; this file depends on
   the hand model and its tables only, so that C08 does not depend on the translation of the choice area):
   when the answers of the std handle a macro names are what `choice(&raw)` decides for that handle's own terminal-ness,
   the macro strips exactly when C09's decision list says Never, and writes to that handle. *)
From Coq Require Import NArith List Bool.
From AV Require Import Spec.Io Spec.Choice Generated.Choice Model.Base Model.Choice Proofs.Choice
  Model.Stream Model.Glue Generated.AutoFn Generated.MacrosFn Proofs.AutoGen Proofs.MacrosGen.
Import ListNotations.
Local Open Scope N_scope.

(* colorchoice::ColorChoice in the vocabulary of Spec/Choice.v (C09) and of Model/Stream.v (C08) *)
Definition cchoice_of (c : choice) : cchoice :=
  match c with ChAuto => CAuto | ChAlwaysAnsi => CAlwaysAnsi | ChAlways => CAlways | ChNever => CNever end.

(* the answers of a std handle whose `is_terminal()` is [tty], in a process with environment [e] and global choice [g]:
   `choice(&raw)` is the hand model of C09 (= the translated g_choice, translated_choice_is_model) *)
Definition cf_of_choice (g : choice) (e : ch_env) (tty wv : bool) : acfg :=
  mkACfg (cchoice_of (choice_model g e tty)) tty wv.

Lemma cchoice_of_auto c : cchoice_of c = CAuto -> c = ChAuto.
Proof. destruct c; intros H; [reflexivity|discriminate..]. Qed.

Lemma mac_mode_of_choice c : c <> ChAuto -> mac_mode (cchoice_of c) = match c with ChNever => MStrip | _ => MPass end.
Proof. destruct c; intros H; [congruence|reflexivity..]. Qed.

Theorem translated_print_follows_choice :
  forall lossy fmt_nl (err nl : bool) cfv ch g e (tty_out tty_err wv : bool) (so se : writer) world args,
  let tty := if err then tty_err else tty_out in
  (* the decision of `choice(&raw)` for the terminal-ness of the handle THIS macro names *)
  let d := choice_model g e tty in
  d = choice_spec g e tty /\ d <> ChAuto /\
  mac_arm lossy fmt_nl err nl false false cfv ch (cf_of_choice g e tty wv) so se world args =
  match auto_op wv (match d with ChNever => MStrip | _ => MPass end) sb_new (if err then se else so)
                (OWriteFmt (if nl then fmt_nl args else args)) with
  | Some (s1, w1, r) =>
      Some (world ++ MWriteFmt (as_of (match d with ChNever => MStrip | _ => MPass end) s1 w1)
                               (match r with RErr e => inr e | _ => inl tt end)
                     :: match r with RErr e => [MPanicIo (if err then mac_msg_stderr else mac_msg_stdout) e] | _ => [] end)
  | None => None
  end.
Proof.
  intros lossy fmt_nl err nl cfv ch g e tty_out tty_err wv so se world args tty d.
  pose proof (choice_never_auto g e tty) as Hna. fold d in Hna.
  split; [apply choice_is_spec|]. split; [exact Hna|].
  rewrite translated_print_writes_own_stream.
  - unfold cf_of_choice. cbn [ac_decided ac_wv_all]. fold tty. fold d. rewrite (mac_mode_of_choice _ Hna). reflexivity.
  - unfold cf_of_choice. cbn [ac_decided]. intros H. apply Hna, cchoice_of_auto, H.
Qed.
