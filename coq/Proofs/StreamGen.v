(* Proofs/StreamGen.v -- the functions TRANSLATED from crates/anstream/src/strip.rs
   (Generated/StreamFn.v, written by tools/gen_fn_stream.py on every run) are
   extensionally equal to the hand model Model/Stream.v that the theorems of C06 / C08
   are about.  A change to the Rust functions changes the translation; if it changes
   their meaning, one of these proofs fails. *)
From Coq Require Import NArith List Bool Lia.
From AV Require Import Generated.Table Spec.Io Model.Base Model.Imp Model.Utf8parse Model.Parser Model.Strip
  Model.Stream Proofs.StripMachine Generated.FmtFn Proofs.FmtGen Generated.StreamFn.
Import ListNotations.
Local Open Scope N_scope.

(* the translated functions answer (writer, state, io::Result); the hand model (state, writer, sres) *)
Definition conv_n (r : option (writer * sbytes * (N + ekind))) : option (sbytes * writer * sres) :=
  match r with Some (w, s, x) => Some (s, w, sres_of_n x) | None => None end.
Definition conv_u (r : option (writer * sbytes * (unit + ekind))) : option (sbytes * writer * sres) :=
  match r with Some (w, s, x) => Some (s, w, sres_of_unit x) | None => None end.

(* ---- offset_to: the offset of a piece -------------------------------------------- *)
Lemma g_offset_to_eq total p : g_offset_to total p = Some (p_off p).
Proof.
  unfold g_offset_to, buf_addr, piece_addr, csub.
  destruct (0 <=? p_off p) eqn:E.
  - rewrite N.sub_0_r. reflexivity.
  - apply N.leb_gt in E. lia.
Qed.

(* ---- geometry of one next_bytes call --------------------------------------------- *)
Lemma next_bytes_geom bs off st u pc bs' off' st' u' :
  next_bytes bs off st u = Some (Some pc, bs', off', st', u') ->
  exists pre, bs = pre ++ p_bytes pc ++ bs' /\ p_off pc = off + N.of_nat (length pre) /\
              off' = p_off pc + N.of_nat (length (p_bytes pc)).
Proof.
  unfold next_bytes. intros H.
  destruct (nb_skip bs st u) as [[[bs1 st1] u1]|] eqn:Hsk; [|discriminate].
  destruct (nb_take bs1 st1 u1) as [[[[t bs2] st2] u2]|] eqn:Ht; [|discriminate].
  destruct (nb_skip_suffix _ _ _ _ _ _ Hsk) as [pre ->].
  pose proof (nb_take_split _ _ _ _ _ _ _ Ht) as ->.
  assert (E : (length (pre ++ t ++ bs2) - length (t ++ bs2) = length pre)%nat) by (rewrite app_length; lia).
  rewrite E in H.
  destruct t as [|t0 t]; inversion H; subst. clear H. cbn [p_bytes p_off].
  exists pre. repeat split; reflexivity.
Qed.

Lemma slice_prefix {A} (l : list A) n : n <= N.of_nat (length l) -> slice l 0 n = Some (firstn (N.to_nat n) l).
Proof.
  intros H. unfold slice. apply N.leb_le in H. rewrite H.
  replace (0 <=? n) with true by (symmetry; apply N.leb_le; lia).
  rewrite N.sub_0_r. reflexivity.
Qed.

Lemma sb_last_replay s x :
  match sb_last s x with Some (s1, _) => Some s1 | None => None end = ss_replay s x.
Proof.
  unfold sb_last, ss_replay.
  destruct (strip_next_bytes x (sb_state s) (sb_u s)) as [[[[ps r] st] u]|]; reflexivity.
Qed.

(* ---- fn write ---------------------------------------------------------------------- *)
(* The proof does not depend on how the Rust loop is spelled: the loop combinator ([while_fuel] with early returns, or
   [while_fuel0] with breaks only), its step function, its initial state tuple and everything that FOLLOWS the loop (the
   continuation K) are read off the goal; the loop lemma is stated over "the same initial tuple with cursor / writer /
   state / delivered generalised" and "K applied to what the loop answers".  So early returns inside the loop and a
   `break` into one shared exit section after the loop (with further loop variables that record why it stopped) are the
   same proof: at every exit the goal is normalised by [write_exit] until both sides agree. *)
Ltac write_exit s0 :=
  repeat first
    [ progress cbn [conv_n sres_of_n negb fst snd p_off]
    | rewrite g_offset_to_eq
    | rewrite slice_prefix by lia
    | rewrite <- sb_last_replay
    | match goal with |- context [sb_last s0 ?b] => destruct (sb_last s0 b) as [[? ?]|] end
    | reflexivity ].

Lemma g_write_eq raw s buf : conv_n (g_write raw s buf) = ss_write s buf raw.
Proof.
  destruct s as [st0 u0].
  unfold g_write, ss_write, sbi_new. cbv zeta. cbn [sb_state sb_u].
  match goal with
  | |- conv_n (match ?W ?fuel0 ?f ?init with Some x => @?K x | None => None end) = _ =>
      let p := eval pattern (buf, 0), raw, (mkSB st0 u0), false in init in
      match p with
      | ?mk _ _ _ _ =>
          assert (L : forall fuel bs off st u d w,
                     (exists pre, buf = pre ++ bs /\ off = N.of_nat (length pre)) ->
                     conv_n (match W fuel f (mk (bs, off) w (mkSB st u) d) with Some x => K x | None => None end)
                     = ss_write_loop fuel buf bs off (mkSB st0 u0) st u d w)
      end
  end.
  { induction fuel as [|fuel IH]; intros bs off st u d w (pre & Hbuf & Hoff); [reflexivity|].
    cbn [while_fuel while_fuel0 ss_write_loop]. unfold sbi_next. cbn [fst snd sb_state sb_u].
    destruct (next_bytes bs off st u) as [[[[[p bs'] off'] st'] u']|] eqn:Hn; [|reflexivity].
    destruct p as [pc|]; [|write_exit (mkSB st0 u0)].
    destruct (next_bytes_geom _ _ _ _ _ _ _ _ _ Hn) as (pre' & Hbs & Hpo & Ho').
    assert (Hlen : p_off pc + N.of_nat (length (p_bytes pc)) <= N.of_nat (length buf)).
    { rewrite Hbuf, Hbs, Hpo, Hoff, !app_length. lia. }
    unfold ss_raw_write. destruct (w_write w (p_bytes pc)) as [w1 r]. destruct r as [written|e].
    - unfold piece_len, piece_from, piece_len.
      (* "the whole run was accepted", whichever way round the comparison is spelled in Rust *)
      destruct (N.of_nat (length (p_bytes pc)) =? written) eqn:Eq;
        rewrite ?(N.eqb_sym written (N.of_nat (length (p_bytes pc)))), ?Eq; cbn [negb].
      + apply IH. exists (pre ++ pre' ++ p_bytes pc). split.
        * rewrite Hbuf, Hbs, <- !app_assoc. reflexivity.
        * rewrite Ho', Hpo, Hoff, !app_length. lia.
      + rewrite N.ltb_antisym.
        destruct (written <=? N.of_nat (length (p_bytes pc))) eqn:Ele; cbn [negb]; [|reflexivity].
        apply N.leb_le in Ele.
        write_exit (mkSB st0 u0).
    - destruct d; write_exit (mkSB st0 u0). }
  apply (L (S (length buf)) buf 0 st0 u0 false raw). exists []; split; reflexivity.
Qed.

(* ---- fn write_all -------------------------------------------------------------------- *)
Lemma g_write_all_eq raw s buf : conv_u (g_write_all raw s buf) = ss_write_all s buf raw.
Proof.
  (* as for g_write_eq: combinator, step, initial tuple and continuation are read off the goal *)
  destruct s as [st0 u0].
  unfold g_write_all, ss_write_all, sbi_new. cbv zeta. cbn [sb_state sb_u].
  match goal with
  | |- conv_u (match ?W ?fuel0 ?f ?init with Some x => @?K x | None => None end) = _ =>
      let p := eval pattern (buf, 0), raw, (mkSB st0 u0) in init in
      match p with
      | ?mk _ _ _ =>
          assert (L : forall fuel bs off st u w,
                     conv_u (match W fuel f (mk (bs, off) w (mkSB st u)) with Some x => K x | None => None end)
                     = ss_write_all_loop fuel bs off st u w)
      end
  end.
  { induction fuel as [|fuel IH]; intros bs off st u w; [reflexivity|].
    cbn [while_fuel while_fuel0 ss_write_all_loop]. unfold sbi_next. cbn [fst snd sb_state sb_u].
    destruct (next_bytes bs off st u) as [[[[[p bs'] off'] st'] u']|]; [|reflexivity].
    destruct p as [pc|]; [|reflexivity].
    unfold ss_raw_write_all. destruct (w_write_all w (p_bytes pc)) as [w1 r]. destruct r as [q|e]; [|reflexivity].
    apply IH. }
  apply (L (S (length buf)) buf 0 st0 u0 raw).
Qed.

(* ---- fn write_fmt ---------------------------------------------------------------------- *)
Lemma g_write_fmt_eq raw s frags : conv_u (g_write_fmt raw s frags) = ss_write_fmt s frags raw.
Proof.
  unfold g_write_fmt. cbv zeta.
  (* Adapter::new(closure).write_fmt(args), TRANSLATED (Generated/FmtFn.v), is the hand model's fmt_adapter_write_fmt *)
  rewrite (adapter_run _ _ (fun st r => let '(raw3, state3) := st in Some (raw3, state3, r))).
  revert raw s.
  induction frags as [|fr rest IH]; intros raw s; cbn [fmt_adapter_write_fmt ss_write_fmt]; [reflexivity|].
  rewrite <- g_write_all_eq.
  destruct (g_write_all raw s fr) as [[[w1 s1] r]|]; cbn [conv_u]; [|reflexivity].
  destruct r as [[]|e]; cbn [sres_of_unit]; [|reflexivity].
  apply IH.
Qed.

(* ---- impl io::Write for StripStream: the methods delegate to the free functions ---------- *)
Definition conv_ss {A} (f : A -> sres) (r : option (sstream * A)) : option (sbytes * writer * sres) :=
  match r with Some (x, a) => Some (ss_state x, ss_raw x, f a) | None => None end.

Lemma g_ss_write_eq x buf :
  conv_ss sres_of_n (g_ss_write x buf) = ss_op (ss_state x) (ss_raw x) (OWrite buf).
Proof.
  unfold g_ss_write. cbn [ss_op]. rewrite <- g_write_eq.
  destruct (g_write (ss_raw x) (ss_state x) buf) as [[[w1 s1] r]|]; reflexivity.
Qed.

Lemma g_ss_write_all_eq x buf :
  conv_ss sres_of_unit (g_ss_write_all x buf) = ss_op (ss_state x) (ss_raw x) (OWriteAll buf).
Proof.
  unfold g_ss_write_all. cbn [ss_op]. rewrite <- g_write_all_eq.
  destruct (g_write_all (ss_raw x) (ss_state x) buf) as [[[w1 s1] r]|]; reflexivity.
Qed.

Lemma g_ss_write_fmt_eq x frags :
  conv_ss sres_of_unit (g_ss_write_fmt x frags) = ss_op (ss_state x) (ss_raw x) (OWriteFmt frags).
Proof.
  unfold g_ss_write_fmt. cbn [ss_op]. rewrite <- g_write_fmt_eq.
  destruct (g_write_fmt (ss_raw x) (ss_state x) frags) as [[[w1 s1] r]|]; reflexivity.
Qed.

Lemma g_ss_flush_eq x :
  conv_ss sres_of_unit (Some (g_ss_flush x)) = ss_op (ss_state x) (ss_raw x) OFlush.
Proof. reflexivity. Qed.

(* ---- write_vectored: `bufs.iter().find(|b| !b.is_empty()).map(|b| &**b).unwrap_or(&[][..])`, TRANSLATED, is the hand
   model's first_nonempty (whatever the closures are called; a changed predicate / default breaks this) ---------- *)
Lemma find_nonempty_is_first_nonempty (bufs : list (list N)) :
  opt_unwrap_or (option_map (fun b => b) (find (fun b => negb (is_empty b)) bufs)) [] = first_nonempty bufs.
Proof.
  induction bufs as [|b rest IH]; [reflexivity|].
  destruct b as [|c b]; cbn [find is_empty negb first_nonempty]; [exact IH|reflexivity].
Qed.

(* The same fact independent of how the selection is spelled AFTER the `find` (`.map(..).unwrap_or(..)`, `.map_or(.., ..)`,
   `match`, `if let`): `find p bufs`, for ANY predicate that is pointwise "not empty", is `Some` of the hand model's
   first_nonempty, or `None` when that is empty; the case analysis on first_nonempty then decides every spelling. *)
Lemma find_first_nonempty (p : list N -> bool) (bufs : list (list N)) :
  (forall b, p b = negb (is_empty b)) ->
  find p bufs = match first_nonempty bufs with [] => None | b => Some b end.
Proof.
  intros Hp. induction bufs as [|b rest IH]; [reflexivity|].
  cbn [find first_nonempty]. rewrite Hp. destruct b as [|c b]; cbn [is_empty negb]; [exact IH|reflexivity].
Qed.

(* the selection written as a loop: `for buf in bufs { if !buf.is_empty() { return <call on buf>; } } <call on &[]>` --
   ANY loop body that passes over an empty buffer and returns what the call [G] answers on a non-empty one *)
Lemma for_list_first_nonempty {S R : Type} (F : list N -> S -> option (lctl S R)) (G : S -> list N -> option R) :
  (forall s, F [] s = Some (LNext s)) ->
  (forall c b s, F (c :: b) s = match G s (c :: b) with Some r => Some (LRet r) | None => None end) ->
  forall bufs s,
    for_list F bufs s = match first_nonempty bufs with
                        | [] => Some (inl s)
                        | b => match G s b with Some r => Some (inr r) | None => None end
                        end.
Proof.
  intros H0 H1. induction bufs as [|b rest IH]; intros s; [reflexivity|].
  cbn [for_list first_nonempty]. destruct b as [|c b].
  - rewrite H0. apply IH.
  - rewrite H1. destruct (G s (c :: b)); reflexivity.
Qed.

(* [W] is the translated `write` the selected buffer is handed to (only the loop spelling needs to know it) *)
Ltac select_first_nonempty W bufs :=
  first
  [ match goal with
    | |- context [find ?p bufs] => rewrite (find_first_nonempty p bufs) by (intros [|? ?]; reflexivity)
    end
  | match goal with
    | |- context [for_list ?F bufs] =>
        rewrite (for_list_first_nonempty F (fun s b => match W s b with Some (o, r) => Some (o, r) | None => None end))
          by (intros; cbn [is_empty negb];
              try match goal with |- context [W ?a ?b] => destruct (W a b) as [[? ?]|] end; reflexivity)
    end ];
  destruct (first_nonempty bufs); cbn [opt_unwrap_or option_map].

Lemma g_ss_write_vectored_first x bufs : g_ss_write_vectored x bufs = g_ss_write x (first_nonempty bufs).
Proof.
  unfold g_ss_write_vectored. cbv zeta. select_first_nonempty g_ss_write bufs.
  all: match goal with |- context [g_ss_write ?y ?b] => destruct (g_ss_write y b) as [[? ?]|] end; reflexivity.
Qed.

(* ---- the entry point: one operation of the stream, and whole operation sequences ---------- *)
Definition g_ss_op (x : sstream) (o : sop) : option (sstream * sres) :=
  match o with
  | OWrite buf => '(x1, r) <- g_ss_write x buf ;; Some (x1, sres_of_n r)
  | OWriteAll buf => '(x1, r) <- g_ss_write_all x buf ;; Some (x1, sres_of_unit r)
  | OWriteVectored bufs => '(x1, r) <- g_ss_write_vectored x bufs ;; Some (x1, sres_of_n r)
  | OWriteFmt frags => '(x1, r) <- g_ss_write_fmt x frags ;; Some (x1, sres_of_unit r)
  | OFlush => let '(x1, r) := g_ss_flush x in Some (x1, sres_of_unit r)
  end.

Fixpoint g_ss_run (x : sstream) (ops : list sop) : option (sstream * list sres) :=
  match ops with
  | [] => Some (x, [])
  | o :: rest =>
      '(x1, r) <- g_ss_op x o ;;
      '(x2, rs) <- g_ss_run x1 rest ;;
      Some (x2, r :: rs)
  end.

Lemma g_ss_op_eq x o :
  match g_ss_op x o with Some (x1, r) => Some (ss_state x1, ss_raw x1, r) | None => None end
  = ss_op (ss_state x) (ss_raw x) o.
Proof.
  destruct o as [buf|buf|bufs|frags|]; cbn [g_ss_op].
  - rewrite <- g_ss_write_eq. destruct (g_ss_write x buf) as [[? ?]|]; reflexivity.
  - rewrite <- g_ss_write_all_eq. destruct (g_ss_write_all x buf) as [[? ?]|]; reflexivity.
  - rewrite g_ss_write_vectored_first.
    cbn [ss_op]. change (ss_write (ss_state x) (first_nonempty bufs) (ss_raw x))
      with (ss_op (ss_state x) (ss_raw x) (OWrite (first_nonempty bufs))).
    rewrite <- g_ss_write_eq. destruct (g_ss_write x (first_nonempty bufs)) as [[? ?]|]; reflexivity.
  - rewrite <- g_ss_write_fmt_eq. destruct (g_ss_write_fmt x frags) as [[? ?]|]; reflexivity.
  - reflexivity.
Qed.

(* the translated stream, driven by any operation sequence, is the Strip arm of the hand model *)
Theorem translated_stream_is_model : forall b ops x,
  match g_ss_run x ops with Some (x1, rs) => Some (ss_state x1, ss_raw x1, rs) | None => None end
  = run_ops b MStrip (ss_state x) (ss_raw x) ops.
Proof.
  intros b. induction ops as [|o rest IH]; intros x; cbn [g_ss_run run_ops auto_op]; [reflexivity|].
  rewrite <- g_ss_op_eq.
  destruct (g_ss_op x o) as [[x1 r]|]; [|reflexivity].
  rewrite <- IH. destruct (g_ss_run x1 rest) as [[x2 rs]|]; reflexivity.
Qed.

(* AutoStream built with ColorChoice::Never runs the translated stream *)
Theorem translated_never_is_model : forall b d ops x,
  match g_ss_run x ops with Some (x1, rs) => Some (ss_state x1, ss_raw x1, rs) | None => None end
  = run_ops b (auto_mode CNever d) (ss_state x) (ss_raw x) ops.
Proof. intros b d. exact (translated_stream_is_model b). Qed.
