From Coq Require Import NArith List Bool Lia.
From AV Require Import Generated.Table Spec.Vt Spec.Sgr Model.Base Model.Imp Model.Utf8parse Model.Parser Generated.ParserFn Model.Wincon Generated.WinconFn Proofs.ParserGen.
Import ListNotations.
Local Open Scope N_scope.
