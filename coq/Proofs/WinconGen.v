(* Proofs/WinconGen.v -- the functions TRANSLATED from crates/anstream/src/adapter/wincon.rs
   (Generated/WinconFn.v, written by tools/gen_fn_wincon.py on every run: WinconCapture::{reset,
   print, execute, csi_dispatch}, to_ansi_color, next_bytes, and anstyle's AnsiColor::bright) are
   extensionally equal to the hand model Model/Wincon.v that the theorems of C07 / C03 / C18 / C14
   are about.  A change to the Rust functions changes the translation; if it changes their
   meaning, one of these proofs fails. *)
From Coq Require Import NArith List Bool Lia.
From AV Require Import Generated.Table Spec.Vt Spec.Sgr Model.Base Model.Imp Model.Utf8parse Model.Parser
  Generated.ParserFn Model.Wincon Generated.WinconFn Proofs.ParserGen Proofs.WinconRuns Proofs.WinconSpecRuns.
Import ListNotations.
Local Open Scope N_scope.

(* ---- AnsiColor::bright, to_ansi_color --------------------------------------------------- *)

(* the hand model works with palette indices: bright(true) on a normal colour is +8 *)
Lemma g_ansi_bright_true a :
  ansi_idx a <= 7 -> exists r, g_ansi_bright a true = Some r /\ ansi_idx r = ansi_idx a + 8.
Proof. destruct a; cbn; intros H; try (exfalso; lia); eexists; split; reflexivity. Qed.

(* the complete table, both directions *)
Lemma g_ansi_bright_idx a yes :
  option_map ansi_idx (g_ansi_bright a yes) =
  Some (if yes then (if ansi_idx a <? 8 then ansi_idx a + 8 else ansi_idx a)
        else (if ansi_idx a <? 8 then ansi_idx a else ansi_idx a - 8)).
Proof. destruct a, yes; reflexivity. Qed.

(* The translation of `to_ansi_color` answers `option (option acolor)` when the translator found a construct that can
   panic in the body (the `match` on the digit: the outer option is the panic monad) and plain `option acolor` when the
   body is total (a lookup `TABLE.get(i).copied()` in a private const table).  The lemmas are stated over BOTH: `as_oo`
   reads either as "panics or answers an optional colour" (the total translation never panics). *)
Class AsOptOpt (T : Type) := as_oo : T -> option (option acolor).
#[global] Instance oo_partial : AsOptOpt (option (option acolor)) := fun x => x.
#[global] Instance oo_total : AsOptOpt (option acolor) := fun x => Some x.

(* what `as_oo x = Some r` says about x itself (so that it can be rewritten with) *)
Ltac as_oo_inv H :=
  cbv [as_oo oo_partial oo_total] in H;
  try (match type of H with Some _ = Some _ => injection H as H end).

Lemma g_to_ansi_color_eq d :
  exists r, as_oo (g_to_ansi_color d) = Some r /\ option_map ansi_idx r = to_ansi_color d.
Proof.
  cbv [as_oo oo_partial oo_total]. unfold g_to_ansi_color, to_ansi_color.
  destruct (d <=? 7) eqn:E.
  - apply N.leb_le in E.
    assert (H : d = 0 \/ d = 1 \/ d = 2 \/ d = 3 \/ d = 4 \/ d = 5 \/ d = 6 \/ d = 7) by lia.
    repeat (destruct H as [-> | H]); try subst d; eexists; split; reflexivity.
  - apply N.leb_gt in E.
    (* past the last entry: every test of a chain of comparisons fails / the table lookup is out of range *)
    repeat match goal with |- context [?a =? ?b] => replace (a =? b) with false by (symmetry; apply N.eqb_neq; lia) end.
    repeat match goal with
           | |- context [nth_error ?l ?i] => rewrite (proj2 (nth_error_None l i)) by (cbn [length]; lia)
           end.
    eexists; split; reflexivity.
Qed.

Lemma g_to_ansi_cases d :
  (exists u, as_oo (g_to_ansi_color d) = Some (Some u) /\ to_ansi_color d = Some (ansi_idx u) /\ ansi_idx u <= 7) \/
  (as_oo (g_to_ansi_color d) = Some None /\ to_ansi_color d = None).
Proof.
  destruct (g_to_ansi_color_eq d) as [r [E1 E2]]. destruct r as [u|]; cbn [option_map] in E2.
  - left. exists u. repeat split; auto.
    unfold to_ansi_color in E2. destruct (d <=? 7) eqn:L; [|discriminate]. injection E2 as <-. apply N.leb_le; exact L.
  - right. auto.
Qed.

(* ---- the decoder loops -------------------------------------------------------------------- *)

Definition dtup (d : dstate) := (d_style d, d_state d, d_r d, d_g d, d_target d).

Definition step_res (o : option (dstate * bool)) : option (bctl (sstyle * wstate * option N * option N * target)) :=
  match o with
  | Some (d, true) => Some (BBreak (dtup d))
  | Some (d, false) => Some (BNext (dtup d))
  | None => None
  end.

(* `for value in param`: any loop body that does what value_step does *)
Lemma values_loop_for f :
  (forall v s w r g t, f v (s, w, r, g, t) = step_res (value_step (mkD s w r g t) v)) ->
  forall vs s w r g t, for_list0 f vs (s, w, r, g, t) = option_map dtup (values_loop (mkD s w r g t) vs).
Proof.
  intros Hf. induction vs as [|v vs IH]; intros s w r g t; cbn [for_list0 values_loop].
  - reflexivity.
  - rewrite Hf. destruct (value_step (mkD s w r g t) v) as [[d1 [|]]|]; cbn [step_res]; try reflexivity.
    destruct d1 as [s1 w1 r1 g1 t1]. cbn [dtup d_style d_state d_r d_g d_target]. apply IH.
Qed.

Definition after_param (d1 : dstate) : dstate :=
  match d_state d1 with WUnderline => set_d d1 (d_style d1) WNormal | _ => d1 end.

(* `for param in params` *)
Lemma params_loop_for f :
  (forall p s w r g t, f p (s, w, r, g, t) =
     match values_loop (mkD s w r g t) p with Some d1 => Some (BNext (dtup (after_param d1))) | None => None end) ->
  forall ps s w r g t, for_list0 f ps (s, w, r, g, t) = option_map dtup (params_loop (mkD s w r g t) ps).
Proof.
  intros Hf. induction ps as [|p ps IH]; intros s w r g t; cbn [for_list0 params_loop].
  - reflexivity.
  - rewrite Hf. destruct (values_loop (mkD s w r g t) p) as [d1|]; [|reflexivity].
    fold (after_param d1). destruct (after_param d1) as [s1 w1 r1 g1 t1].
    cbn [dtup d_style d_state d_r d_g d_target]. apply IH.
Qed.

(* one `if` of the translated chain at a time: both sides test the same condition *)
Ltac chain_step :=
  match goal with
  | |- (if ?c then _ else _) = _ => destruct c eqn:?
  end.

Ltac leaf :=
  cbn [step_res dtup d_style d_state d_r d_g d_target set_d];
  first
    [ reflexivity
    | match goal with
      | |- context [csub ?a ?b] => destruct (csub a b); [|reflexivity]
      end;
      match goal with
      | |- context [g_to_ansi_color ?n] =>
          let u := fresh "u" in let L := fresh "L" in
          let E := fresh "E" in
          destruct (g_to_ansi_cases n) as [[u [E [-> L]]] | [E ->]]; as_oo_inv E; rewrite E; [|reflexivity];
          first [ reflexivity
                | let b := fresh "b" in let Eb := fresh "Eb" in
                  destruct (g_ansi_bright_true u L) as [b [-> Eb]]; rewrite Eb; reflexivity ]
      end ].

(* fallback when the two chains do not test in the same order (arms of the Rust match reordered):
   split the translated chain completely, then resolve every test of the hand model's chain from
   what is known (by rewriting, else by arithmetic) *)
Ltac lhs_split := repeat match goal with |- (if ?c then _ else _) = _ => destruct c eqn:? end.
Ltac absurd_tests :=
  exfalso;
  repeat match goal with
         | H : _ = true |- _ => revert H
         | H : _ = false |- _ => revert H
         end;
  rewrite ?andb_true_iff, ?andb_false_iff, ?N.eqb_eq, ?N.eqb_neq, ?N.leb_le, ?N.leb_gt; intros; lia.
Ltac rhs_known :=
  repeat match goal with
         | H : ?c = _ |- _ = step_res (if ?c then _ else _) => rewrite H; cbv iota
         end.
Ltac rhs_split :=
  repeat (rhs_known;
          match goal with
          | |- _ = step_res (if ?c then _ else _) =>
              let E := fresh "E" in destruct c eqn:E; try solve [absurd_tests]
          end).
Ltac chain := first [ solve [repeat (chain_step; [solve [leaf]|]); leaf] | lhs_split; rhs_split; leaf ].

Lemma g_cap_csi_dispatch_eq cap ps ints ign a :
  g_cap_csi_dispatch cap ps ints ign a = capture_event cap (ECsi ps ints ign a).
Proof.
  unfold g_cap_csi_dispatch, capture_event.
  (* the guards at the head (three early returns, one merged test, a `let` for a part of it: any combination of
     `ignore`, `action == b'm'`, `intermediates.is_empty()`): decided on both sides by the three facts themselves *)
  destruct ign, (a =? 109), ints as [|i0 ints]; cbv zeta; cbn [negb andb orb is_empty];
    try (match goal with |- Some ?x = Some ?x => reflexivity end).
  unfold sgr_dispatch.
  match goal with |- context [for_list0 ?F ps ?i] => rewrite (params_loop_for F) end.
  - destruct (params_loop (mkD (c_style cap) WNormal None None TFg) ps) as [[s1 w1 r1 g1 t1]|]; cbn [option_map dtup d_style]; [|reflexivity].
    destruct cap as [cs cp cr]. unfold set_c_ready, set_c_style, is_empty. cbn [c_style c_printable c_ready].
    destruct (negb (style_eqb s1 cs) && negb match cp with [] => true | _ :: _ => false end); reflexivity.
  - (* the body of the outer loop *)
    intros p s w r g t. cbv beta iota.
    match goal with |- context [for_list0 ?G p ?i] => rewrite (values_loop_for G) end.
    + destruct (values_loop (mkD s w r g t) p) as [[s1 w1 r1 g1 t1]|]; cbn [option_map dtup d_style d_state d_r d_g d_target]; [|reflexivity].
      unfold after_param. destruct w1; reflexivity.
    + (* the body of the inner loop: `match (state, *value)` *)
      clear. intros v s w r g t. cbv beta iota zeta.
      unfold value_step, in_rng. cbn [d_style d_state d_r d_g d_target].
      destruct w; cbn [wstate_eqb andb].
      * chain.
      * chain.
      * destruct t; reflexivity.
      * destruct r as [r0|]; [destruct g as [g0|]|]; try reflexivity. destruct t; reflexivity.
      * chain.
Qed.

(* ---- the small callbacks and the plumbing ------------------------------------------------ *)

Lemma g_cap_reset_eq c : g_cap_reset c = Some (mkCap (c_style c) (c_printable c) None).
Proof. reflexivity. Qed.

Lemma g_cap_print_eq c cp : Some (g_cap_print c cp) = capture_event c (EPrint cp).
Proof. reflexivity. Qed.

(* u8::is_ascii_whitespace: the translator's (Model/Imp) and the hand model's (Model/Strip) spelling *)
Lemma ws_eq b : Imp.is_ascii_whitespace b = Strip.is_ascii_whitespace b.
Proof.
  unfold Imp.is_ascii_whitespace, Strip.is_ascii_whitespace.
  destruct (b =? 32), (b =? 9), (b =? 10), (b =? 12), (b =? 13); reflexivity.
Qed.

Lemma g_cap_execute_eq c b : g_cap_execute c b = capture_event c (EExecute b).
Proof. unfold g_cap_execute, capture_event. rewrite ws_eq. destruct (Strip.is_ascii_whitespace b); reflexivity. Qed.

(* an event of the parser reaches the translated callback the hand model's capture_event describes *)
Lemma g_perform_eq c e : g_perform c e = capture_event c e.
Proof.
  destruct e; cbn [g_perform];
    try apply g_cap_print_eq; try apply g_cap_execute_eq; try apply g_cap_csi_dispatch_eq; reflexivity.
Qed.

Lemma g_perform_events_eq es : forall c, g_perform_events c es = capture_events c es.
Proof.
  induction es as [|e es IH]; intros c; cbn [g_perform_events capture_events]; [reflexivity|].
  rewrite g_perform_eq. destruct (capture_event c e); [apply IH|reflexivity].
Qed.

(* ---- next_bytes ----------------------------------------------------------------------------- *)

(* `while capture.ready.is_none()`: any loop body that does what one round of wn_loop does *)
Lemma wn_loop_while (step : list N * parser * capture -> option (bctl (list N * parser * capture))) :
  (forall bs p c, step (bs, p, c) =
     match c_ready c with
     | Some _ => Some (BBreak (bs, p, c))
     | None =>
         match bs with
         | [] => Some (BBreak (bs, p, c))
         | b :: rest =>
             match advance cfg_default p b with
             | Some (p1, evs) =>
                 match capture_events c evs with
                 | Some c1 => Some (BNext (rest, p1, c1))
                 | None => None
                 end
             | None => None
             end
         end
     end) ->
  forall bs fuel p c, (length bs < fuel)%nat -> while_fuel0 fuel step (bs, p, c) = wn_loop bs p c.
Proof.
  intros Hs. induction bs as [|b bs IH]; intros fuel p c Hf; (destruct fuel as [|fuel]; [inversion Hf|]);
    cbn [while_fuel0 wn_loop]; rewrite Hs; destruct (c_ready c); try reflexivity.
  destruct (advance cfg_default p b) as [[p1 evs]|]; [|reflexivity].
  destruct (capture_events c evs) as [c1|]; [|reflexivity].
  apply IH. cbn [length] in Hf. lia.
Qed.

(* the translated function returns (bytes, parser, capture, item); the hand model (item, bytes, parser, capture) *)
Definition next_shape (r : option (option (sstyle * list N) * list N * parser * capture))
  : option (list N * parser * capture * option (sstyle * list N)) :=
  match r with Some (item, bs, p, c) => Some (bs, p, c, item) | None => None end.

Lemma g_next_bytes_eq bs p c : g_next_bytes bs p c = next_shape (wincon_next bs p c).
Proof.
  unfold g_next_bytes, wincon_next. rewrite g_cap_reset_eq. cbv zeta.
  match goal with |- context [while_fuel0 _ ?F ?i] => rewrite (wn_loop_while F) end.
  - destruct (wn_loop bs p (mkCap (c_style c) (c_printable c) None)) as [[[bs1 p1] c1]|]; [|reflexivity].
    destruct c1 as [cs cp cr]. unfold is_empty, opt_unwrap_or, set_c_printable. cbn [c_style c_printable c_ready].
    (* the item: by cases on the text and on `ready`, so `ready.unwrap_or(style)` and a `match` / `if let` on `ready` all close *)
    destruct cp; try reflexivity; destruct cr; reflexivity.
  - clear. intros bs p c. cbv beta iota zeta. unfold opt_is_none.
    destruct (c_ready c); [reflexivity|]. destruct bs as [|b rest]; [reflexivity|].
    rewrite g_advance_eq. destruct (advance cfg_default p b) as [[p1 evs]|]; cbn [acc app]; [|reflexivity].
    rewrite g_perform_events_eq. destruct (capture_events c evs); reflexivity.
  - lia.
Qed.

(* ---- the iterator around next_bytes (WinconBytesIter::next, WinconBytes::extract_next) written by hand over
   the TRANSLATED next_bytes; gt_extract_next below is the same drive over the TRANSLATED glue ----- *)
Fixpoint g_wincon_iter (fuel : nat) (bs : list N) (p : parser) (c : capture)
  : option (list (sstyle * list N) * parser * capture) :=
  match fuel with
  | O => None
  | S f =>
      match g_next_bytes bs p c with
      | Some (bs1, p1, c1, None) => Some ([], p1, c1)
      | Some (bs1, p1, c1, Some it) =>
          match g_wincon_iter f bs1 p1 c1 with
          | Some (its, p2, c2) => Some (it :: its, p2, c2)
          | None => None
          end
      | None => None
      end
  end.

(* extract_next(bytes): `self.capture.reset()`, then the iterator is collected *)
Definition g_extract_next (bs : list N) (p : parser) (c : capture) :=
  match g_cap_reset c with
  | Some c0 => g_wincon_iter (S (S (length bs))) bs p c0
  | None => None
  end.

Lemma g_wincon_iter_eq fuel : forall bs p c, g_wincon_iter fuel bs p c = wincon_iter fuel bs p c.
Proof.
  induction fuel as [|f IH]; intros bs p c; cbn [g_wincon_iter wincon_iter]; [reflexivity|].
  rewrite g_next_bytes_eq. destruct (wincon_next bs p c) as [[[[item bs1] p1] c1]|]; cbn [next_shape]; [|reflexivity].
  destruct item; [rewrite IH|]; reflexivity.
Qed.

Theorem translated_extract_next_is_model bs p c :
  g_extract_next bs p c = extract_next bs p c.
Proof. unfold g_extract_next, extract_next. rewrite g_cap_reset_eq. apply g_wincon_iter_eq. Qed.

(* several calls of extract_next, the parser and the capture carried along *)
Fixpoint g_extract_chunks (chunks : list (list N)) (p : parser) (c : capture)
  : option (list (list (sstyle * list N)) * parser * capture) :=
  match chunks with
  | [] => Some ([], p, c)
  | ch :: rest =>
      match g_extract_next ch p c with
      | Some (its, p1, c1) =>
          match g_extract_chunks rest p1 c1 with
          | Some (itss, p2, c2) => Some (its :: itss, p2, c2)
          | None => None
          end
      | None => None
      end
  end.

Theorem translated_extract_chunks_is_model chunks : forall p c,
  g_extract_chunks chunks p c = extract_chunks chunks p c.
Proof.
  induction chunks as [|ch rest IH]; intros p c; cbn [g_extract_chunks extract_chunks]; [reflexivity|].
  rewrite translated_extract_next_is_model. destruct (extract_next ch p c) as [[[its p1] c1]|]; [|reflexivity].
  rewrite IH. reflexivity.
Qed.

(* ---- WinconBytes::{new, extract_next} and WinconBytesIter::next, TRANSLATED ------------------------------------
   `extract_next` returns a struct that holds `&mut self.parser` and `&mut self.capture`: the value translation copies
   the two fields into the iterator (after `self.capture.reset()`); while the iterator lives its fields ARE the fields of
   the WinconBytes, so what the drained iterator leaves in them is the WinconBytes afterwards (copy-out: the setters). *)
Lemma g_wb_new_eq : g_wb_new = mkWB parser_new capture_default.
Proof. reflexivity. Qed.

Lemma g_wb_extract_next_eq wb bs :
  g_wb_extract_next wb bs =
  match g_cap_reset (wb_capture wb) with
  | Some c0 => Some (mkWB (wb_parser wb) c0, mkWBI bs (wb_parser wb) c0)
  | None => None
  end.
Proof. unfold g_wb_extract_next. destruct (g_cap_reset (wb_capture wb)); reflexivity. Qed.

Lemma g_wbi_next_eq it :
  g_wbi_next it =
  match g_next_bytes (wbi_bytes it) (wbi_parser it) (wbi_capture it) with
  | Some (bs1, p1, c1, r) => Some (mkWBI bs1 p1 c1, r)
  | None => None
  end.
Proof. unfold g_wbi_next. destruct (g_next_bytes _ _ _) as [[[[bs1 p1] c1] r]|]; reflexivity. Qed.

(* `.collect()`: drain the translated `next` *)
Fixpoint gt_wbi_drain (fuel : nat) (it : wbiter) : option (list (sstyle * list N) * wbiter) :=
  match fuel with
  | O => None
  | S f =>
      match g_wbi_next it with
      | Some (it1, None) => Some ([], it1)
      | Some (it1, Some x) =>
          match gt_wbi_drain f it1 with
          | Some (xs, it2) => Some (x :: xs, it2)
          | None => None
          end
      | None => None
      end
  end.

Definition gt_extract_next (bs : list N) (wb : wbytes) : option (list (sstyle * list N) * wbytes) :=
  match g_wb_extract_next wb bs with
  | Some (wb1, it) =>
      match gt_wbi_drain (S (S (length bs))) it with
      | Some (xs, it') => Some (xs, set_wb_capture (set_wb_parser wb1 (wbi_parser it')) (wbi_capture it'))
      | None => None
      end
  | None => None
  end.

Lemma gt_wbi_drain_iter fuel : forall bs p c,
  match gt_wbi_drain fuel (mkWBI bs p c) with
  | Some (xs, it') => Some (xs, wbi_parser it', wbi_capture it')
  | None => None
  end = g_wincon_iter fuel bs p c.
Proof.
  induction fuel as [|f IH]; intros bs p c; cbn [gt_wbi_drain g_wincon_iter]; [reflexivity|].
  rewrite g_wbi_next_eq. cbn [wbi_bytes wbi_parser wbi_capture].
  destruct (g_next_bytes bs p c) as [[[[bs1 p1] c1] [x|]]|]; [|reflexivity|reflexivity].
  rewrite <- IH. destruct (gt_wbi_drain f (mkWBI bs1 p1 c1)) as [[xs it2]|]; reflexivity.
Qed.

(* the drive over the translated functions is the drive [g_extract_next] the theorems above are about *)
Theorem gt_extract_next_eq bs wb :
  gt_extract_next bs wb =
  match g_extract_next bs (wb_parser wb) (wb_capture wb) with
  | Some (its, p, c) => Some (its, mkWB p c)
  | None => None
  end.
Proof.
  unfold gt_extract_next, g_extract_next. rewrite g_wb_extract_next_eq.
  destruct (g_cap_reset (wb_capture wb)) as [c0|]; [|reflexivity].
  rewrite <- gt_wbi_drain_iter.
  destruct (gt_wbi_drain (S (S (length bs))) (mkWBI bs (wb_parser wb) c0)) as [[xs it']|]; reflexivity.
Qed.

Theorem translated_wb_extract_next_is_model bs :
  gt_extract_next bs g_wb_new =
  match extract_next bs parser_new capture_default with
  | Some (its, p, c) => Some (its, mkWB p c)
  | None => None
  end.
Proof. rewrite gt_extract_next_eq, g_wb_new_eq. cbn [wb_parser wb_capture]. rewrite translated_extract_next_is_model. reflexivity. Qed.

(* the SGR decoder inside the translated csi_dispatch: the style the capture holds afterwards *)
Theorem translated_csi_dispatch_style cap ps :
  option_map c_style (g_cap_csi_dispatch cap ps [] false 109) = sgr_dispatch (c_style cap) ps.
Proof.
  rewrite g_cap_csi_dispatch_eq. cbn [capture_event negb N.eqb Pos.eqb].
  destruct (sgr_dispatch (c_style cap) ps); reflexivity.
Qed.

(* hence the theorems about the hand model are theorems about the translated code *)
Theorem translated_runs_are_spec input :
  Forall (fun b => b < 256) input -> sgr_events_ok style_default (spec_events input) ->
  exists its p c,
    g_extract_next input parser_new capture_default = Some (its, p, c) /\
    merge_runs its = spec_runs input.
Proof. intros H1 H2. rewrite translated_extract_next_is_model. exact (runs_are_spec input H1 H2). Qed.

Theorem translated_wincon_chunked chunks :
  Forall (fun b => b < 256) (concat chunks) ->
  exists itss its p c,
    g_extract_chunks chunks parser_new capture_default = Some (itss, p, c) /\
    g_extract_next (concat chunks) parser_new capture_default = Some (its, p, c) /\
    flatten (concat itss) = flatten its /\
    merge_runs (concat itss) = merge_runs its.
Proof.
  intros H. rewrite translated_extract_chunks_is_model, translated_extract_next_is_model.
  destruct (wincon_chunked chunks H) as [itss [its [p [c [A [B [C [_ [_ D]]]]]]]]].
  exists itss, its, p, c. auto.
Qed.
