(* Proofs/IoFacts.v -- facts about the inner writers of Spec/Io: what one `write`
   and std's `write_all` loop do to the received bytes and to the call history.
   The fuel of [w_write_all] is shown to suffice (the fuel-exhausted branch is never
   taken). *)
From Coq Require Import NArith List Bool Lia.
From AV Require Import Spec.Io.
Import ListNotations.
Local Open Scope N_scope.

(* ---- list helpers -------------------------------------------------------- *)

Lemma firstn_add {A} : forall a b (l : list A),
  firstn (a + b) l = firstn a l ++ firstn b (skipn a l).
Proof.
  induction a as [|a IH]; intros b l; cbn [Nat.add firstn skipn app]; [reflexivity|].
  destruct l as [|x l]; cbn [firstn skipn app].
  - now rewrite firstn_nil.
  - now rewrite IH.
Qed.

Lemma skipn_add {A} : forall a b (l : list A), skipn b (skipn a l) = skipn (a + b) l.
Proof.
  induction a as [|a IH]; intros b l; cbn [Nat.add skipn]; [reflexivity|].
  destruct l as [|x l]; cbn [skipn]; [now rewrite skipn_nil | apply IH].
Qed.

(* ---- one write ----------------------------------------------------------- *)

Lemma w_write_spec : forall w buf w' r,
  w_write w buf = (w', r) ->
  w_calls w' = w_calls w ++ [CWrite buf r] /\
  w_script w' = tl (w_script w) /\
  match r with
  | inl k => k <= N.of_nat (length buf) /\ w_received w' = w_received w ++ firstn (N.to_nat k) buf
  | inr _ => w_received w' = w_received w
  end.
Proof.
  intros w buf w' r H. unfold w_write in H.
  destruct (w_script w) as [|[n|e] rest] eqn:Es; inversion H; subst; clear H; cbn [w_calls w_script w_received tl].
  - split; [reflexivity|]. split; [reflexivity|]. split; [lia|]. now rewrite Nat2N.id, firstn_all.
  - split; [reflexivity|]. split; [reflexivity|]. split; [lia|reflexivity].
  - split; [reflexivity|]. split; reflexivity.
Qed.

(* an exhausted script accepts everything *)
Lemma w_write_accept_all : forall w buf,
  w_script w = [] ->
  w_write w buf = (mkW [] (w_received w ++ buf) (w_calls w ++ [CWrite buf (inl (N.of_nat (length buf)))]),
                   inl (N.of_nat (length buf))).
Proof. intros w buf H. unfold w_write. now rewrite H. Qed.

(* ---- write_all ----------------------------------------------------------- *)

(* how a write_all that ends in [r] relates the writer before and after:
   on success the whole buffer was received; on failure a proper prefix was, and
   the LAST inner call is the one that failed -- with the reported kind, or by
   accepting nothing (WriteZero).  Interrupted is never reported. *)
Definition write_all_post (w : writer) (buf : list N) (w' : writer) (r : unit + ekind) : Prop :=
  exists calls, w_calls w' = w_calls w ++ calls /\
  match r with
  | inl _ => w_received w' = w_received w ++ buf
  | inr e =>
      exists j pre res,
        (j < length buf)%nat /\
        w_received w' = w_received w ++ firstn j buf /\
        calls = pre ++ [CWrite (skipn j buf) res] /\
        e <> Interrupted /\
        (res = inr e \/ (res = inl 0 /\ e = WriteZero))
  end.

Lemma w_write_all_fuel_spec : forall fuel w buf w' r,
  (length (w_script w) < fuel)%nat ->
  w_write_all_fuel fuel w buf = (w', r) ->
  write_all_post w buf w' r.
Proof.
  induction fuel as [|f IH]; intros w buf w' r Hf H; [lia|].
  destruct buf as [|b t].
  { cbn in H. inversion H; subst. exists []. now rewrite !app_nil_r. }
  cbn [w_write_all_fuel] in H.
  remember (b :: t) as buf eqn:Ebuf.
  assert (Hlen : (0 < length buf)%nat) by (subst buf; cbn; lia).
  unfold w_write in H.
  destruct (w_script w) as [|[n|e] rest] eqn:Es.
  - (* exhausted script: everything accepted at once *)
    destruct (N.of_nat (length buf)) as [|p] eqn:El; [lia|].
    rewrite <- El, Nat2N.id, skipn_all in H.
    destruct f; cbn in H; inversion H; subst w' r; clear H;
      (eexists; cbn [w_calls w_received]; split; [reflexivity|reflexivity]).
  - (* Accept n *)
    cbn [length] in Hf.
    destruct (N.min n (N.of_nat (length buf))) as [|p] eqn:Ek.
    + inversion H; subst w' r; clear H.
      eexists; cbn [w_calls w_received]; split; [reflexivity|].
      exists 0%nat, [], (inl 0). cbn [firstn skipn app N.to_nat].
      rewrite app_nil_r. repeat split; try lia; try discriminate. now right.
    + set (k := N.to_nat (Npos p)) in *.
      assert (Hk : (k <= length buf)%nat) by (subst k; lia).
      apply IH in H; [|cbn [w_script]; lia].
      destruct H as [calls [Hc Hr]]. cbn [w_calls w_received] in Hc, Hr.
      exists (CWrite buf (inl (Npos p)) :: calls). split.
      { rewrite Hc, <- app_assoc. reflexivity. }
      destruct r as [u|e].
      * rewrite Hr, <- app_assoc, firstn_skipn. reflexivity.
      * destruct Hr as [j [pre [res [Hj [Hrec [Hcalls [Hni Hres]]]]]]].
        rewrite skipn_length in Hj.
        exists (k + j)%nat, (CWrite buf (inl (Npos p)) :: pre), res.
        repeat split; try assumption.
        -- lia.
        -- rewrite Hrec, <- app_assoc, firstn_add. reflexivity.
        -- rewrite Hcalls, skipn_add. reflexivity.
  - (* Fail e *)
    cbn [length] in Hf.
    destruct e.
    + (* Interrupted: retried with the same buffer *)
      apply IH in H; [|cbn [w_script]; lia].
      destruct H as [calls [Hc Hr]]. cbn [w_calls w_received] in Hc, Hr.
      exists (CWrite buf (inr Interrupted) :: calls). split.
      { rewrite Hc, <- app_assoc. reflexivity. }
      destruct r as [u|e]; [exact Hr|].
      destruct Hr as [j [pre [res [Hj [Hrec [Hcalls [Hni Hres]]]]]]].
      exists j, (CWrite buf (inr Interrupted) :: pre), res.
      repeat split; try assumption. rewrite Hcalls. reflexivity.
    + inversion H; subst w' r; clear H.
      eexists; cbn [w_calls w_received]; split; [reflexivity|].
      exists 0%nat, [], (inr WouldBlock). cbn [firstn skipn app]. rewrite app_nil_r.
      repeat split; try lia; try discriminate. now left.
    + inversion H; subst w' r; clear H.
      eexists; cbn [w_calls w_received]; split; [reflexivity|].
      exists 0%nat, [], (inr Other). cbn [firstn skipn app]. rewrite app_nil_r.
      repeat split; try lia; try discriminate. now left.
    + inversion H; subst w' r; clear H.
      eexists; cbn [w_calls w_received]; split; [reflexivity|].
      exists 0%nat, [], (inr WriteZero). cbn [firstn skipn app]. rewrite app_nil_r.
      repeat split; try lia; try discriminate. now left.
Qed.

Lemma w_write_all_spec : forall w buf w' r,
  w_write_all w buf = (w', r) -> write_all_post w buf w' r.
Proof.
  intros w buf w' r H. unfold w_write_all in H.
  eapply w_write_all_fuel_spec; [|exact H]. lia.
Qed.

(* a writer whose script is exhausted takes a whole buffer in one call *)
Lemma w_write_all_accept_all : forall w buf,
  w_script w = [] ->
  exists calls, w_write_all w buf = (mkW [] (w_received w ++ buf) (w_calls w ++ calls), inl tt).
Proof.
  intros w buf Hs. unfold w_write_all. rewrite Hs. cbn [length Nat.add].
  destruct buf as [|b t].
  - exists []. cbn. rewrite !app_nil_r. destruct w; cbn in *; subst; reflexivity.
  - cbn [w_write_all_fuel]. rewrite (w_write_accept_all w (b :: t) Hs).
    destruct (N.of_nat (length (b :: t))) as [|p] eqn:El; [cbn in El; lia|].
    rewrite <- El, Nat2N.id, skipn_all.
    exists [CWrite (b :: t) (inl (N.of_nat (length (b :: t))))].
    destruct (length t + 0)%nat; cbn; reflexivity.
Qed.
