(* Proofs/OwoFnColours.v -- (first half of Proofs/OwoFnGen.v, apart because the 256-arm tables take ~20 s)
    the functions of the third-party crate owo-colors 4.0.0 that tools/gen_fn_owo.py
   translates (Generated/OwoFn.v: the rendering path of `owo_colors::Style` and the builder methods the adapter
   calls) are equal to the hand model Model/Owo.v; composition with Proofs/OwoRender.v (what the bytes mean). *)
From Coq Require Import NArith List Bool Lia.
From AV Require Import Spec.Vt Spec.Sgr Spec.Targets Model.Base Model.Imp Generated.Table Proofs.TableFacts.
From AV Require Import Generated.Adapters Model.Adapters Model.Owo Generated.OwoFn.
Import ListNotations.
Local Open Scope N_scope.

(* ---- finite case analysis ---------------------------------------------------- *)

Lemma og_lt17_In a : a < 17 -> In a [0; 1; 2; 3; 4; 5; 6; 7; 8; 9; 10; 11; 12; 13; 14; 15; 16].
Proof.
  intros H. rewrite <- (N2Nat.id a). assert (Hn : (N.to_nat a < 17)%nat) by lia.
  revert Hn. generalize (N.to_nat a). intros n Hn.
  do 17 (destruct n as [|n]; [cbn; repeat (first [left; reflexivity | right]) | ]). lia.
Qed.

Ltac og_cases17 H :=
  let HI := fresh "HI" in
  pose proof (og_lt17_In _ H) as HI; cbn [In] in HI;
  repeat (destruct HI as [<-|HI]; [reflexivity|]); destruct HI.

(* one [reflexivity] per byte value: insensitive to the order of the 256 arms *)
Ltac og_cases256 H :=
  let HI := fresh "HI" in
  pose proof (proj1 (all_bytes_In _) H) as HI; vm_compute in HI;
  repeat (destruct HI as [<-|HI]; [reflexivity|]); destruct HI.

(* ---- the colours: DynColor::fmt_raw_ansi_fg / _bg ---------------------------- *)

Lemma g_owo_ansi_raw_fg_eq a f : a < 17 ->
  g_owo_ansi_fmt_raw_ansi_fg a f = Some (f ++ owo_join (owo_raw false (OwAnsi a)), inl tt).
Proof. intros H. og_cases17 H. Qed.

Lemma g_owo_ansi_raw_bg_eq a f : a < 17 ->
  g_owo_ansi_fmt_raw_ansi_bg a f = Some (f ++ owo_join (owo_raw true (OwAnsi a)), inl tt).
Proof. intros H. og_cases17 H. Qed.

Lemma g_owo_xterm_raw_fg_eq x f : x < 256 ->
  g_owo_xterm_fmt_raw_ansi_fg x f = Some (f ++ owo_join (owo_raw false (OwXterm x)), inl tt).
Proof. intros H. og_cases256 H. Qed.

Lemma g_owo_xterm_raw_bg_eq x f : x < 256 ->
  g_owo_xterm_fmt_raw_ansi_bg x f = Some (f ++ owo_join (owo_raw true (OwXterm x)), inl tt).
Proof. intros H. og_cases256 H. Qed.

(* XtermColors::from(u8): the table maps n to the variant at position n (and has no arm above 255) *)
Lemma g_owo_xterm_from_eq x : x < 256 -> g_owo_xterm_from x = Some x.
Proof. intros H. og_cases256 H. Qed.

Lemma g_owo_rgb_raw_fg_eq r g b f :
  g_owo_rgb_fmt_raw_ansi_fg (owo_rgb_new r g b) f = (f ++ owo_join (owo_raw false (OwRgb r g b)), inl tt).
Proof.
  unfold g_owo_rgb_fmt_raw_ansi_fg, owo_rgb_new, owo_write_str. cbn [owo_raw owo_join].
  repeat (rewrite <- ?app_assoc; cbn [app]). reflexivity.
Qed.

Lemma g_owo_rgb_raw_bg_eq r g b f :
  g_owo_rgb_fmt_raw_ansi_bg (owo_rgb_new r g b) f = (f ++ owo_join (owo_raw true (OwRgb r g b)), inl tt).
Proof.
  unfold g_owo_rgb_fmt_raw_ansi_bg, owo_rgb_new, owo_write_str. cbn [owo_raw owo_join].
  repeat (rewrite <- ?app_assoc; cbn [app]). reflexivity.
Qed.

Lemma g_owo_dyn_raw_fg_eq c f : owo_dyn_ok c ->
  g_owo_dyn_fmt_raw_ansi_fg c f = Some (f ++ owo_join (owo_raw false c), inl tt).
Proof.
  intros H. unfold g_owo_dyn_fmt_raw_ansi_fg. destruct c as [a|[]|x|r g b]; cbn [owo_dyn_ok] in H.
  - rewrite (g_owo_ansi_raw_fg_eq a f H). reflexivity.
  - rewrite (g_owo_xterm_raw_fg_eq x f H). reflexivity.
  - rewrite g_owo_rgb_raw_fg_eq. reflexivity.
Qed.

Lemma g_owo_dyn_raw_bg_eq c f : owo_dyn_ok c ->
  g_owo_dyn_fmt_raw_ansi_bg c f = Some (f ++ owo_join (owo_raw true c), inl tt).
Proof.
  intros H. unfold g_owo_dyn_fmt_raw_ansi_bg. destruct c as [a|[]|x|r g b]; cbn [owo_dyn_ok] in H.
  - rewrite (g_owo_ansi_raw_bg_eq a f H). reflexivity.
  - rewrite (g_owo_xterm_raw_bg_eq x f H). reflexivity.
  - rewrite g_owo_rgb_raw_bg_eq. reflexivity.
Qed.

(* get_dyncolors_fg / _bg: the colour itself, whatever the kind *)
Lemma g_owo_get_dyncolors_eq :
  (forall a, g_owo_ansi_get_dyncolors_fg a = OwAnsi a /\ g_owo_ansi_get_dyncolors_bg a = OwAnsi a) /\
  (forall x, g_owo_xterm_get_dyncolors_fg x = OwXterm x /\ g_owo_xterm_get_dyncolors_bg x = OwXterm x) /\
  (forall r g b, g_owo_rgb_get_dyncolors_fg (owo_rgb_new r g b) = OwRgb r g b /\
                 g_owo_rgb_get_dyncolors_bg (owo_rgb_new r g b) = OwRgb r g b) /\
  (forall c, g_owo_dyn_get_dyncolors_fg c = c /\ g_owo_dyn_get_dyncolors_bg c = c).
Proof. repeat split. Qed.

