(* Proofs/VtCsi.v -- the "CSI round trip": printing parameter groups in decimal
   between ESC [ and a final byte and running the specification parser yields
   exactly one ECsi event carrying those groups. *)
From Coq Require Import NArith List Bool Lia.
From Coq Require Import PeanoNat.
From AV Require Import Spec.Utf8 Spec.Vt.
Import ListNotations. Local Open Scope N_scope.

Definition digits_val (ds : list N) : N := fold_left (fun v c => 10 * v + (c - 48)) ds 0.
Definition is_digit (c : N) : Prop := 48 <= c <= 57.
Fixpoint csi_join (sep : N) (fs : list (list N)) : list N :=
  match fs with [] => [] | f :: rest => match rest with [] => f | _ => f ++ sep :: csi_join sep rest end end.
(* groups of sub-parameters, each given as a digit string: ':' (58) inside a
   group, ';' (59) between groups *)
Definition print_digit_params (dss : list (list (list N))) : list N := csi_join 59 (map (csi_join 58) dss).

(* ---- generic list helpers ------------------------------------------------ *)

Lemma csi_join_single : forall sep f, csi_join sep [f] = f.
Proof. reflexivity. Qed.

Lemma csi_join_cons_ne : forall sep f rest, rest <> [] ->
  csi_join sep (f :: rest) = f ++ sep :: csi_join sep rest.
Proof. intros sep f rest Hne. destruct rest as [|g t]; [congruence | reflexivity]. Qed.

Lemma nil_or_not : forall (A : Type) (l : list A), l = [] \/ l <> [].
Proof. intros A l. destruct l; [left; reflexivity | right; discriminate]. Qed.

Lemma csi_join_Forall : forall (P : N -> Prop) sep fs,
  P sep -> Forall (Forall P) fs -> Forall P (csi_join sep fs).
Proof.
  intros P sep fs Hsep. induction fs as [|f rest IH]; intros HF.
  - constructor.
  - inversion HF as [|? ? Hf Hrest]; subst.
    destruct (nil_or_not _ rest) as [-> | Hne].
    + rewrite csi_join_single. exact Hf.
    + rewrite (csi_join_cons_ne sep f rest Hne).
      apply Forall_app. split; [exact Hf|]. constructor; [exact Hsep | apply IH; exact Hrest].
Qed.

Lemma length_removelast_S : forall (A : Type) (l : list A), l <> [] ->
  length l = S (length (removelast l)).
Proof.
  intros A l Hne. destruct l as [|d t]; [congruence|].
  remember (d :: t) as l eqn:El. clear El.
  pose proof (app_removelast_last d Hne) as E.
  apply (f_equal (@length A)) in E. rewrite app_length in E. cbn [length] in E. lia.
Qed.

Lemma map_removelast_last : forall (A B : Type) (h : A -> B) (l : list A) (d : A), l <> [] ->
  map h (removelast l) ++ [h (last l d)] = map h l.
Proof.
  intros A B h l d Hne.
  transitivity (map h (removelast l ++ [last l d])).
  - rewrite map_app. reflexivity.
  - f_equal. symmetry. apply app_removelast_last. exact Hne.
Qed.

Lemma removelast_cons_ne : forall (A : Type) (a : A) (l : list A), l <> [] ->
  removelast (a :: l) = a :: removelast l.
Proof. intros A a l Hne. destruct l; [congruence | reflexivity]. Qed.

Lemma last_cons_ne : forall (A : Type) (a d : A) (l : list A), l <> [] ->
  last (a :: l) d = last l d.
Proof. intros A a d l Hne. destruct l; [congruence | reflexivity]. Qed.

Lemma length_concat_map_map : forall (A B : Type) (h : A -> B) (ps : list (list A)),
  length (concat (map (map h) ps)) = length (concat ps).
Proof.
  intros A B h ps. induction ps as [|g rest IH]; [reflexivity|].
  cbn [map concat]. rewrite !app_length, map_length, IH. reflexivity.
Qed.

Lemma map_map_ext_Forall : forall (A B : Type) (P : A -> Prop) (h k : A -> B) (ps : list (list A)),
  (forall x, P x -> h x = k x) -> Forall (Forall P) ps -> map (map h) ps = map (map k) ps.
Proof.
  intros A B P h k ps Hext HF. induction HF as [|g rest Hg Hrest IH]; [reflexivity|].
  cbn [map]. rewrite IH. f_equal.
  induction Hg as [|x xs Hx Hxs IHg]; [reflexivity|].
  cbn [map]. rewrite IHg, (Hext x Hx). reflexivity.
Qed.

Lemma map_map_id : forall (A : Type) (ps : list (list A)), map (map (fun x => x)) ps = ps.
Proof.
  intros A ps. induction ps as [|g rest IH]; [reflexivity|].
  cbn [map]. rewrite IH, map_id. reflexivity.
Qed.

(* ---- the transition table on the bytes we print -------------------------- *)

Ltac dec_tests :=
  repeat (match goal with
          | |- context [N.eqb ?x ?y] => destruct (N.eqb_spec x y); try lia
          | |- context [N.leb ?x ?y] => destruct (N.leb_spec x y); try lia
          end; cbn [orb andb]).

Lemma trans_entry_param : forall b, 48 <= b <= 59 ->
  vt_trans VCsiEntry b = (Some VCsiParam, TParam).
Proof. intros b Hb. unfold vt_trans, c0, in_range. dec_tests. reflexivity. Qed.

Lemma trans_param_param : forall b, 48 <= b <= 59 ->
  vt_trans VCsiParam b = (None, TParam).
Proof. intros b Hb. unfold vt_trans, c0, in_range. dec_tests. reflexivity. Qed.

Lemma trans_entry_final : forall f, 64 <= f <= 126 ->
  vt_trans VCsiEntry f = (Some VGround, TCsiDispatch).
Proof. intros b Hb. unfold vt_trans, c0, in_range. dec_tests. reflexivity. Qed.

Lemma trans_param_final : forall f, 64 <= f <= 126 ->
  vt_trans VCsiParam f = (Some VGround, TCsiDispatch).
Proof. intros b Hb. unfold vt_trans, c0, in_range. dec_tests. reflexivity. Qed.

(* ---- running the machine ------------------------------------------------- *)

Lemma vt_run_app : forall a s b,
  vt_run s (a ++ b) =
  let '(s1, e1) := vt_run s a in let '(s2, e2) := vt_run s1 b in (s2, e1 ++ e2).
Proof.
  induction a as [|x a IH]; intros s b.
  - cbn [app vt_run]. destruct (vt_run s b) as [s2 e2]. reflexivity.
  - cbn [app vt_run]. destruct (vt_step s x) as [s1 e1]. rewrite IH.
    destruct (vt_run s1 a) as [s2 e2]. destruct (vt_run s2 b) as [s3 e3].
    rewrite app_assoc. reflexivity.
Qed.

Definition csi_start : vt := mkVt VCsiEntry [] false [] [] 0 [] None.

Lemma run_esc_bracket : vt_run vt_init [27; 91] = (csi_start, []).
Proof. vm_compute. reflexivity. Qed.

Lemma param_set_vs : forall s v b, param (set_vs s v) b = set_vs (param s b) v.
Proof.
  intros s v b. unfold param, set_vs, count_values. cbn [vs ints ign closed cur pend osc uni].
  destruct (Nat.eqb _ _); [reflexivity|].
  destruct (b =? 59); [reflexivity|]. destruct (b =? 58); reflexivity.
Qed.

Lemma param_uni : forall s b, uni (param s b) = uni s.
Proof.
  intros s b. unfold param. destruct (Nat.eqb _ _); [reflexivity|].
  destruct (b =? 59); [reflexivity|]. destruct (b =? 58); reflexivity.
Qed.

Lemma param_ints : forall s b, ints (param s b) = ints s.
Proof.
  intros s b. unfold param. destruct (Nat.eqb _ _); [reflexivity|].
  destruct (b =? 59); [reflexivity|]. destruct (b =? 58); reflexivity.
Qed.

Lemma fold_param_ints : forall bs s, ints (fold_left param bs s) = ints s.
Proof.
  induction bs as [|b bs IH]; intros s; [reflexivity|].
  cbn [fold_left]. rewrite IH. apply param_ints.
Qed.

Lemma set_vs_set_vs : forall s v w, set_vs (set_vs s v) w = set_vs s w.
Proof. reflexivity. Qed.

Lemma final_params_set_vs : forall s v, final_params (set_vs s v) = final_params s.
Proof. reflexivity. Qed.

Definition csi_collecting (v : vstate) : Prop := v = VCsiEntry \/ v = VCsiParam.

Lemma step_param : forall s v b, uni s = None -> csi_collecting v -> 48 <= b <= 59 ->
  vt_step (set_vs s v) b = (set_vs (param s b) VCsiParam, []).
Proof.
  intros s v b Hu Hv Hb. unfold vt_step.
  change (uni (set_vs s v)) with (uni s). rewrite Hu.
  change (vs (set_vs s v)) with v.
  destruct Hv as [-> | ->].
  - rewrite (trans_entry_param b Hb).
    change (exit_events (set_vs s VCsiEntry) b) with (@nil event).
    cbn [do_action enter app].
    rewrite param_set_vs. reflexivity.
  - rewrite (trans_param_param b Hb).
    cbn [do_action].
    rewrite param_set_vs. reflexivity.
Qed.

Lemma step_dispatch : forall s v f, uni s = None -> csi_collecting v -> 64 <= f <= 126 ->
  vt_step (set_vs s v) f
  = (set_vs s VGround, [ECsi (fst (final_params s)) (ints s) (snd (final_params s)) f]).
Proof.
  intros s v f Hu Hv Hf. unfold vt_step.
  change (uni (set_vs s v)) with (uni s). rewrite Hu.
  change (vs (set_vs s v)) with v.
  assert (Ht : vt_trans v f = (Some VGround, TCsiDispatch)).
  { destruct Hv as [-> | ->]; [apply trans_entry_final | apply trans_param_final]; exact Hf. }
  rewrite Ht.
  assert (He : exit_events (set_vs s v) f = []).
  { destruct Hv as [-> | ->]; reflexivity. }
  rewrite He.
  cbn [do_action]. rewrite final_params_set_vs.
  destruct (final_params s) as [ps ig].
  cbn [enter fst snd app]. reflexivity.
Qed.

Lemma run_params : forall bs s v, uni s = None -> csi_collecting v ->
  Forall (fun b => 48 <= b <= 59) bs ->
  exists v', csi_collecting v' /\ vt_run (set_vs s v) bs = (set_vs (fold_left param bs s) v', []).
Proof.
  induction bs as [|b bs IH]; intros s v Hu Hv HF.
  - exists v. split; [exact Hv | reflexivity].
  - inversion HF as [|? ? Hb Hbs]; subst.
    assert (Hp : csi_collecting VCsiParam) by (right; reflexivity).
    assert (Hu' : uni (param s b) = None) by (rewrite param_uni; exact Hu).
    destruct (IH (param s b) VCsiParam Hu' Hp Hbs) as [v' [Hv' Hrun]].
    exists v'. split; [exact Hv'|].
    cbn [vt_run fold_left]. rewrite (step_param s v b Hu Hv Hb), Hrun. reflexivity.
Qed.

(* the whole sequence, reduced to the bookkeeping *)
Lemma spec_events_csi : forall body f,
  Forall (fun b => 48 <= b <= 59) body -> 64 <= f <= 126 ->
  spec_events ([27; 91] ++ body ++ [f])
  = [ECsi (fst (final_params (fold_left param body csi_start)))
          (ints (fold_left param body csi_start))
          (snd (final_params (fold_left param body csi_start))) f].
Proof.
  intros body f HF Hf. unfold spec_events.
  rewrite vt_run_app, run_esc_bracket, vt_run_app.
  assert (Hc : csi_collecting VCsiEntry) by (left; reflexivity).
  destruct (run_params body csi_start VCsiEntry eq_refl Hc HF) as [v' [Hv' Hrun]].
  change (set_vs csi_start VCsiEntry) with csi_start in Hrun.
  rewrite Hrun. cbn [vt_run].
  assert (Hu : uni (fold_left param body csi_start) = None).
  { clear Hrun HF. generalize csi_start (eq_refl : uni csi_start = None).
    induction body as [|b bs IH]; intros s Hs; [exact Hs|].
    cbn [fold_left]. apply IH. rewrite param_uni. exact Hs. }
  rewrite (step_dispatch _ v' f Hu Hv' Hf). reflexivity.
Qed.

(* ---- the bookkeeping ----------------------------------------------------- *)

Definition dstep (p c : N) : N := N.min 65535 (10 * p + (c - 48)).
Definition val (ds : list N) : N := N.min 65535 (digits_val ds).

Lemma dstep_fold : forall ds v,
  fold_left dstep ds (N.min 65535 v) = N.min 65535 (fold_left (fun v c => 10 * v + (c - 48)) ds v).
Proof.
  induction ds as [|c ds IH]; intros v; [reflexivity|].
  cbn [fold_left].
  replace (dstep (N.min 65535 v) c) with (N.min 65535 (10 * v + (c - 48))) by (unfold dstep; lia).
  apply IH.
Qed.

Lemma dstep_fold_val : forall ds, fold_left dstep ds 0 = val ds.
Proof. intros ds. exact (dstep_fold ds 0). Qed.

Section Params.
  Variables (v : vstate) (i : list N) (gn : bool) (o : list N) (u : option (ustate * list N)).

  Lemma param_digit : forall cl cu p c, (length (concat cl) + length cu < 32)%nat -> is_digit c ->
    param (mkVt v i gn cl cu p o u) c = mkVt v i gn cl cu (dstep p c) o u.
  Proof.
    intros cl cu p c Hlt Hc. unfold is_digit in Hc.
    unfold param, count_values, max_values, max_value. cbn [vs ints ign closed cur pend osc uni].
    destruct (Nat.eqb_spec (length (concat cl) + length cu) 32) as [E|_]; [lia|].
    destruct (N.eqb_spec c 59) as [E|_]; [lia|].
    destruct (N.eqb_spec c 58) as [E|_]; [lia|]. reflexivity.
  Qed.

  Lemma param_colon : forall cl cu p, (length (concat cl) + length cu < 32)%nat ->
    param (mkVt v i gn cl cu p o u) 58 = mkVt v i gn cl (cu ++ [p]) 0 o u.
  Proof.
    intros cl cu p Hlt.
    unfold param, count_values, max_values. cbn [vs ints ign closed cur pend osc uni].
    destruct (Nat.eqb_spec (length (concat cl) + length cu) 32) as [E|_]; [lia|]. reflexivity.
  Qed.

  Lemma param_semi : forall cl cu p, (length (concat cl) + length cu < 32)%nat ->
    param (mkVt v i gn cl cu p o u) 59 = mkVt v i gn (cl ++ [cu ++ [p]]) [] 0 o u.
  Proof.
    intros cl cu p Hlt.
    unfold param, count_values, max_values. cbn [vs ints ign closed cur pend osc uni].
    destruct (Nat.eqb_spec (length (concat cl) + length cu) 32) as [E|_]; [lia|]. reflexivity.
  Qed.

  Lemma fold_digits : forall ds cl cu p, (length (concat cl) + length cu < 32)%nat ->
    Forall is_digit ds ->
    fold_left param ds (mkVt v i gn cl cu p o u) = mkVt v i gn cl cu (fold_left dstep ds p) o u.
  Proof.
    induction ds as [|c ds IH]; intros cl cu p Hlt HF; [reflexivity|].
    inversion HF as [|? ? Hc Hds]; subst.
    cbn [fold_left]. rewrite (param_digit cl cu p c Hlt Hc). apply IH; assumption.
  Qed.

  (* one group: sub-parameters separated by ':' *)
  Lemma fold_group : forall g cl cu, g <> [] -> Forall (Forall is_digit) g ->
    (length (concat cl) + length cu + length g <= 32)%nat ->
    fold_left param (csi_join 58 g) (mkVt v i gn cl cu 0 o u)
    = mkVt v i gn cl (cu ++ map val (removelast g)) (val (last g [])) o u.
  Proof.
    induction g as [|d rest IH]; intros cl cu Hne HF Hlen; [congruence|].
    inversion HF as [|? ? Hd Hrest]; subst. cbn [length] in Hlen.
    destruct (nil_or_not _ rest) as [-> | Hr].
    - rewrite csi_join_single. cbn [removelast last map].
      rewrite fold_digits; [| lia | exact Hd].
      rewrite app_nil_r, dstep_fold_val. reflexivity.
    - rewrite (csi_join_cons_ne 58 d rest Hr), fold_left_app.
      rewrite fold_digits; [| lia | exact Hd].
      cbn [fold_left]. rewrite param_colon by lia.
      rewrite dstep_fold_val.
      rewrite IH; [| exact Hr | exact Hrest | rewrite app_length; cbn [length]; lia].
      rewrite (removelast_cons_ne _ d rest Hr), (last_cons_ne _ d [] rest Hr).
      cbn [map]. rewrite <- app_assoc. reflexivity.
  Qed.

  (* all groups, separated by ';', then the dispatch's view of the parameters *)
  Lemma fold_groups : forall dss cl, dss <> [] -> Forall (fun g => g <> []) dss ->
    Forall (Forall (Forall is_digit)) dss ->
    (length (concat cl) + length (concat dss) <= 32)%nat ->
    final_params (fold_left param (print_digit_params dss) (mkVt v i gn cl [] 0 o u))
    = (cl ++ map (map val) dss, gn).
  Proof.
    unfold print_digit_params.
    induction dss as [|g rest IH]; intros cl Hne Hnes HF Hlen; [congruence|].
    inversion Hnes as [|? ? Hg Hnes']; subst.
    inversion HF as [|? ? HFg HFrest]; subst.
    cbn [concat] in Hlen. rewrite app_length in Hlen.
    pose proof (length_removelast_S _ g Hg) as Hrl.
    destruct (nil_or_not _ rest) as [-> | Hr].
    - cbn [map]. rewrite csi_join_single.
      rewrite fold_group; [| exact Hg | exact HFg | cbn [length]; lia].
      cbn [app].
      unfold final_params, count_values, max_values. cbn [closed cur pend ign].
      destruct (Nat.eqb_spec (length (concat cl) + length (map val (removelast g))) 32) as [E|_].
      + rewrite map_length in E. lia.
      + rewrite (map_removelast_last _ _ val g [] Hg). reflexivity.
    - cbn [map].
      assert (Hm : map (csi_join 58) rest <> []).
      { intro E. apply map_eq_nil in E. contradiction. }
      rewrite (csi_join_cons_ne 59 _ _ Hm), fold_left_app.
      rewrite fold_group; [| exact Hg | exact HFg | cbn [length]; lia].
      cbn [fold_left app].
      rewrite param_semi by (rewrite map_length; lia).
      rewrite (map_removelast_last _ _ val g [] Hg).
      rewrite IH; [| exact Hr | exact Hnes' | exact HFrest |].
      + rewrite <- app_assoc. reflexivity.
      + rewrite concat_app, app_length. cbn [concat]. rewrite app_nil_r, map_length. lia.
  Qed.
End Params.

Lemma print_digit_params_bytes : forall dss, Forall (Forall (Forall is_digit)) dss ->
  Forall (fun b => 48 <= b <= 59) (print_digit_params dss).
Proof.
  intros dss HF. unfold print_digit_params.
  apply csi_join_Forall; [lia|].
  apply Forall_map. apply Forall_forall. intros g Hin.
  rewrite Forall_forall in HF. specialize (HF g Hin).
  apply csi_join_Forall; [lia|].
  eapply Forall_impl; [| exact HF]. intros ds Hds. cbn beta in Hds.
  eapply Forall_impl; [| exact Hds]. intros c Hc. unfold is_digit in Hc. cbn beta. lia.
Qed.

Theorem csi_roundtrip_digits : forall dss f,
  dss <> [] -> Forall (fun g => g <> []) dss -> Forall (Forall (Forall is_digit)) dss ->
  (length (concat dss) <= 32)%nat -> 64 <= f <= 126 ->
  spec_events ([27; 91] ++ print_digit_params dss ++ [f])
  = [ECsi (map (map (fun ds => N.min 65535 (digits_val ds))) dss) [] false f].
Proof.
  intros dss f Hne Hnes HF Hlen Hf.
  rewrite (spec_events_csi _ f (print_digit_params_bytes dss HF) Hf).
  rewrite fold_param_ints. unfold csi_start.
  rewrite (fold_groups VCsiEntry [] false [] None dss [] Hne Hnes HF) by (cbn [concat length]; lia).
  cbn [fst snd app ints]. reflexivity.
Qed.

(* ---- a concrete printer -------------------------------------------------- *)

(* decimal without leading zeros, for values up to 65535 (five digits suffice) *)
Fixpoint dec_digits (fuel : nat) (n : N) (acc : list N) : list N :=
  match fuel with
  | O => acc
  | S k => if n <? 10 then (48 + n) :: acc else dec_digits k (n / 10) ((48 + n mod 10) :: acc)
  end.
Definition print_u16 (n : N) : list N := dec_digits 5 n [].

Lemma dec_digits_digits : forall fuel n acc,
  Forall is_digit acc -> Forall is_digit (dec_digits fuel n acc).
Proof.
  induction fuel as [|k IH]; intros n acc Hacc; [exact Hacc|].
  cbn [dec_digits]. destruct (N.ltb_spec n 10) as [Hlt|Hge].
  - constructor; [unfold is_digit; lia | exact Hacc].
  - apply IH. constructor; [| exact Hacc].
    pose proof (N.mod_upper_bound n 10 ltac:(lia)) as Hm. unfold is_digit.
    set (m := n mod 10) in *. clearbody m. lia.
Qed.

Lemma print_u16_digits_all : forall n, Forall is_digit (print_u16 n).
Proof. intros n. apply dec_digits_digits. constructor. Qed.

Lemma print_u16_digits : forall n, n <= 65535 -> Forall is_digit (print_u16 n).
Proof. intros n _. apply print_u16_digits_all. Qed.

Fixpoint pow10 (k : nat) : N := match k with O => 1 | S k => 10 * pow10 k end.

Lemma dec_digits_val : forall fuel n acc, n < pow10 fuel ->
  fold_left (fun v c => 10 * v + (c - 48)) (dec_digits fuel n acc) 0
  = fold_left (fun v c => 10 * v + (c - 48)) acc n.
Proof.
  induction fuel as [|k IH]; intros n acc Hlt.
  - cbn [pow10] in Hlt. cbn [dec_digits]. replace n with 0 by lia. reflexivity.
  - cbn [pow10] in Hlt. cbn [dec_digits]. destruct (N.ltb_spec n 10) as [H10|H10].
    + cbn [fold_left]. f_equal. lia.
    + rewrite (IH (n / 10)).
      * cbn [fold_left]. f_equal.
        pose proof (N.div_mod n 10 ltac:(lia)) as Hdm.
        set (q := n / 10) in *. set (m := n mod 10) in *. clearbody q m. lia.
      * apply N.div_lt_upper_bound; [lia | exact Hlt].
Qed.

Lemma print_u16_val : forall n, n <= 65535 -> digits_val (print_u16 n) = n.
Proof.
  intros n Hn. unfold digits_val, print_u16.
  rewrite (dec_digits_val 5 n []).
  - reflexivity.
  - change (pow10 5) with 100000. lia.
Qed.

Lemma digits_val_zeros : forall z ds, digits_val (repeat 48 z ++ ds) = digits_val ds.
Proof.
  intros z ds. unfold digits_val. induction z as [|z IH]; [reflexivity|].
  cbn [repeat app fold_left].
  replace (10 * 0 + (48 - 48)) with 0 by reflexivity. exact IH.
Qed.

Definition print_params (ps : list (list N)) : list N := print_digit_params (map (map print_u16) ps).

(* with leading zeros: zs gives the number of zeros in front of each value *)
Definition print_params_z (ps : list (list (nat * N))) : list N :=
  print_digit_params (map (map (fun zv => repeat 48 (fst zv) ++ print_u16 (snd zv))) ps).

Lemma map_nonempty : forall (A B : Type) (h : A -> B) (ps : list (list A)),
  Forall (fun g => g <> []) ps -> Forall (fun g => g <> []) (map (map h) ps).
Proof.
  intros A B h ps HF. apply Forall_map. eapply Forall_impl; [| exact HF].
  intros g Hg E. cbn beta in *. apply map_eq_nil in E. contradiction.
Qed.

Theorem csi_roundtrip_zeros : forall ps f,
  ps <> [] -> Forall (fun g => g <> []) ps -> (length (concat ps) <= 32)%nat ->
  Forall (Forall (fun zv => snd zv <= 65535)) ps -> 64 <= f <= 126 ->
  spec_events ([27; 91] ++ print_params_z ps ++ [f]) = [ECsi (map (map snd) ps) [] false f].
Proof.
  intros ps f Hne Hnes Hlen Hv Hf. unfold print_params_z.
  set (pr := fun zv : nat * N => repeat 48 (fst zv) ++ print_u16 (snd zv)).
  rewrite csi_roundtrip_digits.
  - rewrite map_map.
    rewrite (map_ext (fun x => map (fun ds => N.min 65535 (digits_val ds)) (map pr x))
                     (map (fun zv => N.min 65535 (digits_val (pr zv)))))
      by (intros x; apply map_map).
    rewrite (map_map_ext_Forall _ _ (fun zv => snd zv <= 65535)
               (fun zv => N.min 65535 (digits_val (pr zv))) snd ps); [reflexivity | | exact Hv].
    intros [z x] Hx. unfold pr. cbn [fst snd] in *.
    rewrite digits_val_zeros, (print_u16_val x Hx). lia.
  - intro E. apply map_eq_nil in E. contradiction.
  - apply map_nonempty. exact Hnes.
  - apply Forall_map. eapply Forall_impl; [| exact Hv]. intros g _. cbn beta.
    apply Forall_map. apply Forall_forall. intros zv _. unfold pr.
    apply Forall_app. split.
    + apply Forall_forall. intros c Hc. apply repeat_spec in Hc. subst c. unfold is_digit. lia.
    + apply print_u16_digits_all.
  - rewrite length_concat_map_map. exact Hlen.
  - exact Hf.
Qed.

Theorem csi_roundtrip : forall ps f,
  ps <> [] -> Forall (fun g => g <> []) ps -> (length (concat ps) <= 32)%nat ->
  Forall (Forall (fun v => v <= 65535)) ps -> 64 <= f <= 126 ->
  spec_events ([27; 91] ++ print_params ps ++ [f]) = [ECsi ps [] false f].
Proof.
  intros ps f Hne Hnes Hlen Hv Hf. unfold print_params.
  rewrite csi_roundtrip_digits.
  - rewrite map_map.
    rewrite (map_ext (fun x => map (fun ds => N.min 65535 (digits_val ds)) (map print_u16 x))
                     (map (fun n => N.min 65535 (digits_val (print_u16 n)))))
      by (intros x; apply map_map).
    rewrite (map_map_ext_Forall _ _ (fun n => n <= 65535)
               (fun n => N.min 65535 (digits_val (print_u16 n))) (fun n => n) ps);
      [rewrite map_map_id; reflexivity | | exact Hv].
    intros x Hx. cbn beta. rewrite (print_u16_val x Hx). lia.
  - intro E. apply map_eq_nil in E. contradiction.
  - apply map_nonempty. exact Hnes.
  - apply Forall_map. eapply Forall_impl; [| exact Hv]. intros g _. cbn beta.
    apply Forall_map. apply Forall_forall. intros n _. apply print_u16_digits_all.
  - rewrite length_concat_map_map. exact Hlen.
  - exact Hf.
Qed.

(* sanity checks on concrete inputs *)
Example csi_example_1 :
  spec_events [27; 91; 49; 58; 50; 59; 59; 51; 109] = [ECsi [[1; 2]; [0]; [3]] [] false 109].
Proof. vm_compute. reflexivity. Qed.

Example csi_example_2 :
  print_params [[38; 2]; [65535]; [0]] = [51; 56; 58; 50; 59; 54; 53; 53; 51; 53; 59; 48].
Proof. vm_compute. reflexivity. Qed.
