(* Proofs/Adapters.v -- C16: every conversion of Model/Adapters.v, read through the
   meaning tables of Spec/Targets.v, is the projection of the source style onto
   what the target can express.

   Finite facts (16 colour arms per adapter, 4096 effect sets per adapter, 256 font
   styles) are complete enumerations inside the kernel ([forallb .. = true] by
   [vm_compute], lifted with [ad_forall_below]); indexed and RGB colours, absent
   colours and the assembly of a whole style are by case analysis. *)
From Coq Require Import NArith List Bool Lia.
From AV Require Import Generated.Adapters Spec.Vt Spec.Sgr Spec.Targets Model.Adapters.
Import ListNotations.
Local Open Scope N_scope.

(* ---- enumeration ---------------------------------------------------------- *)

(* [k-1; ...; 0], by recursion on the binary number (no unary nat) *)
Definition ad_below (k : N) : list N := N.recursion [] (fun i acc => i :: acc) k.

Lemma ad_below_In : forall k x, x < k -> In x (ad_below k).
Proof.
  intros k. induction k using N.peano_ind; intros x Hx; [lia|].
  unfold ad_below. rewrite (N.recursion_succ eq); [|reflexivity|].
  - cbn [In]. destruct (N.eq_dec x k) as [->|Hne]; [now left|right]. apply IHk. lia.
  - intros a b -> c d ->. reflexivity.
Qed.

Lemma ad_forall_below (k : N) (P : N -> bool) :
  forallb P (ad_below k) = true -> forall x, x < k -> P x = true.
Proof. intros H x Hx. rewrite forallb_forall in H. apply H, ad_below_In, Hx. Qed.

(* ---- decidable equality of colours ---------------------------------------- *)

Lemma ad_colour_eqb_eq : forall a b, colour_eqb a b = true -> a = b.
Proof.
  intros [x|x|r g b] [y|y|r' g' b']; cbn [colour_eqb]; try discriminate.
  - intros H. apply N.eqb_eq in H. now subst.
  - intros H. apply N.eqb_eq in H. now subst.
  - rewrite !andb_true_iff, !N.eqb_eq. intros [[-> ->] ->]. reflexivity.
Qed.

Lemma ad_opt_colour_eqb_eq : forall a b, opt_colour_eqb a b = true -> a = b.
Proof.
  intros [a|] [b|]; cbn [opt_colour_eqb]; try discriminate; [|reflexivity].
  intros H. now rewrite (ad_colour_eqb_eq _ _ H).
Qed.

Definition ad_oo_eqb (a b : option (option colour)) : bool :=
  match a, b with
  | Some x, Some y => opt_colour_eqb x y
  | None, None => true
  | _, _ => false
  end.

Lemma ad_oo_eqb_eq : forall a b, ad_oo_eqb a b = true -> a = b.
Proof.
  intros [a|] [b|]; cbn [ad_oo_eqb]; try discriminate; [|reflexivity].
  intros H. now rewrite (ad_opt_colour_eqb_eq _ _ H).
Qed.

(* ---- colours: the generic shape `slot.map(to_*_color)` -------------------- *)

Definition ad_chk_colours (l : ad_lib) (tbl : list (N * list N)) : bool :=
  forallb (fun i => ad_oo_eqb (ad_colour_meaning l (ad_conv_colour tbl (CAnsi i)))
                              (Some (ad_project_colour l (Some (CAnsi i)))))
          (ad_below 16).

Lemma ad_conv_colour_meaning l tbl : ad_chk_colours l tbl = true ->
  forall c, ad_colour_ok (Some c) ->
    ad_colour_meaning l (ad_conv_colour tbl c) = Some (ad_project_colour l (Some c)).
Proof.
  intros H [i|n|r g b] Hok; [|reflexivity|reflexivity].
  apply ad_oo_eqb_eq. exact (ad_forall_below 16 _ H i Hok).
Qed.

Lemma ad_slot_conv l tbl : ad_chk_colours l tbl = true ->
  forall oc, ad_colour_ok oc ->
    ad_slot_meaning l (option_map (ad_conv_colour tbl) oc) = Some (ad_project_colour l oc).
Proof.
  intros H [c|] Hok; [exact (ad_conv_colour_meaning l tbl H c Hok) | reflexivity].
Qed.

Lemma ad_exact_conv l tbl oc : ad_exact_kept l oc (option_map (ad_conv_colour tbl) oc).
Proof. split; intros; subst; cbn; auto. Qed.

(* from "the slot means the projected colour" to the per-attribute claims *)
Lemma ad_hue_from_project l src tgt :
  ad_slot_meaning l tgt = Some (ad_project_colour l src) -> ad_hue_kept l src tgt.
Proof.
  intros Hm i ->. rewrite Hm. cbn [ad_project_colour ad_hue_of].
  destruct (ad_has_bright l); [reflexivity|]. rewrite N.mod_mod by discriminate. reflexivity.
Qed.

Lemma ad_bright_from_project l src tgt : ad_has_bright l = true ->
  ad_slot_meaning l tgt = Some (ad_project_colour l src) -> ad_brightness_kept l src tgt.
Proof.
  intros Hb Hm i ->. rewrite Hm. cbn [ad_project_colour ad_bright_of]. rewrite Hb. reflexivity.
Qed.

(* ---- effects: the generic shape ------------------------------------------- *)

Definition ad_chk_effects (l : ad_lib) (tbl : list (N * list N)) : bool :=
  forallb (fun e => match ad_attrs_meaning l (ad_conv_effects tbl e) with
                    | Some m => m =? N.land e (ad_expressible l)
                    | None => false
                    end)
          (ad_below 4096).

Lemma ad_effects_conv l tbl : ad_chk_effects l tbl = true ->
  forall e, e < 4096 ->
    ad_attrs_meaning l (ad_conv_effects tbl e) = Some (N.land e (ad_expressible l)).
Proof.
  intros H e He. pose proof (ad_forall_below 4096 _ H e He) as E. cbv beta in E.
  destruct (ad_attrs_meaning l (ad_conv_effects tbl e)); [|discriminate].
  apply N.eqb_eq in E. now subst.
Qed.

(* ---- the enumerations ------------------------------------------------------ *)

Lemma ad_chk_colours_crossterm : ad_chk_colours AdCrossterm ad_gen_crossterm_colors = true.
Proof. vm_compute. reflexivity. Qed.
Lemma ad_chk_colours_owo : ad_chk_colours AdOwo ad_gen_owo_colors = true.
Proof. vm_compute. reflexivity. Qed.
Lemma ad_chk_colours_termcolor : ad_chk_colours AdTermcolor ad_gen_termcolor_colors = true.
Proof. vm_compute. reflexivity. Qed.
Lemma ad_chk_colours_yansi : ad_chk_colours AdYansi ad_gen_yansi_colors = true.
Proof. vm_compute. reflexivity. Qed.

Lemma ad_chk_effects_crossterm : ad_chk_effects AdCrossterm ad_gen_crossterm_effects = true.
Proof. vm_compute. reflexivity. Qed.
Lemma ad_chk_effects_owo : ad_chk_effects AdOwo ad_gen_owo_effects = true.
Proof. vm_compute. reflexivity. Qed.
Lemma ad_chk_effects_termcolor : ad_chk_effects AdTermcolor ad_gen_termcolor_effects = true.
Proof. vm_compute. reflexivity. Qed.
Lemma ad_chk_effects_yansi : ad_chk_effects AdYansi ad_gen_yansi_effects = true.
Proof. vm_compute. reflexivity. Qed.

(* which effects each target can express, spelled out *)
Lemma ad_expressible_values :
  ad_expressible AdAnsiTerm = 3855 /\ ad_expressible AdCrossterm = 4095 /\ ad_expressible AdOwo = 3855 /\
  ad_expressible AdTermcolor = 15 /\ ad_expressible AdYansi = 3855.
Proof. vm_compute. repeat split. Qed.

(* the constructors used for indexed / RGB colours are the libraries' *)
Lemma ad_indexed_rgb_ctors :
  (ad_gen_ansi_term_fixed = ad_fixed_ctor AdAnsiTerm /\ ad_gen_ansi_term_rgb = ad_rgb_ctor AdAnsiTerm) /\
  (ad_gen_crossterm_fixed = ad_fixed_ctor AdCrossterm /\ ad_gen_crossterm_rgb = ad_rgb_ctor AdCrossterm) /\
  (ad_gen_owo_fixed = ad_fixed_ctor AdOwo /\ ad_gen_owo_rgb = ad_rgb_ctor AdOwo) /\
  (ad_gen_termcolor_fixed = ad_fixed_ctor AdTermcolor /\ ad_gen_termcolor_rgb = ad_rgb_ctor AdTermcolor) /\
  (ad_gen_yansi_fixed = ad_fixed_ctor AdYansi /\ ad_gen_yansi_rgb = ad_rgb_ctor AdYansi).
Proof. vm_compute. repeat split. Qed.

(* ---- crossterm ------------------------------------------------------------- *)

Lemma ad_style_crossterm : forall s, ad_src_ok s ->
  ad_meaning AdCrossterm (ad_to_crossterm s) = Some (ad_project AdCrossterm s).
Proof.
  intros s (Hf & Hb & Hu & He). unfold ad_meaning, ad_to_crossterm.
  cbn [ad_t_fg ad_t_bg ad_t_ul ad_t_attrs ad_has_ul].
  rewrite (ad_slot_conv _ _ ad_chk_colours_crossterm _ Hf), (ad_slot_conv _ _ ad_chk_colours_crossterm _ Hb),
    (ad_slot_conv _ _ ad_chk_colours_crossterm _ Hu), (ad_effects_conv _ _ ad_chk_effects_crossterm _ He).
  unfold ad_project, ad_project_effects. cbn [ad_has_ul]. rewrite N.lor_0_r. reflexivity.
Qed.

Lemma ad_effects_crossterm : forall s, ad_src_ok s ->
  ad_attrs_meaning AdCrossterm (ad_t_attrs (ad_to_crossterm s)) = Some (ad_project_effects AdCrossterm s).
Proof.
  intros s (_ & _ & _ & He). unfold ad_to_crossterm, ad_project_effects. cbn [ad_t_attrs].
  rewrite (ad_effects_conv _ _ ad_chk_effects_crossterm _ He), N.lor_0_r. reflexivity.
Qed.

Lemma ad_hue_crossterm : forall s, ad_src_ok s ->
  ad_hue_kept AdCrossterm (s_fg s) (ad_t_fg (ad_to_crossterm s)) /\
  ad_hue_kept AdCrossterm (s_bg s) (ad_t_bg (ad_to_crossterm s)) /\
  ad_hue_kept AdCrossterm (s_ul s) (ad_t_ul (ad_to_crossterm s)).
Proof.
  intros s (Hf & Hb & Hu & _). repeat split; apply ad_hue_from_project;
    apply (ad_slot_conv _ _ ad_chk_colours_crossterm); assumption.
Qed.

Lemma ad_bright_crossterm : forall s, ad_src_ok s ->
  ad_brightness_kept AdCrossterm (s_fg s) (ad_t_fg (ad_to_crossterm s)) /\
  ad_brightness_kept AdCrossterm (s_bg s) (ad_t_bg (ad_to_crossterm s)) /\
  ad_brightness_kept AdCrossterm (s_ul s) (ad_t_ul (ad_to_crossterm s)).
Proof.
  intros s (Hf & Hb & Hu & _). repeat split; apply ad_bright_from_project; try reflexivity;
    apply (ad_slot_conv _ _ ad_chk_colours_crossterm); assumption.
Qed.

Lemma ad_exact_crossterm : forall s,
  ad_exact_kept AdCrossterm (s_fg s) (ad_t_fg (ad_to_crossterm s)) /\
  ad_exact_kept AdCrossterm (s_bg s) (ad_t_bg (ad_to_crossterm s)) /\
  ad_exact_kept AdCrossterm (s_ul s) (ad_t_ul (ad_to_crossterm s)).
Proof. intros s. split; [|split]; apply ad_exact_conv. Qed.

(* ---- owo-colors ------------------------------------------------------------ *)

Lemma ad_style_owo : forall s, ad_src_ok s ->
  ad_meaning AdOwo (ad_to_owo s) = Some (ad_project AdOwo s).
Proof.
  intros s (Hf & Hb & _ & He). unfold ad_meaning, ad_to_owo.
  cbn [ad_t_fg ad_t_bg ad_t_ul ad_t_attrs ad_has_ul].
  rewrite (ad_slot_conv _ _ ad_chk_colours_owo _ Hf), (ad_slot_conv _ _ ad_chk_colours_owo _ Hb),
    (ad_effects_conv _ _ ad_chk_effects_owo _ He).
  unfold ad_project, ad_project_effects. cbn [ad_has_ul]. rewrite N.lor_0_r. reflexivity.
Qed.

Lemma ad_effects_owo : forall s, ad_src_ok s ->
  ad_attrs_meaning AdOwo (ad_t_attrs (ad_to_owo s)) = Some (ad_project_effects AdOwo s).
Proof.
  intros s (_ & _ & _ & He). unfold ad_to_owo, ad_project_effects. cbn [ad_t_attrs].
  rewrite (ad_effects_conv _ _ ad_chk_effects_owo _ He), N.lor_0_r. reflexivity.
Qed.

Lemma ad_hue_owo : forall s, ad_src_ok s ->
  ad_hue_kept AdOwo (s_fg s) (ad_t_fg (ad_to_owo s)) /\
  ad_hue_kept AdOwo (s_bg s) (ad_t_bg (ad_to_owo s)).
Proof.
  intros s (Hf & Hb & _). split; apply ad_hue_from_project;
    apply (ad_slot_conv _ _ ad_chk_colours_owo); assumption.
Qed.

Lemma ad_bright_owo : forall s, ad_src_ok s ->
  ad_brightness_kept AdOwo (s_fg s) (ad_t_fg (ad_to_owo s)) /\
  ad_brightness_kept AdOwo (s_bg s) (ad_t_bg (ad_to_owo s)).
Proof.
  intros s (Hf & Hb & _). split; apply ad_bright_from_project; try reflexivity;
    apply (ad_slot_conv _ _ ad_chk_colours_owo); assumption.
Qed.

Lemma ad_exact_owo : forall s,
  ad_exact_kept AdOwo (s_fg s) (ad_t_fg (ad_to_owo s)) /\
  ad_exact_kept AdOwo (s_bg s) (ad_t_bg (ad_to_owo s)).
Proof. intros s. split; apply ad_exact_conv. Qed.

(* ---- termcolor ------------------------------------------------------------- *)

Lemma ad_style_termcolor : forall s, ad_src_ok s ->
  ad_meaning AdTermcolor (ad_to_termcolor s) = Some (ad_project AdTermcolor s).
Proof.
  intros s (Hf & Hb & _ & He). unfold ad_meaning, ad_to_termcolor.
  cbn [ad_t_fg ad_t_bg ad_t_ul ad_t_attrs ad_has_ul].
  rewrite (ad_slot_conv _ _ ad_chk_colours_termcolor _ Hf), (ad_slot_conv _ _ ad_chk_colours_termcolor _ Hb),
    (ad_effects_conv _ _ ad_chk_effects_termcolor _ He).
  unfold ad_project, ad_project_effects. cbn [ad_has_ul]. rewrite N.lor_0_r. reflexivity.
Qed.

Lemma ad_effects_termcolor : forall s, ad_src_ok s ->
  ad_attrs_meaning AdTermcolor (ad_t_attrs (ad_to_termcolor s)) = Some (ad_project_effects AdTermcolor s).
Proof.
  intros s (_ & _ & _ & He). unfold ad_to_termcolor, ad_project_effects. cbn [ad_t_attrs].
  rewrite (ad_effects_conv _ _ ad_chk_effects_termcolor _ He), N.lor_0_r. reflexivity.
Qed.

Lemma ad_hue_termcolor : forall s, ad_src_ok s ->
  ad_hue_kept AdTermcolor (s_fg s) (ad_t_fg (ad_to_termcolor s)) /\
  ad_hue_kept AdTermcolor (s_bg s) (ad_t_bg (ad_to_termcolor s)).
Proof.
  intros s (Hf & Hb & _). split; apply ad_hue_from_project;
    apply (ad_slot_conv _ _ ad_chk_colours_termcolor); assumption.
Qed.

Lemma ad_exact_termcolor : forall s,
  ad_exact_kept AdTermcolor (s_fg s) (ad_t_fg (ad_to_termcolor s)) /\
  ad_exact_kept AdTermcolor (s_bg s) (ad_t_bg (ad_to_termcolor s)).
Proof. intros s. split; apply ad_exact_conv. Qed.

(* ---- yansi: an absent colour is `Primary` ----------------------------------- *)

Definition ad_yansi_slot (dflt : list N) (oc : option colour) : option ad_tcolor :=
  Some (match oc with Some c => ad_conv_colour ad_gen_yansi_colors c | None => AdNamed dflt end).

Lemma ad_yansi_defaults :
  ad_colour_meaning AdYansi (AdNamed ad_gen_yansi_default_fg) = Some None /\
  ad_colour_meaning AdYansi (AdNamed ad_gen_yansi_default_bg) = Some None.
Proof. vm_compute. split; reflexivity. Qed.

Lemma ad_slot_yansi dflt : ad_colour_meaning AdYansi (AdNamed dflt) = Some None ->
  forall oc, ad_colour_ok oc ->
    ad_slot_meaning AdYansi (ad_yansi_slot dflt oc) = Some (ad_project_colour AdYansi oc).
Proof.
  intros Hd [c|] Hok; unfold ad_yansi_slot, ad_slot_meaning.
  - exact (ad_conv_colour_meaning _ _ ad_chk_colours_yansi c Hok).
  - exact Hd.
Qed.

Lemma ad_exact_yansi_slot dflt oc : ad_exact_kept AdYansi oc (ad_yansi_slot dflt oc).
Proof. split; intros; subst; cbn; auto. Qed.

Lemma ad_style_yansi : forall s, ad_src_ok s ->
  ad_meaning AdYansi (ad_to_yansi s) = Some (ad_project AdYansi s).
Proof.
  intros s (Hf & Hb & _ & He). unfold ad_meaning, ad_to_yansi.
  cbn [ad_t_fg ad_t_bg ad_t_ul ad_t_attrs ad_has_ul].
  fold (ad_yansi_slot ad_gen_yansi_default_fg (s_fg s)). fold (ad_yansi_slot ad_gen_yansi_default_bg (s_bg s)).
  rewrite (ad_slot_yansi _ (proj1 ad_yansi_defaults) _ Hf), (ad_slot_yansi _ (proj2 ad_yansi_defaults) _ Hb),
    (ad_effects_conv _ _ ad_chk_effects_yansi _ He).
  unfold ad_project, ad_project_effects. cbn [ad_has_ul]. rewrite N.lor_0_r. reflexivity.
Qed.

Lemma ad_effects_yansi : forall s, ad_src_ok s ->
  ad_attrs_meaning AdYansi (ad_t_attrs (ad_to_yansi s)) = Some (ad_project_effects AdYansi s).
Proof.
  intros s (_ & _ & _ & He). unfold ad_to_yansi, ad_project_effects. cbn [ad_t_attrs].
  rewrite (ad_effects_conv _ _ ad_chk_effects_yansi _ He), N.lor_0_r. reflexivity.
Qed.

Lemma ad_hue_yansi : forall s, ad_src_ok s ->
  ad_hue_kept AdYansi (s_fg s) (ad_t_fg (ad_to_yansi s)) /\
  ad_hue_kept AdYansi (s_bg s) (ad_t_bg (ad_to_yansi s)).
Proof.
  intros s (Hf & Hb & _). split; apply ad_hue_from_project.
  - exact (ad_slot_yansi _ (proj1 ad_yansi_defaults) _ Hf).
  - exact (ad_slot_yansi _ (proj2 ad_yansi_defaults) _ Hb).
Qed.

Lemma ad_bright_yansi : forall s, ad_src_ok s ->
  ad_brightness_kept AdYansi (s_fg s) (ad_t_fg (ad_to_yansi s)) /\
  ad_brightness_kept AdYansi (s_bg s) (ad_t_bg (ad_to_yansi s)).
Proof.
  intros s (Hf & Hb & _). split; apply ad_bright_from_project; try reflexivity.
  - exact (ad_slot_yansi _ (proj1 ad_yansi_defaults) _ Hf).
  - exact (ad_slot_yansi _ (proj2 ad_yansi_defaults) _ Hb).
Qed.

Lemma ad_exact_yansi : forall s,
  ad_exact_kept AdYansi (s_fg s) (ad_t_fg (ad_to_yansi s)) /\
  ad_exact_kept AdYansi (s_bg s) (ad_t_bg (ad_to_yansi s)).
Proof. intros s. split; apply ad_exact_yansi_slot. Qed.

(* ---- ansi_term: colour + "also bold" flag ---------------------------------- *)

Definition ad_at_slot (oc : option colour) : option ad_tcolor := option_map fst (option_map ad_at_colour oc).

Definition ad_chk_at_colours : bool :=
  forallb (fun i => ad_oo_eqb (ad_colour_meaning AdAnsiTerm (fst (ad_at_colour (CAnsi i))))
                              (Some (Some (CAnsi (i mod 8)))) &&
                    Bool.eqb (snd (ad_at_colour (CAnsi i))) (8 <=? i))
          (ad_below 16).

Lemma ad_chk_at_colours_ok : ad_chk_at_colours = true.
Proof. vm_compute. reflexivity. Qed.

Lemma ad_at_colour_ansi : forall i, i < 16 ->
  ad_colour_meaning AdAnsiTerm (fst (ad_at_colour (CAnsi i))) = Some (Some (CAnsi (i mod 8))) /\
  snd (ad_at_colour (CAnsi i)) = (8 <=? i).
Proof.
  intros i Hi. pose proof (ad_forall_below 16 _ ad_chk_at_colours_ok i Hi) as E. cbv beta in E.
  apply andb_true_iff in E. destruct E as [E1 E2]. split.
  - now apply ad_oo_eqb_eq.
  - now apply Bool.eqb_prop.
Qed.

Lemma ad_slot_ansi_term : forall oc, ad_colour_ok oc ->
  ad_slot_meaning AdAnsiTerm (ad_at_slot oc) = Some (ad_project_colour AdAnsiTerm oc).
Proof.
  intros [[i|n|r g b]|] Hok; try reflexivity.
  exact (proj1 (ad_at_colour_ansi i Hok)).
Qed.

Lemma ad_exact_at_slot oc : ad_exact_kept AdAnsiTerm oc (ad_at_slot oc).
Proof. split; intros; subst; cbn; auto. Qed.

(* the attribute calls: the foreground's bold flag first, then the effects *)
Definition ad_at_attrs (b : bool) (e : N) : list (list N) :=
  (if b then [ad_gen_ansi_term_fg_bold] else []) ++ ad_conv_effects ad_gen_ansi_term_effects e.

Lemma ad_at_attrs_of : forall s, ad_colour_ok (s_fg s) ->
  ad_t_attrs (ad_to_ansi_term s) = ad_at_attrs (ad_is_bright (s_fg s)) (s_eff s).
Proof.
  intros s Hok. unfold ad_to_ansi_term, ad_at_attrs. cbn [ad_t_attrs]. f_equal.
  destruct (s_fg s) as [[i|n|r g b]|]; try reflexivity.
  cbn [option_map ad_is_bright]. rewrite <- (proj2 (ad_at_colour_ansi i Hok)).
  destruct (ad_at_colour (CAnsi i)) as [c []]; reflexivity.
Qed.

Definition ad_chk_at_effects (b : bool) : bool :=
  forallb (fun e => match ad_attrs_meaning AdAnsiTerm (ad_at_attrs b e) with
                    | Some m => (m =? N.lor (N.land e (ad_expressible AdAnsiTerm)) (if b then bit BOLD else 0))
                                && Bool.eqb (N.testbit m BOLD) (N.testbit e BOLD || b)
                                && (N.ldiff m (bit BOLD) =? N.land (N.ldiff e (bit BOLD)) (ad_expressible AdAnsiTerm))
                    | None => false
                    end)
          (ad_below 4096).

Lemma ad_chk_at_effects_true : ad_chk_at_effects true = true.
Proof. vm_compute. reflexivity. Qed.
Lemma ad_chk_at_effects_false : ad_chk_at_effects false = true.
Proof. vm_compute. reflexivity. Qed.

Lemma ad_at_effects : forall b e, e < 4096 ->
  exists m, ad_attrs_meaning AdAnsiTerm (ad_at_attrs b e) = Some m /\
    m = N.lor (N.land e (ad_expressible AdAnsiTerm)) (if b then bit BOLD else 0) /\
    N.testbit m BOLD = (N.testbit e BOLD || b) /\
    N.ldiff m (bit BOLD) = N.land (N.ldiff e (bit BOLD)) (ad_expressible AdAnsiTerm).
Proof.
  intros b e He.
  assert (H : ad_chk_at_effects b = true)
    by (destruct b; [exact ad_chk_at_effects_true | exact ad_chk_at_effects_false]).
  pose proof (ad_forall_below 4096 _ H e He) as E. cbv beta in E.
  destruct (ad_attrs_meaning AdAnsiTerm (ad_at_attrs b e)) as [m|]; [|discriminate].
  apply andb_true_iff in E. destruct E as [E E3]. apply andb_true_iff in E. destruct E as [E1 E2].
  exists m. repeat split.
  - now apply N.eqb_eq.
  - now apply Bool.eqb_prop.
  - now apply N.eqb_eq.
Qed.

Lemma ad_effects_ansi_term : forall s, ad_src_ok s ->
  ad_attrs_meaning AdAnsiTerm (ad_t_attrs (ad_to_ansi_term s)) = Some (ad_project_effects AdAnsiTerm s).
Proof.
  intros s (Hf & _ & _ & He). rewrite (ad_at_attrs_of s Hf).
  destruct (ad_at_effects (ad_is_bright (s_fg s)) (s_eff s) He) as (m & Hm & -> & _). exact Hm.
Qed.

Lemma ad_style_ansi_term : forall s, ad_src_ok s ->
  ad_meaning AdAnsiTerm (ad_to_ansi_term s) = Some (ad_project AdAnsiTerm s).
Proof.
  intros s Hs. pose proof (ad_effects_ansi_term s Hs) as HE. destruct Hs as (Hf & Hb & _ & He).
  unfold ad_meaning. rewrite HE. unfold ad_to_ansi_term.
  cbn [ad_t_fg ad_t_bg ad_t_ul ad_has_ul].
  fold (ad_at_slot (s_fg s)). fold (ad_at_slot (s_bg s)).
  rewrite (ad_slot_ansi_term _ Hf), (ad_slot_ansi_term _ Hb). reflexivity.
Qed.

Lemma ad_hue_ansi_term : forall s, ad_src_ok s ->
  ad_hue_kept AdAnsiTerm (s_fg s) (ad_t_fg (ad_to_ansi_term s)) /\
  ad_hue_kept AdAnsiTerm (s_bg s) (ad_t_bg (ad_to_ansi_term s)).
Proof.
  intros s (Hf & Hb & _). split; apply ad_hue_from_project.
  - exact (ad_slot_ansi_term _ Hf).
  - exact (ad_slot_ansi_term _ Hb).
Qed.

Lemma ad_exact_ansi_term : forall s,
  ad_exact_kept AdAnsiTerm (s_fg s) (ad_t_fg (ad_to_ansi_term s)) /\
  ad_exact_kept AdAnsiTerm (s_bg s) (ad_t_bg (ad_to_ansi_term s)).
Proof. intros s. split; apply ad_exact_at_slot. Qed.

(* how ansi_term gets its brightness: a bright foreground switches bold on, a
   bright background is shown normal, and nothing else changes *)
Lemma ad_ansi_term_bright_is_bold : forall s, ad_src_ok s ->
  exists m, ad_attrs_meaning AdAnsiTerm (ad_t_attrs (ad_to_ansi_term s)) = Some m /\
    N.testbit m BOLD = (N.testbit (s_eff s) BOLD || ad_is_bright (s_fg s)) /\
    N.ldiff m (bit BOLD) = N.land (N.ldiff (s_eff s) (bit BOLD)) (ad_expressible AdAnsiTerm) /\
    (forall i, s_fg s = Some (CAnsi i) ->
       ad_slot_meaning AdAnsiTerm (ad_t_fg (ad_to_ansi_term s)) = Some (Some (CAnsi (i mod 8)))) /\
    (forall i, s_bg s = Some (CAnsi i) ->
       ad_slot_meaning AdAnsiTerm (ad_t_bg (ad_to_ansi_term s)) = Some (Some (CAnsi (i mod 8)))).
Proof.
  intros s (Hf & Hb & _ & He). rewrite (ad_at_attrs_of s Hf).
  destruct (ad_at_effects (ad_is_bright (s_fg s)) (s_eff s) He) as (m & Hm & _ & H1 & H2).
  exists m. repeat split; try assumption.
  - intros i Hi. change (ad_t_fg (ad_to_ansi_term s)) with (ad_at_slot (s_fg s)).
    rewrite (ad_slot_ansi_term _ Hf), Hi. reflexivity.
  - intros i Hi. change (ad_t_bg (ad_to_ansi_term s)) with (ad_at_slot (s_bg s)).
    rewrite (ad_slot_ansi_term _ Hb), Hi. reflexivity.
Qed.

(* ---- all five at once ------------------------------------------------------- *)

Lemma ad_convert_meaning : forall l s, ad_src_ok s ->
  ad_meaning l (ad_convert l s) = Some (ad_project l s).
Proof.
  intros [] s Hs; cbn [ad_convert].
  - now apply ad_style_ansi_term.
  - now apply ad_style_crossterm.
  - now apply ad_style_owo.
  - now apply ad_style_termcolor.
  - now apply ad_style_yansi.
Qed.

(* ---- syntect ---------------------------------------------------------------- *)

Definition ad_chk_syntect : bool :=
  forallb (fun f => let e := ad_syntect_conv_effects ad_gen_syntect_flags f in
                    (e =? ad_syntect_effects f)
                    && Bool.eqb (N.testbit e BOLD) (N.testbit f 0)
                    && Bool.eqb (N.testbit e UNDERLINE) (N.testbit f 1)
                    && Bool.eqb (N.testbit e ITALIC) (N.testbit f 2)
                    && (N.ldiff e (N.lor (bit BOLD) (N.lor (bit UNDERLINE) (bit ITALIC))) =? 0))
          (ad_below 256).

Lemma ad_chk_syntect_ok : ad_chk_syntect = true.
Proof. vm_compute. reflexivity. Qed.

Lemma ad_syntect_keeps : forall r g b a r' g' b' a' font, font < 256 ->
  let s := ad_from_syntect (r, g, b, a) (r', g', b', a') font in
  s = ad_syntect_expected (r, g, b, a) (r', g', b', a') font /\
  s_fg s = Some (CRgb r g b) /\ s_bg s = Some (CRgb r' g' b') /\ s_ul s = None /\
  N.testbit (s_eff s) BOLD = N.testbit font 0 /\
  N.testbit (s_eff s) UNDERLINE = N.testbit font 1 /\
  N.testbit (s_eff s) ITALIC = N.testbit font 2 /\
  N.ldiff (s_eff s) (N.lor (bit BOLD) (N.lor (bit UNDERLINE) (bit ITALIC))) = 0.
Proof.
  intros r g b a r' g' b' a' font Hf.
  pose proof (ad_forall_below 256 _ ad_chk_syntect_ok font Hf) as E. cbv beta zeta in E.
  repeat (apply andb_true_iff in E; destruct E as [E ?]).
  apply N.eqb_eq in E.
  cbv zeta. unfold ad_from_syntect, ad_syntect_expected. cbn [s_fg s_bg s_ul s_eff].
  repeat split; try (now apply Bool.eqb_prop); try (now apply N.eqb_eq).
  now rewrite E.
Qed.
