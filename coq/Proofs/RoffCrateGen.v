(* Proofs/RoffCrateGen.v -- the third-party crate roff 0.2.1 as TRANSLATED by tools/gen_fn_roffcrate.py
   (Generated/RoffCrateFn.v, from the cargo registry source) equals the hand model of Model/Roff.v section (d)
   ([rf_escape_inline], [rf_escape_leading_cc], [rf_starts_with_cc], [rf_escape_spaces], [rf_render_inlines],
   [rf_render_line], [rf_render], [rf_roff_new / control / text]) that the theorems of C15 are about. *)
From Coq Require Import NArith List Bool Lia.
From AV Require Import Spec.Lossy Model.Base Model.Imp Model.Roff Generated.RoffFn Proofs.RoffGen Generated.RoffCrateFn.
Import ListNotations.
Local Open Scope N_scope.
Local Open Scope bool_scope.

(* ---- the small string functions -------------------------------------------------------------- *)

Lemma g_rc_starts_with_cc_eq : forall s, g_rc_starts_with_cc s = rf_starts_with_cc s.
Proof. intros [|c t]; reflexivity. Qed.

Lemma g_rc_escape_spaces_eq : forall w, g_rc_escape_spaces w = rf_escape_spaces w.
Proof. intros w. unfold g_rc_escape_spaces, rf_escape_spaces, rf_contains_char. destruct (existsb (N.eqb 32) w); reflexivity. Qed.

Lemma g_rc_escape_leading_cc_eq : forall s, g_rc_escape_leading_cc s = rf_escape_leading_cc s.
Proof. reflexivity. Qed.

Lemma g_rc_escape_inline_eq : forall s, g_rc_escape_inline s = rf_escape_inline s.
Proof. reflexivity. Qed.

(* escape_apostrophes has no counterpart in the hand model (to_roff never handles apostrophes): its meaning *)
Lemma g_rc_escape_apostrophes_eq : forall s, g_rc_escape_apostrophes s = rf_replace1 39 [92; 42; 40; 65; 113] s.   (* ' -> \*(Aq *)
Proof. reflexivity. Qed.

(* ---- the constructors -------------------------------------------------------------------------- *)

Lemma g_rc_roman_eq : forall t, g_rc_roman t = RfInRoman t.
Proof. reflexivity. Qed.
Lemma g_rc_bold_eq : forall t, g_rc_bold t = RfInBold t.
Proof. reflexivity. Qed.
Lemma g_rc_italic_eq : forall t, g_rc_italic t = RfInItalic t.
Proof. reflexivity. Qed.
Lemma g_rc_line_break_eq : g_rc_line_break = RfInLineBreak.
Proof. reflexivity. Qed.
Lemma g_rc_line_control_eq : forall name args, g_rc_line_control name args = RfControl name args.
Proof. reflexivity. Qed.
Lemma g_rc_line_text_eq : forall parts, g_rc_line_text parts = RfText parts.
Proof. reflexivity. Qed.

(* ---- Roff::new / control / text (`&mut Self` is returned: the updated document, twice) ------- *)

Lemma g_rc_new_eq : g_rc_new = rf_roff_new.
Proof. reflexivity. Qed.

Lemma g_rc_control_eq : forall d name args,
  g_rc_control d name args = (rf_roff_control d name args, rf_roff_control d name args).
Proof. intros. unfold g_rc_control. cbv zeta. rewrite map_id. reflexivity. Qed.

Lemma g_rc_text_eq : forall d inlines,
  g_rc_text d inlines = (rf_roff_text d inlines, rf_roff_text d inlines).
Proof. reflexivity. Qed.

(* ---- Line::render ------------------------------------------------------------------------------
   The hand model [rf_render_line] is the case Apostrophes::DontHandle (what to_roff passes).  The translation
   has the parameter; [rc_render_line ap] is the renderer for both values (Handle: every apostrophe of an
   escaped text becomes \*(Aq before the leading control characters are guarded), and it IS [rf_render_line]
   at RfDontHandle. *)

Definition rc_inline_text (ap : rf_apostrophes) (t : list N) : list N :=
  rf_escape_leading_cc
    (match ap with
     | RfHandle => rf_replace1 39 [92; 42; 40; 65; 113] (rf_escape_inline t)
     | RfDontHandle => rf_escape_inline t
     end).

Fixpoint rc_render_inlines (ap : rf_apostrophes) (at_line_start : bool) (l : list rf_inline) : list N :=
  match l with
  | [] => []
  | i :: rest =>
      (match i with
       | RfInLineBreak => if at_line_start then [46; 98; 114; 10] else [10; 46; 98; 114; 10]
       | RfInBold t => [92; 102; 66] ++ rc_inline_text ap t ++ [92; 102; 82]
       | RfInItalic t => [92; 102; 73] ++ rc_inline_text ap t ++ [92; 102; 82]
       | RfInRoman t =>
           let text := rc_inline_text ap t in
           (if at_line_start && rf_starts_with_cc text then [92; 38] else []) ++ text
       end) ++ rc_render_inlines ap false rest
  end.

Definition rc_render_line (ap : rf_apostrophes) (l : rf_line) : list N :=
  match l with
  | RfControl name args => 46 :: name ++ concat (map (fun a => 32 :: rf_escape_spaces a) args) ++ [10]
  | RfText inlines => rc_render_inlines ap true inlines ++ [10]
  end.

Lemma rc_render_inlines_dont : forall l b, rc_render_inlines RfDontHandle b l = rf_render_inlines b l.
Proof. induction l as [|i rest IH]; intros b; [reflexivity|]. cbn [rc_render_inlines rf_render_inlines]. rewrite IH. reflexivity. Qed.

Lemma rc_render_line_dont : forall l, rc_render_line RfDontHandle l = rf_render_line l.
Proof. intros [name args|inlines]; [reflexivity|]. cbn [rc_render_line rf_render_line]. rewrite rc_render_inlines_dont. reflexivity. Qed.

Ltac rc_run := cbv beta iota zeta delta [rf_apostrophes_eqb].

(* the translated Line::render appends the rendered line to the bytes written so far and answers Ok(()) *)
Lemma g_rc_line_render_gen : forall ap l out,
  g_rc_line_render l out ap = Some (out ++ rc_render_line ap l, inl tt).
Proof.
  intros ap l out. unfold g_rc_line_render. destruct l as [name args|inlines].
  - (* Control { name, args } *)
    rc_run.
    match goal with |- context [for_list ?f _ _] => set (step := f) end.
    assert (L : forall args acc, for_list step args acc = Some (inl (acc ++ concat (map (fun a => 32 :: rf_escape_spaces a) args)))).
    { induction args0 as [|a rest IH]; intros acc.
      - cbn [for_list map concat]. rewrite app_nil_r. reflexivity.
      - cbn [for_list]. unfold step at 1. rc_run. rewrite IH, g_rc_escape_spaces_eq.
        cbn [map concat]. rewrite <- !app_assoc. reflexivity. }
    rewrite L. rc_run. cbn [rc_render_line]. rewrite <- !app_assoc. reflexivity.
  - (* Text(inlines) *)
    rc_run.
    match goal with |- context [for_list ?f _ _] => set (step := f) end.
    assert (L : forall l acc b, exists b', for_list step l (acc, b) = Some (inl (acc ++ rc_render_inlines ap b l, b'))).
    { induction l as [|i rest IH]; intros acc b.
      - exists b. cbn [for_list rc_render_inlines]. rewrite app_nil_r. reflexivity.
      - cbn [for_list]. unfold step at 1.
        destruct i as [t|t|t|]; destruct ap; rc_run;
          rewrite ?g_rc_starts_with_cc_eq, ?g_rc_escape_leading_cc_eq, ?g_rc_escape_apostrophes_eq, ?g_rc_escape_inline_eq;
          destruct b; cbn [andb]; rc_run;
          try (match goal with |- context [if rf_starts_with_cc ?x then _ else _] => destruct (rf_starts_with_cc x) eqn:Ecc end; rc_run);
          match goal with |- context [for_list step rest (?a, false)] => destruct (IH a false) as [b' E]; exists b'; rewrite E end;
          cbn [rc_render_inlines]; unfold rc_inline_text; rc_run; cbn [andb]; rewrite ?Ecc;
          rewrite <- ?app_assoc; cbn [app]; reflexivity. }
    destruct (L inlines out true) as [b' E]. rewrite E. rc_run. cbn [rc_render_line]. rewrite <- !app_assoc. reflexivity.
Qed.

(* against the hand model: Apostrophes::DontHandle *)
Lemma g_rc_line_render_eq : forall l out,
  g_rc_line_render l out RfDontHandle = Some (out ++ rf_render_line l, inl tt).
Proof. intros l out. rewrite g_rc_line_render_gen, rc_render_line_dont. reflexivity. Qed.

(* ---- Roff::to_roff / to_writer / render --------------------------------------------------------- *)

(* the document rendered with a given apostrophe mode (to_roff: DontHandle = [rf_render]) *)
Definition rc_render_doc (ap : rf_apostrophes) (d : list rf_line) : list N := concat (map (rc_render_line ap) d).

Lemma rc_render_doc_dont : forall d, rc_render_doc RfDontHandle d = rf_render d.
Proof. intros d. unfold rc_render_doc, rf_render. f_equal. apply map_ext. exact rc_render_line_dont. Qed.

(* Roff::to_roff: a fresh Vec<u8>, every line rendered into it without apostrophe handling,
   String::from_utf8(..).expect(..) = the bytes *)
Lemma g_rc_to_roff_eq : forall d, g_rc_to_roff d = Some (rf_render d).
Proof.
  intros d. unfold g_rc_to_roff. rc_run.
  match goal with |- context [for_list0 ?f _ _] => set (step := f) end.
  assert (L : forall l acc, for_list0 step l acc = Some (acc ++ rf_render l)).
  { induction l as [|x rest IH]; intros acc.
    - cbn [for_list0]. unfold rf_render. cbn [map concat]. rewrite app_nil_r. reflexivity.
    - cbn [for_list0]. unfold step at 1. rewrite g_rc_line_render_eq. rc_run. rewrite IH.
      unfold rf_render. cbn [map concat]. rewrite <- !app_assoc. reflexivity. }
  unfold rf_roff_lines. rewrite L. reflexivity.
Qed.

(* Roff::to_writer: the apostrophe preamble, then every line with Apostrophes::Handle; Ok(()) *)
Lemma g_rc_to_writer_eq : forall d w,
  g_rc_to_writer d w = Some (w ++ g_rc_APOSTROPHE_PREABMLE ++ rc_render_doc RfHandle d, inl tt).
Proof.
  intros d w. unfold g_rc_to_writer. rc_run.
  match goal with |- context [for_list ?f _ _] => set (step := f) end.
  assert (L : forall l acc, for_list step l acc = Some (inl (acc ++ rc_render_doc RfHandle l))).
  { induction l as [|x rest IH]; intros acc.
    - cbn [for_list]. unfold rc_render_doc. cbn [map concat]. rewrite app_nil_r. reflexivity.
    - cbn [for_list]. unfold step at 1. rewrite g_rc_line_render_gen. rc_run. rewrite IH.
      unfold rc_render_doc. cbn [map concat]. rewrite <- !app_assoc. reflexivity. }
  unfold rf_roff_lines. rewrite L. rc_run. rewrite <- !app_assoc. reflexivity.
Qed.

(* Roff::render: to_writer into a fresh Vec<u8> *)
Lemma g_rc_render_eq : forall d,
  g_rc_render d = Some (g_rc_APOSTROPHE_PREABMLE ++ rc_render_doc RfHandle d).
Proof. intros d. unfold g_rc_render. rc_run. rewrite g_rc_to_writer_eq. reflexivity. Qed.

(* the preamble: ".ie \n(.g .ds Aq \(aq" / ".el .ds Aq '" (two lines) *)
Lemma g_rc_preamble_eq : g_rc_APOSTROPHE_PREABMLE =
  [46; 105; 101; 32; 92; 110; 40; 46; 103; 32; 46; 100; 115; 32; 65; 113; 32; 92; 40; 97; 113; 10;
   46; 101; 108; 32; 46; 100; 115; 32; 65; 113; 32; 39; 10].
Proof. reflexivity. Qed.

(* ---- entry point ---------------------------------------------------------------------------------
   anstyle_roff::to_roff(text).to_roff() with BOTH halves translated -- anstyle-roff (Generated/RoffFn.v) and
   the roff crate's renderer (Generated/RoffCrateFn.v) -- is the hand model [rf_to_roff] the theorems of C15 are
   about, for every input, panics (None) included *)
Theorem translated_roffcrate_to_roff_is_model : forall input : list N,
  (ls <- g_to_roff input ;; g_rc_to_roff ls) = rf_to_roff input.
Proof.
  intros input. rewrite g_to_roff_eq. unfold rf_to_roff.
  destruct (rf_doc_lines (rf_categorise input)) as [ls|]; [|reflexivity]. apply g_rc_to_roff_eq.
Qed.

(* the renderer alone, after any document builder that agrees with the hand model *)
Theorem translated_roffcrate_render_is_model : forall ls : list rf_line,
  g_rc_to_roff ls = Some (rf_render ls).
Proof. exact g_rc_to_roff_eq. Qed.
