(* Proofs/RoffCrateGen.v -- the third-party crate roff 0.2.1 as TRANSLATED by tools/gen_fn_roffcrate.py
   (Generated/RoffCrateFn.v, from the cargo registry source) equals the hand model of Model/Roff.v section (d)
   ([rf_escape_inline], [rf_escape_leading_cc], [rf_starts_with_cc], [rf_escape_spaces], [rf_render_inlines],
   [rf_render_line], [rf_render], [rf_roff_new / control / text]) that the theorems of C15 are about. *)
From Coq Require Import NArith List Bool Lia.
From AV Require Import Spec.Lossy Model.Base Model.Imp Model.Roff Generated.RoffFn Proofs.RoffGen Generated.RoffCrateFn.
Import ListNotations.
Local Open Scope N_scope.
Local Open Scope bool_scope.

(* ---- the small string functions -------------------------------------------------------------- *)

Lemma g_rc_starts_with_cc_eq : forall s, g_rc_starts_with_cc s = rf_starts_with_cc s.
Proof. intros [|c t]; reflexivity. Qed.

Lemma g_rc_escape_spaces_eq : forall w, g_rc_escape_spaces w = rf_escape_spaces w.
Proof. intros w. unfold g_rc_escape_spaces, rf_escape_spaces, rf_contains_char. destruct (existsb (N.eqb 32) w); reflexivity. Qed.

Lemma g_rc_escape_leading_cc_eq : forall s, g_rc_escape_leading_cc s = rf_escape_leading_cc s.
Proof. reflexivity. Qed.

Lemma g_rc_escape_inline_eq : forall s, g_rc_escape_inline s = rf_escape_inline s.
Proof. reflexivity. Qed.

(* escape_apostrophes has no counterpart in the hand model (to_roff never handles apostrophes): its meaning *)
Lemma g_rc_escape_apostrophes_eq : forall s, g_rc_escape_apostrophes s = rf_replace1 39 [92; 42; 40; 65; 113] s.   (* ' -> \*(Aq *)
Proof. reflexivity. Qed.

(* ---- the constructors -------------------------------------------------------------------------- *)

Lemma g_rc_roman_eq : forall t, g_rc_roman t = RfInRoman t.
Proof. reflexivity. Qed.
Lemma g_rc_bold_eq : forall t, g_rc_bold t = RfInBold t.
Proof. reflexivity. Qed.
Lemma g_rc_italic_eq : forall t, g_rc_italic t = RfInItalic t.
Proof. reflexivity. Qed.
Lemma g_rc_line_break_eq : g_rc_line_break = RfInLineBreak.
Proof. reflexivity. Qed.
Lemma g_rc_line_control_eq : forall name args, g_rc_line_control name args = RfControl name args.
Proof. reflexivity. Qed.
Lemma g_rc_line_text_eq : forall parts, g_rc_line_text parts = RfText parts.
Proof. reflexivity. Qed.

(* ---- Roff::new / control / text (`&mut Self` is returned: the updated document, twice) ------- *)

Lemma g_rc_new_eq : g_rc_new = rf_roff_new.
Proof. reflexivity. Qed.

Lemma g_rc_control_eq : forall d name args,
  g_rc_control d name args = (rf_roff_control d name args, rf_roff_control d name args).
Proof. intros. unfold g_rc_control. cbv zeta. rewrite map_id. reflexivity. Qed.

Lemma g_rc_text_eq : forall d inlines,
  g_rc_text d inlines = (rf_roff_text d inlines, rf_roff_text d inlines).
Proof. reflexivity. Qed.
