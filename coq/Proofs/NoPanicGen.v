(* Proofs/NoPanicGen.v -- the no-panic theorems of C04 carried over to the TRANSLATED code
   (Generated/*Fn.v): a translated function answers [None] exactly where the Rust code would
   panic (index, slice, checked arithmetic, unwrap, fuel), so "never None" on the translation
   is panic-freedom of the function as written in the source. *)
From Coq Require Import NArith List Bool.
From AV Require Import Generated.Table Spec.Vt Spec.Lossy Model.Base Model.Imp Model.Utf8parse Model.Parser Model.Strip Model.Wincon
  Model.Lossy Model.Git Model.Ls Model.Roff Model.Text
  Proofs.NoPanic Proofs.ParserSim Proofs.ParserCor Proofs.StripStr Proofs.StripSim Proofs.WinconRuns Proofs.Lossy Proofs.Git Proofs.LsParse Proofs.Roff
  Generated.ParserFn Proofs.ParserGen Generated.StripFn Proofs.StripGen Generated.WinconFn Proofs.WinconGen
  Generated.LossyFn Proofs.LossyGen Generated.LsFn Proofs.LsGen Generated.GitFn Proofs.GitGen Generated.RoffFn Proofs.RoffGen.
Import ListNotations.
Local Open Scope N_scope.

Theorem translated_parser_never_panics bs :
  Forall (fun b => b < 256) bs -> g_run cfg_default parser_new [] bs <> None.
Proof.
  intros H. rewrite translated_parser_is_model.
  pose proof (parser_never_panics bs H) as E. unfold events_model in E.
  destruct (run cfg_default parser_new bs) as [[? ?]|]; congruence.
Qed.

Theorem translated_strip_bytes_never_panics input :
  Forall (fun b => b < 256) input -> g_stripped_bytes_into_vec (g_strip_bytes input) <> None.
Proof.
  intros H. rewrite g_strip_bytes_into_vec_is_model.
  destruct (strip_bytes_model_total input H) as [out E]. congruence.
Qed.

Theorem translated_strip_str_never_panics input :
  Forall (fun b => b < 256) input -> g_strip_str_to_string input <> None.
Proof.
  intros H. rewrite g_strip_str_to_string_is_model.
  destruct (strip_str_model_total input H) as [out E]. congruence.
Qed.

Theorem translated_extract_next_never_panics bs p v c :
  Forall (fun b => b < 256) bs -> R p v -> g_extract_next bs p c <> None.
Proof.
  intros H HR. rewrite translated_extract_next_is_model.
  destruct (extract_next_total bs p v c H HR) as (its & p' & c' & E & _). congruence.
Qed.

Theorem translated_lossy_never_panics col p :
  color_ok col -> palette_ok p ->
  g_color_to_rgb col p <> None /\ g_color_to_xterm col <> None /\ g_color_to_ansi col p <> None.
Proof.
  intros Hc Hp. destruct (translated_lossy_is_model col p) as (E1 & E2 & E3). rewrite E1, E2, E3.
  destruct (conversions_total col p Hc Hp) as ((r & Er & _) & (i & Ei & _) & (a & Ea & _)).
  repeat split; congruence.
Qed.

Theorem translated_ls_parse_never_panics s : g_ls_parse s <> None.
Proof. rewrite g_ls_parse_eq. apply ls_no_panic. Qed.

Theorem translated_git_parse_never_panics s : g_git_parse s <> None.
Proof.
  intros E. pose proof (g_git_parse_eq s) as H. rewrite E in H. cbn in H.
  symmetry in H. exact (git_no_panic s H).
Qed.

Theorem translated_to_roff_never_panics input : g_to_roff input <> None.
Proof.
  intros E. pose proof (translated_to_roff_is_model input) as H. rewrite E in H. cbn in H.
  destruct (rf_to_roff_total input) as [doc D]. congruence.
Qed.
