(* The translated unicode-width (Generated/UnicodeWidthFn.v, tools/gen_fn_unicodewidth.py):
   - every table index is in bounds, for every code point below 2^21 (so for every `char`):
     no function of the width computation panics (`*_total`);
   - the lists searched by `binary_search_by` are sorted, and on the one-byte range lists the
     bisection finds a range iff a linear scan does (by enumeration);
   - in the default context a character at or below U+00A0 other than LF has width 1, printable
     ASCII strings are as wide as they are long, U+2588 (the fill character of anstyle-svg) has
     width 1, the empty string 0: the facts Model/SvgWidth.v and Props/C14.v use.
   There is no hand model of unicode-width: the translated function IS the model the svg theorems
   are instantiated with (Proofs/SvgWidthGen.v). *)
From Coq Require Import NArith ZArith List Bool Lia.
From AV Require Import Model.Base Model.Imp Model.UnicodeWidth Generated.UnicodeWidthFn.
Import ListNotations.
Local Open Scope N_scope.

(* ---- generic: being defined --------------------------------------------------------------- *)

Definition uw_ok {A : Type} (o : option A) : Prop := exists x, o = Some x.

Lemma uw_ok_some {A} (x : A) : uw_ok (Some x).
Proof. now exists x. Qed.

Lemma uw_ok_bind {A B} (e : option A) (f : A -> option B) :
  uw_ok e -> (forall x, uw_ok (f x)) -> uw_ok (match e with Some x => f x | None => None end).
Proof. intros [x ->] H. apply H. Qed.

Lemma uw_ok_if {A} (b : bool) (x y : option A) : uw_ok x -> uw_ok y -> uw_ok (if b then x else y).
Proof. now destruct b. Qed.

Lemma aget_ok {A} (l : list A) (i : N) :
  i < N.of_nat (length l) -> exists x, aget l i = Some x /\ In x l.
Proof.
  intros H. unfold aget. destruct (nth_error l (N.to_nat i)) eqn:E.
  - exists a. split; [reflexivity|]. eapply nth_error_In; eauto.
  - apply nth_error_None in E. lia.
Qed.

(* ---- the tables: shapes and ranges (finite facts) ------------------------------------------ *)

Definition uw_rows_ok (n : nat) (bound : N) (t : list (list N)) : bool :=
  forallb (fun row => Nat.eqb (length row) n && forallb (fun x => x <? bound) row) t.

Lemma uw_root_shape :
  length g_uw_WIDTH_ROOT = 256%nat /\
  forallb (fun x => x <? N.of_nat (length g_uw_WIDTH_MIDDLE)) g_uw_WIDTH_ROOT = true.
Proof. split; vm_compute; reflexivity. Qed.

Lemma uw_middle_shape : uw_rows_ok 64 (N.of_nat (length g_uw_WIDTH_LEAVES)) g_uw_WIDTH_MIDDLE = true.
Proof. vm_compute. reflexivity. Qed.

Lemma uw_leaves_shape : uw_rows_ok 32 256 g_uw_WIDTH_LEAVES = true.
Proof. vm_compute. reflexivity. Qed.

Lemma uw_emoji_leaves_shape :
  length g_uw_EMOJI_PRESENTATION_LEAVES = 7%nat /\ uw_rows_ok 128 256 g_uw_EMOJI_PRESENTATION_LEAVES = true.
Proof. split; vm_compute; reflexivity. Qed.

Lemma uw_rows_ok_In n bound t row :
  uw_rows_ok n bound t = true -> In row t -> length row = n /\ forall x, In x row -> x < bound.
Proof.
  unfold uw_rows_ok. rewrite forallb_forall. intros H Hin. specialize (H _ Hin).
  apply andb_true_iff in H as [H1 H2]. apply Nat.eqb_eq in H1. split; [exact H1|].
  rewrite forallb_forall in H2. intros x Hx. apply N.ltb_lt. now apply H2.
Qed.

Lemma uw_land_lt a m k : m = N.ones k -> N.land a m < 2 ^ k.
Proof.
  intros ->. rewrite N.land_ones. apply N.mod_lt. apply N.pow_nonzero. lia.
Qed.

(* ---- lookup_width: the three-level table ---------------------------------------------------- *)

Definition uw_cp (c : N) : Prop := c < 2097152.      (* 2^21: every index of WIDTH_ROOT; a char is below 0x110000 *)

Lemma uw_is_char_cp c : uw_is_char c = true -> uw_cp c.
Proof.
  unfold uw_is_char, uw_cp. rewrite orb_true_iff, andb_true_iff, !N.ltb_lt. lia.
Qed.

Lemma uw_shiftr_lt a n k : a < 2 ^ (n + k) -> N.shiftr a n < 2 ^ k.
Proof.
  intros H. rewrite N.shiftr_div_pow2. apply N.div_lt_upper_bound.
  - apply N.pow_nonzero. lia.
  - now rewrite <- N.pow_add_r.
Qed.

(* the packed leaf byte found for c *)
Lemma g_uw_lookup_leaf c :
  uw_cp c ->
  exists r m row l lrow p,
    aget (uw_align_f0 g_uw_WIDTH_ROOT) (N.shiftr c 13) = Some r /\
    aget (uw_align_f0 g_uw_WIDTH_MIDDLE) r = Some row /\
    aget row (N.land (N.shiftr c 7) 63) = Some m /\
    aget (uw_align_f0 g_uw_WIDTH_LEAVES) m = Some lrow /\
    aget lrow (N.land (N.shiftr c 2) 31) = Some p /\ l = lrow.
Proof.
  intros Hc. unfold uw_align_f0.
  destruct uw_root_shape as [Hlen Hroot]. rewrite forallb_forall in Hroot.
  destruct (aget_ok g_uw_WIDTH_ROOT (N.shiftr c 13)) as (r & Er & Inr).
  { rewrite Hlen. change (N.of_nat 256) with (2 ^ 8). apply uw_shiftr_lt. exact Hc. }
  specialize (Hroot _ Inr). apply N.ltb_lt in Hroot.
  destruct (aget_ok g_uw_WIDTH_MIDDLE r Hroot) as (row & Erow & Inrow).
  destruct (uw_rows_ok_In _ _ _ _ uw_middle_shape Inrow) as [Lrow Brow].
  destruct (aget_ok row (N.land (N.shiftr c 7) 63)) as (m & Em & Inm).
  { rewrite Lrow. change (N.of_nat 64) with (2 ^ 6). now apply uw_land_lt. }
  specialize (Brow _ Inm).
  destruct (aget_ok g_uw_WIDTH_LEAVES m Brow) as (lrow & Elrow & Inlrow).
  destruct (uw_rows_ok_In _ _ _ _ uw_leaves_shape Inlrow) as [Llrow _].
  destruct (aget_ok lrow (N.land (N.shiftr c 2) 31)) as (p & Ep & _).
  { rewrite Llrow. change (N.of_nat 32) with (2 ^ 5). now apply uw_land_lt. }
  exists r, m, row, lrow, lrow, p. repeat split; assumption.
Qed.

(* proving `uw_ok <translated body>` structurally: binds, conditionals (the HEAD one: the chains are walked
   linearly), local continuations (proved total once, then opaque) *)
Ltac uw_tot_with known :=
  let rec go :=
    cbv beta;
    lazymatch goal with
    | |- uw_ok (Some _) => apply uw_ok_some
    | |- uw_ok (let k := ?f in _) =>
        let kk := fresh "k" in
        let Hk := fresh "Hk" in
        pose (kk := f);
        let T := type of kk in
        lazymatch eval cbv beta in T with
        | _ -> _ -> option _ => assert (Hk : forall a b, uw_ok (kk a b)) by (intros; unfold kk; go)
        | _ -> option _ => assert (Hk : forall a, uw_ok (kk a)) by (intros; unfold kk; go)
        end;
        change f with kk; cbv zeta; clearbody kk; go
    | |- uw_ok (if _ then _ else _) => apply uw_ok_if; go
    | |- uw_ok (match ?e with Some _ => _ | None => None end) =>
        apply uw_ok_bind; [first [known | go] | intros; go]
    | |- uw_ok (let '(_, _) := ?r in _) => destruct r; go
    | |- uw_ok _ => first [known | match goal with H : forall a b, uw_ok (_ a b) |- _ => apply H | H : forall a, uw_ok (_ a) |- _ => apply H end]
    end
  in go.

Lemma g_uw_lookup_width_total c : uw_cp c -> uw_ok (g_uw_lookup_width c).
Proof.
  intros Hc. destruct (g_uw_lookup_leaf c Hc) as (r & m & row & l & lrow & p & E1 & E2 & E3 & E4 & E5 & _).
  unfold g_uw_lookup_width. rewrite E1, E2, E3, E4, E5.
  uw_tot_with fail.
Qed.

Lemma g_uw_single_char_width_total c : uw_cp c -> uw_ok (g_uw_single_char_width c).
Proof.
  intros Hc. unfold g_uw_single_char_width.
  uw_tot_with ltac:(apply g_uw_lookup_width_total; assumption).
Qed.

Lemma g_uw_is_transparent_zero_width_total c : uw_cp c -> uw_ok (g_uw_is_transparent_zero_width c).
Proof.
  intros Hc. unfold g_uw_is_transparent_zero_width.
  uw_tot_with ltac:(apply g_uw_lookup_width_total; assumption).
Qed.

Lemma g_uw_starts_emoji_presentation_seq_total c : uw_ok (g_uw_starts_emoji_presentation_seq c).
Proof.
  unfold g_uw_starts_emoji_presentation_seq.
  destruct uw_emoji_leaves_shape as [Hlen Hrows].
  assert (Hk : forall v, v < 7 ->
            uw_ok (u <- Some (N.land (N.shiftr c 3) 127) ;;
                   el <- aget (uw_align_f0 g_uw_EMOJI_PRESENTATION_LEAVES) v ;;
                   el1 <- aget el u ;; Some (N.land (N.shiftr el1 (N.land c 7)) 1 =? 1))).
  { intros v Hv. unfold uw_align_f0.
    destruct (aget_ok g_uw_EMOJI_PRESENTATION_LEAVES v) as (row & Er & Inrow); [rewrite Hlen; exact Hv|].
    destruct (uw_rows_ok_In _ _ _ _ Hrows Inrow) as [Lrow _].
    destruct (aget_ok row (N.land (N.shiftr c 3) 127)) as (p & Ep & _).
    { rewrite Lrow. change (N.of_nat 128) with (2 ^ 7). now apply uw_land_lt. }
    rewrite Er, Ep. apply uw_ok_some. }
  cbv zeta beta.
  repeat (apply uw_ok_if; [apply Hk; reflexivity|]).
  apply uw_ok_some.
Qed.

Lemma g_uw_width_in_str_total c info : uw_cp c -> uw_ok (g_uw_width_in_str c info).
Proof.
  intros Hc. unfold g_uw_width_in_str.
  uw_tot_with ltac:(first [ apply g_uw_lookup_width_total; assumption
                          | apply g_uw_is_transparent_zero_width_total; assumption
                          | apply g_uw_starts_emoji_presentation_seq_total ]).
Qed.

Lemma uw_fold_m_total {A} (f : A -> N -> option A) (l : list N) :
  (forall a c, In c l -> uw_ok (f a c)) -> forall a, uw_ok (uw_fold_m f a l).
Proof.
  induction l as [|c l IH]; intros H a; cbn [uw_fold_m].
  - apply uw_ok_some.
  - destruct (H a c (or_introl eq_refl)) as [a' ->]. apply IH. intros; apply H; now right.
Qed.

Theorem g_uw_str_width_total s : Forall uw_cp s -> uw_ok (g_uw_str_width s).
Proof.
  intros Hs. unfold g_uw_str_width, uw_rfold_m, uw_str_chars.
  apply uw_ok_bind; [|intros; apply uw_ok_some].
  apply uw_fold_m_total. intros [sum info] c Hin.
  apply in_rev in Hin. rewrite Forall_forall in Hs. specialize (Hs _ Hin).
  apply uw_ok_bind; [now apply g_uw_width_in_str_total|].
  intros [add info']. apply uw_ok_some.
Qed.

Theorem g_uw_str_trait_width_total s : Forall uw_cp s -> uw_ok (g_uw_str_trait_width s).
Proof.
  intros Hs. unfold g_uw_str_trait_width. apply uw_ok_bind; [now apply g_uw_str_width_total|intros; apply uw_ok_some].
Qed.

Lemma g_uw_str_trait_width_eq s : g_uw_str_trait_width s = g_uw_str_width s.
Proof. unfold g_uw_str_trait_width. now destruct (g_uw_str_width s). Qed.

(* ---- the searched lists are sorted; bisection = linear scan on the one-byte lists ------------ *)

Fixpoint uw_sorted_ranges (prev : option N) (l : list (N * N)) : bool :=
  match l with
  | [] => true
  | (lo, hi) :: r =>
      (lo <=? hi) && (match prev with None => true | Some p => p <? lo end) && uw_sorted_ranges (Some hi) r
  end.

Definition uw_leaves8 : list (list (N * N)) :=
  [g_uw_TEXT_PRESENTATION_LEAF_0; g_uw_TEXT_PRESENTATION_LEAF_1; g_uw_TEXT_PRESENTATION_LEAF_2; g_uw_TEXT_PRESENTATION_LEAF_3;
   g_uw_TEXT_PRESENTATION_LEAF_4; g_uw_TEXT_PRESENTATION_LEAF_5; g_uw_TEXT_PRESENTATION_LEAF_6; g_uw_TEXT_PRESENTATION_LEAF_7;
   g_uw_TEXT_PRESENTATION_LEAF_8; g_uw_TEXT_PRESENTATION_LEAF_9;
   g_uw_EMOJI_MODIFIER_LEAF_0; g_uw_EMOJI_MODIFIER_LEAF_1; g_uw_EMOJI_MODIFIER_LEAF_2; g_uw_EMOJI_MODIFIER_LEAF_3;
   g_uw_EMOJI_MODIFIER_LEAF_4; g_uw_EMOJI_MODIFIER_LEAF_5; g_uw_EMOJI_MODIFIER_LEAF_6; g_uw_EMOJI_MODIFIER_LEAF_7].

Definition uw_ranges24 : list (N * N) :=
  map (fun '(lo, hi) => (uw_u32_from_le_bytes (lo ++ [0]), uw_u32_from_le_bytes (hi ++ [0]))) g_uw_NON_TRANSPARENT_ZERO_WIDTHS.

Theorem uw_tables_sorted :
  forallb (uw_sorted_ranges None) uw_leaves8 = true /\ uw_sorted_ranges None uw_ranges24 = true.
Proof. split; vm_compute; reflexivity. Qed.

Definition uw_cmp_range (b : N) : N * N -> comparison :=
  fun '(lo, hi) => if b <? lo then Gt else if hi <? b then Lt else Eq.

Definition uw_in_ranges (b : N) (l : list (N * N)) : bool :=
  existsb (fun '(lo, hi) => (lo <=? b) && (b <=? hi)) l.

Theorem uw_bsearch8_is_scan :
  forall t b, In t uw_leaves8 -> b < 256 ->
    uw_res_is_ok (uw_binary_search_by (uw_cmp_range b) t) = uw_in_ranges b t.
Proof.
  assert (H : forallb (fun t => forallb (fun b => Bool.eqb (uw_res_is_ok (uw_binary_search_by (uw_cmp_range b) t)) (uw_in_ranges b t)) all_bytes) uw_leaves8 = true)
    by (vm_compute; reflexivity).
  intros t b Ht Hb. rewrite forallb_forall in H. specialize (H _ Ht). rewrite forallb_forall in H.
  apply eqb_prop, H. unfold all_bytes.
  clear -Hb. assert (G : forall n a, a <= b -> b < a + N.of_nat n -> In b (range_from a n)).
  { induction n as [|n IH]; intros a H1 H2; cbn [range_from]; [lia|].
    destruct (N.eq_dec a b) as [->|Hne]; [now left|right]. apply IH; lia. }
  apply G; cbn; lia.
Qed.

(* ---- widths in the default context ----------------------------------------------------------- *)

(* what one step answers when nothing follows that matters (next_info = DEFAULT) *)
Definition uw_plain (c : N) : Prop := g_uw_width_in_str c g_uw_WI_DEFAULT = Some (1%Z, g_uw_WI_DEFAULT).

Lemma uw_plain_low c : c <= 160 -> c <> 10 -> uw_plain c.
Proof.
  intros H1 H2. unfold uw_plain, g_uw_width_in_str.
  change (g_uw_wi_is_emoji_presentation g_uw_WI_DEFAULT) with false.
  cbv beta zeta iota.
  apply N.leb_le in H1. apply N.eqb_neq in H2. rewrite H1, H2.
  change (N.eqb g_uw_WI_DEFAULT g_uw_WI_LINE_FEED) with false. rewrite andb_false_r. reflexivity.
Qed.

Lemma uw_plain_fill : uw_plain 9608.      (* U+2588 FULL BLOCK, the background fill of anstyle-svg *)
Proof. vm_compute. reflexivity. Qed.

Lemma uw_add_one sum : sum + 1 < 18446744073709551616 -> uw_wrapping_add_signed sum 1 = sum + 1.
Proof.
  intros H. unfold uw_wrapping_add_signed.
  replace (Z.of_N sum + 1)%Z with (Z.of_N (sum + 1)) by (rewrite N2Z.inj_add; reflexivity).
  rewrite Z.mod_small; [apply N2Z.id|].
  split; [apply N2Z.is_nonneg|].
  change 18446744073709551616%Z with (Z.of_N 18446744073709551616). apply N2Z.inj_lt. exact H.
Qed.

Lemma uw_fold_plain l : Forall uw_plain l -> forall sum,
  sum + N.of_nat (length l) < 18446744073709551616 ->
  uw_fold_m (fun '(sum, next_info) c =>
      r <- g_uw_width_in_str c next_info ;;
      let '(add, info) := r in Some (uw_wrapping_add_signed sum add, info)) (sum, g_uw_WI_DEFAULT) l
  = Some (sum + N.of_nat (length l), g_uw_WI_DEFAULT).
Proof.
  induction 1 as [|c l Hc Hl IH]; intros sum Hlt; cbn [uw_fold_m length].
  - now rewrite N.add_0_r.
  - cbn [length] in Hlt. rewrite Nat2N.inj_succ in *. unfold uw_plain in Hc. rewrite Hc. rewrite uw_add_one by lia.
    rewrite IH by lia. f_equal. f_equal. lia.
Qed.

(* a string of context-free width-1 characters is as wide as it is long (the length fits a usize) *)
Theorem g_uw_str_width_plain s :
  Forall uw_plain s -> N.of_nat (length s) < 18446744073709551616 ->
  g_uw_str_width s = Some (N.of_nat (length s)).
Proof.
  intros Hs Hlen. unfold g_uw_str_width, uw_rfold_m, uw_str_chars.
  rewrite uw_fold_plain.
  - cbn [fst]. now rewrite rev_length.
  - apply Forall_rev. exact Hs.
  - rewrite rev_length. exact Hlen.
Qed.

Definition uw_printable_ascii (c : N) : Prop := 32 <= c /\ c < 127.

Theorem g_uw_str_width_ascii s :
  Forall uw_printable_ascii s -> N.of_nat (length s) < 18446744073709551616 ->
  g_uw_str_width s = Some (N.of_nat (length s)).
Proof.
  intros Hs. apply g_uw_str_width_plain. eapply Forall_impl; [|exact Hs].
  intros c [H1 H2]. apply uw_plain_low; lia.
Qed.

Theorem g_uw_str_width_fill n :
  N.of_nat n < 18446744073709551616 -> g_uw_str_width (repeat 9608 n) = Some (N.of_nat n).
Proof.
  intros Hn. rewrite g_uw_str_width_plain; rewrite ?repeat_length; [reflexivity| |exact Hn].
  clear Hn. induction n; cbn [repeat]; constructor; [exact uw_plain_fill|assumption].
Qed.

Theorem g_uw_str_width_empty : g_uw_str_width [] = Some 0.
Proof. reflexivity. Qed.

(* CR LF is one column, a lone LF one, a lone CR one *)
Theorem g_uw_str_width_crlf :
  g_uw_str_width [13; 10] = Some 1 /\ g_uw_str_width [10] = Some 1 /\ g_uw_str_width [13] = Some 1.
Proof. repeat split; vm_compute; reflexivity. Qed.

(* single characters: printable ASCII has width Some 1 *)
Theorem g_uw_char_width_printable_ascii c :
  uw_printable_ascii c -> g_uw_single_char_width c = Some (Some 1).
Proof.
  intros [H1 H2]. unfold g_uw_single_char_width.
  apply N.ltb_lt in H2. apply N.leb_le in H1. now rewrite H2, H1.
Qed.

(* ---- worked examples: the rules the crate documents (lib.rs, "Rules for determining width"), one per arm of the
   look-ahead machine; the expected values are the documentation's (and the real crate's, correspondence kind uwidth).
   A changed table entry or a changed arm of width_in_str / lookup_width that one of them exercises fails here. ---- *)
Theorem g_uw_documented_examples :
  (* CR LF is one column *)
  g_uw_str_width [13; 10] = Some 1 /\
  (* ASCII *)
  g_uw_str_width [97; 98; 99] = Some 3 /\
  (* East_Asian_Width=Wide *)
  g_uw_str_width [20013] = Some 2 /\
  (* Emoji_Presentation *)
  g_uw_str_width [128512] = Some 2 /\
  (* emoji ZWJ sequence: 2 *)
  g_uw_str_width [128104; 8205; 128105; 8205; 128103; 8205; 128102] = Some 2 /\
  (* emoji modifier sequence: 2 *)
  g_uw_str_width [128077; 127995] = Some 2 /\
  (* emoji presentation sequence (VS16): 2 *)
  g_uw_str_width [10084; 65039] = Some 2 /\
  (* VS15 on a text-default character *)
  g_uw_str_width [10084; 65038] = Some 1 /\
  (* U+231A alone *)
  g_uw_str_width [8986] = Some 2 /\
  (* text presentation sequence (VS15): 1 *)
  g_uw_str_width [8986; 65038] = Some 1 /\
  (* U+1F004 VS15 *)
  g_uw_str_width [126980; 65038] = Some 1 /\
  (* VS15 in Enclosed Ideographic Supplement: still 2 *)
  g_uw_str_width [127514; 65038] = Some 2 /\
  (* Arabic lam-alef ligature: 1 *)
  g_uw_str_width [1604; 1575] = Some 1 /\
  (* lam, transparent mark, alef: 1 *)
  g_uw_str_width [1604; 1611; 1575] = Some 1 /\
  (* lam alone *)
  g_uw_str_width [1604] = Some 1 /\
  (* Buginese <a, -i> ya: 1 *)
  g_uw_str_width [6677; 6679; 8205; 6672] = Some 1 /\
  (* Hebrew alef ZWJ lamed: 1 *)
  g_uw_str_width [1488; 8205; 1500] = Some 1 /\
  (* Khmer coeng sign: 0 *)
  g_uw_str_width [6098; 6016] = Some 0 /\
  (* letter + coeng sign *)
  g_uw_str_width [6016; 6098; 6016] = Some 1 /\
  (* Lisu tone letters: 1 *)
  g_uw_str_width [42232; 42236] = Some 1 /\
  (* Old Turkic ligature: 1 *)
  g_uw_str_width [68658; 8205; 68611] = Some 1 /\
  (* Tifinagh bi-consonant (joiner): 1 *)
  g_uw_str_width [11569; 11647; 11569] = Some 1 /\
  (* Tifinagh bi-consonant (ZWJ): 1 *)
  g_uw_str_width [11569; 8205; 11569] = Some 1 /\
  (* U+2D7F alone: 1 *)
  g_uw_str_width [11647] = Some 1 /\
  (* U+115F: 2 *)
  g_uw_str_width [4447] = Some 2 /\
  (* U+17A4: 2 *)
  g_uw_str_width [6052] = Some 2 /\
  (* U+17D8: 3 *)
  g_uw_str_width [6104] = Some 3 /\
  (* U+0CC0: 0 *)
  g_uw_str_width [3264] = Some 0 /\
  (* Hangul vowel jamo: 0 *)
  g_uw_str_width [4448] = Some 0 /\
  (* prepended concatenation mark U+0605: 0 *)
  g_uw_str_width [1541] = Some 0 /\
  (* U+A8FA: 0 *)
  g_uw_str_width [43258] = Some 0 /\
  (* a base letter and a Grapheme_Extend mark (width 0): 1 *)
  g_uw_str_width [233] = Some 1 /\
  (* Default_Ignorable U+00AD: 0 *)
  g_uw_str_width [173] = Some 0 /\
  (* U+200B: 0 *)
  g_uw_str_width [8203] = Some 0 /\
  (* regional indicator pair *)
  g_uw_str_width [127482; 127480] = Some 2 /\
  (* three regional indicators *)
  g_uw_str_width [127482; 127480; 127462] = Some 3 /\
  (* keycap sequence *)
  g_uw_str_width [35; 65039; 8419] = Some 2 /\
  (* tag sequence (flag of England) *)
  g_uw_str_width [127988; 917607; 917602; 917605; 917614; 917607; 917631] = Some 2 /\
  (* emoji ZWJ flags *)
  g_uw_str_width [128512; 8205; 127482; 127480; 127482; 127480] = Some 4 /\
  (* control characters count 1 each inside a string *)
  g_uw_str_width [0; 7; 127; 159] = Some 4 /\
  (* U+10FFFF *)
  g_uw_str_width [1114111] = Some 1 /\
  (* Ambiguous: narrow *)
  g_uw_str_width [161; 9608] = Some 2.
Proof. repeat split; vm_compute; reflexivity. Qed.
