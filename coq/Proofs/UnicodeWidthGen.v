From Coq Require Import NArith ZArith List Bool Lia.
From AV Require Import Model.Base Model.Imp Model.UnicodeWidth Generated.UnicodeWidthFn.
Import ListNotations.
Local Open Scope N_scope.
