(* Proofs/StyleGen.v -- the functions translated from crates/anstyle/src/{effect.rs,color.rs,style.rs}
   (Generated/StyleFn.v, written by tools/gen_fn_style.py on every run) are extensionally equal to
   the hand model (Model/Style.v over the tables of Generated/Style.v) the theorems of C13 are about.
   A translated function that can panic answers in the option monad ([None] = panic); the lemmas
   then read [= Some (hand model)]: none of them panics. *)
From Coq Require Import NArith List Bool Lia.
From AV Require Import Generated.Style Model.Base Model.Imp Model.Style Generated.StyleFn.
Import ListNotations.
Local Open Scope N_scope.

(* ---- Effects: the bit-set operations -------------------------------------------------- *)

Lemma g_eff_new_eq : g_eff_new = e_new.
Proof. reflexivity. Qed.

Lemma g_eff_is_plain_eq e : g_eff_is_plain e = e_is_plain e.
Proof. reflexivity. Qed.

Lemma g_eff_contains_eq s o : g_eff_contains s o = e_contains s o.
Proof. reflexivity. Qed.

Lemma g_eff_insert_eq s o : g_eff_insert s o = e_insert s o.
Proof. reflexivity. Qed.

(* `self.0 &= !other.0`: the complement is taken at the width of the field (u16) *)
Lemma g_eff_remove_eq s o : g_eff_remove s o = e_remove s o.
Proof. reflexivity. Qed.

Lemma g_eff_clear_eq s : g_eff_clear s = e_clear s.
Proof. reflexivity. Qed.

Lemma g_eff_set_eq s o en : g_eff_set s o en = e_set s o en.
Proof. unfold g_eff_set, e_set. destruct en; [apply g_eff_insert_eq | apply g_eff_remove_eq]. Qed.

Lemma g_eff_bitor_eq s o : g_eff_bitor s o = e_bitor s o.
Proof. reflexivity. Qed.

Lemma g_eff_bitor_assign_eq s o : g_eff_bitor_assign s o = e_bitor_assign s o.
Proof. reflexivity. Qed.

Lemma g_eff_sub_eq s o : g_eff_sub s o = e_sub s o.
Proof. reflexivity. Qed.

Lemma g_eff_sub_assign_eq s o : g_eff_sub_assign s o = e_sub_assign s o.
Proof. reflexivity. Qed.

(* Effects::render wraps the set (`EffectsDisplay(self)`); what Display does with it is C05's *)
Lemma g_eff_render_eq e : g_eff_render e = e.
Proof. reflexivity. Qed.

(* ---- the iterators ----------------------------------------------------------------------- *)

(* the hand model runs an iterator to exhaustion ([iter_loop]); one call of `next` from position
   [i], [n] positions before the end of METADATA, is [e_next]: *)
Fixpoint e_next {A} (item : N -> N -> A) (e : N) (n : nat) (i : N) : option (eff_iter * option A) :=
  match n with
  | O => Some (mkEffIter i e, None)
  | S k =>
      effect <- shl1_u16 i ;;
      if e_contains e effect then Some (mkEffIter (i + 1) e, Some (item i effect))
      else e_next item e k (i + 1)
  end.

Lemma len_metadata : len metadata = 12.
Proof. reflexivity. Qed.

Lemma cshl_u16_one i : i < 16 -> cshl 16 1 i = Some (N.shiftl 1 i).
Proof.
  intro H. unfold cshl. apply N.ltb_lt in H. rewrite H. f_equal.
  apply N.ltb_lt in H. apply N.mod_small. rewrite N.shiftl_1_l.
  apply N.pow_lt_mono_r; lia.
Qed.

Lemma shl1_u16_small i : i < 16 -> shl1_u16 i = Some (N.shiftl 1 i).
Proof. intro H. unfold shl1_u16. apply N.ltb_lt in H. rewrite H. reflexivity. Qed.

(* EffectIter::next, from any position inside the table *)
Lemma g_eff_iter_next_eq e : forall n i, i + N.of_nat n = 12 ->
  g_eff_iter_next (mkEffIter i e) = e_next (fun _ effect => effect) e n i.
Proof.
  unfold g_eff_iter_next.
  match goal with |- context [while_fuel _ ?f _] => set (step := f) end.
  assert (L : forall n i wf, i + N.of_nat n = 12 -> (n < wf)%nat ->
            (lr <- while_fuel wf step (mkEffIter i e) ;;
             match lr with inl st => Some (st, None) | inr (st1, rv) => Some (st1, rv) end)
            = e_next (fun _ effect => effect) e n i).
  { induction n as [|k IH]; intros i wf Hi Hwf; (destruct wf as [|wf]; [lia|]); cbn [while_fuel e_next]; unfold step at 1;
      cbn [ei_index ei_effects set_ei_index]; rewrite len_metadata.
    - replace i with 12 by lia. reflexivity.
    - assert (Hlt : i < 12) by lia. pose proof Hlt as Hb. apply N.ltb_lt in Hb. rewrite Hb.
      rewrite cshl_u16_one, shl1_u16_small by lia. cbv iota. unfold eff_new. rewrite g_eff_contains_eq.
      destruct (e_contains e (N.shiftl 1 i)); [reflexivity|].
      apply IH; lia. }
  intros n i Hi. apply L; [exact Hi | cbn; lia].
Qed.

(* EffectIndexIter::next *)
Lemma g_eff_index_iter_next_eq e : forall n i, i + N.of_nat n = 12 ->
  g_eff_index_iter_next (mkEffIter i e) = e_next (fun index _ => index) e n i.
Proof.
  unfold g_eff_index_iter_next.
  match goal with |- context [while_fuel _ ?f _] => set (step := f) end.
  assert (L : forall n i wf, i + N.of_nat n = 12 -> (n < wf)%nat ->
            (lr <- while_fuel wf step (mkEffIter i e) ;;
             match lr with inl st => Some (st, None) | inr (st1, rv) => Some (st1, rv) end)
            = e_next (fun index _ => index) e n i).
  { induction n as [|k IH]; intros i wf Hi Hwf; (destruct wf as [|wf]; [lia|]); cbn [while_fuel e_next]; unfold step at 1;
      cbn [ei_index ei_effects set_ei_index]; rewrite len_metadata.
    - replace i with 12 by lia. reflexivity.
    - assert (Hlt : i < 12) by lia. pose proof Hlt as Hb. apply N.ltb_lt in Hb. rewrite Hb.
      rewrite cshl_u16_one, shl1_u16_small by lia. cbv iota. unfold eff_new. rewrite g_eff_contains_eq.
      destruct (e_contains e (N.shiftl 1 i)); [reflexivity|].
      apply IH; lia. }
  intros n i Hi. apply L; [exact Hi | cbn; lia].
Qed.

(* draining ANY `next` that does what [e_next] does yields the hand model's list *)
Lemma drain_e_next {A} (item : N -> N -> A) (next : eff_iter -> option (eff_iter * option A)) e :
  (forall n i, i + N.of_nat n = 12 -> next (mkEffIter i e) = e_next item e n i) ->
  forall n i df, i + N.of_nat n = 12 -> (n < df)%nat ->
  iter_drain next df (mkEffIter i e) = iter_loop item n i e.
Proof.
  intro Hnext. induction n as [|k IH]; intros i df Hi Hdf; (destruct df as [|df]; [lia|]).
  - cbn [iter_drain iter_loop]. rewrite (Hnext O i Hi). reflexivity.
  - assert (Hlt : i < 16) by lia.
    cbn [iter_drain iter_loop]. rewrite (Hnext (S k) i Hi). cbn [e_next].
    rewrite shl1_u16_small by exact Hlt. cbv iota.
    destruct (e_contains e (N.shiftl 1 i)).
    + rewrite IH by lia. destruct (iter_loop item k (i + 1) e); reflexivity.
    + rewrite <- (Hnext k (i + 1)) by lia.
      specialize (IH (i + 1) (S df)). cbn [iter_drain] in IH. rewrite IH by lia.
      destruct (iter_loop item k (i + 1) e); reflexivity.
Qed.

(* `effects.iter()` / `effects.index_iter()` collected: the translated constructor, then the
   translated `next` until it answers None *)
Definition g_eff_iter_items (e : N) : option (list N) :=
  iter_drain g_eff_iter_next (S (length metadata)) (g_eff_iter e).
Definition g_eff_index_iter_items (e : N) : option (list N) :=
  iter_drain g_eff_index_iter_next (S (length metadata)) (g_eff_index_iter e).

Lemma g_eff_iter_eq e : g_eff_iter_items e = e_iter e.
Proof.
  unfold g_eff_iter_items, g_eff_iter, e_iter.
  apply (drain_e_next (fun _ effect => effect) g_eff_iter_next e (g_eff_iter_next_eq e)); [reflexivity | cbn; lia].
Qed.

Lemma g_eff_index_iter_eq e : g_eff_index_iter_items e = e_index_iter e.
Proof.
  unfold g_eff_index_iter_items, g_eff_index_iter, e_index_iter.
  apply (drain_e_next (fun index _ => index) g_eff_index_iter_next e (g_eff_index_iter_next_eq e)); [reflexivity | cbn; lia].
Qed.

(* ---- Debug ----------------------------------------------------------------------------------- *)

(* <Effects as Debug>::fmt appends the hand model's text to what the formatter holds and answers Ok(()) *)
Lemma g_eff_debug_fmt_eq e f :
  g_eff_debug_fmt e f = option_map (fun t => (f ++ t, inl tt)) (e_debug e).
Proof.
  unfold g_eff_debug_fmt, e_debug. cbv zeta.
  change (iter_drain g_eff_index_iter_next (S (length metadata)) (g_eff_index_iter e)) with (g_eff_index_iter_items e).
  rewrite g_eff_index_iter_eq. destruct (e_index_iter e) as [l|]; [|reflexivity]. cbv iota.
  match goal with |- context [for_list ?F _ _] => set (step := F) end.
  assert (L : forall l j acc,
            for_list step (enumerate_from j l) acc
            = option_map (fun b => inl (acc ++ b)) (debug_body (N.to_nat j) l)).
  { clear. induction l as [|index t IH]; intros j acc; cbn [enumerate_from for_list debug_body].
    - cbn [option_map]. rewrite app_nil_r. reflexivity.
    - unfold step at 1. cbv beta iota zeta. unfold fmt_write_str, md_name.
      destruct (aget metadata index) as [md|].
      2:{ destruct (j =? 0); reflexivity. }
      cbv iota. destruct (j =? 0) eqn:Ej; cbn [negb].
      + apply N.eqb_eq in Ej. subst j. rewrite IH. change (N.to_nat (0 + 1)) with 1%nat. change (N.to_nat 0) with O.
        destruct (debug_body 1 t) as [rest|]; cbn [option_map]; cbv iota; [|reflexivity].
        rewrite <- app_assoc. reflexivity.
      + apply N.eqb_neq in Ej. rewrite IH. replace (N.to_nat (j + 1)) with (S (N.to_nat j)) by lia.
        destruct (N.to_nat j) as [|jn] eqn:En; [lia|].
        destruct (debug_body (S (S jn)) t) as [rest|]; cbn [option_map]; cbv iota; [|reflexivity].
        rewrite <- !app_assoc. reflexivity. }
  unfold enumerate0. rewrite L. change (N.to_nat 0) with O.
  destruct (debug_body 0 l) as [body|]; cbn [option_map]; cbv iota; [|reflexivity].
  unfold fmt_write_str, str_effects_open, str_close. rewrite <- !app_assoc. reflexivity.
Qed.

(* `format!("{:?}", effects)`: an empty formatter, the text it holds afterwards *)
Definition g_eff_debug (e : N) : option (list N) := option_map fst (g_eff_debug_fmt e []).

Lemma g_eff_debug_eq e : g_eff_debug e = e_debug e.
Proof. unfold g_eff_debug. rewrite g_eff_debug_fmt_eq. destruct (e_debug e); reflexivity. Qed.

(* ---- colours ------------------------------------------------------------------------------------ *)

Lemma g_ansi_bright_eq c yes : g_ansi_bright c yes = Some (ansi_bright c yes).
Proof. destruct c, yes; reflexivity. Qed.

Lemma g_ansi_is_bright_eq c : g_ansi_is_bright c = Some (ansi_is_bright c).
Proof. destruct c; reflexivity. Qed.

Lemma g_a256_index_eq n : g_a256_index n = n.
Proof. reflexivity. Qed.

Lemma g_a256_into_ansi_eq n : g_a256_into_ansi n = Some (ansi256_into_ansi n).
Proof.
  unfold g_a256_into_ansi, g_a256_index, a256_f0, ansi256_into_ansi. cbv zeta.
  destruct n as [|p]; [reflexivity|].
  do 5 (try (destruct p as [p|p|]; try reflexivity)).
Qed.

Lemma g_a256_from_ansi_eq c : g_a256_from_ansi c = Some (ansi256_from c).
Proof. destruct c; reflexivity. Qed.

(* ---- Style ---------------------------------------------------------------------------------------- *)

Lemma g_st_new_eq : g_st_new = st_new.
Proof. reflexivity. Qed.

Lemma g_st_fg_color_eq s v : g_st_fg_color s v = st_fg_color s v.
Proof. reflexivity. Qed.

Lemma g_st_bg_color_eq s v : g_st_bg_color s v = st_bg_color s v.
Proof. reflexivity. Qed.

Lemma g_st_underline_color_eq s v : g_st_underline_color s v = st_underline_color s v.
Proof. reflexivity. Qed.

Lemma g_st_effects_eq s e : g_st_effects s e = st_effects s e.
Proof. reflexivity. Qed.

(* the eight convenience methods, by the name Generated/Style.v gives them *)
Definition g_st_conv (m : conv_method) : style -> style :=
  match m with
  | Conv_bold => g_st_bold
  | Conv_dimmed => g_st_dimmed
  | Conv_italic => g_st_italic
  | Conv_underline => g_st_underline
  | Conv_blink => g_st_blink
  | Conv_invert => g_st_invert
  | Conv_hidden => g_st_hidden
  | Conv_strikethrough => g_st_strikethrough
  end.

Lemma g_st_conv_eq m s : g_st_conv m s = st_conv m s.
Proof. destruct m; reflexivity. Qed.

Lemma g_st_get_fg_color_eq s : g_st_get_fg_color s = st_get_fg_color s.
Proof. reflexivity. Qed.

Lemma g_st_get_bg_color_eq s : g_st_get_bg_color s = st_get_bg_color s.
Proof. reflexivity. Qed.

Lemma g_st_get_underline_color_eq s : g_st_get_underline_color s = st_get_underline_color s.
Proof. reflexivity. Qed.

Lemma g_st_get_effects_eq s : g_st_get_effects s = st_get_effects s.
Proof. reflexivity. Qed.

Lemma g_st_is_plain_eq s : g_st_is_plain s = st_is_plain s.
Proof. reflexivity. Qed.

Lemma g_st_from_effects_eq e : g_st_from_effects e = st_from_effects e.
Proof. reflexivity. Qed.

Lemma g_st_bitor_eq s e : g_st_bitor s e = st_bitor s e.
Proof. reflexivity. Qed.

Lemma g_st_bitor_assign_eq s e : g_st_bitor_assign s e = st_bitor_assign s e.
Proof. reflexivity. Qed.

Lemma g_st_sub_eq s e : g_st_sub s e = st_sub s e.
Proof. reflexivity. Qed.

Lemma g_st_sub_assign_eq s e : g_st_sub_assign s e = st_sub_assign s e.
Proof. reflexivity. Qed.

Lemma g_st_eq_effects_eq s e : g_st_eq_effects s e = st_eq_effects s e.
Proof. reflexivity. Qed.

(* ---- the entry points, together ------------------------------------------------------------------------ *)

Theorem translated_effects_are_model :
  g_eff_new = e_new /\
  (forall e, g_eff_is_plain e = e_is_plain e /\ g_eff_clear e = e_clear e /\ g_eff_render e = e /\
             g_eff_iter_items e = e_iter e /\ g_eff_index_iter_items e = e_index_iter e /\ g_eff_debug e = e_debug e) /\
  (forall a b, g_eff_contains a b = e_contains a b /\ g_eff_insert a b = e_insert a b /\ g_eff_remove a b = e_remove a b /\
               g_eff_bitor a b = e_bitor a b /\ g_eff_bitor_assign a b = e_bitor_assign a b /\
               g_eff_sub a b = e_sub a b /\ g_eff_sub_assign a b = e_sub_assign a b) /\
  (forall a b en, g_eff_set a b en = e_set a b en).
Proof.
  split; [exact g_eff_new_eq|]. split; [|split].
  - intro e. repeat split. apply g_eff_iter_eq. apply g_eff_index_iter_eq. apply g_eff_debug_eq.
  - intros a b. repeat split.
  - exact g_eff_set_eq.
Qed.

Theorem translated_colors_are_model :
  (forall c yes, g_ansi_bright c yes = Some (ansi_bright c yes)) /\
  (forall c, g_ansi_is_bright c = Some (ansi_is_bright c)) /\
  (forall n, g_a256_into_ansi n = Some (ansi256_into_ansi n)) /\
  (forall c, g_a256_from_ansi c = Some (ansi256_from_ansi c)).
Proof.
  split; [exact g_ansi_bright_eq|]. split; [exact g_ansi_is_bright_eq|]. split; [exact g_a256_into_ansi_eq|].
  exact g_a256_from_ansi_eq.
Qed.

Theorem translated_style_is_model :
  g_st_new = st_new /\
  (forall s v, g_st_fg_color s v = st_fg_color s v /\ g_st_bg_color s v = st_bg_color s v /\
               g_st_underline_color s v = st_underline_color s v) /\
  (forall s e, g_st_effects s e = st_effects s e /\ g_st_bitor s e = st_bitor s e /\ g_st_bitor_assign s e = st_bitor_assign s e /\
               g_st_sub s e = st_sub s e /\ g_st_sub_assign s e = st_sub_assign s e /\ g_st_eq_effects s e = st_eq_effects s e) /\
  (forall m s, g_st_conv m s = st_conv m s) /\
  (forall s, g_st_get_fg_color s = st_get_fg_color s /\ g_st_get_bg_color s = st_get_bg_color s /\
             g_st_get_underline_color s = st_get_underline_color s /\ g_st_get_effects s = st_get_effects s /\
             g_st_is_plain s = st_is_plain s) /\
  (forall e, g_st_from_effects e = st_from_effects e).
Proof.
  split; [reflexivity|]. split; [intros; repeat split|]. split; [intros; repeat split|].
  split; [exact g_st_conv_eq|]. split; [intros; repeat split|]. exact g_st_from_effects_eq.
Qed.

(* every function of the value API that Generated/StyleFn.v translates computes what the hand model computes *)
Theorem translated_style_api_is_model :
  (g_eff_new = e_new /\
   (forall e, g_eff_is_plain e = e_is_plain e /\ g_eff_clear e = e_clear e /\ g_eff_render e = e /\
              g_eff_iter_items e = e_iter e /\ g_eff_index_iter_items e = e_index_iter e /\ g_eff_debug e = e_debug e) /\
   (forall a b, g_eff_contains a b = e_contains a b /\ g_eff_insert a b = e_insert a b /\ g_eff_remove a b = e_remove a b /\
                g_eff_bitor a b = e_bitor a b /\ g_eff_bitor_assign a b = e_bitor_assign a b /\
                g_eff_sub a b = e_sub a b /\ g_eff_sub_assign a b = e_sub_assign a b) /\
   (forall a b en, g_eff_set a b en = e_set a b en)) /\
  ((forall c yes, g_ansi_bright c yes = Some (ansi_bright c yes)) /\
   (forall c, g_ansi_is_bright c = Some (ansi_is_bright c)) /\
   (forall n, g_a256_into_ansi n = Some (ansi256_into_ansi n)) /\
   (forall c, g_a256_from_ansi c = Some (ansi256_from_ansi c))) /\
  (g_st_new = st_new /\
   (forall s v, g_st_fg_color s v = st_fg_color s v /\ g_st_bg_color s v = st_bg_color s v /\
                g_st_underline_color s v = st_underline_color s v) /\
   (forall s e, g_st_effects s e = st_effects s e /\ g_st_bitor s e = st_bitor s e /\ g_st_bitor_assign s e = st_bitor_assign s e /\
                g_st_sub s e = st_sub s e /\ g_st_sub_assign s e = st_sub_assign s e /\ g_st_eq_effects s e = st_eq_effects s e) /\
   (forall m s, g_st_conv m s = st_conv m s) /\
   (forall s, g_st_get_fg_color s = st_get_fg_color s /\ g_st_get_bg_color s = st_get_bg_color s /\
              g_st_get_underline_color s = st_get_underline_color s /\ g_st_get_effects s = st_get_effects s /\
              g_st_is_plain s = st_is_plain s) /\
   (forall e, g_st_from_effects e = st_from_effects e)).
Proof. exact (conj translated_effects_are_model (conj translated_colors_are_model translated_style_is_model)). Qed.
