(* Proofs/StyleGen.v -- the functions translated from crates/anstyle/src/{effect.rs,color.rs,style.rs}
   (Generated/StyleFn.v, written by tools/gen_fn_style.py on every run) are extensionally equal to
   the hand model (Model/Style.v over the tables of Generated/Style.v) the theorems of C13 are about.
   A translated function that can panic answers in the option monad ([None] = panic); the lemmas
   then read [= Some (hand model)]: none of them panics. *)
From Coq Require Import NArith List Bool Lia.
From AV Require Import Generated.Style Model.Base Model.Imp Model.Style Generated.StyleFn.
Import ListNotations.
Local Open Scope N_scope.

(* ---- Effects: the bit-set operations -------------------------------------------------- *)

Lemma g_eff_new_eq : g_eff_new = e_new.
Proof. reflexivity. Qed.

Lemma g_eff_is_plain_eq e : g_eff_is_plain e = e_is_plain e.
Proof. reflexivity. Qed.

Lemma g_eff_contains_eq s o : g_eff_contains s o = e_contains s o.
Proof. reflexivity. Qed.

Lemma g_eff_insert_eq s o : g_eff_insert s o = e_insert s o.
Proof. reflexivity. Qed.

(* `self.0 &= !other.0`: the complement is taken at the width of the field (u16) *)
Lemma g_eff_remove_eq s o : g_eff_remove s o = e_remove s o.
Proof. reflexivity. Qed.

Lemma g_eff_clear_eq s : g_eff_clear s = e_clear s.
Proof. reflexivity. Qed.

Lemma g_eff_set_eq s o en : g_eff_set s o en = e_set s o en.
Proof. unfold g_eff_set, e_set. destruct en; [apply g_eff_insert_eq | apply g_eff_remove_eq]. Qed.

Lemma g_eff_bitor_eq s o : g_eff_bitor s o = e_bitor s o.
Proof. reflexivity. Qed.

Lemma g_eff_bitor_assign_eq s o : g_eff_bitor_assign s o = e_bitor_assign s o.
Proof. reflexivity. Qed.

Lemma g_eff_sub_eq s o : g_eff_sub s o = e_sub s o.
Proof. reflexivity. Qed.

Lemma g_eff_sub_assign_eq s o : g_eff_sub_assign s o = e_sub_assign s o.
Proof. reflexivity. Qed.

(* Effects::render wraps the set (`EffectsDisplay(self)`); what Display does with it is C05's *)
Lemma g_eff_render_eq e : g_eff_render e = e.
Proof. reflexivity. Qed.

(* ---- the iterators ----------------------------------------------------------------------- *)

(* the hand model runs an iterator to exhaustion ([iter_loop]); one call of `next` from position
   [i], [n] positions before the end of METADATA, is [e_next]: *)
Fixpoint e_next {A} (item : N -> N -> A) (e : N) (n : nat) (i : N) : option (eff_iter * option A) :=
  match n with
  | O => Some (mkEffIter i e, None)
  | S k =>
      effect <- shl1_u16 i ;;
      if e_contains e effect then Some (mkEffIter (i + 1) e, Some (item i effect))
      else e_next item e k (i + 1)
  end.

Lemma len_metadata : len metadata = 12.
Proof. reflexivity. Qed.

Lemma cshl_u16_one i : i < 16 -> cshl 16 1 i = Some (N.shiftl 1 i).
Proof.
  intro H. unfold cshl. apply N.ltb_lt in H. rewrite H. f_equal.
  apply N.ltb_lt in H. apply N.mod_small. rewrite N.shiftl_1_l.
  apply N.pow_lt_mono_r; lia.
Qed.

Lemma shl1_u16_small i : i < 16 -> shl1_u16 i = Some (N.shiftl 1 i).
Proof. intro H. unfold shl1_u16. apply N.ltb_lt in H. rewrite H. reflexivity. Qed.

(* The scan both `next` perform, told WITHOUT the loop: the first position in [i, i + n) whose bit is set.
   The proofs below do not depend on how the Rust code spells the loop (in `next` itself, in a shared
   helper over `&mut self.index`, the cursor or the whole iterator as the loop state, `contains(Effects(1 << i))`
   or `self.0 & (1 << i) != 0` as the test, the item built inside or after the loop): the translated loop
   body is only asked to MEAN one step of this scan ([scan_loop]), see HACKING.d/robust_R1.md. *)
Fixpoint e_find (e : N) (n : nat) (i : N) : option N :=
  match n with
  | O => None
  | S k => if N.testbit e i then Some i else e_find e k (i + 1)
  end.

Lemma e_find_range e : forall n i j, e_find e n i = Some j -> i <= j /\ j < i + N.of_nat n.
Proof.
  induction n as [|k IH]; intros i j H; cbn [e_find] in H; [discriminate|].
  destruct (N.testbit e i).
  - injection H as <-. lia.
  - apply IH in H. lia.
Qed.

(* the spellings of "bit i of e is set" *)
Lemma land_bit e i : N.land e (N.shiftl 1 i) = if N.testbit e i then N.shiftl 1 i else 0.
Proof.
  apply N.bits_inj. intro k. rewrite N.land_spec, N.shiftl_1_l, N.pow2_bits_eqb.
  destruct (N.eqb_spec i k) as [->|Hne].
  - destruct (N.testbit e k) eqn:E; [rewrite N.pow2_bits_true | rewrite N.bits_0]; rewrite ?andb_true_r, ?andb_false_r; reflexivity.
  - rewrite andb_false_r. destruct (N.testbit e i); [rewrite N.pow2_bits_false by exact Hne | rewrite N.bits_0]; reflexivity.
Qed.

Lemma shl1_nonzero i : N.shiftl 1 i <> 0.
Proof. rewrite N.shiftl_1_l. apply N.pow_nonzero. discriminate. Qed.

Lemma e_contains_bit e i : e_contains e (N.shiftl 1 i) = N.testbit e i.
Proof.
  unfold e_contains. rewrite N.land_comm, land_bit. destruct (N.testbit e i).
  - apply N.eqb_refl.
  - apply N.eqb_neq. intro H. symmetry in H. exact (shl1_nonzero i H).
Qed.

Lemma land_bit_ne0 e i : negb (N.land e (N.shiftl 1 i) =? 0) = N.testbit e i.
Proof.
  rewrite land_bit. destruct (N.testbit e i); [|reflexivity].
  apply negb_true_iff, N.eqb_neq, shl1_nonzero.
Qed.

Lemma land_bit_ne0' e i : negb (N.land (N.shiftl 1 i) e =? 0) = N.testbit e i.
Proof. rewrite N.land_comm. apply land_bit_ne0. Qed.

Lemma land_bit_eq e i : (N.land e (N.shiftl 1 i) =? N.shiftl 1 i) = N.testbit e i.
Proof. rewrite <- e_contains_bit. unfold e_contains. rewrite N.land_comm. reflexivity. Qed.

Lemma land_bit_eq' e i : (N.land (N.shiftl 1 i) e =? N.shiftl 1 i) = N.testbit e i.
Proof. rewrite N.land_comm. apply land_bit_eq. Qed.

Lemma land_bit_eq0 e i : (N.land e (N.shiftl 1 i) =? 0) = negb (N.testbit e i).
Proof. rewrite <- land_bit_ne0, negb_involutive. reflexivity. Qed.

Lemma land_bit_eq0' e i : (N.land (N.shiftl 1 i) e =? 0) = negb (N.testbit e i).
Proof. rewrite N.land_comm. apply land_bit_eq0. Qed.

Lemma shr_bit_ne0 e i : negb (N.land (N.shiftr e i) 1 =? 0) = N.testbit e i.
Proof.
  rewrite <- (N.shiftl_0_r 1) at 1. rewrite land_bit_ne0, N.shiftr_spec', N.add_0_l. reflexivity.
Qed.

Lemma shr_bit_eq1 e i : (N.land (N.shiftr e i) 1 =? 1) = N.testbit e i.
Proof.
  change 1 with (N.shiftl 1 0). rewrite land_bit_eq, N.shiftr_spec', N.add_0_l. reflexivity.
Qed.

(* one call of `next` (hand model) in terms of the scan *)
Lemma e_next_find {A} (item : N -> N -> A) e : forall n i, i + N.of_nat n = 12 ->
  e_next item e n i
  = Some (match e_find e n i with
          | Some j => (mkEffIter (j + 1) e, Some (item j (N.shiftl 1 j)))
          | None => (mkEffIter 12 e, None)
          end).
Proof.
  induction n as [|k IH]; intros i Hi; cbn [e_next e_find].
  - replace i with 12 by lia. reflexivity.
  - rewrite shl1_u16_small by lia. cbv iota. rewrite e_contains_bit.
    destruct (N.testbit e i); [reflexivity|]. apply IH. lia.
Qed.

(* ANY loop whose body, in a state that stands for position [i] ([mk i]: the iterator, the bare cursor, a tuple
   with a result variable ..), leaves the loop with [hit i] (a `return` or a `break`, carrying whatever the code
   carries) when bit [i] is set, goes on with the state of [i + 1] when it is not, and leaves with [endv] at the end
   of the table, performs the scan.  [while_fuel] (a loop with a `return` inside) and [while_fuel0] (none). *)
Definition lctl_is_next {S R} (c : lctl S R) : bool := match c with LNext _ => true | _ => false end.
Definition lctl_stop {S R} (c : lctl S R) : S + R :=
  match c with LRet r => inr r | LBreak s => inl s | LNext s => inl s end.

Lemma scan_loop {St X} (step : St -> option (lctl St X)) (mk : N -> St) (hit : N -> lctl St X) (endv : lctl St X) e :
  (forall i, i < 12 -> step (mk i) = Some (if N.testbit e i then hit i else LNext (mk (i + 1)))) ->
  (forall i, lctl_is_next (hit i) = false) ->
  step (mk 12) = Some endv ->
  lctl_is_next endv = false ->
  forall n i wf, i + N.of_nat n = 12 -> (n < wf)%nat ->
  while_fuel wf step (mk i)
  = Some (lctl_stop (match e_find e n i with Some j => hit j | None => endv end)).
Proof.
  intros Hstep Hhit Hend Hendv.
  induction n as [|k IH]; intros i wf Hi Hwf; (destruct wf as [|wf]; [lia|]); cbn [while_fuel e_find].
  - replace i with 12 by lia. rewrite Hend. destruct endv; try discriminate; reflexivity.
  - rewrite Hstep by lia. destruct (N.testbit e i); [|apply IH; lia].
    specialize (Hhit i). destruct (hit i); try discriminate; reflexivity.
Qed.

Lemma scan_loop0 {St} (step : St -> option (bctl St)) (mk : N -> St) (hit : N -> St) (endv : St) e :
  (forall i, i < 12 -> step (mk i) = Some (if N.testbit e i then BBreak (hit i) else BNext (mk (i + 1)))) ->
  step (mk 12) = Some (BBreak endv) ->
  forall n i wf, i + N.of_nat n = 12 -> (n < wf)%nat ->
  while_fuel0 wf step (mk i)
  = Some (match e_find e n i with Some j => hit j | None => endv end).
Proof.
  intros Hstep Hend.
  induction n as [|k IH]; intros i wf Hi Hwf; (destruct wf as [|wf]; [lia|]); cbn [while_fuel0 e_find].
  - replace i with 12 by lia. rewrite Hend. reflexivity.
  - rewrite Hstep by lia. destruct (N.testbit e i); [reflexivity|]. apply IH; lia.
Qed.

(* the same scan written as `for index in self.index..METADATA.len()`: the position is the loop variable, the
   state [s] stays as it is until the loop is left *)
Lemma scan_for {St X} (body : N -> St -> option (lctl St X)) (s : St) (hit : N -> lctl St X) e :
  (forall j, j < 12 -> body j s = Some (if N.testbit e j then hit j else LNext s)) ->
  (forall j, lctl_is_next (hit j) = false) ->
  forall n i, i + N.of_nat n = 12 ->
  for_list body (range_from i n) s
  = Some (match e_find e n i with Some j => lctl_stop (hit j) | None => inl s end).
Proof.
  intros Hbody Hhit.
  induction n as [|k IH]; intros i Hi; cbn [range_from for_list e_find]; [reflexivity|].
  rewrite Hbody by lia. destruct (N.testbit e i); [|apply IH; lia].
  specialize (Hhit i). destruct (hit i); try discriminate; reflexivity.
Qed.

Lemma scan_for0 {St} (body : N -> St -> option (bctl St)) (s : St) (hit : N -> St) e :
  (forall j, j < 12 -> body j s = Some (if N.testbit e j then BBreak (hit j) else BNext s)) ->
  forall n i, i + N.of_nat n = 12 ->
  for_list0 body (range_from i n) s
  = Some (match e_find e n i with Some j => hit j | None => s end).
Proof.
  intros Hbody.
  induction n as [|k IH]; intros i Hi; cbn [range_from for_list0 e_find]; [reflexivity|].
  rewrite Hbody by lia. destruct (N.testbit e i); [reflexivity|]. apply IH; lia.
Qed.

(* normalise a translated loop body applied to the state of a position *)
Ltac scan_norm :=
  cbv beta iota zeta;
  cbn [ei_index ei_effects set_ei_index fst snd];
  rewrite ?len_metadata;
  unfold eff_new, eff_f0;
  rewrite ?cshl_u16_one by lia;
  cbv beta iota zeta;
  cbn [ei_index ei_effects set_ei_index fst snd];
  unfold eff_new, eff_f0;
  rewrite ?g_eff_contains_eq;
  rewrite ?e_contains_bit, ?land_bit_ne0, ?land_bit_ne0', ?land_bit_eq, ?land_bit_eq', ?land_bit_eq0, ?land_bit_eq0',
          ?shr_bit_ne0, ?shr_bit_eq1.

(* the ways of asking "is position j inside the table", for j < 12 *)
Lemma in_table_tests j : j < 12 ->
  (j <? 12) = true /\ (12 <=? j) = false /\ (j =? 12) = false /\ (12 =? j) = false /\ (12 <? j) = false /\ (j <=? 11) = true.
Proof.
  intro H. repeat split;
    first [ apply N.ltb_lt; lia | apply N.leb_gt; lia | apply N.eqb_neq; lia | apply N.ltb_ge; lia | apply N.leb_le; lia ].
Qed.

(* side goal [forall j, j < 12 -> step (mk j) = Some (if N.testbit e j then ?hit j else <next> (mk (j + 1)))] *)
Ltac scan_step_side step e :=
  let j := fresh "j" in let Hj := fresh "Hj" in
  intros j Hj; unfold step; scan_norm;
  let T := fresh "T" in
  destruct (in_table_tests j Hj) as (?T & ?T & ?T & ?T & ?T & ?T);
  repeat match goal with
         | H : _ = true |- _ => rewrite !H
         | H : _ = false |- _ => rewrite !H
         end;
  cbn [negb];
  scan_norm;
  destruct (N.testbit e j); cbn [negb]; reflexivity.

Ltac scan_side_of L tac :=
  match type of L with
  | ?P -> _ => let H := fresh "Hside" in assert (H : P); [ tac | specialize (L H); clear H ]
  end.

(* goal: [<translated next> (mkEffIter i e) = e_next item e n i] under [Hi : i + N.of_nat n = 12] *)
Ltac scan_next e n i Hi :=
  cbv zeta; cbn [ei_index ei_effects set_ei_index];
  rewrite ?len_metadata;
  try replace (N.to_nat (12 - i)) with n by lia;
  let L := fresh "L" in
  lazymatch goal with
  | |- context [for_list ?f (range_from i n) ?s] =>
      let step := fresh "step" in
      set (step := f);
      epose proof (scan_for step s _ e) as L;
      scan_side_of L ltac:(scan_step_side step e);
      scan_side_of L ltac:(intros; reflexivity);
      specialize (L n i Hi); rewrite L; clear L
  | |- context [for_list0 ?f (range_from i n) ?s] =>
      let step := fresh "step" in
      set (step := f);
      epose proof (scan_for0 step s _ e) as L;
      scan_side_of L ltac:(scan_step_side step e);
      specialize (L n i Hi); rewrite L; clear L
  | |- context [while_fuel ?wf ?f ?s] =>
      let mkp := eval pattern i in s in
      lazymatch mkp with
      | ?mk _ =>
          let step := fresh "step" in
          set (step := f);
          epose proof (scan_loop step mk _ _ e) as L;
          scan_side_of L ltac:(scan_step_side step e);
          scan_side_of L ltac:(intros; reflexivity);
          scan_side_of L ltac:(unfold step; scan_norm; reflexivity);
          scan_side_of L ltac:(reflexivity);
          specialize (L n i wf Hi); cbv beta in L;
          rewrite L by (cbn; lia); clear L
      end
  | |- context [while_fuel0 ?wf ?f ?s] =>
      let mkp := eval pattern i in s in
      lazymatch mkp with
      | ?mk _ =>
          let step := fresh "step" in
          set (step := f);
          epose proof (scan_loop0 step mk _ _ e) as L;
          scan_side_of L ltac:(scan_step_side step e);
          scan_side_of L ltac:(unfold step; scan_norm; reflexivity);
          specialize (L n i wf Hi); cbv beta in L;
          rewrite L by (cbn; lia); clear L
      end
  end;
  rewrite (e_next_find _ e n i Hi);
  let Hr := fresh "Hr" in
  pose proof (e_find_range e n i) as Hr;
  let j := fresh "j" in
  destruct (e_find e n i) as [j|];
  [ specialize (Hr j eq_refl) | clear Hr ];
  cbv beta iota zeta delta [lctl_stop];
  cbn [ei_index ei_effects set_ei_index fst snd];
  unfold eff_new, eff_f0;
  rewrite ?cshl_u16_one by lia;
  cbv beta iota zeta;
  cbn [ei_index ei_effects set_ei_index fst snd];
  reflexivity.

(* EffectIter::next, from any position inside the table *)
Lemma g_eff_iter_next_eq e : forall n i, i + N.of_nat n = 12 ->
  g_eff_iter_next (mkEffIter i e) = e_next (fun _ effect => effect) e n i.
Proof. intros n i Hi. unfold g_eff_iter_next. scan_next e n i Hi. Qed.

(* EffectIndexIter::next *)
Lemma g_eff_index_iter_next_eq e : forall n i, i + N.of_nat n = 12 ->
  g_eff_index_iter_next (mkEffIter i e) = e_next (fun index _ => index) e n i.
Proof. intros n i Hi. unfold g_eff_index_iter_next. scan_next e n i Hi. Qed.

(* draining ANY `next` that does what [e_next] does yields the hand model's list *)
Lemma drain_e_next {A} (item : N -> N -> A) (next : eff_iter -> option (eff_iter * option A)) e :
  (forall n i, i + N.of_nat n = 12 -> next (mkEffIter i e) = e_next item e n i) ->
  forall n i df, i + N.of_nat n = 12 -> (n < df)%nat ->
  iter_drain next df (mkEffIter i e) = iter_loop item n i e.
Proof.
  intro Hnext. induction n as [|k IH]; intros i df Hi Hdf; (destruct df as [|df]; [lia|]).
  - cbn [iter_drain iter_loop]. rewrite (Hnext O i Hi). reflexivity.
  - assert (Hlt : i < 16) by lia.
    cbn [iter_drain iter_loop]. rewrite (Hnext (S k) i Hi). cbn [e_next].
    rewrite shl1_u16_small by exact Hlt. cbv iota.
    destruct (e_contains e (N.shiftl 1 i)).
    + rewrite IH by lia. destruct (iter_loop item k (i + 1) e); reflexivity.
    + rewrite <- (Hnext k (i + 1)) by lia.
      specialize (IH (i + 1) (S df)). cbn [iter_drain] in IH. rewrite IH by lia.
      destruct (iter_loop item k (i + 1) e); reflexivity.
Qed.

(* `effects.iter()` / `effects.index_iter()` collected: the translated constructor, then the
   translated `next` until it answers None *)
Definition g_eff_iter_items (e : N) : option (list N) :=
  iter_drain g_eff_iter_next (S (length metadata)) (g_eff_iter e).
Definition g_eff_index_iter_items (e : N) : option (list N) :=
  iter_drain g_eff_index_iter_next (S (length metadata)) (g_eff_index_iter e).

Lemma g_eff_iter_eq e : g_eff_iter_items e = e_iter e.
Proof.
  unfold g_eff_iter_items, g_eff_iter, e_iter.
  apply (drain_e_next (fun _ effect => effect) g_eff_iter_next e (g_eff_iter_next_eq e)); [reflexivity | cbn; lia].
Qed.

Lemma g_eff_index_iter_eq e : g_eff_index_iter_items e = e_index_iter e.
Proof.
  unfold g_eff_index_iter_items, g_eff_index_iter, e_index_iter.
  apply (drain_e_next (fun index _ => index) g_eff_index_iter_next e (g_eff_index_iter_next_eq e)); [reflexivity | cbn; lia].
Qed.

(* ---- Debug ----------------------------------------------------------------------------------- *)

(* one `next` of the index iterator against the hand model's list: nothing left, or the head of the list and an
   iterator that drains to its tail (for a Debug impl that takes the first name with `next()` before the loop) *)
Lemma index_iter_uncons e : forall n i, i + N.of_nat n = 12 ->
  exists l, iter_loop (fun index _ => index) n i e = Some l /\
    match l with
    | [] => exists it', g_eff_index_iter_next (mkEffIter i e) = Some (it', None)
    | x :: t => exists it', g_eff_index_iter_next (mkEffIter i e) = Some (it', Some x)
                 /\ forall df, (12 < df)%nat -> iter_drain g_eff_index_iter_next df it' = Some t
    end.
Proof.
  induction n as [|k IH]; intros i Hi.
  - exists []. split; [reflexivity|]. rewrite (g_eff_index_iter_next_eq e O i Hi). eexists. reflexivity.
  - destruct (IH (i + 1)) as [l' [Hl' Hn]]; [lia|].
    rewrite (g_eff_index_iter_next_eq e (S k) i Hi). cbn [iter_loop e_next]. rewrite shl1_u16_small by lia. cbv iota.
    rewrite Hl'. destruct (e_contains e (N.shiftl 1 i)).
    + exists (i :: l'). split; [reflexivity|]. eexists. split; [reflexivity|]. intros df Hdf.
      rewrite (drain_e_next _ _ e (g_eff_index_iter_next_eq e) k (i + 1) df) by lia. exact Hl'.
    + exists l'. split; [reflexivity|]. rewrite <- (g_eff_index_iter_next_eq e k (i + 1)) by lia. exact Hn.
Qed.

(* the names after the first: every step appends " | " and the name *)
Lemma debug_rest_loop {R} (step : N -> list N -> option (lctl (list N) R)) :
  (forall x acc, step x acc = option_map (fun md => LNext (acc ++ str_bar ++ fst md)) (aget metadata x)) ->
  forall l j acc, for_list step l acc = option_map (fun b => inl (acc ++ b)) (debug_body (S j) l).
Proof.
  intro Hs. induction l as [|x t IH]; intros j acc; cbn [for_list debug_body].
  - cbn [option_map]. rewrite app_nil_r. reflexivity.
  - rewrite Hs. destruct (aget metadata x) as [md|]; [|reflexivity]. cbn [option_map]. rewrite (IH (S j)).
    destruct (debug_body (S (S j)) t) as [rest|]; cbn [option_map]; cbv iota; [|reflexivity].
    rewrite <- !app_assoc. reflexivity.
Qed.

(* `for (i, index) in ..enumerate()`: every step appends the name, after " | " unless i = 0 *)
Lemma debug_enum_loop {R} (step : N * N -> list N -> option (lctl (list N) R)) :
  (forall j x acc, step (j, x) acc
     = option_map (fun md => LNext (acc ++ (if j =? 0 then [] else str_bar) ++ fst md)) (aget metadata x)) ->
  forall l j acc, for_list step (enumerate_from j l) acc = option_map (fun b => inl (acc ++ b)) (debug_body (N.to_nat j) l).
Proof.
  intro Hs. induction l as [|x t IH]; intros j acc; cbn [enumerate_from for_list debug_body].
  - cbn [option_map]. rewrite app_nil_r. reflexivity.
  - rewrite Hs. destruct (aget metadata x) as [md|]; [|reflexivity]. cbn [option_map]. rewrite IH.
    replace (N.to_nat (j + 1)) with (S (N.to_nat j)) by lia.
    destruct (debug_body (S (N.to_nat j)) t) as [rest|]; cbn [option_map]; cbv iota; [|reflexivity].
    destruct (j =? 0) eqn:Ej.
    + apply N.eqb_eq in Ej. subst j. change (N.to_nat 0) with O. cbv iota. rewrite <- !app_assoc. reflexivity.
    + apply N.eqb_neq in Ej. destruct (N.to_nat j) as [|jn] eqn:En; [lia|]. cbv iota. rewrite <- !app_assoc. reflexivity.
Qed.

Ltac debug_enumerate e :=
  change (iter_drain g_eff_index_iter_next (S (length metadata)) (g_eff_index_iter e)) with (g_eff_index_iter_items e);
  rewrite g_eff_index_iter_eq;
  let l := fresh "l" in
  destruct (e_index_iter e) as [l|]; [|reflexivity]; cbv iota;
  unfold enumerate0;
  lazymatch goal with
  | |- context [for_list ?F _ _] =>
      rewrite (debug_enum_loop F)
        by (let j := fresh "j" in intros j ? ?; unfold fmt_write_str, md_name, str_bar; cbv beta iota zeta;
            destruct (j =? 0); cbn [negb]; cbv beta iota zeta;
            destruct (aget metadata _); cbn [option_map]; cbv beta iota zeta; rewrite <- ?app_assoc; reflexivity)
  end;
  change (N.to_nat 0) with O;
  destruct (debug_body 0 l) as [body|]; cbn [option_map]; cbv iota; [|reflexivity];
  unfold fmt_write_str, str_effects_open, str_close; rewrite <- !app_assoc; reflexivity.

Ltac debug_first_then_rest e :=
  let l := fresh "l" in let Hl := fresh "Hl" in let Hn := fresh "Hn" in
  destruct (index_iter_uncons e 12 0 eq_refl) as [l [Hl Hn]];
  unfold e_index_iter; change (length metadata) with 12%nat; rewrite Hl;
  change (g_eff_index_iter e) with (mkEffIter 0 e);
  let x := fresh "x" in let t := fresh "t" in let it' := fresh "it'" in let Hd := fresh "Hd" in
  destruct l as [|x t];
  [ destruct Hn as [it' Hn]; rewrite Hn; cbv beta iota zeta;
    unfold fmt_write_str, str_effects_open, str_close; cbn [debug_body option_map app]; cbv beta iota;
    rewrite <- ?app_assoc; reflexivity
  | destruct Hn as [it' [Hn Hd]]; rewrite Hn; cbv beta iota zeta;
    rewrite Hd by (cbn; lia); cbv beta iota zeta;
    cbn [debug_body]; unfold md_name;
    let md := fresh "md" in
    destruct (aget metadata x) as [md|]; [|reflexivity]; cbv beta iota zeta;
    lazymatch goal with
    | |- context [for_list ?F _ _] =>
        rewrite (debug_rest_loop F) with (j := O)
          by (intros; unfold fmt_write_str, md_name, str_bar; cbv beta iota zeta;
              destruct (aget metadata _); cbn [option_map]; cbv beta iota zeta; rewrite <- ?app_assoc; reflexivity)
    end;
    destruct (debug_body 1 t) as [rest|]; cbn [option_map]; cbv beta iota zeta; [|reflexivity];
    unfold fmt_write_str, str_effects_open, str_close; rewrite <- ?app_assoc; reflexivity ].

(* <Effects as Debug>::fmt appends the hand model's text to what the formatter holds and answers Ok(()) *)
Lemma g_eff_debug_fmt_eq e f :
  g_eff_debug_fmt e f = option_map (fun t => (f ++ t, inl tt)) (e_debug e).
Proof.
  unfold g_eff_debug_fmt, e_debug. cbv zeta.
  lazymatch goal with
  | |- context [enumerate0] =>
      (* `for (i, index) in self.index_iter().enumerate()` with the separator chosen by `i != 0` *)
      debug_enumerate e
  | |- context [g_eff_index_iter_next (g_eff_index_iter e)] =>
      (* the first name taken with `next()`, the others in a loop that writes the separator first *)
      debug_first_then_rest e
  end.
Qed.

(* `format!("{:?}", effects)`: an empty formatter, the text it holds afterwards *)
Definition g_eff_debug (e : N) : option (list N) := option_map fst (g_eff_debug_fmt e []).

Lemma g_eff_debug_eq e : g_eff_debug e = e_debug e.
Proof. unfold g_eff_debug. rewrite g_eff_debug_fmt_eq. destruct (e_debug e); reflexivity. Qed.

(* ---- colours ------------------------------------------------------------------------------------ *)

Lemma g_ansi_bright_eq c yes : g_ansi_bright c yes = Some (ansi_bright c yes).
Proof. destruct c, yes; reflexivity. Qed.

Lemma g_ansi_is_bright_eq c : g_ansi_is_bright c = Some (ansi_is_bright c).
Proof. destruct c; reflexivity. Qed.

Lemma g_a256_index_eq n : g_a256_index n = n.
Proof. reflexivity. Qed.

Lemma g_a256_into_ansi_eq n : g_a256_into_ansi n = Some (ansi256_into_ansi n).
Proof.
  unfold g_a256_into_ansi, g_a256_index, a256_f0, ansi256_into_ansi. cbv zeta.
  destruct n as [|p]; [reflexivity|].
  do 5 (try (destruct p as [p|p|]; try reflexivity)).
Qed.

Lemma g_a256_from_ansi_eq c : g_a256_from_ansi c = Some (ansi256_from c).
Proof. destruct c; reflexivity. Qed.

(* ---- Style ---------------------------------------------------------------------------------------- *)

Lemma g_st_new_eq : g_st_new = st_new.
Proof. reflexivity. Qed.

Lemma g_st_fg_color_eq s v : g_st_fg_color s v = st_fg_color s v.
Proof. reflexivity. Qed.

Lemma g_st_bg_color_eq s v : g_st_bg_color s v = st_bg_color s v.
Proof. reflexivity. Qed.

Lemma g_st_underline_color_eq s v : g_st_underline_color s v = st_underline_color s v.
Proof. reflexivity. Qed.

Lemma g_st_effects_eq s e : g_st_effects s e = st_effects s e.
Proof. reflexivity. Qed.

(* the eight convenience methods, by the name Generated/Style.v gives them *)
Definition g_st_conv (m : conv_method) : style -> style :=
  match m with
  | Conv_bold => g_st_bold
  | Conv_dimmed => g_st_dimmed
  | Conv_italic => g_st_italic
  | Conv_underline => g_st_underline
  | Conv_blink => g_st_blink
  | Conv_invert => g_st_invert
  | Conv_hidden => g_st_hidden
  | Conv_strikethrough => g_st_strikethrough
  end.

Lemma g_st_conv_eq m s : g_st_conv m s = st_conv m s.
Proof. destruct m; reflexivity. Qed.

Lemma g_st_get_fg_color_eq s : g_st_get_fg_color s = st_get_fg_color s.
Proof. reflexivity. Qed.

Lemma g_st_get_bg_color_eq s : g_st_get_bg_color s = st_get_bg_color s.
Proof. reflexivity. Qed.

Lemma g_st_get_underline_color_eq s : g_st_get_underline_color s = st_get_underline_color s.
Proof. reflexivity. Qed.

Lemma g_st_get_effects_eq s : g_st_get_effects s = st_get_effects s.
Proof. reflexivity. Qed.

Lemma g_st_is_plain_eq s : g_st_is_plain s = st_is_plain s.
Proof. reflexivity. Qed.

Lemma g_st_from_effects_eq e : g_st_from_effects e = st_from_effects e.
Proof. reflexivity. Qed.

Lemma g_st_bitor_eq s e : g_st_bitor s e = st_bitor s e.
Proof. reflexivity. Qed.

Lemma g_st_bitor_assign_eq s e : g_st_bitor_assign s e = st_bitor_assign s e.
Proof. reflexivity. Qed.

Lemma g_st_sub_eq s e : g_st_sub s e = st_sub s e.
Proof. reflexivity. Qed.

Lemma g_st_sub_assign_eq s e : g_st_sub_assign s e = st_sub_assign s e.
Proof. reflexivity. Qed.

Lemma g_st_eq_effects_eq s e : g_st_eq_effects s e = st_eq_effects s e.
Proof. reflexivity. Qed.

(* ---- the entry points, together ------------------------------------------------------------------------ *)

Theorem translated_effects_are_model :
  g_eff_new = e_new /\
  (forall e, g_eff_is_plain e = e_is_plain e /\ g_eff_clear e = e_clear e /\ g_eff_render e = e /\
             g_eff_iter_items e = e_iter e /\ g_eff_index_iter_items e = e_index_iter e /\ g_eff_debug e = e_debug e) /\
  (forall a b, g_eff_contains a b = e_contains a b /\ g_eff_insert a b = e_insert a b /\ g_eff_remove a b = e_remove a b /\
               g_eff_bitor a b = e_bitor a b /\ g_eff_bitor_assign a b = e_bitor_assign a b /\
               g_eff_sub a b = e_sub a b /\ g_eff_sub_assign a b = e_sub_assign a b) /\
  (forall a b en, g_eff_set a b en = e_set a b en).
Proof.
  split; [exact g_eff_new_eq|]. split; [|split].
  - intro e. repeat split. apply g_eff_iter_eq. apply g_eff_index_iter_eq. apply g_eff_debug_eq.
  - intros a b. repeat split.
  - exact g_eff_set_eq.
Qed.

Theorem translated_colors_are_model :
  (forall c yes, g_ansi_bright c yes = Some (ansi_bright c yes)) /\
  (forall c, g_ansi_is_bright c = Some (ansi_is_bright c)) /\
  (forall n, g_a256_into_ansi n = Some (ansi256_into_ansi n)) /\
  (forall c, g_a256_from_ansi c = Some (ansi256_from_ansi c)).
Proof.
  split; [exact g_ansi_bright_eq|]. split; [exact g_ansi_is_bright_eq|]. split; [exact g_a256_into_ansi_eq|].
  exact g_a256_from_ansi_eq.
Qed.

Theorem translated_style_is_model :
  g_st_new = st_new /\
  (forall s v, g_st_fg_color s v = st_fg_color s v /\ g_st_bg_color s v = st_bg_color s v /\
               g_st_underline_color s v = st_underline_color s v) /\
  (forall s e, g_st_effects s e = st_effects s e /\ g_st_bitor s e = st_bitor s e /\ g_st_bitor_assign s e = st_bitor_assign s e /\
               g_st_sub s e = st_sub s e /\ g_st_sub_assign s e = st_sub_assign s e /\ g_st_eq_effects s e = st_eq_effects s e) /\
  (forall m s, g_st_conv m s = st_conv m s) /\
  (forall s, g_st_get_fg_color s = st_get_fg_color s /\ g_st_get_bg_color s = st_get_bg_color s /\
             g_st_get_underline_color s = st_get_underline_color s /\ g_st_get_effects s = st_get_effects s /\
             g_st_is_plain s = st_is_plain s) /\
  (forall e, g_st_from_effects e = st_from_effects e).
Proof.
  split; [reflexivity|]. split; [intros; repeat split|]. split; [intros; repeat split|].
  split; [exact g_st_conv_eq|]. split; [intros; repeat split|]. exact g_st_from_effects_eq.
Qed.

(* every function of the value API that Generated/StyleFn.v translates computes what the hand model computes *)
Theorem translated_style_api_is_model :
  (g_eff_new = e_new /\
   (forall e, g_eff_is_plain e = e_is_plain e /\ g_eff_clear e = e_clear e /\ g_eff_render e = e /\
              g_eff_iter_items e = e_iter e /\ g_eff_index_iter_items e = e_index_iter e /\ g_eff_debug e = e_debug e) /\
   (forall a b, g_eff_contains a b = e_contains a b /\ g_eff_insert a b = e_insert a b /\ g_eff_remove a b = e_remove a b /\
                g_eff_bitor a b = e_bitor a b /\ g_eff_bitor_assign a b = e_bitor_assign a b /\
                g_eff_sub a b = e_sub a b /\ g_eff_sub_assign a b = e_sub_assign a b) /\
   (forall a b en, g_eff_set a b en = e_set a b en)) /\
  ((forall c yes, g_ansi_bright c yes = Some (ansi_bright c yes)) /\
   (forall c, g_ansi_is_bright c = Some (ansi_is_bright c)) /\
   (forall n, g_a256_into_ansi n = Some (ansi256_into_ansi n)) /\
   (forall c, g_a256_from_ansi c = Some (ansi256_from_ansi c))) /\
  (g_st_new = st_new /\
   (forall s v, g_st_fg_color s v = st_fg_color s v /\ g_st_bg_color s v = st_bg_color s v /\
                g_st_underline_color s v = st_underline_color s v) /\
   (forall s e, g_st_effects s e = st_effects s e /\ g_st_bitor s e = st_bitor s e /\ g_st_bitor_assign s e = st_bitor_assign s e /\
                g_st_sub s e = st_sub s e /\ g_st_sub_assign s e = st_sub_assign s e /\ g_st_eq_effects s e = st_eq_effects s e) /\
   (forall m s, g_st_conv m s = st_conv m s) /\
   (forall s, g_st_get_fg_color s = st_get_fg_color s /\ g_st_get_bg_color s = st_get_bg_color s /\
              g_st_get_underline_color s = st_get_underline_color s /\ g_st_get_effects s = st_get_effects s /\
              g_st_is_plain s = st_is_plain s) /\
   (forall e, g_st_from_effects e = st_from_effects e)).
Proof. exact (conj translated_effects_are_model (conj translated_colors_are_model translated_style_is_model)). Qed.
