(* Proofs/GitPrint.v -- C11: printing an expressible style in git's syntax and
   parsing it back. *)
From Coq Require Import NArith PeanoNat List Bool Lia.
From AV Require Import Generated.Git Spec.StyleRec Spec.SgrCodes Spec.GitSyntax Model.Base Model.Text Model.Git
  Proofs.Text Proofs.LsParse Proofs.GitWords Proofs.GitColor Proofs.Git.
Import ListNotations.
Local Open Scope N_scope.

(* ---- colour words ------------------------------------------------------------------ *)

Definition hex_digit_ok (v : N) : bool :=
  is_hex (hex_digit v) && (hex_value (hex_digit v) =? v) && (ascii_lower (hex_digit v) =? hex_digit v)
  && negb (is_white_space (hex_digit v)).

Lemma hex_digit_facts : forall v, v < 16 ->
  is_hex (hex_digit v) = true /\ hex_value (hex_digit v) = v /\ ascii_lower (hex_digit v) = hex_digit v
  /\ is_white_space (hex_digit v) = false.
Proof.
  assert (B : forallb hex_digit_ok (range_from 0 16) = true) by (vm_compute; reflexivity).
  intros v Hv. pose proof (forall_range _ 16 B v Hv) as H. unfold hex_digit_ok in H.
  rewrite !andb_true_iff in H. destruct H as (((H1 & H2) & H3) & H4).
  apply N.eqb_eq in H2, H3. apply negb_true_iff in H4. auto.
Qed.

Lemma nibbles : forall r, r <= 255 -> r / 16 < 16 /\ r mod 16 < 16 /\ 16 * (r / 16) + r mod 16 = r.
Proof.
  intros r Hr. split; [|split].
  - apply N.div_lt_upper_bound; lia.
  - apply N.mod_lt. lia.
  - symmetry. apply N.div_mod. lia.
Qed.

Lemma classify_rgb : forall r g b, r <= 255 -> g <= 255 -> b <= 255 ->
  classify (HASH :: hex2 r ++ hex2 g ++ hex2 b) = Some (GColor (Some (TRgb r g b)))
  /\ is_word (HASH :: hex2 r ++ hex2 g ++ hex2 b).
Proof.
  intros r g b Hr Hg Hb.
  destruct (nibbles r Hr) as (R1 & R0 & RE). destruct (nibbles g Hg) as (G1 & G0 & GE). destruct (nibbles b Hb) as (B1 & B0 & BE).
  destruct (hex_digit_facts _ R1) as (r1h & r1v & r1l & r1w). destruct (hex_digit_facts _ R0) as (r0h & r0v & r0l & r0w).
  destruct (hex_digit_facts _ G1) as (g1h & g1v & g1l & g1w). destruct (hex_digit_facts _ G0) as (g0h & g0v & g0l & g0w).
  destruct (hex_digit_facts _ B1) as (b1h & b1v & b1l & b1w). destruct (hex_digit_facts _ B0) as (b0h & b0v & b0l & b0w).
  unfold hex2. cbn [app]. split.
  - unfold classify. cbn [map]. rewrite r1l, r0l, g1l, g0l, b1l, b0l. change (ascii_lower HASH) with 35.
    unfold classify_lower. destruct tables_no_hash as [T1 T2].
    rewrite (lookup_first 35 _ _ T1), (lookup_first 35 _ _ T2). change (35 =? HASH) with true. cbn iota.
    unfold hex_color. cbn [forallb]. rewrite r1h, r0h, g1h, g0h, b1h, b0h. cbn [andb].
    rewrite r1v, r0v, g1v, g0v, b1v, b0v, RE, GE, BE. reflexivity.
  - split; [discriminate|]. unfold ws_free. cbn [forallb]. rewrite r1w, r0w, g1w, g0w, b1w, b0w. reflexivity.
Qed.

Definition word_ok (w : list N) : bool := negb (is_nil w) && ws_free w.

Lemma word_ok_is_word : forall w, word_ok w = true -> is_word w.
Proof.
  intros w H. unfold word_ok in H. apply andb_true_iff in H as [H1 H2]. split; [|exact H2].
  destruct w; [discriminate H1 | discriminate].
Qed.

Definition dec_word_ok (n : N) : bool :=
  match classify (dec n) with Some (GColor (Some (TAnsi256 m))) => m =? n | _ => false end && word_ok (dec n).

Lemma classify_dec : forall n, n <= 255 ->
  classify (dec n) = Some (GColor (Some (TAnsi256 n))) /\ is_word (dec n).
Proof.
  assert (B : forallb dec_word_ok all_bytes = true) by (vm_cast_no_check (eq_refl true)).
  intros n Hn. assert (Hn' : n < 256) by lia.
  pose proof (forall_bytes' _ B n Hn') as H. unfold dec_word_ok in H. apply andb_true_iff in H as [H1 H2].
  split; [|now apply word_ok_is_word].
  destruct (classify (dec n)) as [[[[i|m|? ? ?]|]|? ?]|]; try discriminate H1. apply N.eqb_eq in H1. now subst.
Qed.

Definition name_word_ok (i : N) : bool :=
  match classify (nth (N.to_nat i) color_names []) with Some (GColor (Some (TAnsi j))) => j =? i | _ => false end
  && word_ok (nth (N.to_nat i) color_names []).

Lemma classify_name : forall i, i < 8 ->
  classify (nth (N.to_nat i) color_names []) = Some (GColor (Some (TAnsi i))) /\ is_word (nth (N.to_nat i) color_names []).
Proof.
  assert (B : forallb name_word_ok (range_from 0 8) = true) by (vm_compute; reflexivity).
  intros i Hi. pose proof (forall_range _ 8 B i Hi) as H. unfold name_word_ok in H. apply andb_true_iff in H as [H1 H2].
  split; [|now apply word_ok_is_word].
  destruct (classify _) as [[[[j|m|? ? ?]|]|? ?]|]; try discriminate H1. apply N.eqb_eq in H1. now subst.
Qed.

Lemma print_color_ok : forall c, expressible_color (Some c) = true ->
  classify (print_color c) = Some (GColor (Some c)) /\ is_word (print_color c).
Proof.
  intros [i|n|r g b] H; cbn [expressible_color print_color] in *.
  - apply classify_name. now apply N.ltb_lt.
  - apply classify_dec. now apply N.leb_le.
  - rewrite !andb_true_iff, !N.leb_le in H. destruct H as [[Hr Hg] Hb]. now apply classify_rgb.
Qed.

Lemma normal_ok : classify NORMAL = Some (GColor None) /\ is_word NORMAL.
Proof. split; [vm_compute; reflexivity | apply word_ok_is_word; vm_compute; reflexivity]. Qed.

Lemma attr_name_ok : forall a, classify (attr_name a) = Some (GAttr true a) /\ is_word (attr_name a).
Proof. intros []; (split; [vm_compute; reflexivity | apply word_ok_is_word; vm_compute; reflexivity]). Qed.

(* ---- the token list of a printed style ---------------------------------------------- *)

Definition ctoks (f b : option tcolor) : list gtoken :=
  match f, b with
  | None, None => []
  | Some x, None => [GColor (Some x)]
  | None, Some y => [GColor None; GColor (Some y)]
  | Some x, Some y => [GColor (Some x); GColor (Some y)]
  end.

Definition etoks_of (e : N) (l : list gattr) : list gtoken :=
  flat_map (fun a => if N.testbit e (attr_bit a) then [GAttr true a] else []) l.
Definition ewords_of (e : N) (l : list gattr) : list (list N) :=
  flat_map (fun a => if N.testbit e (attr_bit a) then [attr_name a] else []) l.

Lemma ewords_ok : forall e l,
  Forall2 (fun w t => classify w = Some t) (ewords_of e l) (etoks_of e l) /\ Forall is_word (ewords_of e l).
Proof.
  intros e. induction l as [|a l [IH1 IH2]]; [split; constructor|].
  unfold ewords_of, etoks_of in *. cbn [flat_map]. destruct (attr_name_ok a) as [C W].
  destruct (N.testbit e (attr_bit a)); cbn [app]; split; auto.
Qed.

Lemma etoks_colors : forall e l, colors_of (etoks_of e l) = [].
Proof.
  intros e. induction l as [|a l IH]; [reflexivity|]. unfold etoks_of in *. cbn [flat_map].
  destruct (N.testbit e (attr_bit a)); cbn [app colors_of]; exact IH.
Qed.

Definition eff_ok (e : N) : bool :=
  implb (N.land e attr_mask =? e) (fold_left apply_attr (etoks_of e all_attrs) 0 =? e).

Lemma etoks_effects : forall e, e < 4096 -> N.land e attr_mask = e ->
  fold_left apply_attr (etoks_of e all_attrs) 0 = e.
Proof.
  assert (B : forallb eff_ok (range_from 0 4096) = true) by (vm_cast_no_check (eq_refl true)).
  intros e He Hm. pose proof (forall_range _ 4096 B e He) as H. unfold eff_ok in H.
  apply N.eqb_eq in Hm. rewrite Hm in H. cbn [implb] in H. now apply N.eqb_eq.
Qed.

Lemma fold_colors_id : forall f b x l, fold_left apply_attr (ctoks f b ++ l) x = fold_left apply_attr l x.
Proof. intros [f|] [b|] x l; reflexivity. Qed.

(* ---- round trip -------------------------------------------------------------------------- *)

Theorem git_roundtrip : forall st, expressible st = true ->
  git_parse (git_print_string st) = Some (GOk st).
Proof.
  intros [f b u e] H. unfold expressible in H. cbn [t_fg t_bg t_ul t_eff] in H.
  rewrite !andb_true_iff in H. destruct H as ((((Hu & Hf) & Hb) & He) & Hm).
  destruct u; [discriminate Hu|]. apply N.ltb_lt in He. apply N.eqb_eq in Hm.
  unfold git_print_string, git_print. cbn [t_fg t_bg t_eff].
  fold (ewords_of e all_attrs). destruct (ewords_ok e all_attrs) as [E2 EW].
  set (cw := match f, b with
             | None, None => []
             | Some x, None => [print_color x]
             | None, Some y => [NORMAL; print_color y]
             | Some x, Some y => [print_color x; print_color y]
             end).
  assert (C : Forall2 (fun w t => classify w = Some t) cw (ctoks f b) /\ Forall is_word cw).
  { subst cw. destruct normal_ok as [NC NW].
    destruct f as [x|]; destruct b as [y|]; cbn [ctoks];
      try (destruct (print_color_ok x Hf) as [XC XW]); try (destruct (print_color_ok y Hb) as [YC YW]);
      (split; [repeat (apply Forall2_cons; [assumption|]); apply Forall2_nil | repeat (apply Forall_cons; [assumption|]); apply Forall_nil]). }
  destruct C as [C2 CW].
  assert (D : denote (ctoks f b ++ etoks_of e all_attrs) = mkTStyle f b None e).
  { unfold denote. rewrite colors_of_app, etoks_colors, app_nil_r, fold_colors_id, (etoks_effects e He Hm).
    destruct f, b; reflexivity. }
  rewrite <- D. apply git_accepts_words.
  - rewrite words_join by (apply Forall_app; split; assumption). now apply Forall2_app.
  - rewrite colors_of_app, etoks_colors, app_nil_r. destruct f, b; cbn; lia.
Qed.
