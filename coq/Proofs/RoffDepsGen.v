(* Proofs/RoffDepsGen.v -- both third-party dependencies of anstyle-roff as TRANSLATED (cansi: Generated/CansiFn.v,
   Proofs/CansiGen.v; roff: Generated/RoffCrateFn.v, Proofs/RoffCrateGen.v) around the lines of anstyle-roff. *)
From Coq Require Import NArith List Bool.
From AV Require Import Model.Base Model.Roff Generated.RoffFn Proofs.RoffGen Generated.RoffCrateFn Proofs.RoffCrateGen
  Generated.CansiFn Proofs.CansiGen.
Import ListNotations.
Local Open Scope N_scope.

(* anstyle_roff::to_roff(text).to_roff() with the TRANSLATED cansi in front and the TRANSLATED roff renderer behind the
   lines of anstyle-roff ([rf_doc_lines]: equal to the translated lib.rs / styled_str.rs by Proofs/RoffGen.v
   [g_to_roff_eq]) is the hand model [rf_to_roff] the theorems of C15 are about -- on every Rust string *)
Theorem translated_dependencies_to_roff_is_model : forall input : list N, rf_utf8_ok input ->
  (cs <- g_cansi_categorise_text input ;; ls <- rf_doc_lines cs ;; g_rc_to_roff ls) = rf_to_roff input.
Proof.
  intros input H. rewrite (g_cansi_categorise_text_eq input H). unfold rf_to_roff.
  destruct (rf_doc_lines (rf_categorise input)) as [ls|]; [|reflexivity]. apply g_rc_to_roff_eq.
Qed.

(* the same with the translated to_roff of anstyle-roff in the middle: its call of cansi is the vocabulary entry
   [rf_categorise], which is what the translated cansi computes *)
Theorem translated_pipeline_is_model : forall input : list N, rf_utf8_ok input ->
  g_cansi_categorise_text input = Some (rf_categorise input) /\
  (ls <- g_to_roff input ;; g_rc_to_roff ls) = rf_to_roff input.
Proof.
  intros input H. exact (conj (g_cansi_categorise_text_eq input H) (translated_roffcrate_to_roff_is_model input)).
Qed.
