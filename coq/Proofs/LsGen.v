(* Proofs/LsGen.v -- the function TRANSLATED from crates/anstyle-ls/src/lib.rs
   (Generated/LsFn.v, written by tools/gen_fn_text.py on every run: `parse` with its
   early return, the all-or-nothing split / parse::<u8> / collect, the `while let`
   loop with the look-ahead pop_fronts and breaks, the final Style) is extensionally
   equal to the hand model Model/Ls.v that the theorems of C12 are about.  A change
   to the Rust function changes the translation; if it changes its meaning, the proof
   below fails. *)
From Coq Require Import NArith List Bool Lia.
From AV Require Import Generated.Ls Spec.StyleRec Model.Base Model.Imp Model.Text Model.Ls Generated.LsFn.
Import ListNotations.
Local Open Scope N_scope.

(* the loop state of the translation (parts, effects, fg_color, bg_color, underline_color)
   against the style record the hand model threads *)
Definition ls_st_of (s : list N * N * option tcolor * option tcolor * option tcolor) : tstyle :=
  let '(_, eff, fg, bg, ul) := s in mkTStyle fg bg ul eff.

Lemma res_ok_of_opt {T} (o : option T) : res_ok (res_of_opt o) = o.
Proof. destruct o; reflexivity. Qed.

(* `code.is_empty() || code == "0" || code == "00"` against the generated list of strings *)
Lemma ls_early_eq s :
  (is_empty s || list_eqb s [48] || list_eqb s [48; 48]) = existsb (list_eqb s) ls_none_strings.
Proof.
  unfold ls_none_strings. cbn [existsb].
  destruct s as [|a [|b [|c t]]]; cbn [is_empty list_eqb];
    repeat match goal with |- context [?x =? 48] => destruct (x =? 48) end; reflexivity.
Qed.

Ltac ls_simp :=
  cbn [pop_front ls_loop ls_apply set_target set_fg set_bg set_underline set_effects
       t_fg t_bg t_ul t_eff option_map ls_st_of fst snd negb andb orb].

(* one arm: straight-line arms go back to the loop (induction hypothesis) or break; the
   look-ahead arms are followed through every outcome of their pop_fronts *)
Ltac ls_arm IH :=
  ls_simp;
  first [ reflexivity
        | rewrite IH by (cbn [length] in *; lia); reflexivity
        | match goal with |- context [if (?a =? ?k) then _ else _] => destruct (a =? k); ls_arm IH end
        | match goal with |- context [pop_front ?l] => is_var l; destruct l as [|? ?]; ls_arm IH end ].

(* the arms in the order of the generated table *)
Ltac ls_arms part keys IH :=
  lazymatch keys with
  | nil => ls_arm IH
  | cons ?k ?t => destruct (part =? k); [ls_arm IH | ls_arms part t IH]
  end.

Theorem g_ls_parse_eq : forall s, g_ls_parse s = ls_parse s.
Proof.
  intros s. unfold g_ls_parse, ls_parse.
  rewrite ls_early_eq. destruct (existsb (list_eqb s) ls_none_strings); [reflexivity|].
  rewrite (map_ext _ parse_u8) by (intros; apply res_ok_of_opt).
  unfold ls_separator.
  destruct (collect_option (map parse_u8 (split_on 59 s))) as [parts|]; [|reflexivity].
  cbv zeta.
  match goal with |- context [while_fuel0 _ ?f _] => set (step := f) end.
  assert (L : forall fuel ps eff fg bg ul, (length ps < fuel)%nat ->
            option_map ls_st_of (while_fuel0 fuel step (ps, eff, fg, bg, ul))
            = Some (ls_loop ps (mkTStyle fg bg ul eff))).
  { induction fuel as [|f IH]; intros ps eff fg bg ul Hl; [lia|].
    cbn [while_fuel0]. unfold step at 1.
    destruct ps as [|part rest]; [reflexivity|].
    ls_simp. unfold ls_arms. cbn [ls_lookup].
    let keys := eval cbv in (map fst ls_arms) in ls_arms part keys IH. }
  specialize (L (S (length parts)) parts fx_new None None None (le_n _)).
  destruct (while_fuel0 (S (length parts)) step (parts, fx_new, None, None, None)) as [[[[[p e] f] b] u]|];
    cbn [option_map ls_st_of] in L; [|discriminate L].
  injection L as L. change t_default with (mkTStyle None None None fx_new). rewrite <- L. reflexivity.
Qed.
