(* Proofs/Roff.v -- C15: lemmas about the hand model of anstyle_roff::to_roff (Model/Roff.v)
   against Spec/RoffSpec.v. *)
From Coq Require Import ZArith NArith List Bool Lia.
From AV Require Import Model.Base Generated.Style Model.Style Generated.Palette Spec.Lossy Model.Lossy Generated.Roff
                       Spec.StyleRec Spec.SgrCodes Spec.RoffSpec Model.Roff.
Import ListNotations.
Local Open Scope N_scope.

Ltac rf_neqb := rewrite ?N.eqb_refl; repeat rewrite (proj2 (N.eqb_neq _ _)) by lia.

Lemma rf_range_In : forall n a x, a <= x < a + N.of_nat n -> In x (range_from a n).
Proof.
  induction n as [|n IH]; intros a x H; cbn [range_from].
  - lia.
  - destruct (N.eq_dec a x) as [->|Hne]; [left; reflexivity|right]. apply IH. lia.
Qed.

Lemma rf_lt16_In i : i < 16 -> In i [0; 1; 2; 3; 4; 5; 6; 7; 8; 9; 10; 11; 12; 13; 14; 15].
Proof. intros H. apply (rf_range_In 16 0 i). cbn. lia. Qed.

Ltac rf_cases16 H := apply rf_lt16_In in H; cbn [In] in H; repeat (destruct H as [<-|H]; [|]); [..|contradiction].

(* ====================================================================== *)
(* 1. the renderer's escaping (two replace passes twice) is the one-pass escaping of the
      specification *)

Lemma rf_replace2_skip a b to x t : x <> a -> rf_replace2 a b to (x :: t) = x :: rf_replace2 a b to t.
Proof.
  intros H. destruct t as [|y t']; cbn [rf_replace2]; [reflexivity|].
  rewrite (proj2 (N.eqb_neq x a) H). reflexivity.
Qed.

Lemma rf_replace2_hit a b to t : rf_replace2 a b to (a :: b :: t) = to ++ rf_replace2 a b to t.
Proof. cbn [rf_replace2]. rewrite !N.eqb_refl. reflexivity. Qed.

Lemma rf_replace2_miss a b to y t : y <> b -> rf_replace2 a b to (a :: y :: t) = a :: rf_replace2 a b to (y :: t).
Proof. intros H. cbn [rf_replace2]. rewrite (proj2 (N.eqb_neq y b) H), andb_false_r. reflexivity. Qed.

Lemma rf_replace2_head a b to t : exists w, rf_replace2 a b (a :: to) (a :: t) = a :: w.
Proof.
  destruct t as [|y t']; cbn [rf_replace2]; [eexists; reflexivity|].
  rewrite N.eqb_refl. destruct (y =? b); cbn [andb app]; eexists; reflexivity.
Qed.

Lemma rf_escape_inline_flat t : rf_escape_inline t = flat_map rf_esc_char t.
Proof.
  unfold rf_escape_inline, rf_replace1. induction t as [|c t IH]; [reflexivity|].
  cbn [flat_map]. rewrite flat_map_app, IH. f_equal.
  unfold rf_esc_char, rf_BSL. destruct (c =? 92) eqn:E1; [reflexivity|].
  cbn [flat_map]. destruct (c =? 45); reflexivity.
Qed.

Definition rf_R46 := rf_replace2 10 46 [10; 92; 38; 46].
Definition rf_R39 := rf_replace2 10 39 [10; 92; 38; 39].

Lemma rf_R46_skip x t : x <> 10 -> rf_R46 (x :: t) = x :: rf_R46 t.
Proof. apply rf_replace2_skip. Qed.
Lemma rf_R39_skip x t : x <> 10 -> rf_R39 (x :: t) = x :: rf_R39 t.
Proof. apply rf_replace2_skip. Qed.
Lemma rf_R46_miss y t : y <> 46 -> rf_R46 (10 :: y :: t) = 10 :: rf_R46 (y :: t).
Proof. apply rf_replace2_miss. Qed.
Lemma rf_R39_miss y t : y <> 39 -> rf_R39 (10 :: y :: t) = 10 :: rf_R39 (y :: t).
Proof. apply rf_replace2_miss. Qed.
Lemma rf_R46_hit t : rf_R46 (10 :: 46 :: t) = 10 :: 92 :: 38 :: 46 :: rf_R46 t.
Proof. unfold rf_R46. rewrite rf_replace2_hit. reflexivity. Qed.
Lemma rf_R39_hit t : rf_R39 (10 :: 39 :: t) = 10 :: 92 :: 38 :: 39 :: rf_R39 t.
Proof. unfold rf_R39. rewrite rf_replace2_hit. reflexivity. Qed.

Definition rf_F (t : list N) : list N := flat_map rf_esc_char t.

Lemma rf_F_cons c t : rf_F (c :: t) = rf_esc_char c ++ rf_F t.
Proof. reflexivity. Qed.

Lemma rf_esc_char_cases c :
  (c = 92 /\ rf_esc_char c = [92; 92]) \/ (c = 45 /\ rf_esc_char c = [92; 45]) \/ (c <> 92 /\ c <> 45 /\ rf_esc_char c = [c]).
Proof.
  unfold rf_esc_char, rf_BSL. destruct (N.eq_dec c 92) as [->|H1]; [left; split; reflexivity|].
  destruct (N.eq_dec c 45) as [->|H2]; [right; left; split; reflexivity|].
  right; right. rf_neqb. repeat split; assumption.
Qed.

(* one step of the composed passes *)
Lemma rf_passes_step c r :
  rf_R39 (rf_R46 (rf_F (c :: r))) =
  rf_esc_char c ++ (if c =? rf_NL then rf_guard r else []) ++ rf_R39 (rf_R46 (rf_F r)).
Proof.
  unfold rf_NL. rewrite rf_F_cons.
  destruct (N.eq_dec c 10) as [->|Hc].
  - (* newline *)
    change (rf_esc_char 10) with [10]. cbn [app N.eqb Pos.eqb].
    destruct r as [|c2 r2]; [reflexivity|].
    rewrite rf_F_cons. unfold rf_guard, rf_is_cc, rf_BSL.
    destruct (N.eq_dec c2 46) as [->|H46].
    { change (rf_esc_char 46) with [46]. cbn [app N.eqb Pos.eqb orb].
      rewrite rf_R46_hit. rewrite rf_R39_miss by lia. rewrite !rf_R39_skip by lia.
      rewrite rf_R46_skip by lia. rewrite rf_R39_skip by lia. reflexivity. }
    destruct (N.eq_dec c2 39) as [->|H39].
    { change (rf_esc_char 39) with [39]. cbn [app N.eqb Pos.eqb orb].
      rewrite rf_R46_miss by lia. rewrite !rf_R46_skip by lia. rewrite rf_R39_hit.
      rewrite rf_R39_skip by lia. reflexivity. }
    destruct (N.eq_dec c2 10) as [->|H10].
    { change (rf_esc_char 10) with [10]. cbn [app N.eqb Pos.eqb orb].
      rewrite rf_R46_miss by lia.
      destruct (rf_replace2_head 10 46 [92; 38; 46] (rf_F r2)) as [w Hw].
      unfold rf_R46. rewrite Hw. fold rf_R46. rewrite rf_R39_miss by lia. reflexivity. }
    rf_neqb. cbn [orb app].
    destruct (rf_esc_char_cases c2) as [[-> E]|[[-> E]|[H92 [H45 E]]]]; rewrite E; cbn [app].
    + rewrite rf_R46_miss by lia. rewrite !rf_R46_skip by lia. rewrite rf_R39_miss by lia. reflexivity.
    + rewrite rf_R46_miss by lia. rewrite !rf_R46_skip by lia. rewrite rf_R39_miss by lia. reflexivity.
    + rewrite rf_R46_miss by lia. rewrite !rf_R46_skip by lia. rewrite rf_R39_miss by lia. reflexivity.
  - rf_neqb. cbn [app].
    destruct (rf_esc_char_cases c) as [[-> E]|[[-> E]|[H92 [H45 E]]]]; rewrite E; cbn [app].
    + rewrite !rf_R46_skip by lia. rewrite !rf_R39_skip by lia. reflexivity.
    + rewrite !rf_R46_skip by lia. rewrite !rf_R39_skip by lia. reflexivity.
    + rewrite !rf_R46_skip by lia. rewrite !rf_R39_skip by lia. reflexivity.
Qed.

Lemma rf_escape_passes t : rf_escape_leading_cc (rf_escape_inline t) = rf_escape t.
Proof.
  rewrite rf_escape_inline_flat. unfold rf_escape_leading_cc. fold rf_R46 rf_R39. fold (rf_F t).
  induction t as [|c r IH]; [reflexivity|].
  rewrite rf_passes_step, IH. reflexivity.
Qed.

Lemma rf_escape_head_cc t : rf_starts_with_cc (rf_escape t) = match t with c :: _ => rf_is_cc c | [] => false end.
Proof.
  destruct t as [|c r]; [reflexivity|]. cbn [rf_escape]. unfold rf_is_cc.
  destruct (rf_esc_char_cases c) as [[-> E]|[[-> E]|[H92 [H45 E]]]]; rewrite E; reflexivity.
Qed.

(* ====================================================================== *)
(* 2. reading a document: lines, request lines, unescaping *)

Lemma rf_lines_nl_nonempty x : rf_lines (x ++ [rf_NL]) <> [].
Proof.
  induction x as [|c x IH]; cbn [app rf_lines].
  - discriminate.
  - destruct (c =? rf_NL); [discriminate|]. destruct (rf_lines (x ++ [rf_NL])); discriminate.
Qed.

(* a newline-terminated chunk contributes its own lines *)
Lemma rf_lines_app x y : rf_lines ((x ++ [rf_NL]) ++ y) = rf_lines (x ++ [rf_NL]) ++ rf_lines y.
Proof.
  induction x as [|c x IH]; cbn [app rf_lines].
  - unfold rf_NL at 1 3. cbn [N.eqb Pos.eqb app]. reflexivity.
  - destruct (c =? rf_NL).
    + rewrite IH. reflexivity.
    + rewrite IH. pose proof (rf_lines_nl_nonempty x) as Hn.
      destruct (rf_lines (x ++ [rf_NL])) as [|l ls]; [contradiction|]. reflexivity.
Qed.

Lemma rf_lines_rejoin x : concat (map (fun l => l ++ [rf_NL]) (rf_lines (x ++ [rf_NL]))) = x ++ [rf_NL].
Proof.
  induction x as [|c x IH]; cbn [app rf_lines].
  - reflexivity.
  - destruct (c =? rf_NL) eqn:E.
    + apply N.eqb_eq in E. subst c. cbn [map concat app]. rewrite IH. reflexivity.
    + pose proof (rf_lines_nl_nonempty x) as Hn.
      destruct (rf_lines (x ++ [rf_NL])) as [|l ls]; [contradiction|].
      cbn [map concat app] in *. rewrite IH. reflexivity.
Qed.

(* no control character at the beginning of a line; [bol]: the scan starts at the beginning of a line *)
Fixpoint rf_safe (bol : bool) (s : list N) : bool :=
  match s with
  | [] => true
  | c :: r => negb (bol && rf_is_cc c) && rf_safe (c =? rf_NL) r
  end.

Definition rf_nonreq (l : list N) : Prop := rf_is_request_line l = false.

Lemma rf_safe_lines s : forall b, rf_safe b s = true ->
  if b then Forall rf_nonreq (rf_lines s) else Forall rf_nonreq (tl (rf_lines s)).
Proof.
  induction s as [|c r IH]; intros b H.
  - destruct b; constructor.
  - cbn [rf_safe] in H. apply andb_true_iff in H as [H1 H2].
    cbn [rf_lines]. destruct (c =? rf_NL) eqn:E.
    + specialize (IH true H2). cbn [tl]. destruct b; [constructor; [reflexivity|assumption]|assumption].
    + specialize (IH false H2). cbn beta iota in IH.
      destruct (rf_lines r) as [|l ls]; cbn [tl] in *.
      * destruct b; [|constructor]. constructor; [|constructor].
        unfold rf_nonreq; cbn. cbn in H1. destruct (rf_is_cc c); [discriminate|reflexivity].
      * destruct b; [|assumption]. constructor; [|assumption].
        unfold rf_nonreq; cbn. cbn in H1. destruct (rf_is_cc c); [discriminate|reflexivity].
Qed.

Lemma rf_safe_head c r : rf_is_cc c = false -> rf_safe true (c :: r) = rf_safe false (c :: r).
Proof. intros H. cbn [rf_safe]. rewrite H. reflexivity. Qed.

Lemma rf_safe_weaken s : rf_safe true s = true -> rf_safe false s = true.
Proof. destruct s as [|c r]; [reflexivity|]. cbn [rf_safe]. rewrite andb_true_iff. intros [_ H]. exact H. Qed.

Lemma rf_safe_esc_noncc c : rf_is_cc c = false ->
  forall b X, rf_safe b (rf_esc_char c ++ X) = rf_safe (c =? rf_NL) X.
Proof.
  intros H b X.
  destruct (rf_esc_char_cases c) as [[-> E]|[[-> E]|[H92 [H45 E]]]]; rewrite E.
  - cbn. destruct b; reflexivity.
  - cbn. destruct b; reflexivity.
  - cbn [app rf_safe]. rewrite H. destruct b; reflexivity.
Qed.

(* the escaped text, continued at mid-line, never begins a line with a control character *)
Lemma rf_safe_escape t : forall rest, rf_safe true rest = true -> rf_safe false (rf_escape t ++ rest) = true.
Proof.
  induction t as [|c r IH]; intros rest Hrest.
  - cbn [rf_escape app]. apply rf_safe_weaken. exact Hrest.
  - cbn [rf_escape]. rewrite <- !app_assoc.
    destruct (N.eq_dec c 10) as [->|Hc].
    + change (rf_esc_char 10) with [10]. change (10 =? rf_NL) with true. cbn [app rf_safe andb negb].
      change (10 =? rf_NL) with true.
      destruct r as [|c2 r2].
      * cbn [rf_guard rf_escape app]. exact Hrest.
      * unfold rf_guard. destruct (rf_is_cc c2) eqn:Ecc.
        -- cbn [app rf_safe]. change (rf_is_cc rf_BSL) with false. change (rf_BSL =? rf_NL) with false.
           change (rf_is_cc 38) with false. change (38 =? rf_NL) with false. cbn [andb negb].
           apply IH. exact Hrest.
        -- cbn [app]. specialize (IH rest Hrest). cbn [rf_escape] in IH |- *. rewrite <- !app_assoc in IH |- *.
           rewrite (rf_safe_esc_noncc c2 Ecc) in IH |- *. exact IH.
    + assert (Hn : (c =? rf_NL) = false) by (apply N.eqb_neq; exact Hc). rewrite Hn. cbn [app].
      assert (Hs : forall X, rf_safe false (rf_esc_char c ++ X) = rf_safe false X).
      { intros X. destruct (rf_esc_char_cases c) as [[-> E]|[[-> E]|[H92 [H45 E]]]]; rewrite E; cbn [app rf_safe andb negb].
        - reflexivity.
        - reflexivity.
        - rewrite Hn. reflexivity. }
      rewrite Hs. apply IH. exact Hrest.
Qed.

(* every line of a rendered text (in any font) is a text line *)
Lemma rf_body_safe f t : rf_safe true (rf_body f t ++ [rf_NL]) = true.
Proof.
  destruct f; cbn [rf_body rf_font_on rf_font_off].
  - rewrite <- !app_assoc. cbn [app rf_safe]. change (rf_is_cc rf_BSL) with false. cbn [andb negb].
    change (rf_BSL =? rf_NL) with false. change (102 =? rf_NL) with false. change (66 =? rf_NL) with false.
    apply rf_safe_escape. reflexivity.
  - rewrite <- !app_assoc. cbn [app rf_safe]. change (rf_is_cc rf_BSL) with false. cbn [andb negb].
    change (rf_BSL =? rf_NL) with false. change (102 =? rf_NL) with false. change (73 =? rf_NL) with false.
    apply rf_safe_escape. reflexivity.
  - destruct t as [|c r]; [reflexivity|]. unfold rf_guard. rewrite <- app_assoc.
    destruct (rf_is_cc c) eqn:Ecc.
    + cbn [app rf_safe]. change (rf_is_cc rf_BSL) with false. cbn [andb negb].
      change (rf_BSL =? rf_NL) with false. change (38 =? rf_NL) with false.
      apply rf_safe_escape. reflexivity.
    + cbn [app]. pose proof (rf_safe_escape (c :: r) [rf_NL] eq_refl) as H.
      cbn [rf_escape] in H |- *. rewrite <- !app_assoc in H |- *.
      rewrite (rf_safe_esc_noncc c Ecc) in H |- *. exact H.
Qed.

Lemma rf_body_lines_nonreq f t : Forall rf_nonreq (rf_lines (rf_body f t ++ [rf_NL])).
Proof. exact (rf_safe_lines _ true (rf_body_safe f t)). Qed.

Lemma rf_filter_all {A} (p : A -> bool) l : Forall (fun x => p x = true) l -> filter p l = l.
Proof. induction 1 as [|x l Hx _ IH]; cbn [filter]; [reflexivity|]. rewrite Hx, IH. reflexivity. Qed.

(* unescaping *)
Lemma rf_unescape_esc_char c X : rf_unescape_from RfUText (rf_esc_char c ++ X) = c :: rf_unescape_from RfUText X.
Proof.
  destruct (rf_esc_char_cases c) as [[-> E]|[[-> E]|[H92 [H45 E]]]]; rewrite E; cbn [app rf_unescape_from].
  - reflexivity.
  - reflexivity.
  - unfold rf_BSL. rf_neqb. reflexivity.
Qed.

Lemma rf_unescape_guard r X : rf_unescape_from RfUText (rf_guard r ++ X) = rf_unescape_from RfUText X.
Proof. unfold rf_guard. destruct r as [|c r]; [reflexivity|]. destruct (rf_is_cc c); reflexivity. Qed.

Lemma rf_unescape_escape t : forall X, rf_unescape_from RfUText (rf_escape t ++ X) = t ++ rf_unescape_from RfUText X.
Proof.
  induction t as [|c r IH]; intros X; [reflexivity|].
  cbn [rf_escape]. rewrite <- !app_assoc. rewrite rf_unescape_esc_char. cbn [app]. f_equal.
  destruct (c =? rf_NL); [rewrite rf_unescape_guard|cbn [app]]; apply IH.
Qed.

Lemma rf_unescape_body f t X :
  rf_unescape_from RfUText (rf_body f t ++ X) = t ++ rf_unescape_from RfUText X.
Proof.
  destruct f; cbn [rf_body rf_font_on rf_font_off]; rewrite <- ?app_assoc.
  - cbn [app rf_unescape_from]. change (rf_BSL =? rf_BSL) with true. change (102 =? 38) with false.
    change (102 =? 102) with true. cbn beta iota. rewrite rf_unescape_escape. reflexivity.
  - cbn [app rf_unescape_from]. change (rf_BSL =? rf_BSL) with true. change (102 =? 38) with false.
    change (102 =? 102) with true. cbn beta iota. rewrite rf_unescape_escape. reflexivity.
  - rewrite rf_unescape_guard. apply rf_unescape_escape.
Qed.

(* ====================================================================== *)
(* 3. cansi on the domain D *)

Lemma rf_cat_text txt : forall sgr pend rest, ~ In 27 txt ->
  rf_cat_go RfInText sgr pend (txt ++ rest) = rf_cat_go RfInText sgr (rev txt ++ pend) rest.
Proof.
  induction txt as [|b t IH]; intros sgr pend rest H; [reflexivity|].
  cbn [app rf_cat_go]. assert (Hb : b <> 27) by (intros ->; apply H; left; reflexivity).
  rewrite (proj2 (N.eqb_neq b 27) Hb). rewrite IH by (intros Hin; apply H; right; exact Hin).
  cbn [rev]. rewrite <- app_assoc. reflexivity.
Qed.

Lemma rf_cat_params ps : forall acc sgr pend rest, Forall (fun b => rf_terminated b = false) ps ->
  rf_cat_go (RfInCsi acc) sgr pend (ps ++ 109 :: rest) =
  rf_flush sgr pend ++ rf_cat_go RfInText (rf_handle_seq (rev acc ++ ps)) [] rest.
Proof.
  induction ps as [|b ps IH]; intros acc sgr pend rest H.
  - cbn [app rf_cat_go]. change (rf_terminated 109) with true. cbn iota. rewrite app_nil_r. reflexivity.
  - inversion H as [|? ? Hb Hps]; subst. cbn [app rf_cat_go]. rewrite Hb. rewrite IH by assumption.
    cbn [rev]. rewrite <- app_assoc. reflexivity.
Qed.

Lemma rf_flush_rev sgr t : rf_flush sgr (rev t) = match t with [] => [] | _ => [(sgr, t)] end.
Proof.
  destruct t as [|c t]; [reflexivity|]. unfold rf_flush.
  destruct (rev (c :: t)) eqn:E.
  - apply (f_equal (@length N)) in E. rewrite rev_length in E. discriminate.
  - rewrite <- E, rev_involutive. reflexivity.
Qed.

(* str::split on a ';'-joined list *)
Lemma rf_split_nosep f : ~ In 59 f -> rf_split 59 f = [f].
Proof.
  induction f as [|c f IH]; intros H; [reflexivity|].
  cbn [rf_split]. assert (Hc : c <> 59) by (intros ->; apply H; left; reflexivity).
  rewrite (proj2 (N.eqb_neq c 59) Hc). rewrite IH by (intros Hin; apply H; right; exact Hin). reflexivity.
Qed.

Lemma rf_split_sep f r : ~ In 59 f -> rf_split 59 (f ++ 59 :: r) = f :: rf_split 59 r.
Proof.
  induction f as [|c f IH]; intros H.
  - cbn [app rf_split]. rewrite N.eqb_refl. reflexivity.
  - cbn [app rf_split]. assert (Hc : c <> 59) by (intros ->; apply H; left; reflexivity).
    rewrite (proj2 (N.eqb_neq c 59) Hc). rewrite IH by (intros Hin; apply H; right; exact Hin). reflexivity.
Qed.

Lemma rf_split_join (g : N -> list N) cs : forall f, ~ In 59 f -> (forall c, In c cs -> ~ In 59 (g c)) ->
  rf_split 59 (f ++ concat (map (fun c => 59 :: g c) cs)) = f :: map g cs.
Proof.
  induction cs as [|c cs IH]; intros f Hf Hg.
  - cbn [map concat]. rewrite app_nil_r. apply rf_split_nosep. exact Hf.
  - cbn [map concat]. cbn [app]. rewrite rf_split_sep by exact Hf.
    rewrite IH; [reflexivity|apply Hg; left; reflexivity|intros c' Hc'; apply Hg; right; exact Hc'].
Qed.

(* the codes that occur in D *)
Definition rf_idx16 : list N := [0; 1; 2; 3; 4; 5; 6; 7; 8; 9; 10; 11; 12; 13; 14; 15].
Definition rf_D_codes : list N := [1; 2; 3; 4; 5; 7; 8; 9] ++ map rf_fg_code rf_idx16 ++ map rf_bg_code rf_idx16.

Definition rf_code_clean (c : N) : bool :=
  forallb (fun b => negb (rf_terminated b) && negb (b =? 59)) (dec c).

Lemma rf_D_codes_clean : forallb rf_code_clean rf_D_codes = true.
Proof. vm_compute. reflexivity. Qed.

Lemma rf_seg_codes_in s : rf_seg_ok s -> forall c, In c (rf_seg_codes s) -> In c rf_D_codes.
Proof.
  intros [Hfg [Hbg _]] c Hc. unfold rf_seg_codes in Hc. unfold rf_D_codes.
  apply in_app_or in Hc as [Hc|Hc].
  - apply in_or_app; left. apply in_map_iff in Hc as [e [<- _]]. destruct e; cbn; tauto.
  - apply in_or_app; right. apply in_app_or in Hc as [Hc|Hc]; apply in_or_app; [left|right].
    + destruct (rs_fg s) as [i|]; [|contradiction]. destruct Hc as [<-|[]]. apply in_map. apply rf_lt16_In. exact Hfg.
    + destruct (rs_bg s) as [i|]; [|contradiction]. destruct Hc as [<-|[]]. apply in_map. apply rf_lt16_In. exact Hbg.
Qed.

Lemma rf_code_clean_spec c : In c rf_D_codes ->
  Forall (fun b => rf_terminated b = false) (dec c) /\ ~ In 59 (dec c).
Proof.
  intros H. pose proof (proj1 (forallb_forall _ _) rf_D_codes_clean c H) as Hc.
  unfold rf_code_clean in Hc. rewrite forallb_forall in Hc. split.
  - apply Forall_forall. intros b Hb. specialize (Hc b Hb). apply andb_true_iff in Hc as [Hc _].
    destruct (rf_terminated b); [discriminate|reflexivity].
  - intros Hb. specialize (Hc 59 Hb). apply andb_true_iff in Hc as [_ Hc]. discriminate.
Qed.

Definition rf_params (s : rf_seg) : list N := 48 :: concat (map (fun c => SEMI :: dec c) (rf_seg_codes s)).

Lemma rf_params_unterminated s : rf_seg_ok s -> Forall (fun b => rf_terminated b = false) (rf_params s).
Proof.
  intros Hs. unfold rf_params. constructor; [reflexivity|].
  pose proof (rf_seg_codes_in s Hs) as Hin. induction (rf_seg_codes s) as [|c cs IH]; [constructor|].
  cbn [map concat]. constructor; [reflexivity|]. apply Forall_app. split.
  - apply rf_code_clean_spec. apply Hin. left. reflexivity.
  - apply IH. intros c' Hc'. apply Hin. right. exact Hc'.
Qed.

(* what cansi makes of the codes of a segment *)
Definition rf_eff_action (e : rf_effect) : rf_cansi_action :=
  match e with
  | RfBold => RfCaIntensity 1 | RfFaint => RfCaIntensity 2 | RfItalic => RfCaItalic true
  | RfUnderline => RfCaUnderline true | RfBlink => RfCaBlink true | RfInvert => RfCaReversed true
  | RfHidden => RfCaHidden true | RfStrike => RfCaStrikethrough true
  end.

Definition rf_opt_apply (mk : N -> rf_cansi_action) (c : option N) (g : rf_sgr) : rf_sgr :=
  match c with Some i => rf_cansi_apply g (mk i) | None => g end.

Definition rf_seg_sgr (s : rf_seg) : rf_sgr :=
  rf_opt_apply RfCaBg (rs_bg s)
    (rf_opt_apply RfCaFg (rs_fg s)
       (fold_left (fun g e => rf_cansi_apply g (rf_eff_action e)) (rs_effects s) rf_sgr_default)).

Lemma rf_adjust_effect g e : rf_adjust_sgr g (dec (rf_effect_code e)) = rf_cansi_apply g (rf_eff_action e).
Proof. destruct e; reflexivity. Qed.

Lemma rf_adjust_fg g i : i < 16 -> rf_adjust_sgr g (dec (rf_fg_code i)) = rf_cansi_apply g (RfCaFg i).
Proof. intros H. rf_cases16 H; reflexivity. Qed.

Lemma rf_adjust_bg g i : i < 16 -> rf_adjust_sgr g (dec (rf_bg_code i)) = rf_cansi_apply g (RfCaBg i).
Proof. intros H. rf_cases16 H; reflexivity. Qed.

Lemma rf_fold_map {A B C} (f : A -> B -> A) (g : C -> B) l : forall a,
  fold_left f (map g l) a = fold_left (fun a x => f a (g x)) l a.
Proof. induction l as [|x l IH]; intros a; [reflexivity|]. cbn [map fold_left]. apply IH. Qed.

Lemma rf_handle_params s : rf_seg_ok s -> rf_handle_seq (rf_params s) = rf_seg_sgr s.
Proof.
  intros Hs. unfold rf_handle_seq, rf_params.
  change (48 :: concat (map (fun c => SEMI :: dec c) (rf_seg_codes s)))
    with ([48] ++ concat (map (fun c => 59 :: dec c) (rf_seg_codes s))).
  rewrite rf_split_join.
  2:{ intros [H|[]]. discriminate. }
  2:{ intros c Hc. apply rf_code_clean_spec. apply (rf_seg_codes_in s Hs). exact Hc. }
  cbn [fold_left]. change (rf_adjust_sgr rf_sgr_default [48]) with rf_sgr_default.
  rewrite rf_fold_map. unfold rf_seg_codes. rewrite !fold_left_app. rewrite rf_fold_map.
  destruct Hs as [Hfg [Hbg _]]. unfold rf_seg_sgr.
  set (g0 := fold_left (fun a x => rf_adjust_sgr a (dec (rf_effect_code x))) (rs_effects s) rf_sgr_default).
  assert (E0 : g0 = fold_left (fun g e => rf_cansi_apply g (rf_eff_action e)) (rs_effects s) rf_sgr_default).
  { subst g0. generalize rf_sgr_default. induction (rs_effects s) as [|e es IH]; intros g; [reflexivity|].
    cbn [fold_left]. rewrite rf_adjust_effect. apply IH. }
  rewrite <- E0. clearbody g0.
  destruct (rs_fg s) as [i|], (rs_bg s) as [j|]; cbn [rf_opt_code fold_left rf_opt_apply rf_color_ok] in *.
  - rewrite rf_adjust_fg by assumption. rewrite rf_adjust_bg by assumption. reflexivity.
  - rewrite rf_adjust_fg by assumption. reflexivity.
  - rewrite rf_adjust_bg by assumption. reflexivity.
  - reflexivity.
Qed.

Definition rf_seg_slices (s : rf_seg) : list (rf_sgr * list N) :=
  match rs_text s with [] => [] | t => [(rf_seg_sgr s, t)] end.

Lemma rf_print_seg_shape s rest :
  rf_print_seg s ++ rest = 27 :: 91 :: (rf_params s ++ 109 :: (rs_text s ++ rest)).
Proof.
  unfold rf_print_seg, rf_params, rf_ESC. cbn [app]. rewrite <- !app_assoc. reflexivity.
Qed.

Lemma rf_cat_D segs : rf_D segs -> forall sgr pend,
  rf_cat_go RfInText sgr pend (rf_print_D segs) = rf_flush sgr pend ++ flat_map rf_seg_slices segs.
Proof.
  induction 1 as [|s segs Hs _ IH]; intros sgr pend.
  - cbn. rewrite app_nil_r. reflexivity.
  - unfold rf_print_D. cbn [map concat]. fold (rf_print_D segs).
    rewrite rf_print_seg_shape. cbn [rf_cat_go N.eqb Pos.eqb].
    rewrite rf_cat_params by (apply rf_params_unterminated; exact Hs).
    cbn [rev app]. rewrite rf_handle_params by exact Hs.
    rewrite rf_cat_text by (apply Hs). rewrite app_nil_r. rewrite IH.
    rewrite rf_flush_rev. cbn [flat_map]. unfold rf_seg_slices. destruct (rs_text s); reflexivity.
Qed.

Lemma rf_categorise_D segs : rf_D segs -> rf_categorise (rf_print_D segs) = flat_map rf_seg_slices segs.
Proof. intros H. unfold rf_categorise. rewrite rf_cat_D by exact H. reflexivity. Qed.

(* ====================================================================== *)
(* 4. StyledStr, set_color, set_effects_and_text and the renderer on D *)

Definition rf_eff_fold (effs : list rf_effect) (g : rf_sgr) : rf_sgr :=
  fold_left (fun g e => rf_cansi_apply g (rf_eff_action e)) effs g.

(* cansi keeps ONE intensity: the last of the bold / faint codes wins *)
Fixpoint rf_intensity_after (effs : list rf_effect) (k : option N) : option N :=
  match effs with
  | [] => k
  | RfBold :: r => rf_intensity_after r (Some 1)
  | RfFaint :: r => rf_intensity_after r (Some 2)
  | _ :: r => rf_intensity_after r k
  end.

Lemma rf_eff_fold_fg effs : forall g, cs_fg (rf_eff_fold effs g) = cs_fg g.
Proof. induction effs as [|e es IH]; intros g; [reflexivity|]. unfold rf_eff_fold in *. cbn [fold_left]. rewrite IH. destruct e; reflexivity. Qed.

Lemma rf_eff_fold_bg effs : forall g, cs_bg (rf_eff_fold effs g) = cs_bg g.
Proof. induction effs as [|e es IH]; intros g; [reflexivity|]. unfold rf_eff_fold in *. cbn [fold_left]. rewrite IH. destruct e; reflexivity. Qed.

Lemma rf_eff_fold_intensity effs : forall g, cs_intensity (rf_eff_fold effs g) = rf_intensity_after effs (cs_intensity g).
Proof. induction effs as [|e es IH]; intros g; [reflexivity|]. unfold rf_eff_fold in *. cbn [fold_left]. rewrite IH. destruct e; reflexivity. Qed.

Lemma rf_eff_fold_italic effs : forall g,
  cs_italic (rf_eff_fold effs g) = if existsb (rf_effect_eqb RfItalic) effs then Some true else cs_italic g.
Proof.
  induction effs as [|e es IH]; intros g; [reflexivity|]. unfold rf_eff_fold in *. cbn [fold_left existsb]. rewrite IH.
  destruct e; cbn; try reflexivity. destruct (existsb (rf_effect_eqb RfItalic) es); reflexivity.
Qed.

Lemma rf_seg_sgr_fg s : cs_fg (rf_seg_sgr s) = rs_fg s.
Proof.
  unfold rf_seg_sgr. fold (rf_eff_fold (rs_effects s) rf_sgr_default).
  pose proof (rf_eff_fold_fg (rs_effects s) rf_sgr_default) as H. cbn [cs_fg rf_sgr_default] in H.
  destruct (rs_fg s), (rs_bg s); cbn [rf_opt_apply rf_cansi_apply cs_fg]; try reflexivity; exact H.
Qed.

Lemma rf_seg_sgr_bg s : cs_bg (rf_seg_sgr s) = rs_bg s.
Proof.
  unfold rf_seg_sgr. fold (rf_eff_fold (rs_effects s) rf_sgr_default).
  pose proof (rf_eff_fold_bg (rs_effects s) rf_sgr_default) as H. cbn [cs_bg rf_sgr_default] in H.
  destruct (rs_fg s), (rs_bg s); cbn [rf_opt_apply rf_cansi_apply cs_bg]; try reflexivity; exact H.
Qed.

Lemma rf_seg_sgr_intensity s : cs_intensity (rf_seg_sgr s) = rf_intensity_after (rs_effects s) None.
Proof.
  unfold rf_seg_sgr. fold (rf_eff_fold (rs_effects s) rf_sgr_default).
  pose proof (rf_eff_fold_intensity (rs_effects s) rf_sgr_default) as H. cbn [cs_intensity rf_sgr_default] in H.
  destruct (rs_fg s), (rs_bg s); cbn [rf_opt_apply rf_cansi_apply cs_intensity]; exact H.
Qed.

Lemma rf_seg_sgr_italic s : cs_italic (rf_seg_sgr s) = if rf_has RfItalic s then Some true else None.
Proof.
  unfold rf_seg_sgr. fold (rf_eff_fold (rs_effects s) rf_sgr_default).
  pose proof (rf_eff_fold_italic (rs_effects s) rf_sgr_default) as H. cbn [cs_italic rf_sgr_default] in H.
  unfold rf_has. destruct (rs_fg s), (rs_bg s); cbn [rf_opt_apply rf_cansi_apply cs_italic]; exact H.
Qed.

(* create_effects: the BOLD and ITALIC bits *)
Lemma rf_effects_bits (on : rf_source -> bool) :
  let e := fold_left (fun e (p : N * rf_source) => e_set e (N.shiftl 1 (fst p)) (on (snd p))) rf_effect_sources e_new in
  e_contains e eff_bold = on (RfSrcIntensity 1) /\ e_contains e eff_italic = on RfSrcItalic.
Proof.
  cbn [rf_effect_sources fold_left fst snd].
  destruct (on RfSrcItalic), (on RfSrcBlink), (on RfSrcReversed), (on RfSrcHidden), (on RfSrcStrikethrough),
    (on RfSrcUnderline), (on (RfSrcIntensity 1)), (on (RfSrcIntensity 2)); split; vm_compute; reflexivity.
Qed.

Lemma rf_create_effects_bold g :
  e_contains (rf_create_effects g) eff_bold = match cs_intensity g with Some j => j =? 1 | None => false end.
Proof. exact (proj1 (rf_effects_bits (rf_source_on g))). Qed.

Lemma rf_create_effects_italic g : e_contains (rf_create_effects g) eff_italic = rf_flag (cs_italic g).
Proof. exact (proj2 (rf_effects_bits (rf_source_on g))). Qed.

Definition rf_to_color (c : option N) : option color := match c with None => None | Some i => Some (Ansi i) end.

Lemma rf_cansi_to_anstyle_ok c : rf_color_ok c -> rf_cansi_to_anstyle c = rf_to_color c.
Proof. destruct c as [i|]; [|reflexivity]. intros H. cbn [rf_color_ok] in H. rf_cases16 H; reflexivity. Qed.

(* the font cansi + set_effects_and_text arrive at *)
Definition rf_cansi_bold (s : rf_seg) : bool :=
  match rf_intensity_after (rs_effects s) None with Some k => k =? 1 | None => false end.

Definition rf_cansi_font (s : rf_seg) : rf_font :=
  if rf_cansi_bold s || rf_bright (rs_fg s) then RfFontBold
  else if rf_has RfItalic s then RfFontItalic
  else RfFontRoman.

Definition rf_inline_of (f : rf_font) (t : list N) : rf_inline :=
  match f with RfFontBold => RfInBold t | RfFontItalic => RfInItalic t | RfFontRoman => RfInRoman t end.

Lemma rf_bright_ok c : rf_color_ok c ->
  match rf_to_color c with Some c' => rf_is_bright c' | None => false end = rf_bright c.
Proof. destruct c as [i|]; [|reflexivity]. intros H. cbn [rf_color_ok] in H. rf_cases16 H; reflexivity. Qed.

Lemma rf_effects_and_text_D s t : rf_seg_ok s ->
  rf_effects_and_text (rf_style_of (rf_seg_sgr s)) t = RfText [rf_inline_of (rf_cansi_font s) t].
Proof.
  intros [Hfg _]. unfold rf_effects_and_text, rf_style_of, rf_has_bright_fg. cbn [ry_effects ry_fg].
  rewrite rf_create_effects_bold, rf_create_effects_italic.
  rewrite rf_seg_sgr_fg, rf_seg_sgr_intensity, rf_seg_sgr_italic.
  rewrite rf_cansi_to_anstyle_ok by exact Hfg. rewrite rf_bright_ok by exact Hfg.
  unfold rf_cansi_font, rf_cansi_bold.
  destruct (match rf_intensity_after (rs_effects s) None with Some k => k =? 1 | None => false end || rf_bright (rs_fg s)); [reflexivity|].
  destruct (rf_has RfItalic s); reflexivity.
Qed.

(* Line::render of a text line with one inline = the body of the specification *)
Lemma rf_render_text f t : rf_render_line (RfText [rf_inline_of f t]) = rf_body f t ++ [rf_NL].
Proof.
  unfold rf_render_line. f_equal. destruct f; cbn [rf_inline_of rf_render_inlines rf_body rf_font_on rf_font_off];
    rewrite rf_escape_passes, app_nil_r.
  - reflexivity.
  - reflexivity.
  - rewrite rf_escape_head_cc. cbn [andb]. unfold rf_guard. destruct t as [|c r]; [reflexivity|].
    destruct (rf_is_cc c); reflexivity.
Qed.

(* the colour requests *)
Definition rf_model_color_name (c : option N) : list N :=
  match c with None => rf_default_name | Some i => rf_ansi_name i end.

Lemma rf_color_name_ok c : rf_color_ok c -> rf_escape_spaces (rf_model_color_name c) = rf_color_word c.
Proof. destruct c as [i|]; [|reflexivity]. intros H. cbn [rf_color_ok] in H. rf_cases16 H; reflexivity. Qed.

Lemma rf_render_control req w : rf_render_line (RfControl req [w]) = rf_request req (rf_escape_spaces w) ++ [rf_NL].
Proof.
  unfold rf_render_line, rf_request. cbn [map concat]. rewrite app_nil_r. cbn [app]. rewrite <- app_assoc. reflexivity.
Qed.

Lemma rf_add_color_ok req c : rf_add_color req (rf_to_color c) = Some [RfControl req [rf_model_color_name c]].
Proof. destruct c; reflexivity. Qed.

Lemma rf_render_app a b : rf_render (a ++ b) = rf_render a ++ rf_render b.
Proof. unfold rf_render. rewrite map_app, concat_app. reflexivity. Qed.

Lemma rf_req_words : rf_req_fg = rf_word_gcolor /\ rf_req_bg = rf_word_fcolor.
Proof. split; reflexivity. Qed.

(* one segment of D *)
Lemma rf_segment_D s : rf_seg_ok s -> rs_text s <> [] ->
  exists cl, rf_set_color (rf_style_of (rf_seg_sgr s)) = Some cl /\
    rf_render (cl ++ [rf_effects_and_text (rf_style_of (rf_seg_sgr s)) (rs_text s)]) = rf_seg_doc_in (rf_cansi_font s) s.
Proof.
  intros Hs Ht. pose proof Hs as [Hfg [Hbg _]].
  unfold rf_set_color, rf_style_of. cbn [ry_fg ry_bg].
  rewrite rf_seg_sgr_fg, rf_seg_sgr_bg.
  rewrite !rf_cansi_to_anstyle_ok by assumption. rewrite !rf_add_color_ok.
  eexists. split; [reflexivity|].
  change (mkRfStyle (rf_to_color (rs_fg s)) (rf_to_color (rs_bg s)) (rf_create_effects (rf_seg_sgr s)))
    with (mkRfStyle (rf_to_color (rs_fg s)) (rf_to_color (rs_bg s)) (rf_create_effects (rf_seg_sgr s))).
  assert (E : rf_effects_and_text
                (mkRfStyle (rf_to_color (rs_fg s)) (rf_to_color (rs_bg s)) (rf_create_effects (rf_seg_sgr s))) (rs_text s)
              = RfText [rf_inline_of (rf_cansi_font s) (rs_text s)]).
  { pose proof (rf_effects_and_text_D s (rs_text s) Hs) as H. unfold rf_style_of in H.
    rewrite rf_seg_sgr_fg, rf_seg_sgr_bg in H. rewrite !rf_cansi_to_anstyle_ok in H by assumption. exact H. }
  rewrite E. unfold rf_render. cbn [app map concat]. rewrite app_nil_r.
  rewrite !rf_render_control, rf_render_text. rewrite !rf_color_name_ok by assumption.
  destruct rf_req_words as [-> ->].
  unfold rf_seg_doc_in. destruct (rs_text s) as [|c r]; [contradiction|].
  rewrite <- !app_assoc. reflexivity.
Qed.

Definition rf_cansi_doc (segs : list rf_seg) : list N :=
  concat (map (fun s => rf_seg_doc_in (rf_cansi_font s) s) segs).

Lemma rf_doc_lines_D segs : rf_D segs ->
  exists ls, rf_doc_lines (flat_map rf_seg_slices segs) = Some ls /\ rf_render ls = rf_cansi_doc segs.
Proof.
  induction 1 as [|s segs Hs _ [ls [E1 E2]]].
  - exists []. split; reflexivity.
  - cbn [flat_map]. unfold rf_cansi_doc. cbn [map concat]. fold (rf_cansi_doc segs).
    unfold rf_seg_slices at 1. destruct (rs_text s) as [|c r] eqn:Et.
    + exists ls. split; [exact E1|]. unfold rf_seg_doc_in. rewrite Et. exact E2.
    + assert (Hne : rs_text s <> []) by (rewrite Et; discriminate).
      destruct (rf_segment_D s Hs Hne) as [cl [C1 C2]].
      cbn [app rf_doc_lines]. rewrite C1, E1. eexists. split; [reflexivity|].
      rewrite <- Et.
      change (cl ++ rf_effects_and_text (rf_style_of (rf_seg_sgr s)) (rs_text s) :: ls)
        with (cl ++ [rf_effects_and_text (rf_style_of (rf_seg_sgr s)) (rs_text s)] ++ ls).
      rewrite app_assoc, rf_render_app, C2, E2. reflexivity.
Qed.

(* the document of a member of D, with the font as cansi decides it *)
Lemma rf_to_roff_D segs : rf_D segs -> rf_to_roff (rf_print_D segs) = Some (rf_cansi_doc segs).
Proof.
  intros H. unfold rf_to_roff. rewrite rf_categorise_D by exact H.
  destruct (rf_doc_lines_D segs H) as [ls [E1 E2]]. rewrite E1, E2. reflexivity.
Qed.

(* outside the recorded class (bold and faint together) that font is the font of the statement *)
Lemma rf_intensity_no_faint effs : existsb (rf_effect_eqb RfFaint) effs = false -> forall k,
  rf_intensity_after effs k = if existsb (rf_effect_eqb RfBold) effs then Some 1 else k.
Proof.
  induction effs as [|e es IH]; intros H k; [reflexivity|].
  cbn [existsb] in H. apply orb_false_iff in H as [H1 H2].
  destruct e; cbn [rf_intensity_after existsb]; try discriminate; rewrite (IH H2); cbn; try reflexivity.
  destruct (existsb (rf_effect_eqb RfBold) es); reflexivity.
Qed.

Lemma rf_intensity_no_bold effs : existsb (rf_effect_eqb RfBold) effs = false -> forall k,
  rf_intensity_after effs k = if existsb (rf_effect_eqb RfFaint) effs then Some 2 else k.
Proof.
  induction effs as [|e es IH]; intros H k; [reflexivity|].
  cbn [existsb] in H. apply orb_false_iff in H as [H1 H2].
  destruct e; cbn [rf_intensity_after existsb]; try discriminate; rewrite (IH H2); cbn; try reflexivity.
  destruct (existsb (rf_effect_eqb RfFaint) es); reflexivity.
Qed.

Lemma rf_cansi_font_ok s : rf_bold_and_faint s = false -> rf_cansi_font s = rf_seg_font s.
Proof.
  unfold rf_bold_and_faint, rf_cansi_font, rf_seg_font, rf_cansi_bold, rf_has. intros H.
  apply andb_false_iff in H as [H|H].
  - rewrite (rf_intensity_no_bold _ H), H. destruct (existsb (rf_effect_eqb RfFaint) (rs_effects s)); reflexivity.
  - rewrite (rf_intensity_no_faint _ H). destruct (existsb (rf_effect_eqb RfBold) (rs_effects s)); reflexivity.
Qed.

Lemma rf_document_shape segs : rf_D segs -> Forall (fun s => rf_bold_and_faint s = false) segs ->
  rf_to_roff (rf_print_D segs) = Some (rf_spec_doc segs).
Proof.
  intros HD Hk. rewrite rf_to_roff_D by exact HD. f_equal. unfold rf_cansi_doc, rf_spec_doc.
  induction Hk as [|s segs Hs _ IH]; [reflexivity|].
  cbn [map concat]. inversion HD; subst. rewrite IH by assumption. unfold rf_seg_doc. rewrite (rf_cansi_font_ok s Hs). reflexivity.
Qed.

(* ====================================================================== *)
(* 5. the text survives *)

Definition rf_nonreqb (l : list N) : bool := negb (rf_is_request_line l).

(* the text lines of a document, joined again *)
Definition rf_text_part (doc : list N) : list N :=
  concat (map (fun l => l ++ [rf_NL]) (filter rf_nonreqb (rf_lines doc))).

Lemma rf_doc_text_eq doc : rf_doc_text doc = rf_unescape_roff (rf_text_part doc).
Proof. reflexivity. Qed.

Lemma rf_request_lines_g c : rf_color_ok c ->
  rf_lines (rf_request rf_word_gcolor (rf_color_word c) ++ [rf_NL]) = [rf_request rf_word_gcolor (rf_color_word c)].
Proof. destruct c as [i|]; [|reflexivity]. intros H. cbn [rf_color_ok] in H. rf_cases16 H; reflexivity. Qed.

Lemma rf_request_lines_f c : rf_color_ok c ->
  rf_lines (rf_request rf_word_fcolor (rf_color_word c) ++ [rf_NL]) = [rf_request rf_word_fcolor (rf_color_word c)].
Proof. destruct c as [i|]; [|reflexivity]. intros H. cbn [rf_color_ok] in H. rf_cases16 H; reflexivity. Qed.

Lemma rf_text_part_body f t rest :
  rf_text_part ((rf_body f t ++ [rf_NL]) ++ rest) = (rf_body f t ++ [rf_NL]) ++ rf_text_part rest.
Proof.
  unfold rf_text_part. rewrite rf_lines_app, filter_app, map_app, concat_app.
  rewrite rf_filter_all.
  - rewrite rf_lines_rejoin. reflexivity.
  - pose proof (rf_body_lines_nonreq f t) as H. apply Forall_forall. intros l Hl.
    rewrite Forall_forall in H. specialize (H l Hl). unfold rf_nonreq in H. unfold rf_nonreqb. rewrite H. reflexivity.
Qed.

Lemma rf_text_part_seg f s rest : rf_seg_ok s ->
  rf_text_part (rf_seg_doc_in f s ++ rest) =
  match rs_text s with [] => [] | t => rf_body f t ++ [rf_NL] end ++ rf_text_part rest.
Proof.
  intros [Hfg [Hbg _]]. unfold rf_seg_doc_in. destruct (rs_text s) as [|c r]; [reflexivity|].
  set (t := c :: r).
  replace ((rf_request rf_word_gcolor (rf_color_word (rs_fg s)) ++ [rf_NL] ++
            rf_request rf_word_fcolor (rf_color_word (rs_bg s)) ++ [rf_NL] ++ rf_body f t ++ [rf_NL]) ++ rest)
    with ((rf_request rf_word_gcolor (rf_color_word (rs_fg s)) ++ [rf_NL]) ++
          ((rf_request rf_word_fcolor (rf_color_word (rs_bg s)) ++ [rf_NL]) ++ ((rf_body f t ++ [rf_NL]) ++ rest)))
    by (rewrite <- !app_assoc; reflexivity).
  unfold rf_text_part at 1. rewrite rf_lines_app, rf_request_lines_g by assumption.
  rewrite rf_lines_app, rf_request_lines_f by assumption.
  cbn [app filter]. change (rf_nonreqb (rf_request rf_word_gcolor (rf_color_word (rs_fg s)))) with false.
  change (rf_nonreqb (rf_request rf_word_fcolor (rf_color_word (rs_bg s)))) with false. cbn iota.
  fold (rf_text_part ((rf_body f t ++ [rf_NL]) ++ rest)). apply rf_text_part_body.
Qed.

Lemma rf_unescape_body_nl f t X :
  rf_unescape_from RfUText ((rf_body f t ++ [rf_NL]) ++ X) = (t ++ [rf_NL]) ++ rf_unescape_from RfUText X.
Proof. rewrite <- !app_assoc. rewrite rf_unescape_body. reflexivity. Qed.

Lemma rf_text_survives_doc segs : rf_D segs -> rf_doc_text (rf_cansi_doc segs) = rf_visible_text segs.
Proof.
  intros HD. rewrite rf_doc_text_eq. unfold rf_unescape_roff.
  induction HD as [|s segs Hs _ IH]; [reflexivity|].
  unfold rf_cansi_doc, rf_visible_text. cbn [map concat]. fold (rf_cansi_doc segs) (rf_visible_text segs).
  rewrite rf_text_part_seg by exact Hs. unfold rf_seg_visible.
  destruct (rs_text s) as [|c r]; [exact IH|].
  rewrite rf_unescape_body_nl, IH. reflexivity.
Qed.

Lemma rf_text_survives segs : rf_D segs ->
  exists doc, rf_to_roff (rf_print_D segs) = Some doc /\ rf_doc_text doc = rf_visible_text segs.
Proof.
  intros HD. exists (rf_cansi_doc segs). split; [apply rf_to_roff_D; exact HD|apply rf_text_survives_doc; exact HD].
Qed.

(* ====================================================================== *)
(* 6. no injected request: for every input *)

Definition rf_sgr_ok (g : rf_sgr) : Prop := rf_color_ok (cs_fg g) /\ rf_color_ok (cs_bg g).

Definition rf_action_okb (a : rf_cansi_action) : bool :=
  match a with RfCaFg c | RfCaBg c => c <? 16 | _ => true end.

Lemma rf_arms_ok : forallb (fun p => rf_action_okb (snd p)) rf_cansi_arms = true.
Proof. vm_compute. reflexivity. Qed.

Lemma rf_lookup_ok seq arms : forallb (fun p => rf_action_okb (snd p)) arms = true ->
  forall a, rf_cansi_lookup seq arms = Some a -> rf_action_okb a = true.
Proof.
  induction arms as [|[c a0] arms IH]; intros H a Ha; [discriminate|].
  cbn [forallb snd] in H. apply andb_true_iff in H as [H1 H2]. cbn [rf_cansi_lookup] in Ha.
  destruct (rf_eqb seq (rf_code_str c)); [injection Ha as <-; exact H1|apply IH; assumption].
Qed.

Lemma rf_sgr_default_ok : rf_sgr_ok rf_sgr_default.
Proof. split; exact I. Qed.

Lemma rf_adjust_ok g seq : rf_sgr_ok g -> rf_sgr_ok (rf_adjust_sgr g seq).
Proof.
  intros [Hf Hb]. unfold rf_adjust_sgr. destruct (rf_cansi_lookup seq rf_cansi_arms) as [a|] eqn:E; [|split; assumption].
  pose proof (rf_lookup_ok seq rf_cansi_arms rf_arms_ok a E) as Ha.
  destruct a; cbn [rf_cansi_apply]; try (split; assumption); try exact rf_sgr_default_ok.
  - split; [cbn; apply N.ltb_lt; exact Ha|exact Hb].
  - split; [exact Hf|cbn; apply N.ltb_lt; exact Ha].
Qed.

Lemma rf_handle_ok params : rf_sgr_ok (rf_handle_seq params).
Proof.
  unfold rf_handle_seq. generalize rf_sgr_default_ok. generalize rf_sgr_default.
  induction (rf_split 59 params) as [|f fs IH]; intros g Hg; [exact Hg|].
  cbn [fold_left]. apply IH. apply rf_adjust_ok. exact Hg.
Qed.

Definition rf_slices_ok (l : list (rf_sgr * list N)) : Prop := Forall (fun sl => rf_sgr_ok (fst sl)) l.

Lemma rf_flush_ok g pend : rf_sgr_ok g -> rf_slices_ok (rf_flush g pend).
Proof. intros H. unfold rf_flush. destruct pend; constructor; [exact H|constructor]. Qed.

Lemma rf_cat_go_ok s : forall st g pend, rf_sgr_ok g -> rf_slices_ok (rf_cat_go st g pend s).
Proof.
  induction s as [|b t IH]; intros st g pend Hg.
  - destruct st; apply rf_flush_ok; exact Hg.
  - cbn [rf_cat_go]. destruct st as [| |acc].
    + destruct (b =? 27); apply IH; exact Hg.
    + destruct (b =? 91); [apply IH; exact Hg|]. destruct (b =? 27); apply IH; exact Hg.
    + destruct (rf_terminated b); [|apply IH; exact Hg].
      apply Forall_app. split; [apply rf_flush_ok; exact Hg|apply IH; apply rf_handle_ok].
Qed.

Lemma rf_categorise_ok input : rf_slices_ok (rf_categorise input).
Proof. apply rf_cat_go_ok. exact rf_sgr_default_ok. Qed.

(* a rendered line is one of the allowed requests or the body of a text *)
Definition rf_line_good (l : rf_line) : Prop :=
  (exists w, In w rf_allowed_requests /\ rf_render_line l = w ++ [rf_NL] /\ rf_lines (w ++ [rf_NL]) = [w]) \/
  (exists f t, rf_render_line l = rf_body f t ++ [rf_NL]).

Lemma rf_allowed_g c : rf_color_ok c -> In (rf_request rf_word_gcolor (rf_color_word c)) rf_allowed_requests.
Proof.
  destruct c as [i|]; [|left; reflexivity]. intros H. cbn [rf_color_ok] in H.
  rf_cases16 H; unfold rf_allowed_requests, rf_color_words; cbn [map app];
    repeat (first [left; reflexivity | right]).
Qed.

Lemma rf_allowed_f c : rf_color_ok c -> In (rf_request rf_word_fcolor (rf_color_word c)) rf_allowed_requests.
Proof.
  destruct c as [i|]; [|do 9 right; left; reflexivity]. intros H. cbn [rf_color_ok] in H.
  rf_cases16 H; unfold rf_allowed_requests, rf_color_words; cbn [map app];
    repeat (first [left; reflexivity | right]).
Qed.

Lemma rf_effects_and_text_shape st t : exists f, rf_effects_and_text st t = RfText [rf_inline_of f t].
Proof.
  unfold rf_effects_and_text.
  destruct (e_contains (ry_effects st) eff_bold || rf_has_bright_fg st); [exists RfFontBold; reflexivity|].
  destruct (e_contains (ry_effects st) eff_italic); [exists RfFontItalic|exists RfFontRoman]; reflexivity.
Qed.

Lemma rf_doc_lines_good slices : rf_slices_ok slices ->
  exists ls, rf_doc_lines slices = Some ls /\ Forall rf_line_good ls.
Proof.
  induction 1 as [|[g t] slices [Hf Hb] _ [ls [E1 E2]]].
  - exists []. split; [reflexivity|constructor].
  - cbn [fst] in Hf, Hb. cbn [rf_doc_lines]. unfold rf_set_color, rf_style_of at 1 2. cbn [ry_fg ry_bg].
    rewrite !rf_cansi_to_anstyle_ok by assumption. rewrite !rf_add_color_ok. rewrite E1.
    eexists. split; [reflexivity|]. cbn [app].
    constructor; [|constructor; [|constructor; [|exact E2]]].
    + left. exists (rf_request rf_word_gcolor (rf_color_word (cs_fg g))). split; [apply rf_allowed_g; exact Hf|]. split.
      * rewrite rf_render_control, rf_color_name_ok by exact Hf. reflexivity.
      * apply rf_request_lines_g. exact Hf.
    + left. exists (rf_request rf_word_fcolor (rf_color_word (cs_bg g))). split; [apply rf_allowed_f; exact Hb|]. split.
      * rewrite rf_render_control, rf_color_name_ok by exact Hb. reflexivity.
      * apply rf_request_lines_f. exact Hb.
    + right. destruct (rf_effects_and_text_shape (rf_style_of g) t) as [f Ef]. exists f, t. rewrite Ef. apply rf_render_text.
Qed.

Lemma rf_good_lines ls : Forall rf_line_good ls ->
  forall l, In l (rf_lines (rf_render ls)) -> rf_is_request_line l = true -> In l rf_allowed_requests.
Proof.
  induction 1 as [|x ls Hx _ IH]; intros l Hl Hr; [contradiction|].
  unfold rf_render in Hl. cbn [map concat] in Hl. fold (rf_render ls) in Hl.
  destruct Hx as [[w [Hw [Ew El]]]|[f [t Et]]].
  - rewrite Ew, rf_lines_app, El in Hl. destruct Hl as [<-|Hl]; [exact Hw|apply IH; assumption].
  - rewrite Et, rf_lines_app in Hl. apply in_app_or in Hl as [Hl|Hl]; [|apply IH; assumption].
    pose proof (rf_body_lines_nonreq f t) as Hn. rewrite Forall_forall in Hn. specialize (Hn l Hl).
    unfold rf_nonreq in Hn. rewrite Hn in Hr. discriminate.
Qed.

Lemma rf_to_roff_total input : exists doc, rf_to_roff input = Some doc.
Proof.
  unfold rf_to_roff. destruct (rf_doc_lines_good _ (rf_categorise_ok input)) as [ls [E _]]. rewrite E. eexists. reflexivity.
Qed.

Lemma rf_no_injected_request input doc : rf_to_roff input = Some doc ->
  forall l, In l (rf_lines doc) -> rf_is_request_line l = true -> In l rf_allowed_requests.
Proof.
  unfold rf_to_roff. destruct (rf_doc_lines_good _ (rf_categorise_ok input)) as [ls [E G]]. rewrite E.
  intros H. injection H as <-. apply rf_good_lines. exact G.
Qed.

(* ====================================================================== *)
(* 7. the recorded findings: witnesses *)

(* F15-1  ESC[1m ESC[31m hi : the general expectation is bold red; cansi starts every sequence
   from the default, the bold of the first sequence is lost *)
Definition rf_witness_accumulation : list N := [27; 91; 49; 109; 27; 91; 51; 49; 109; 104; 105].

(* .gcolor red / .fcolor default / hi           (roman) *)
Definition rf_doc_accumulation_model : list N :=
  [46; 103; 99; 111; 108; 111; 114; 32; 114; 101; 100; 10;
   46; 102; 99; 111; 108; 111; 114; 32; 100; 101; 102; 97; 117; 108; 116; 10;
   104; 105; 10].
(* .gcolor red / .fcolor default / \fBhi\fR *)
Definition rf_doc_accumulation_expected : list N :=
  [46; 103; 99; 111; 108; 111; 114; 32; 114; 101; 100; 10;
   46; 102; 99; 111; 108; 111; 114; 32; 100; 101; 102; 97; 117; 108; 116; 10;
   92; 102; 66; 104; 105; 92; 102; 82; 10].

Lemma rf_accumulation_refuted :
  exists input, input = rf_witness_accumulation /\
    rf_to_roff input = Some rf_doc_accumulation_model /\
    rf_general_doc input = Some rf_doc_accumulation_expected /\
    rf_doc_accumulation_model <> rf_doc_accumulation_expected.
Proof.
  exists rf_witness_accumulation. split; [reflexivity|]. split; [vm_compute; reflexivity|]. split; [vm_compute; reflexivity|discriminate].
Qed.

(* F15-2  ESC[38;5;196m X : colour 196 of the 256-colour palette is #ff0000; cansi does not know
   the 38;5;n form (38, 5 and 196 are three unknown codes) *)
Definition rf_witness_extended : list N := [27; 91; 51; 56; 59; 53; 59; 49; 57; 54; 109; 88].

(* .gcolor default / .fcolor default / X *)
Definition rf_doc_extended_model : list N :=
  [46; 103; 99; 111; 108; 111; 114; 32; 100; 101; 102; 97; 117; 108; 116; 10;
   46; 102; 99; 111; 108; 111; 114; 32; 100; 101; 102; 97; 117; 108; 116; 10;
   88; 10].
(* .defcolor hex_#ff0000 rgb #ff0000 / .gcolor hex_#ff0000 / .fcolor default / X *)
Definition rf_doc_extended_expected : list N :=
  [46; 100; 101; 102; 99; 111; 108; 111; 114; 32; 104; 101; 120; 95; 35; 102; 102; 48; 48; 48; 48; 32; 114; 103; 98; 32; 35; 102; 102; 48; 48; 48; 48; 10;
   46; 103; 99; 111; 108; 111; 114; 32; 104; 101; 120; 95; 35; 102; 102; 48; 48; 48; 48; 10;
   46; 102; 99; 111; 108; 111; 114; 32; 100; 101; 102; 97; 117; 108; 116; 10;
   88; 10].

Lemma rf_extended_colours_refuted :
  exists input, input = rf_witness_extended /\
    rf_to_roff input = Some rf_doc_extended_model /\
    rf_general_doc input = Some rf_doc_extended_expected /\
    rf_doc_extended_model <> rf_doc_extended_expected.
Proof.
  exists rf_witness_extended. split; [reflexivity|]. split; [vm_compute; reflexivity|]. split; [vm_compute; reflexivity|discriminate].
Qed.

(* F15-3  ESC[0;1;2m X, a member of D: bold and faint together; cansi keeps the last intensity *)
Definition rf_witness_bold_faint : list rf_seg := [mkRfSeg [RfBold; RfFaint] None None [88]].

Lemma rf_bold_faint_refuted :
  exists segs, segs = rf_witness_bold_faint /\ rf_D segs /\
    rf_print_D segs = [27; 91; 48; 59; 49; 59; 50; 109; 88] /\
    rf_to_roff (rf_print_D segs) = Some rf_doc_extended_model /\
    rf_to_roff (rf_print_D segs) <> Some (rf_spec_doc segs).
Proof.
  exists rf_witness_bold_faint. split; [reflexivity|]. split.
  - constructor; [|constructor]. split; [exact I|]. split; [exact I|]. cbn. intros [H|[]]. discriminate.
  - split; [vm_compute; reflexivity|]. split; [vm_compute; reflexivity|]. vm_compute. discriminate.
Qed.

(* ====================================================================== *)
(* 8. the Rgb and Ansi256 arms of add_color_to_roff *)

Lemma rf_hex_digit_eq d : d < 16 -> rf_hex_digit_lc d = rf_hex_digit d.
Proof.
  intros H. unfold rf_hex_digit_lc, rf_hex_digit. destruct (d <? 10) eqn:E; [reflexivity|].
  apply N.ltb_ge in E. lia.
Qed.

Lemma rf_hex_digit_nospace d : d < 16 -> rf_hex_digit d <> 32.
Proof. intros H. unfold rf_hex_digit. destruct (d <? 10) eqn:E; lia. Qed.

Lemma rf_hex_digit_neqb d : d < 16 -> (32 =? rf_hex_digit d) = false.
Proof. intros H. apply N.eqb_neq. intros E. symmetry in E. revert E. apply rf_hex_digit_nospace. exact H. Qed.

Lemma rf_hex_fixed_step k v x : x < 16 ->
  rf_hex_fixed (S k) (v * 16 + x) = rf_hex_fixed k v ++ [rf_hex_digit_lc x].
Proof.
  intros Hx. cbn [rf_hex_fixed].
  assert (E1 : (v * 16 + x) / 16 = v) by (symmetry; apply (N.div_unique _ 16 v x); lia).
  assert (E2 : (v * 16 + x) mod 16 = x) by (symmetry; apply (N.mod_unique _ 16 v x); lia).
  rewrite E1, E2. reflexivity.
Qed.

Lemma rf_hex_fixed_bytes qr mr qg mg qb mb :
  qr < 16 -> mr < 16 -> qg < 16 -> mg < 16 -> qb < 16 -> mb < 16 ->
  rf_hex_fixed 6 (((((qr * 16 + mr) * 16 + qg) * 16 + mg) * 16 + qb) * 16 + mb) =
  [rf_hex_digit_lc qr; rf_hex_digit_lc mr; rf_hex_digit_lc qg; rf_hex_digit_lc mg; rf_hex_digit_lc qb; rf_hex_digit_lc mb].
Proof.
  intros. rewrite !rf_hex_fixed_step by assumption.
  replace qr with (0 * 16 + qr) at 1 by lia. rewrite rf_hex_fixed_step by assumption. reflexivity.
Qed.

Lemma rf_byte_nibbles x : x < 256 -> x = (x / 16) * 16 + x mod 16 /\ x / 16 < 16 /\ x mod 16 < 16.
Proof.
  intros Hx. pose proof (N.div_mod x 16 ltac:(lia)) as E. pose proof (N.mod_lt x 16 ltac:(lia)) as M.
  split; [lia|]. split; [|exact M]. apply N.div_lt_upper_bound; lia.
Qed.

Lemma rf_to_hex_ok r g b : r < 256 -> g < 256 -> b < 256 -> rf_to_hex (r, g, b) = rf_hex_value (r, g, b).
Proof.
  intros Hr Hg Hb. unfold rf_to_hex, rf_hex_value, rf_fmt_lower_hex.
  change rf_hex_prefix with [35]. change rf_hex_width with 6%nat. cbn [app]. f_equal.
  rewrite !N.shiftl_mul_pow2. change (2 ^ 16) with 65536. change (2 ^ 8) with 256.
  change (16 ^ N.of_nat 6) with 16777216.
  assert (Hv : r * 65536 + g * 256 + b <? 16777216 = true) by (apply N.ltb_lt; lia). rewrite Hv.
  destruct (rf_byte_nibbles r Hr) as [Er [Qr Mr]].
  destruct (rf_byte_nibbles g Hg) as [Eg [Qg Mg]].
  destruct (rf_byte_nibbles b Hb) as [Eb [Qb Mb]].
  unfold rf_hex2. generalize dependent (r / 16). generalize dependent (r mod 16).
  generalize dependent (g / 16). generalize dependent (g mod 16).
  generalize dependent (b / 16). generalize dependent (b mod 16).
  intros mb Mb qb Eb Qb mg Mg qg Eg Qg mr Mr qr Er Qr.
  replace (r * 65536 + g * 256 + b) with (((((qr * 16 + mr) * 16 + qg) * 16 + mg) * 16 + qb) * 16 + mb) by lia.
  rewrite rf_hex_fixed_bytes by assumption.
  rewrite !rf_hex_digit_eq by assumption. reflexivity.
Qed.

Lemma rf_hex_value_nospace r g b : r < 256 -> g < 256 -> b < 256 ->
  existsb (N.eqb 32) (rf_hex_value (r, g, b)) = false /\ existsb (N.eqb 32) (rf_hex_name (r, g, b)) = false.
Proof.
  intros Hr Hg Hb.
  assert (H : existsb (N.eqb 32) (rf_hex_value (r, g, b)) = false).
  { destruct (rf_byte_nibbles r Hr) as [_ [Qr Mr]].
    destruct (rf_byte_nibbles g Hg) as [_ [Qg Mg]].
    destruct (rf_byte_nibbles b Hb) as [_ [Qb Mb]].
    unfold rf_hex_value, rf_hex2. cbn [app existsb].
    rewrite !rf_hex_digit_neqb by assumption. reflexivity. }
  split; [exact H|]. unfold rf_hex_name. cbn [app existsb]. cbn [N.eqb Pos.eqb orb]. exact H.
Qed.

Lemma rf_rgb_branch req r g b : r < 256 -> g < 256 -> b < 256 ->
  rf_color_requests req (Some (Rgb (r, g, b))) = Some (rf_gen_color_requests req (Some (TRgb r g b))).
Proof.
  intros Hr Hg Hb. unfold rf_color_requests, rf_add_color, rf_add_color_direct. f_equal.
  unfold rf_rgb_name. rewrite rf_to_hex_ok by assumption.
  destruct (rf_hex_value_nospace r g b Hr Hg Hb) as [N1 N2].
  change (rf_rgb_name_prefix ++ rf_hex_value (r, g, b)) with (rf_hex_name (r, g, b)).
  unfold rf_render. cbn [map concat rf_render_line]. unfold rf_escape_spaces. rewrite N1, N2.
  change (existsb (N.eqb 32) rf_rgb_word) with false. cbn iota.
  unfold rf_gen_color_requests, rf_rgb_requests, rf_request.
  change rf_req_defcolor with rf_word_defcolor. change rf_rgb_word with rf_word_rgb. unfold rf_NL.
  rewrite app_nil_r. cbn [app]. rewrite <- !app_assoc. cbn [app]. reflexivity.
Qed.

Definition rf_xterm_okb (i : N) : bool :=
  match rf_xterm_to_ansi_or_rgb i with
  | Some (Ansi a) => (i <? 16) && (a =? i)
  | Some (Rgb (r, g, b)) =>
      negb (i <? 16) && (r <? 256) && (g <? 256) && (b <? 256)
      && (let '(r', g', b') := xterm_fixed i in (r =? r') && (g =? g') && (b =? b'))
  | _ => false
  end.

Lemma rf_xterm_all : forallb rf_xterm_okb (range_from 0 256) = true.
Proof. vm_compute. reflexivity. Qed.

Lemma rf_ansi_name_nospace i : i < 16 -> rf_escape_spaces (rf_ansi_name i) = rf_base_name i.
Proof. intros H. exact (rf_color_name_ok (Some i) H). Qed.

Lemma rf_ansi256_branch req i : i < 256 ->
  rf_color_requests req (Some (Ansi256 i)) = Some (rf_gen_color_requests req (Some (TAnsi256 i))).
Proof.
  intros Hi. pose proof (proj1 (forallb_forall _ _) rf_xterm_all i (rf_range_In 256 0 i ltac:(cbn; lia))) as H.
  unfold rf_xterm_okb in H. unfold rf_color_requests, rf_add_color.
  destruct (rf_xterm_to_ansi_or_rgb i) as [[a|j|[[r g] b]]|]; try discriminate.
  - apply andb_true_iff in H as [H1 H2]. apply N.eqb_eq in H2. subst a.
    cbn [rf_gen_color_requests]. rewrite H1. apply N.ltb_lt in H1.
    unfold rf_add_color_direct, rf_render. cbn [map concat]. rewrite app_nil_r.
    rewrite rf_render_control, rf_ansi_name_nospace by exact H1. reflexivity.
  - destruct (xterm_fixed i) as [[r' g'] b'] eqn:Ex.
    repeat match goal with E : (_ && _) = true |- _ => apply andb_true_iff in E as [? ?] end.
    repeat match goal with E : (_ =? _) = true |- _ => apply N.eqb_eq in E end. subst r' g' b'.
    repeat match goal with E : (_ <? _) = true |- _ => apply N.ltb_lt in E end.
    pose proof (rf_rgb_branch req r g b ltac:(assumption) ltac:(assumption) ltac:(assumption)) as Hrgb.
    unfold rf_color_requests, rf_add_color in Hrgb. rewrite Hrgb.
    cbn [rf_gen_color_requests]. destruct (i <? 16); [discriminate|]. rewrite Ex. reflexivity.
Qed.

Lemma rf_rgb_branch_correct req c :
  match c with
  | Rgb (r, g, b) => r < 256 /\ g < 256 /\ b < 256
  | Ansi256 i => i < 256
  | Ansi a => a < 16
  end ->
  rf_color_requests req (Some c) = Some (rf_gen_color_requests req (Some (rf_tcolor_of c))).
Proof.
  destruct c as [a|i|[[r g] b]]; cbn [rf_tcolor_of].
  - intros Ha. unfold rf_color_requests, rf_add_color, rf_add_color_direct, rf_render. cbn [map concat]. rewrite app_nil_r.
    rewrite rf_render_control, rf_ansi_name_nospace by exact Ha. reflexivity.
  - apply rf_ansi256_branch.
  - intros [Hr [Hg Hb]]. apply rf_rgb_branch; assumption.
Qed.
