(* Proofs/ChoiceGen.v -- the functions TRANSLATED from crates/anstyle-query/src/lib.rs,
   crates/colorchoice/src/lib.rs, crates/colorchoice-clap/src/lib.rs and
   crates/anstream/src/auto.rs (Generated/ChoiceFn.v, written by tools/gen_fn_choice.py on
   every run) are extensionally equal to the hand model Model/Choice.v that the theorems of
   C09 are about.  A change to the Rust functions changes the translation; if it changes
   their meaning, one of these proofs fails. *)
From Coq Require Import NArith List Bool.
From AV Require Import Spec.Choice Generated.Choice Model.Base Model.Imp Model.Choice Generated.ChoiceFn Proofs.Choice.
Import ListNotations.
Local Open Scope N_scope.

(* the names and literals of Generated/Choice.v are the string literals of the same Rust
   functions: unfolding them makes both sides speak about the same bytes *)
Ltac names :=
  unfold ch_var_clicolor, ch_lit_clicolor_off, ch_var_clicolor_force, ch_var_no_color, ch_var_term, ch_lit_term_dumb,
         ch_var_colorterm, ch_lit_truecolor, ch_var_ci in *.

(* ---- anstyle_query (non-Windows configuration) --------------------------------------- *)

(* The probes are a few tests on `e NAME`.  [ch_probe] does not follow the shape of the generated term: it unfolds
   the Option / OsStr adapters on both sides, then destructs whatever the goal still branches on (a variable, a
   lookup `e NAME`, a comparison `ch_bytes_eq a b` -- the same term on both sides), so that `x.unwrap_or_default()`,
   `match x { Some(v) => .., None => .. }`, `if let`, `let .. else`, `x.map(..).unwrap_or(..)`, `!x.is_none()` ..
   are all accepted, and a different answer in any case is not *)
Ltac ch_probe :=
  unfold ch_non_empty, ch_unwrap_or, opt_unwrap_or, opt_is_some, opt_is_none, ch_is_empty, ch_opt_eqb; names;
  cbv beta zeta; cbn [existsb];
  repeat (match goal with
          | |- context [match ?x with _ => _ end] => is_var x; destruct x
          | |- context [match ?f ?k with _ => _ end] => is_var f; destruct (f k)
          | |- context [ch_bytes_eq ?a ?b] => destruct (ch_bytes_eq a b)
          end; cbv beta iota zeta);
  reflexivity.

Lemma g_non_empty_eq e v : g_non_empty e v = ch_non_empty v.
Proof. unfold g_non_empty. ch_probe. Qed.

Lemma g_clicolor_eq e : g_clicolor e = Some (ch_clicolor e).
Proof. unfold g_clicolor, ch_clicolor. ch_probe. Qed.

Lemma g_clicolor_force_eq e : g_clicolor_force e = ch_clicolor_force e.
Proof. unfold g_clicolor_force, ch_clicolor_force. rewrite ?g_non_empty_eq. ch_probe. Qed.

Lemma g_no_color_eq e : g_no_color e = ch_no_color e.
Proof. unfold g_no_color, ch_no_color. rewrite ?g_non_empty_eq. ch_probe. Qed.

Lemma g_term_supports_color_eq e : g_term_supports_color e = Some (ch_term_supports_color e).
Proof. unfold g_term_supports_color, ch_term_supports_color. ch_probe. Qed.

Lemma g_term_supports_ansi_color_eq e : g_term_supports_ansi_color e = Some (ch_term_supports_ansi_color e).
Proof.
  unfold g_term_supports_ansi_color, ch_term_supports_ansi_color. rewrite ?g_term_supports_color_eq.
  unfold ch_term_supports_color. ch_probe.
Qed.

Lemma g_truecolor_eq e : g_truecolor e = ch_truecolor e.
Proof. unfold g_truecolor, ch_truecolor. ch_probe. Qed.

Lemma g_is_ci_eq e : g_is_ci e = ch_is_ci e.
Proof. unfold g_is_ci, ch_is_ci. ch_probe. Qed.

(* ---- colorchoice: the atomic and the global -------------------------------------------- *)

Lemma g_from_choice_eq c : g_from_choice c = Some (ch_from_choice c).
Proof. destruct c; reflexivity. Qed.

(* by the binary digits of [n] (0, 1, 2, 3, and the eight shapes of a number >= 4): every comparison with a
   literal below 8 computes, whichever way round and in whichever order the arms are tested *)
Lemma g_to_choice_eq n : g_to_choice n = Some (ch_to_choice n).
Proof.
  unfold g_to_choice, ch_to_choice.
  destruct n as [|p]; [reflexivity|].
  destruct p as [p|p|]; [| |reflexivity]; (destruct p as [p|p|]; [| |reflexivity]); destruct p; reflexivity.
Qed.

Lemma g_atomic_new_eq : g_atomic_new = Some ch_atomic_new.
Proof. unfold g_atomic_new. rewrite g_from_choice_eq. reflexivity. Qed.

Lemma g_user_initial_eq : g_user_initial = Some ch_user_initial.
Proof. exact g_atomic_new_eq. Qed.

Lemma g_atomic_get_eq a : g_atomic_get a = ch_atomic_get a.
Proof.
  unfold g_atomic_get, ch_atomic_get, ch_reg_load, ac_f0. cbv zeta. rewrite g_to_choice_eq.
  destruct (ch_to_choice a); reflexivity.
Qed.

Lemma g_atomic_set_eq a c : g_atomic_set a c = Some (ch_atomic_set a c).
Proof. unfold g_atomic_set. rewrite g_from_choice_eq. reflexivity. Qed.

Lemma g_global_eq user : g_global user = ch_global user.
Proof. unfold g_global, ch_global. rewrite g_atomic_get_eq. destruct (ch_atomic_get user); reflexivity. Qed.

Lemma g_write_global_eq c user : g_write_global c user = Some (ch_write_global c user).
Proof. unfold g_write_global. rewrite g_atomic_set_eq. reflexivity. Qed.

(* ---- colorchoice_clap ------------------------------------------------------------------ *)

Lemma g_as_choice_eq f : g_as_choice f = Some (ch_as_choice (cc_color f)).
Proof. destruct f; reflexivity. Qed.

Lemma g_color_write_global_eq f user : g_color_write_global f user = Some (ch_color_write_global f user).
Proof. unfold g_color_write_global. rewrite g_as_choice_eq, g_write_global_eq. reflexivity. Qed.

(* ---- anstream::auto::choice ---------------------------------------------------------------- *)

(* robust to the spelling of the decision (if/else chain | early returns | a private helper that is inlined |
   `x.unwrap_or(false)` | `x == Some(true)` | a `match` on the option ..): the callees are replaced by their hand
   models wherever they occur, then the decision is compared on the whole truth table of the probes
   (2 * 2 * 3 * 2 * 2 * 2 = 96 closed cases); no step depends on the shape of the generated term *)
Lemma g_choice_eq e user raw : g_choice e user raw = ch_choice_fn e user raw.
Proof.
  unfold g_choice, ch_choice_fn. rewrite g_global_eq.
  destruct (ch_global user) as [g|]; [|reflexivity].
  destruct g; try reflexivity.
  unfold choice_model.
  rewrite ?g_clicolor_eq, ?g_no_color_eq, ?g_clicolor_force_eq, ?g_term_supports_color_eq, ?g_is_ci_eq.
  unfold ch_raw_is_terminal.
  destruct (ch_no_color e), (ch_clicolor_force e), (ch_clicolor e) as [[|]|], raw, (ch_term_supports_color e), (ch_is_ci e);
    reflexivity.
Qed.

(* AutoStream::<S>::choice(&raw) forwards to it *)
Lemma g_autostream_choice_eq e user raw : g_autostream_choice e user raw = ch_choice_fn e user raw.
Proof. unfold g_autostream_choice. rewrite g_choice_eq. destruct (ch_choice_fn e user raw); reflexivity. Qed.

(* ---- entry points ------------------------------------------------------------------------ *)

(* the translated decision, on any value of the static, any environment, any stream *)
Theorem translated_choice_is_model : forall e user raw,
  g_choice e user raw =
  match ch_to_choice user with Some g => Some (choice_model g e raw) | None => None end.
Proof. intros. rewrite g_choice_eq. reflexivity. Qed.

Theorem translated_autostream_choice_is_model : forall e user raw,
  g_autostream_choice e user raw =
  match ch_to_choice user with Some g => Some (choice_model g e raw) | None => None end.
Proof. intros. rewrite g_autostream_choice_eq. reflexivity. Qed.

(* `c.write_global(); AutoStream::choice(&raw)` over the translated code: whatever the static held, the
   decision is the hand model's decision for the global [c] -- and therefore the decision list
   of the property (Spec/Choice.choice_spec) *)
Theorem translated_write_then_choice : forall c e user raw,
  (u <- g_write_global c user ;; g_autostream_choice e u raw) = Some (choice_model c e raw).
Proof.
  intros. rewrite g_write_global_eq, g_autostream_choice_eq. unfold ch_choice_fn, ch_global, ch_write_global, ch_atomic_get, ch_atomic_set.
  rewrite atomic_roundtrip. reflexivity.
Qed.

Theorem translated_write_then_choice_is_spec : forall c e user raw,
  (u <- g_write_global c user ;; g_autostream_choice e u raw) = Some (choice_spec c e raw).
Proof. intros. rewrite translated_write_then_choice, choice_is_spec. reflexivity. Qed.

(* the command-line flag: `Color { color: f }.write_global(); ColorChoice::global()` *)
Theorem translated_flag_then_global : forall f user,
  (u <- g_color_write_global f user ;; g_global u) = Some (ch_as_choice f).
Proof.
  intros. rewrite g_color_write_global_eq, g_global_eq.
  unfold ch_color_write_global, ch_global, ch_write_global, ch_atomic_get, ch_atomic_set, cc_color.
  apply atomic_roundtrip.
Qed.

Theorem translated_flag_then_global_is_spec : forall f user,
  (u <- g_color_write_global f user ;; g_global u) = Some (flag_choice_spec f).
Proof. intros f user. rewrite <- flag_is_spec. exact (translated_flag_then_global f user). Qed.

(* before any write_global the global is what AtomicChoice::new() stored *)
Theorem translated_initial_global : (u <- g_user_initial ;; g_global u) = Some ch_global_initial.
Proof.
  rewrite g_user_initial_eq, g_global_eq. unfold ch_user_initial, ch_atomic_new, ch_global, ch_atomic_get.
  apply atomic_roundtrip.
Qed.

(* every probe at once (for Props/C09.v) *)
Theorem translated_probes_are_model : forall e,
  g_clicolor e = Some (ch_clicolor e) /\ g_clicolor_force e = ch_clicolor_force e /\ g_no_color e = ch_no_color e /\
  g_term_supports_color e = Some (ch_term_supports_color e) /\
  g_term_supports_ansi_color e = Some (ch_term_supports_ansi_color e) /\
  g_truecolor e = ch_truecolor e /\ g_is_ci e = ch_is_ci e.
Proof.
  intro e.
  exact (conj (g_clicolor_eq e) (conj (g_clicolor_force_eq e) (conj (g_no_color_eq e) (conj (g_term_supports_color_eq e)
        (conj (g_term_supports_ansi_color_eq e) (conj (g_truecolor_eq e) (g_is_ci_eq e))))))).
Qed.

(* ---- impl Default for ColorChoice / AtomicChoice ---- *)
Lemma g_choice_default_eq : g_choice_default = ch_choice_default.
Proof. reflexivity. Qed.

Lemma g_atomic_default_eq : g_atomic_default = Some ch_atomic_default.
Proof. unfold g_atomic_default. rewrite g_atomic_new_eq. reflexivity. Qed.

(* the two defaults agree: the default atomic is the static's initial value, and reading it back gives the
   default choice, the one a never-written global answers *)
Theorem translated_default_atomic_holds_default_choice :
  g_atomic_default = g_user_initial /\
  (a <- g_atomic_default ;; g_atomic_get a) = Some g_choice_default /\
  (u <- g_user_initial ;; g_global u) = Some g_choice_default.
Proof.
  refine (conj _ (conj _ _)).
  - rewrite g_atomic_default_eq, g_user_initial_eq. reflexivity.
  - rewrite g_atomic_default_eq. cbv beta iota. rewrite g_atomic_get_eq.
    unfold ch_atomic_default, ch_atomic_new, ch_atomic_get. rewrite atomic_roundtrip. reflexivity.
  - rewrite translated_initial_global. reflexivity.
Qed.
