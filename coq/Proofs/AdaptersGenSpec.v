(* Proofs/AdaptersGenSpec.v -- C16 for the TRANSLATED conversion functions: Proofs/AdaptersGen.v
   (translated = hand model) composed with Proofs/Adapters.v (hand model meets the specification).
   Kept apart from AdaptersGen.v so that that file does not depend on the property proofs. *)
From Coq Require Import NArith List Bool.
From AV Require Import Generated.Adapters Spec.Sgr Spec.Targets Model.Adapters Model.Base Generated.AdaptersFn
  Proofs.Adapters Proofs.AdaptersGen.
Import ListNotations.
Local Open Scope N_scope.

(* the style a translated adapter builds means the projection of the source style onto what the
   library can express; in particular the adapter does not panic *)
Lemma translated_convert_meaning l s : ad_src_ok s ->
  (t <- g_convert l s ;; ad_meaning l t) = Some (ad_project l s).
Proof.
  intros H. rewrite (proj1 translated_adapters_are_model l s H). exact (ad_convert_meaning l s H).
Qed.

(* the translated syntect -> anstyle conversion answers the expected style *)
Lemma translated_syntect_expected r g b a r' g' b' a' font : font < 256 ->
  g_syn_to_anstyle (mkAdSyn (r, g, b, a) (r', g', b', a') font) =
  Some (ad_syntect_expected (r, g, b, a) (r', g', b', a') font).
Proof.
  intros H. rewrite g_syn_to_anstyle_eq. f_equal.
  exact (proj1 (ad_syntect_keeps r g b a r' g' b' a' font H)).
Qed.
