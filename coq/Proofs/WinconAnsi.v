(* Proofs/WinconAnsi.v -- C17: the ANSI fallback of anstyle-wincon
   (Model/WinconAnsi.wa_write_colored) frames the data by complete SGR sequences
   and reports true progress, for every colour pair in {None, 16 colours}^2, every
   data and every inner-writer script. *)
From Coq Require Import NArith List Bool Lia.
From AV Require Import Generated.Style Generated.WinconAnsi
  Spec.Utf8 Spec.Vt Spec.Strip Spec.Sgr Spec.Io Spec.AnsiFrame
  Model.Base Model.WinconAnsi Proofs.IoFacts Proofs.VtCompose.
Import ListNotations.
Local Open Scope N_scope.

(* ---- vocabulary of the statements ---------------------------------------- *)

(* the colour as the specification numbers it *)
Definition wa_idx (o : option ansi_color) : option N := option_map ansi_disc o.

(* the bytes of the three codes as the implementation's tables have them *)
Definition wa_fg_bytes (fg : option ansi_color) : list N :=
  match fg with Some c => ansi_fg_str c | None => [] end.
Definition wa_bg_bytes (bg : option ansi_color) : list N :=
  match bg with Some c => ansi_bg_str c | None => [] end.
Definition wa_reset_bytes (fg bg : option ansi_color) : list N :=
  if wa_is_some fg || wa_is_some bg then wa_reset_str else [].

(* the rendition a terminal is in after the two codes *)
Definition wa_style (fg bg : option ansi_color) : sstyle :=
  mkStyle (option_map (fun c => CAnsi (ansi_disc c)) fg)
          (option_map (fun c => CAnsi (ansi_disc c)) bg) None 0.

(* ---- the generated strings are the SGR codes of the specification --------- *)

Lemma wa_fg_is_spec c : ansi_fg_str c = sa_sgr (sa_fg_code (ansi_disc c)).
Proof. destruct c; vm_compute; reflexivity. Qed.

Lemma wa_bg_is_spec c : ansi_bg_str c = sa_sgr (sa_bg_code (ansi_disc c)).
Proof. destruct c; vm_compute; reflexivity. Qed.

Lemma wa_reset_is_spec : wa_reset_str = sa_sgr 0.
Proof. vm_compute. reflexivity. Qed.

Lemma wa_fg_bytes_spec fg : wa_fg_bytes fg = sa_fg (wa_idx fg).
Proof. destruct fg as [c|]; [apply wa_fg_is_spec | reflexivity]. Qed.

Lemma wa_bg_bytes_spec bg : wa_bg_bytes bg = sa_bg (wa_idx bg).
Proof. destruct bg as [c|]; [apply wa_bg_is_spec | reflexivity]. Qed.

Lemma wa_reset_bytes_spec fg bg : wa_reset_bytes fg bg = sa_reset (wa_idx fg) (wa_idx bg).
Proof. destruct fg, bg; cbn; try reflexivity; apply wa_reset_is_spec. Qed.

Theorem codes_are_sgr :
  (forall c, ansi_fg_str c = sa_sgr (sa_fg_code (ansi_disc c))) /\
  (forall c, ansi_bg_str c = sa_sgr (sa_bg_code (ansi_disc c))) /\
  wa_reset_str = sa_sgr 0.
Proof. split; [exact wa_fg_is_spec | split; [exact wa_bg_is_spec | exact wa_reset_is_spec]]. Qed.

Lemma wa_frame_is_spec fg bg p :
  wa_fg_bytes fg ++ wa_bg_bytes bg ++ p ++ wa_reset_bytes fg bg = sa_frame (wa_idx fg) (wa_idx bg) p.
Proof. unfold sa_frame. now rewrite wa_fg_bytes_spec, wa_bg_bytes_spec, wa_reset_bytes_spec. Qed.

(* ---- the model as a pipeline of four inner operations --------------------- *)

Lemma w_write_all_nil w : w_write_all w [] = (w, inl tt).
Proof. reflexivity. Qed.

Definition wa_pipeline (F B R data : list N) (w : writer) : writer * (N + ekind) :=
  let '(w1, r1) := w_write_all w F in
  match r1 with
  | inr e => (w1, inr e)
  | inl _ =>
      let '(w2, r2) := w_write_all w1 B in
      match r2 with
      | inr e => (w2, inr e)
      | inl _ =>
          let '(w3, r3) := w_write w2 data in
          match r3 with
          | inr e => (w3, inr e)
          | inl written =>
              let '(w4, r4) := w_write_all w3 R in
              match r4 with
              | inr e => (w4, inr e)
              | inl _ => (w4, inl written)
              end
          end
      end
  end.

Lemma wa_write_colored_pipeline fg bg data w :
  wa_write_colored fg bg data w =
  wa_pipeline (wa_fg_bytes fg) (wa_bg_bytes bg) (wa_reset_bytes fg bg) data w.
Proof.
  unfold wa_write_colored, wa_pipeline, wa_reset_bytes.
  destruct fg as [f|], bg as [b|];
    cbn [wa_is_some orb wa_write_opt wa_fg_bytes wa_bg_bytes]; rewrite ?w_write_all_nil.
  - reflexivity.
  - reflexivity.
  - reflexivity.
  - destruct (w_write w data) as [w3 [k|e]]; reflexivity.
Qed.

(* no colour given: nothing but the one write of the data *)
Theorem no_code_when_default : forall data w,
  wa_write_colored None None data w = w_write w data.
Proof.
  intros. unfold wa_write_colored. cbn [wa_is_some orb].
  destruct (w_write w data) as [w3 [k|e]]; reflexivity.
Qed.

(* the hand model computes the specification's coloured write *)
Lemma sa_pieces_sgr code : sa_pieces (sa_sgr code) = [sa_sgr code].
Proof. reflexivity. Qed.

Theorem model_is_spec : forall fg bg data w,
  wa_write_colored fg bg data w = sa_write_colored (wa_idx fg) (wa_idx bg) data w.
Proof.
  intros. rewrite wa_write_colored_pipeline. unfold wa_pipeline, sa_write_colored.
  rewrite wa_reset_bytes_spec.
  destruct fg as [f|], bg as [b|]; cbn [wa_idx option_map wa_fg_bytes wa_bg_bytes sa_fg sa_bg sa_reset sa_coloured];
    rewrite ?wa_fg_is_spec, ?wa_bg_is_spec, ?sa_pieces_sgr; cbn [sa_pieces app sa_emit_all];
    repeat (rewrite ?w_write_all_nil;
            match goal with
            | |- context [w_write_all ?W ?X] => destruct (w_write_all W X) as [? [?|?]]
            | |- context [w_write ?W ?X] => destruct (w_write W X) as [? [?|?]]
            end); reflexivity.
Qed.

(* ---- framing -------------------------------------------------------------- *)

(* Ok(k): everything was emitted, in order, around exactly the k bytes of the data
   that the inner write accepted; k is the answer of the single inner write(data) *)
Lemma pipeline_ok : forall F B R data w w' k,
  wa_pipeline F B R data w = (w', inl k) ->
  k <= N.of_nat (length data) /\
  w_received w' = w_received w ++ F ++ B ++ firstn (N.to_nat k) data ++ R /\
  exists before after, w_calls w' = w_calls w ++ before ++ [CWrite data (inl k)] ++ after.
Proof.
  intros F B R data w w' k H. unfold wa_pipeline in H.
  destruct (w_write_all w F) as [w1 [u1|e1]] eqn:E1; [|discriminate H].
  destruct (w_write_all w1 B) as [w2 [u2|e2]] eqn:E2; [|discriminate H].
  destruct (w_write w2 data) as [w3 [k3|e3]] eqn:E3; [|discriminate H].
  destruct (w_write_all w3 R) as [w4 [u4|e4]] eqn:E4; [|discriminate H].
  inversion H; subst w4 k3; clear H.
  apply w_write_all_spec in E1, E2, E4. apply w_write_spec in E3.
  destruct E1 as [c1 [C1 R1]], E2 as [c2 [C2 R2]], E4 as [c4 [C4 R4]].
  destruct E3 as [C3 [_ [Hk R3]]].
  split; [exact Hk|]. split.
  - rewrite R4, R3, R2, R1. now rewrite <- !app_assoc.
  - exists (c1 ++ c2), c4. rewrite C4, C3, C2, C1. now rewrite <- !app_assoc.
Qed.

Theorem output_framing : forall fg bg data w w' k,
  wa_write_colored fg bg data w = (w', inl k) ->
  k <= N.of_nat (length data) /\
  w_received w' = w_received w ++ sa_frame (wa_idx fg) (wa_idx bg) (firstn (N.to_nat k) data) /\
  w_received w' = w_received w ++ wa_fg_bytes fg ++ wa_bg_bytes bg ++ firstn (N.to_nat k) data ++ wa_reset_bytes fg bg /\
  exists before after, w_calls w' = w_calls w ++ before ++ [CWrite data (inl k)] ++ after.
Proof.
  intros fg bg data w w' k H. rewrite wa_write_colored_pipeline in H.
  apply pipeline_ok in H. destruct H as [Hk [Hr Hc]].
  split; [exact Hk|]. split; [|split; [exact Hr | exact Hc]].
  now rewrite Hr, wa_frame_is_spec.
Qed.

(* which code is present: each code iff its colour is given, the reset iff any is *)
Theorem code_presence : forall fg bg,
  (wa_fg_bytes fg = [] <-> fg = None) /\
  (wa_bg_bytes bg = [] <-> bg = None) /\
  (wa_reset_bytes fg bg = [] <-> (fg = None /\ bg = None)).
Proof.
  intros fg bg. repeat split.
  - destruct fg as [c|]; [destruct c; discriminate | reflexivity].
  - intros ->; reflexivity.
  - destruct bg as [c|]; [destruct c; discriminate | reflexivity].
  - intros ->; reflexivity.
  - destruct fg; [discriminate | reflexivity].
  - destruct fg, bg; try discriminate; reflexivity.
  - intros [-> ->]; reflexivity.
Qed.

(* ---- failures -------------------------------------------------------------- *)

(* the operation [op] failed with kind [k]: the LAST call the inner writer saw is
   the failing one (nothing is attempted afterwards) -- it answered Err(k), or, in a
   write_all, accepted nothing of a non-empty buffer (WriteZero) -- and what was
   received is everything of the earlier operations plus the part of [op]'s own
   bytes accepted before the failure *)
Definition wa_failed_at (op : wa_op) (fg bg : option ansi_color) (data : list N)
    (w w' : writer) (k : ekind) : Prop :=
  let F := wa_fg_bytes fg in
  let B := wa_bg_bytes bg in
  let R := wa_reset_bytes fg bg in
  exists pre buf res,
    w_calls w' = w_calls w ++ pre ++ [CWrite buf res] /\
    (res = inr k \/ (res = inl 0 /\ k = WriteZero /\ buf <> [] /\ op <> WaOpData)) /\
    match op with
    | WaOpFg => exists j, (j < length F)%nat /\ buf = skipn j F /\
                  w_received w' = w_received w ++ firstn j F
    | WaOpBg => exists j, (j < length B)%nat /\ buf = skipn j B /\
                  w_received w' = w_received w ++ F ++ firstn j B
    | WaOpData => buf = data /\ w_received w' = w_received w ++ F ++ B
    | WaOpReset => exists j kd, (j < length R)%nat /\ buf = skipn j R /\
                  In (CWrite data (inl kd)) pre /\
                  w_received w' = w_received w ++ F ++ B ++ firstn (N.to_nat kd) data ++ firstn j R
    end.

Lemma skipn_nonnil {A} (l : list A) j : (j < length l)%nat -> skipn j l <> [].
Proof.
  intros Hj E. assert (H : length (skipn j l) = 0%nat) by now rewrite E.
  rewrite skipn_length in H. lia.
Qed.

Lemma pipeline_err : forall fg bg data w w' k,
  wa_pipeline (wa_fg_bytes fg) (wa_bg_bytes bg) (wa_reset_bytes fg bg) data w = (w', inr k) ->
  exists op, wa_failed_at op fg bg data w w' k.
Proof.
  intros fg bg data w w' k H. unfold wa_pipeline in H.
  destruct (w_write_all w (wa_fg_bytes fg)) as [w1 [u1|e1]] eqn:E1.
  2:{ (* the foreground code *)
      inversion H; subst w1 e1; clear H. apply w_write_all_spec in E1.
      destruct E1 as [c1 [C1 [j [pre [res [Hj [Hr [Hc [_ Hres]]]]]]]]].
      exists WaOpFg, pre, (skipn j (wa_fg_bytes fg)), res. split; [now rewrite C1, Hc|]. split.
      - destruct Hres as [Hres | [Hres Hk]]; [now left | right].
        repeat split; try assumption; [now apply skipn_nonnil | discriminate].
      - exists j. repeat split; assumption. }
  destruct (w_write_all w1 (wa_bg_bytes bg)) as [w2 [u2|e2]] eqn:E2.
  2:{ (* the background code *)
      inversion H; subst w2 e2; clear H. apply w_write_all_spec in E1, E2.
      destruct E1 as [c1 [C1 R1]].
      destruct E2 as [c2 [C2 [j [pre [res [Hj [Hr [Hc [_ Hres]]]]]]]]].
      exists WaOpBg, (c1 ++ pre), (skipn j (wa_bg_bytes bg)), res. split.
      { rewrite C2, Hc, C1. now rewrite <- !app_assoc. } split.
      - destruct Hres as [Hres | [Hres Hk]]; [now left | right].
        repeat split; try assumption; [now apply skipn_nonnil | discriminate].
      - exists j. repeat split; try assumption. rewrite Hr, R1. now rewrite <- !app_assoc. }
  destruct (w_write w2 data) as [w3 [k3|e3]] eqn:E3.
  2:{ (* the data *)
      inversion H; subst w3 e3; clear H. apply w_write_all_spec in E1, E2. apply w_write_spec in E3.
      destruct E1 as [c1 [C1 R1]], E2 as [c2 [C2 R2]], E3 as [C3 [_ R3]].
      exists WaOpData, (c1 ++ c2), data, (inr k). split.
      { rewrite C3, C2, C1. now rewrite <- !app_assoc. } split; [now left|].
      split; [reflexivity|]. rewrite R3, R2, R1. now rewrite <- !app_assoc. }
  destruct (w_write_all w3 (wa_reset_bytes fg bg)) as [w4 [u4|e4]] eqn:E4; [discriminate H|].
  (* the reset *)
  inversion H; subst w4 e4; clear H. apply w_write_all_spec in E1, E2, E4. apply w_write_spec in E3.
  destruct E1 as [c1 [C1 R1]], E2 as [c2 [C2 R2]], E3 as [C3 [_ [_ R3]]].
  destruct E4 as [c4 [C4 [j [pre [res [Hj [Hr [Hc [_ Hres]]]]]]]]].
  exists WaOpReset, (c1 ++ c2 ++ [CWrite data (inl k3)] ++ pre), (skipn j (wa_reset_bytes fg bg)), res. split.
  { rewrite C4, Hc, C3, C2, C1. now rewrite <- !app_assoc. } split.
  - destruct Hres as [Hres | [Hres Hk]]; [now left | right].
    repeat split; try assumption; [now apply skipn_nonnil | discriminate].
  - exists j, k3. repeat split; try assumption.
    + rewrite !in_app_iff. right; right; left. now left.
    + rewrite Hr, R3, R2, R1. now rewrite <- !app_assoc.
Qed.

Theorem error_kind : forall fg bg data w w' k,
  wa_write_colored fg bg data w = (w', inr k) ->
  exists op, wa_failed_at op fg bg data w w' k.
Proof.
  intros fg bg data w w' k H. rewrite wa_write_colored_pipeline in H. now apply pipeline_err.
Qed.

(* ---- accept-all writers ----------------------------------------------------- *)

Theorem accept_all : forall fg bg data w,
  w_script w = [] ->
  exists w', wa_write_colored fg bg data w = (w', inl (N.of_nat (length data))) /\
             w_received w' = w_received w ++ wa_fg_bytes fg ++ wa_bg_bytes bg ++ data ++ wa_reset_bytes fg bg.
Proof.
  intros fg bg data w Hs. rewrite wa_write_colored_pipeline. unfold wa_pipeline.
  destruct (w_write_all_accept_all w (wa_fg_bytes fg) Hs) as [c1 ->].
  destruct (w_write_all_accept_all (mkW [] (w_received w ++ wa_fg_bytes fg) (w_calls w ++ c1)) (wa_bg_bytes bg) eq_refl) as [c2 ->].
  rewrite w_write_accept_all by reflexivity.
  match goal with |- context [w_write_all ?W (wa_reset_bytes fg bg)] =>
    destruct (w_write_all_accept_all W (wa_reset_bytes fg bg) eq_refl) as [c4 ->] end.
  eexists; split; [reflexivity|]. cbn [w_received]. now rewrite <- !app_assoc.
Qed.

(* ---- what a terminal makes of the output ----------------------------------- *)

(* [P] is a complete escape sequence as far as the VT model is concerned: from any
   state at rest it yields the events [evs], returns to rest and leaves the OSC
   buffer alone *)
Definition vt_transparent (P : list N) (evs : list event) : Prop :=
  forall s, vt_at_rest s ->
  exists s', vt_run s P = (s', evs) /\ vt_at_rest s' /\ osc s' = osc s.

Definition sgr_ev (code : N) : event := ECsi [[code]] [] false 109.

Lemma vt_transparent_nil : vt_transparent [] [].
Proof. intros s Hs. exists s. split; [reflexivity | split; [exact Hs | reflexivity]]. Qed.

Lemma vt_transparent_app P Q e f :
  vt_transparent P e -> vt_transparent Q f -> vt_transparent (P ++ Q) (e ++ f).
Proof.
  intros HP HQ s Hs. destruct (HP s Hs) as [s1 [E1 [H1 O1]]]. destruct (HQ s1 H1) as [s2 [E2 [H2 O2]]].
  exists s2. rewrite vt_run_app, E1, E2. repeat split; try apply H2. now rewrite O2.
Qed.

Lemma vt_transparent_fg c : vt_transparent (ansi_fg_str c) [sgr_ev (sa_fg_code (ansi_disc c))].
Proof.
  intros [v i g cl cu p o u] [Hv Hu]. cbn [vs uni] in Hv, Hu. subst v u.
  exists (mkVt VGround [] false [] [] (sa_fg_code (ansi_disc c)) o None).
  split; [destruct c; vm_compute; reflexivity|]. now repeat split.
Qed.

Lemma vt_transparent_bg c : vt_transparent (ansi_bg_str c) [sgr_ev (sa_bg_code (ansi_disc c))].
Proof.
  intros [v i g cl cu p o u] [Hv Hu]. cbn [vs uni] in Hv, Hu. subst v u.
  exists (mkVt VGround [] false [] [] (sa_bg_code (ansi_disc c)) o None).
  split; [destruct c; vm_compute; reflexivity|]. now repeat split.
Qed.

Lemma vt_transparent_reset : vt_transparent wa_reset_str [sgr_ev 0].
Proof.
  intros [v i g cl cu p o u] [Hv Hu]. cbn [vs uni] in Hv, Hu. subst v u.
  eexists. split; [vm_compute; reflexivity|]. now repeat split.
Qed.

Definition wa_fg_events (fg : option ansi_color) : list event :=
  match fg with Some c => [sgr_ev (sa_fg_code (ansi_disc c))] | None => [] end.
Definition wa_bg_events (bg : option ansi_color) : list event :=
  match bg with Some c => [sgr_ev (sa_bg_code (ansi_disc c))] | None => [] end.
Definition wa_reset_events (fg bg : option ansi_color) : list event :=
  if wa_is_some fg || wa_is_some bg then [sgr_ev 0] else [].

Lemma vt_transparent_codes fg bg :
  vt_transparent (wa_fg_bytes fg ++ wa_bg_bytes bg) (wa_fg_events fg ++ wa_bg_events bg).
Proof.
  apply vt_transparent_app.
  - destruct fg; [apply vt_transparent_fg | apply vt_transparent_nil].
  - destruct bg; [apply vt_transparent_bg | apply vt_transparent_nil].
Qed.

Lemma vt_transparent_resets fg bg : vt_transparent (wa_reset_bytes fg bg) (wa_reset_events fg bg).
Proof.
  unfold wa_reset_bytes, wa_reset_events.
  destruct (wa_is_some fg || wa_is_some bg); [apply vt_transparent_reset | apply vt_transparent_nil].
Qed.

(* events of P ++ d ++ R when P and R are complete sequences and d's own parse
   ends at rest *)
Lemma spec_events_framed : forall P R d e f,
  vt_transparent P e -> vt_transparent R f ->
  vt_at_rest (fst (vt_run vt_init d)) ->
  spec_events (P ++ d ++ R) = e ++ spec_events d ++ f.
Proof.
  intros P R d e f HP HR Hd. unfold spec_events.
  assert (H0 : vt_at_rest vt_init) by (split; reflexivity).
  destruct (HP vt_init H0) as [s1 [E1 [H1 O1]]].
  rewrite vt_run_app_snd, E1. cbn [fst snd]. f_equal.
  assert (Hq : ground_equiv s1 vt_init).
  { right. destruct H1 as [Hv Hu]. repeat split; try assumption. }
  destruct (vt_run_ground_equiv d s1 vt_init Hq) as [He Hs].
  rewrite vt_run_app_snd, He. f_equal.
  pose proof (ground_equiv_at_rest _ _ Hs Hd) as H2.
  destruct (HR _ H2) as [s3 [E3 _]]. now rewrite E3.
Qed.

Lemma interp_codes fg bg :
  interp style_default (wa_fg_events fg ++ wa_bg_events bg) = ([], wa_style fg bg).
Proof. destruct fg as [f|], bg as [b|]; try destruct f; try destruct b; vm_compute; reflexivity. Qed.

Lemma interp_resets fg bg :
  interp (wa_style fg bg) (wa_reset_events fg bg) = ([], style_default).
Proof. destruct fg as [f|], bg as [b|]; reflexivity. Qed.

(* interpreting codes ++ d ++ reset: d's own characters, all in the requested
   colours, and the default rendition afterwards *)
Theorem frame_interp : forall fg bg d,
  vt_at_rest (fst (vt_run vt_init d)) ->
  forallb not_sgr (spec_events d) = true ->
  interp style_default (spec_events (wa_fg_bytes fg ++ wa_bg_bytes bg ++ d ++ wa_reset_bytes fg bg)) =
  (map (fun sc => (wa_style fg bg, snd sc)) (fst (interp style_default (spec_events d))), style_default).
Proof.
  intros fg bg d Hd Hn.
  rewrite app_assoc.
  rewrite (spec_events_framed _ _ d _ _ (vt_transparent_codes fg bg) (vt_transparent_resets fg bg) Hd).
  rewrite interp_app, interp_codes, interp_app, (interp_retag _ _ Hn), interp_resets.
  cbn [app]. now rewrite app_nil_r.
Qed.

Theorem interp_output : forall fg bg data w' script k,
  wa_write_colored fg bg data (writer_of script) = (w', inl k) ->
  let shown := firstn (N.to_nat k) data in
  vt_at_rest (fst (vt_run vt_init shown)) ->
  forallb not_sgr (spec_events shown) = true ->
  interp style_default (spec_events (w_received w')) =
  (map (fun sc => (wa_style fg bg, snd sc)) (fst (interp style_default (spec_events shown))), style_default).
Proof.
  intros fg bg data w' script k H shown Hd Hn.
  apply output_framing in H. destruct H as [_ [_ [Hr _]]].
  rewrite Hr. cbn [writer_of w_received app]. now apply frame_interp.
Qed.

Theorem interp_accept_all : forall fg bg data,
  vt_at_rest (fst (vt_run vt_init data)) ->
  forallb not_sgr (spec_events data) = true ->
  exists w', wa_write_colored fg bg data (writer_of []) = (w', inl (N.of_nat (length data))) /\
  interp style_default (spec_events (w_received w')) =
  (map (fun sc => (wa_style fg bg, snd sc)) (fst (interp style_default (spec_events data))), style_default).
Proof.
  intros fg bg data Hd Hn.
  destruct (accept_all fg bg data (writer_of []) eq_refl) as [w' [H Hr]].
  exists w'. split; [exact H|]. rewrite Hr. cbn [writer_of w_received app]. now apply frame_interp.
Qed.

(* ---- stripping -------------------------------------------------------------- *)

Lemma strip_fg c : strip_run s_init (ansi_fg_str c) = (s_init, []).
Proof. destruct c; vm_compute; reflexivity. Qed.

Lemma strip_bg c : strip_run s_init (ansi_bg_str c) = (s_init, []).
Proof. destruct c; vm_compute; reflexivity. Qed.

(* the reset starts with ESC, which leaves any state (and any unfinished
   character): it is removed completely wherever it arrives *)
Lemma strip_reset s : strip_run s wa_reset_str = (s_init, []).
Proof. destruct s as [v [u|]]; vm_compute; reflexivity. Qed.

Lemma strip_codes fg bg : strip_run s_init (wa_fg_bytes fg ++ wa_bg_bytes bg) = (s_init, []).
Proof.
  rewrite strip_run_app.
  destruct fg as [f|]; cbn [wa_fg_bytes]; [rewrite strip_fg | cbn [strip_run]];
    (destruct bg as [b|]; cbn [wa_bg_bytes]; [rewrite strip_bg | cbn [strip_run]]); reflexivity.
Qed.

(* no hypothesis on d: even data that ends inside a sequence strips alike *)
Theorem frame_strip : forall fg bg d,
  spec_strip (wa_fg_bytes fg ++ wa_bg_bytes bg ++ d ++ wa_reset_bytes fg bg) = spec_strip d.
Proof.
  intros fg bg d. unfold spec_strip.
  rewrite app_assoc, strip_run_app_snd, strip_codes. cbn [fst snd app].
  rewrite strip_run_app_snd.
  unfold wa_reset_bytes. destruct (wa_is_some fg || wa_is_some bg).
  - rewrite strip_reset. cbn [snd]. now rewrite app_nil_r.
  - cbn [strip_run snd]. now rewrite app_nil_r.
Qed.

Theorem strip_output : forall fg bg data script w' k,
  wa_write_colored fg bg data (writer_of script) = (w', inl k) ->
  spec_strip (w_received w') = spec_strip (firstn (N.to_nat k) data) /\
  (forallb sa_text_byte (firstn (N.to_nat k) data) = true ->
   spec_strip (w_received w') = firstn (N.to_nat k) data).
Proof.
  intros fg bg data script w' k H.
  apply output_framing in H. destruct H as [_ [_ [Hr _]]].
  rewrite Hr. cbn [writer_of w_received app]. rewrite frame_strip.
  split; [reflexivity|]. intros Ht. unfold spec_strip. now rewrite (strip_run_text _ Ht).
Qed.

(* ---- the trait impls ---------------------------------------------------------- *)

Theorem unix_impls_all_ansi : wa_unix_impls_all_ansi = true.
Proof. vm_compute. reflexivity. Qed.

(* ---- a concrete run --------------------------------------------------------- *)

Theorem example_run :
  let '(w', r) := wa_write_colored (Some Red) (Some BrightBlue) [104; 105; 10]
                    (writer_of [Fail Interrupted; Accept 2; Accept 9; Accept 6; Accept 2]) in
  r = inl 2 /\
  w_received w' = [27; 91; 51; 49; 109] ++ [27; 91; 49; 48; 52; 109] ++ [104; 105] ++ [27; 91; 48; 109] /\
  length (w_calls w') = 6%nat.
Proof. vm_compute. repeat split; reflexivity. Qed.
