(* Proofs/WinconSpecRuns.v -- what the styled-run extractor yields, against the
   specification's event stream (through C02's refinement theorem):
   (a) the text of every run consists of code points printed by the parser and of
       TAB / LF / FF / CR, so no byte handed to the console is ESC or another
       control (C18);
   (b) on inputs whose SGR sequences are in the grammar G, the merged runs are the
       specification's runs: visible text in order, each character tagged with the
       rendition in effect (C07). *)
From Coq Require Import NArith ZArith List Bool Lia Arith.
From AV Require Import Generated.Table Spec.Utf8 Spec.Vt Spec.Sgr Spec.Io Model.Base Model.Utf8parse
  Model.Parser Model.Strip Model.Wincon Model.Stream Model.WinconStream
  Proofs.TableFacts Proofs.VtFacts Proofs.ParserSim Proofs.VtCancel Proofs.WinconSgr Proofs.WinconRuns.
Import ListNotations.
Local Open Scope N_scope.
Local Ltac Zify.zify_post_hook ::= Z.to_euclidean_division_equations.

(* ---- 1. the printed code points of the specification -------------------------------- *)

(* inside a multi-byte character: the bytes collected so far already force the
   decoded scalar value to be at least 0x80 *)
Definition uinv (u : ustate) (acc : list N) : Prop :=
  match u, acc with
  | UTail1, [a] => 2 <= a mod 32
  | UTail1, [a; b] => 1 <= a mod 16 \/ 32 <= b mod 64
  | UTail1, [a; b; _] => 1 <= a mod 8 \/ 16 <= b mod 64
  | UTail2, [a] => 1 <= a mod 16
  | UTail2, [a; b] => 1 <= a mod 8 \/ 16 <= b mod 64
  | UTail3, [a] => 1 <= a mod 8
  | UE0, [_] => True
  | UED, [a] => 1 <= a mod 16
  | UF0, [_] => True
  | UF4, [a] => 1 <= a mod 8
  | _, _ => False
  end.

Definition uni_ok (v : vt) : Prop :=
  match uni v with Some (u, acc) => uinv u acc | None => True end.

Lemma in_range_iff lo hi b : in_range lo hi b = true <-> lo <= b <= hi.
Proof. unfold in_range. rewrite andb_true_iff, !N.leb_le. tauto. Qed.

Lemma lead_uinv : forall b u, utf8_lead b = Some u -> uinv u [b].
Proof.
  intros b u. unfold utf8_lead.
  repeat match goal with
  | |- (if ?c then _ else _) = _ -> _ =>
      let E := fresh "E" in destruct c eqn:E;
      [ intros H; inversion H; subst; cbn [uinv];
        try apply in_range_iff in E; try apply N.eqb_eq in E; try exact I; lia | ]
  end.
  discriminate.
Qed.

Lemma cont_more_uinv : forall u acc b u',
  uinv u acc -> utf8_cont u b = UMore u' -> uinv u' (acc ++ [b]).
Proof.
  intros u acc b u' Hi Hc.
  destruct u; cbn [utf8_cont] in Hc;
    match type of Hc with (if ?c then _ else _) = _ => destruct c eqn:E; [|discriminate Hc] end;
    inversion Hc; subst; apply in_range_iff in E;
    destruct acc as [|a0 [|a1 [|a2 [|a3 acc]]]]; cbn [uinv app] in *; try contradiction; try tauto; try lia.
Qed.

Lemma cont_done_decode : forall u acc b,
  uinv u acc -> utf8_cont u b = UDone -> 128 <= utf8_decode (acc ++ [b]).
Proof.
  intros u acc b Hi Hc.
  destruct u; cbn [utf8_cont] in Hc;
    try (match type of Hc with (if ?c then _ else _) = _ => destruct c; discriminate Hc end).
  destruct acc as [|a0 [|a1 [|a2 [|a3 acc]]]]; cbn [uinv app utf8_decode] in *; try contradiction; lia.
Qed.

(* what the properties need of one event *)
Definition ev_ok (e : event) : Prop :=
  match e with
  | EPrint cp => 32 <= cp
  | EExecute b => is_ascii_whitespace b = is_ws_exec b /\ b <> 27
  | _ => True
  end.

Lemma vact_cases (a : vact) :
  forall b, vact_eqb a b = true -> a = b.
Proof. intros b. apply vact_eqb_eq. Qed.

Lemma exit_ev_ok s b : Forall ev_ok (exit_events s b).
Proof. unfold exit_events. destruct (vs s); repeat constructor. Qed.

Lemma enter_ev_ok s t b : Forall ev_ok (snd (enter s t b)) /\ uni (fst (enter s t b)) = uni s.
Proof.
  unfold enter. destruct t; try destruct (final_params s); cbn [fst snd]; split;
    try reflexivity; repeat constructor.
Qed.

Lemma ws_exec_agree b : b <> 32 -> is_ascii_whitespace b = is_ws_exec b.
Proof.
  intros H. unfold is_ascii_whitespace, is_ws_exec.
  replace (b =? 32) with false; [apply orb_false_r|]. symmetry. now apply N.eqb_neq.
Qed.

Lemma step_ev_ok : forall v b, b < 256 -> uni_ok v ->
  Forall ev_ok (snd (vt_step v b)) /\ uni_ok (fst (vt_step v b)).
Proof.
  intros v b Hb Hu. unfold vt_step, uni_ok in *.
  destruct (uni v) as [[u acc]|] eqn:Euni.
  { destruct (utf8_cont u b) eqn:Ec; cbn [fst snd set_uni uni].
    - split; [constructor | eapply cont_more_uinv; eauto].
    - split; [|exact I]. constructor; [|constructor]. cbn [ev_ok].
      pose proof (cont_done_decode u acc b Hu Ec). lia.
    - split; [|exact I]. constructor; [|constructor]. cbn [ev_ok]. unfold replacement. lia. }
  pose proof (trans_ok2_holds (vs v) b Hb) as Hok. unfold trans_ok2 in Hok.
  destruct (vt_trans (vs v) b) as [tgt a] eqn:E.
  repeat rewrite andb_true_iff in Hok. destruct Hok as [[_ Hex] Hpr].
  assert (Hact : Forall ev_ok (snd (do_action v a b)) /\ uni_ok (fst (do_action v a b))).
  { unfold uni_ok. destruct a; cbn [do_action fst snd]; try rewrite Euni;
      try (split; [solve [repeat constructor] | exact I]).
    - (* TPrint *) cbn [vact_eqb implb] in Hpr. apply N.leb_le in Hpr.
      split; [|exact I]. constructor; [exact Hpr | constructor].
    - (* TExecute *) cbn [vact_eqb implb] in Hex. apply andb_true_iff in Hex. destruct Hex as [H1 H2].
      apply negb_true_iff in H1, H2. apply N.eqb_neq in H1, H2.
      split; [|exact I]. constructor; [|constructor]. cbn [ev_ok]. split; [apply ws_exec_agree, H1 | exact H2].
    - (* TCollect *) unfold collect. destruct (Nat.eqb _ _); cbn [uni fst snd]; rewrite Euni; (split; [constructor | exact I]).
    - (* TParam *) unfold param. destruct (Nat.eqb _ _); [|destruct (b =? 59); [|destruct (b =? 58)]];
        cbn [uni fst snd]; rewrite Euni; (split; [constructor | exact I]).
    - (* TCsiDispatch *) destruct (final_params v). cbn [fst snd]. rewrite Euni. split; [repeat constructor | exact I].
    - (* TOscPut *) unfold osc_put. cbn [uni]. rewrite Euni. split; [constructor | exact I].
    - (* TUtf8 *) destruct (utf8_lead b) as [u|] eqn:El; cbn [fst snd uni].
      + split; [constructor | apply lead_uinv, El].
      + rewrite Euni. split; [constructor | exact I]. }
  destruct tgt as [t|]; [|exact Hact].
  destruct Hact as [H1 H2].
  destruct (do_action v a b) as [s1 ev_act]. cbn [fst snd] in H1, H2.
  destruct (enter_ev_ok s1 t b) as [H3 H4].
  destruct (enter s1 t b) as [s2 ev_entry]. cbn [fst snd] in *.
  split.
  - apply Forall_app. split; [apply exit_ev_ok|]. apply Forall_app. split; assumption.
  - unfold uni_ok. rewrite H4. exact H2.
Qed.

Lemma run_ev_ok : forall bs v, bytes_lt bs -> uni_ok v ->
  Forall ev_ok (snd (vt_run v bs)) /\ uni_ok (fst (vt_run v bs)).
Proof.
  induction bs as [|b bs IH]; intros v Hbs Hu.
  - cbn [vt_run fst snd]. split; [constructor | exact Hu].
  - inversion Hbs as [|? ? Hb Hr]; subst. rewrite vt_run_cons. cbn [fst snd].
    destruct (step_ev_ok v b Hb Hu) as [A B].
    destruct (IH _ Hr B) as [C D]. split; [apply Forall_app; split; assumption | exact D].
Qed.

Lemma spec_events_ok : forall bs, bytes_lt bs -> Forall ev_ok (spec_events bs).
Proof. intros bs Hbs. unfold spec_events. apply run_ev_ok; [exact Hbs | exact I]. Qed.

(* ---- 2. no escape byte reaches the console ----------------------------------------------- *)

(* not ESC, and a control only if it is TAB, LF, FF or CR *)
Definition byte_clean (b : N) : Prop :=
  b <> 27 /\ (b < 32 -> b = 9 \/ b = 10 \/ b = 12 \/ b = 13).

Lemma ev_chars_clean : forall e, ev_ok e -> Forall byte_clean (ev_chars e).
Proof.
  intros e H. destruct e; cbn [ev_chars]; try constructor.
  - cbn [ev_ok] in H. split; lia.
  - constructor.
  - destruct (is_ascii_whitespace b) eqn:E; constructor; [|constructor].
    unfold is_ascii_whitespace in E. repeat rewrite orb_true_iff in E. rewrite !N.eqb_eq in E.
    split; lia.
Qed.

Lemma tags_clean : forall es s, Forall ev_ok es -> Forall (fun x => byte_clean (snd x)) (tags s es).
Proof.
  induction es as [|e es IH]; intros s H; cbn [tags]; [constructor|].
  inversion H as [|? ? He Hr]; subst. apply Forall_app. split; [|apply IH, Hr].
  unfold tag_ev. apply Forall_map. cbn [snd]. apply ev_chars_clean, He.
Qed.

Lemma utf8_encode_clean : forall cp, byte_clean cp -> Forall byte_clean (utf8_encode cp).
Proof.
  intros cp H. unfold utf8_encode.
  destruct (cp <? 128) eqn:E1; [constructor; [exact H | constructor]|].
  apply N.ltb_ge in E1.
  destruct (cp <? 2048); [|destruct (cp <? 65536)];
    repeat (constructor; [split; lia|]); constructor.
Qed.

Lemma str_bytes_clean : forall txt, Forall byte_clean txt -> Forall byte_clean (str_bytes txt).
Proof.
  induction txt as [|cp txt IH]; intros H; [constructor|].
  inversion H; subst. unfold str_bytes. cbn [flat_map]. apply Forall_app.
  split; [apply utf8_encode_clean; assumption | apply IH; assumption].
Qed.

Lemma flatten_chars : forall its (P : N -> Prop),
  Forall (fun x => P (snd x)) (flatten its) -> Forall (fun r => Forall P (snd r)) its.
Proof.
  induction its as [|[s t] its IH]; intros P H; [constructor|].
  change (flatten ((s, t) :: its)) with (map (pair s) t ++ flatten its) in H.
  apply Forall_app in H. destruct H as [A B]. constructor; [|apply IH, B].
  cbn [snd]. rewrite Forall_map in A. exact A.
Qed.

(* general form: any reachable parser state not inside a character that could
   decode below 0x80, any capture whose pending text is clean *)
Theorem runs_clean_from : forall bs p v c,
  bytes_lt bs -> R p v -> uni_ok v -> Forall byte_clean (c_printable c) ->
  exists its p' c',
    extract_next bs p c = Some (its, p', c') /\
    Forall (fun r => Forall byte_clean (str_bytes (snd r))) its /\
    (exists v', R p' v' /\ uni_ok v') /\ c_printable c' = [].
Proof.
  intros bs p v c Hbs HR Hu Hc.
  destruct (extract_next_spec bs p v c Hbs HR) as (its & p' & He & _ & HR' & Hfl & _).
  destruct (run_ev_ok bs v Hbs Hu) as [Hev Hu'].
  eexists its, p', _. split; [exact He|]. split; [|split; [eauto | reflexivity]].
  assert (H : Forall (fun x => byte_clean (snd x)) (flatten its)).
  { rewrite Hfl. apply Forall_app. split; [|apply tags_clean, Hev].
    unfold pend0. apply Forall_map. cbn [snd]. exact Hc. }
  apply flatten_chars in H. eapply Forall_impl; [|exact H]. cbv beta.
  intros r. apply str_bytes_clean.
Qed.

Theorem no_escape_bytes : forall input, bytes_lt input ->
  exists its p c,
    extract_next input parser_new capture_default = Some (its, p, c) /\
    Forall (fun r => Forall byte_clean (str_bytes (snd r))) its.
Proof.
  intros input Hbs.
  destruct (runs_clean_from input parser_new vt_init capture_default Hbs R_init I (Forall_nil _))
    as (its & p & c & He & H & _).
  eauto.
Qed.

(* ---- 3. the runs are the specification's runs (C07) ------------------------------------------ *)

(* along the interpretation: every SGR event met in state [s] is a sequence of the
   grammar G that satisfies the underline-interaction hypothesis in [s]; other
   events are unconstrained *)
Inductive sgr_events_ok : sstyle -> list event -> Prop :=
  | seo_nil : forall s, sgr_events_ok s []
  | seo_sgr : forall s items rest,
      Forall (fun i => item_in_G i = true) items -> ul_simple s items ->
      sgr_events_ok (sgr_apply s (groups_of items)) rest ->
      sgr_events_ok s (ECsi (groups_of items) [] false 109 :: rest)
  | seo_other : forall s e rest,
      (forall ps, e <> ECsi ps [] false 109) ->
      sgr_events_ok s rest ->
      sgr_events_ok s (e :: rest).

Lemma event_style_csi : forall s ps i g a,
  event_style s (ECsi ps i g a) =
  if g then s else if negb (a =? 109) then s
  else match i with [] => sgr_apply s ps | _ => s end.
Proof.
  intros s ps i g a. destruct g; [destruct i; reflexivity|].
  destruct (N.eqb_spec a 109) as [->|Hn]; cbn [negb].
  - destruct i; reflexivity.
  - destruct i; [|reflexivity]. cbn [event_style].
    destruct a as [|p]; [reflexivity|].
    repeat (destruct p as [p|p|]; try reflexivity; try (exfalso; apply Hn; reflexivity)).
Qed.

Lemma non_sgr_inert : forall s e, (forall ps, e <> ECsi ps [] false 109) ->
  cap_style_step s e = s /\ event_style s e = s.
Proof.
  intros s e H. destruct e as [| | | | | |ps i g a|]; try (split; reflexivity).
  rewrite event_style_csi. cbn [cap_style_step].
  destruct g; [split; reflexivity|].
  destruct (N.eqb_spec a 109) as [->|Hn]; cbn [negb]; [|split; reflexivity].
  destruct i; cbn [negb]; [|split; reflexivity].
  exfalso. apply (H ps). reflexivity.
Qed.

Lemma tags_interp : forall es s, Forall ev_ok es -> sgr_events_ok s es ->
  tags s es = fst (interp s es) /\ style_after s es = snd (interp s es).
Proof.
  induction es as [|e es IH]; intros s Hev Hok.
  - cbn. split; reflexivity.
  - inversion Hev as [|? ? He Hevr]; subst.
    inversion Hok as [| ? items ? HG Hul Hrest | ? ? ? Hns Hrest]; subst.
    + (* an SGR sequence of the grammar *)
      assert (Hs : cap_style_step s (ECsi (groups_of items) [] false 109) = sgr_apply s (groups_of items)).
      { cbn [cap_style_step negb]. rewrite N.eqb_refl. cbn [negb].
        rewrite (dispatch_is_sgr items s HG Hul). reflexivity. }
      destruct (IH _ Hevr Hrest) as [A B].
      cbn [tags style_after fold_left interp]. rewrite Hs.
      change (event_style s (ECsi (groups_of items) [] false 109)) with (sgr_apply s (groups_of items)).
      fold (style_after (sgr_apply s (groups_of items)) es).
      destruct (interp (sgr_apply s (groups_of items)) es) as [out s2]. cbn [fst snd] in *.
      cbn [tag_ev ev_chars map app]. split; assumption.
    + destruct (non_sgr_inert s e Hns) as [H1 H2].
      destruct (IH _ Hevr Hrest) as [A B].
      cbn [tags style_after fold_left interp]. rewrite H1, H2.
      fold (style_after s es).
      destruct (interp s es) as [out s2]. cbn [fst snd] in *.
      destruct e; cbn [tag_ev ev_chars map app fst snd]; try (split; assumption).
      * split; [rewrite A; reflexivity | exact B].
      * cbn [ev_ok] in He. destruct He as [He _]. rewrite He.
        destruct (is_ws_exec b); cbn [map app fst snd]; split; try assumption.
        rewrite A. reflexivity.
Qed.

Theorem runs_are_spec : forall input,
  bytes_lt input -> sgr_events_ok style_default (spec_events input) ->
  exists its p c,
    extract_next input parser_new capture_default = Some (its, p, c) /\
    merge_runs its = spec_runs input.
Proof.
  intros input Hbs Hok.
  destruct (extract_next_spec input parser_new vt_init capture_default Hbs R_init)
    as (its & p' & He & _ & _ & Hfl & Hall).
  eexists its, p', _. split; [exact He|].
  rewrite (merge_is_group _ Hall), Hfl. unfold spec_runs.
  change (snd (vt_run vt_init input)) with (spec_events input).
  cbn [pend0 capture_default c_printable c_style map app].
  destruct (tags_interp (spec_events input) style_default (spec_events_ok input Hbs) Hok) as [A _].
  rewrite A. reflexivity.
Qed.

(* non-vacuity of the hypothesis: "a ESC[1;31m b ESC[38;5;9m TAB ESC[?25h c ESC[0m d" *)
Lemma example_runs :
  sgr_events_ok style_default
    (spec_events [97; 27; 91; 49; 59; 51; 49; 109; 98; 27; 91; 51; 56; 59; 53; 59; 57; 109; 9;
                  27; 91; 63; 50; 53; 104; 99; 27; 91; 48; 109; 100]) /\
  spec_runs [97; 27; 91; 49; 59; 51; 49; 109; 98; 27; 91; 51; 56; 59; 53; 59; 57; 109; 9;
             27; 91; 63; 50; 53; 104; 99; 27; 91; 48; 109; 100]
  = [(style_default, [97]); (mkStyle (Some (CAnsi 1)) None None 1, [98]);
     (mkStyle (Some (CIdx 9)) None None 1, [9; 99]); (style_default, [100])].
Proof.
  split; [|vm_compute; reflexivity].
  vm_compute.
  apply seo_other; [discriminate|].
  apply (seo_sgr _ [GCode 1; GCode 31]); [repeat constructor | vm_compute; tauto |].
  apply seo_other; [discriminate|].
  apply (seo_sgr _ [GIdx false 38 9]); [repeat constructor | vm_compute; tauto |].
  apply seo_other; [discriminate|].
  apply seo_other; [discriminate|].
  apply seo_other; [discriminate|].
  apply (seo_sgr _ [GCode 0]); [repeat constructor | vm_compute; tauto |].
  apply seo_other; [discriminate|].
  apply seo_nil.
Qed.
