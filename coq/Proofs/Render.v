(* Proofs/Render.v -- lemmas for C05 (rendered styles are pure SGR and round-trip
   through SGR interpretation).
   1. the VT specification reads "ESC [ digits (;|:) digits ... m" back as exactly
      the printed parameters (rn_csi_roundtrip), and strips it to nothing;
   2. DisplayBuffer: write_code prints the decimal digits, nothing is ever
      written past the capacity;
   3. every piece that the model renders is such a control sequence, with the
      parameter groups of Spec/Render.rn_groups_of;
   4. applying those groups by the SGR rules gives the style back;
   5. reset, the io::Write path, the format flags. *)
From Coq Require Import NArith Arith List Bool Lia.
From AV Require Import Generated.Style Generated.Render Spec.Utf8 Spec.Vt Spec.Strip Spec.Sgr Spec.Algebra
  Spec.Render Model.Base Model.Style Model.Render Proofs.Style.
Import ListNotations.
Local Open Scope N_scope.

(* ======================================================================== *)
(* 1. the VT specification on printed control sequences                       *)

Lemma vt_run_app s a b :
  vt_run s (a ++ b) =
  let '(s1, e1) := vt_run s a in let '(s2, e2) := vt_run s1 b in (s2, e1 ++ e2).
Proof.
  revert s. induction a as [|x a IH]; intros s; cbn [app vt_run].
  - destruct (vt_run s b); reflexivity.
  - destruct (vt_step s x) as [s1 e1]. rewrite IH.
    destruct (vt_run s1 a) as [s2 e2]. destruct (vt_run s2 b) as [s3 e3].
    now rewrite app_assoc.
Qed.

Lemma param_byte_cases b : 48 <= b <= 59 ->
  b = 48 \/ b = 49 \/ b = 50 \/ b = 51 \/ b = 52 \/ b = 53 \/ b = 54 \/ b = 55 \/ b = 56 \/ b = 57 \/ b = 58 \/ b = 59.
Proof. lia. Qed.

Ltac param_cases H :=
  apply param_byte_cases in H;
  repeat (destruct H as [H|H]; [subst|]); [..|subst].

Lemma trans_entry_param b : 48 <= b <= 59 -> vt_trans VCsiEntry b = (Some VCsiParam, TParam).
Proof. intros H. param_cases H; reflexivity. Qed.

Lemma trans_param_param b : 48 <= b <= 59 -> vt_trans VCsiParam b = (None, TParam).
Proof. intros H. param_cases H; reflexivity. Qed.

(* the parser inside the parameter part of a control sequence: no intermediates,
   nothing discarded, [cl] closed groups, [cu] sub-parameters of the open group,
   [p] the value being read *)
Definition csi_st (s : vt) (cl : list (list N)) (cu : list N) (p : N) : Prop :=
  uni s = None /\ ints s = [] /\ ign s = false /\ closed s = cl /\ cur s = cu /\ pend s = p /\
  (vs s = VCsiEntry \/ vs s = VCsiParam).

Definition param_upd (cl : list (list N)) (cu : list N) (p b : N) : list (list N) * list N * N :=
  if b =? 59 then (cl ++ [cu ++ [p]], [], 0)
  else if b =? 58 then (cl, cu ++ [p], 0)
  else (cl, cu, N.min 65535 (10 * p + (b - 48))).

Lemma step_param s cl cu p b :
  csi_st s cl cu p -> 48 <= b <= 59 -> (length (concat cl) + length cu < 32)%nat ->
  exists s', vt_step s b = (s', []) /\
             let '(cl', cu', p') := param_upd cl cu p b in csi_st s' cl' cu' p'.
Proof.
  intros (Hu & Hi & Hg & Hcl & Hcu & Hp & Hv) Hb Hn.
  destruct s as [v i g c u p0 o un]. cbn in Hu, Hi, Hg, Hcl, Hcu, Hp, Hv. subst.
  assert (Hc : Nat.eqb (count_values (mkVt v [] false cl cu p o None)) max_values = false).
  { apply Nat.eqb_neq. unfold count_values, max_values. cbn [closed cur]. lia. }
  unfold vt_step. cbn [uni].
  destruct Hv as [-> | ->]; cbn [vs].
  - rewrite (trans_entry_param b Hb). cbn [exit_events vs do_action app]. unfold param. rewrite Hc.
    unfold param_upd. destruct (b =? 59); [|destruct (b =? 58)];
      (eexists; split; [reflexivity|]; unfold csi_st; cbn; intuition).
  - rewrite (trans_param_param b Hb). cbn [do_action]. unfold param. rewrite Hc.
    unfold param_upd. destruct (b =? 59); [|destruct (b =? 58)];
      (eexists; split; [reflexivity|]; unfold csi_st; cbn; intuition).
Qed.

Lemma dec_from_mono ds : forall v, v <= rn_dec_from v ds.
Proof.
  induction ds as [|d t IH]; intros v; cbn [rn_dec_from fold_left]; [lia|].
  specialize (IH (10 * v + (d - 48))). unfold rn_dec_from in IH. lia.
Qed.

Lemma digit_bounds d : rn_is_digit d = true -> 48 <= d <= 57.
Proof. unfold rn_is_digit. intros H. apply andb_true_iff in H. destruct H as [A B]. apply N.leb_le in A, B. lia. Qed.

(* a digit string *)
Lemma run_digits ds : forall s cl cu p,
  csi_st s cl cu p -> forallb rn_is_digit ds = true -> rn_dec_from p ds < 65536 ->
  (length (concat cl) + length cu < 32)%nat ->
  exists s', vt_run s ds = (s', []) /\ csi_st s' cl cu (rn_dec_from p ds).
Proof.
  induction ds as [|d t IH]; intros s cl cu p Hs Hd Hv Hn.
  - exists s. split; [reflexivity|exact Hs].
  - cbn [forallb] in Hd. apply andb_true_iff in Hd. destruct Hd as [Hd Ht].
    apply digit_bounds in Hd.
    destruct (step_param s cl cu p d Hs ltac:(lia) Hn) as (s1 & E1 & Hs1).
    unfold param_upd in Hs1.
    replace (d =? 59) with false in Hs1 by (symmetry; apply N.eqb_neq; lia).
    replace (d =? 58) with false in Hs1 by (symmetry; apply N.eqb_neq; lia).
    cbn [rn_dec_from fold_left] in Hv |- *. fold (rn_dec_from (10 * p + (d - 48)) t) in Hv |- *.
    pose proof (dec_from_mono t (10 * p + (d - 48))) as Hm.
    rewrite N.min_r in Hs1 by lia.
    destruct (IH s1 cl cu _ Hs1 Ht Hv Hn) as (s2 & E2 & Hs2).
    exists s2. split; [|exact Hs2]. cbn [vt_run]. rewrite E1, E2. reflexivity.
Qed.

Lemma rn_join_cons2 sep x y t : rn_join sep (x :: y :: t) = x ++ [sep] ++ rn_join sep (y :: t).
Proof. reflexivity. Qed.

(* one parameter: sub-parameter digit strings joined by ':' *)
Lemma run_group g : forall s cl cu,
  csi_st s cl cu 0 -> rn_nonempty g = true -> forallb rn_digits_ok g = true ->
  (length (concat cl) + length cu + length g <= 32)%nat ->
  exists s' cu' p', vt_run s (rn_join 58 g) = (s', []) /\ csi_st s' cl cu' p' /\
                    cu' ++ [p'] = cu ++ map rn_dec_value g.
Proof.
  induction g as [|x t IH]; intros s cl cu Hs Hne Hok Hn; [discriminate|].
  cbn [forallb] in Hok. apply andb_true_iff in Hok. destruct Hok as [Hx Ht].
  unfold rn_digits_ok in Hx. apply andb_true_iff in Hx. destruct Hx as [Hxd Hxv]. apply N.ltb_lt in Hxv.
  cbn [length] in Hn.
  destruct (run_digits x s cl cu 0 Hs Hxd Hxv ltac:(lia)) as (s1 & E1 & Hs1).
  fold (rn_dec_value x) in Hs1.
  destruct t as [|y t'].
  - cbn [rn_join map]. exists s1, cu, (rn_dec_value x). auto.
  - rewrite rn_join_cons2.
    destruct (step_param s1 cl cu (rn_dec_value x) 58 Hs1 ltac:(lia) ltac:(cbn [length] in Hn; lia)) as (s2 & E2 & Hs2).
    cbn in Hs2.
    destruct (IH s2 cl (cu ++ [rn_dec_value x]) Hs2 eq_refl Ht) as (s3 & cu' & p' & E3 & Hs3 & Hq).
    { rewrite app_length. cbn [length] in *. lia. }
    exists s3, cu', p'. split; [|split; [exact Hs3|]].
    + rewrite vt_run_app, E1, vt_run_app. cbn [vt_run]. rewrite E2, E3. reflexivity.
    + rewrite Hq. cbn [map]. now rewrite <- app_assoc.
Qed.

Lemma concat_snoc {A} (l : list (list A)) x : concat (l ++ [x]) = concat l ++ x.
Proof. rewrite concat_app. cbn. now rewrite app_nil_r. Qed.

(* a parameter list: parameters joined by ';' *)
Lemma run_params gs : forall s cl,
  csi_st s cl [] 0 -> rn_nonempty gs = true ->
  forallb (fun g => rn_nonempty g && forallb rn_digits_ok g) gs = true ->
  (length (concat cl) + length (concat gs) <= 32)%nat ->
  exists s' cl' cu' p', vt_run s (rn_print_params gs) = (s', []) /\ csi_st s' cl' cu' p' /\
                        cl' ++ [cu' ++ [p']] = cl ++ rn_param_values gs /\
                        (length (concat cl') + length cu' < 32)%nat.
Proof.
  unfold rn_print_params, rn_param_values.
  induction gs as [|g t IH]; intros s cl Hs Hne Hok Hn; [discriminate|].
  cbn [forallb] in Hok. apply andb_true_iff in Hok. destruct Hok as [Hg Ht].
  apply andb_true_iff in Hg. destruct Hg as [Hgne Hgok].
  cbn [concat] in Hn. rewrite app_length in Hn.
  destruct (run_group g s cl [] Hs Hgne Hgok ltac:(cbn [length]; lia)) as (s1 & cu1 & p1 & E1 & Hs1 & Hq1).
  cbn [app] in Hq1.
  assert (Hl1 : (length cu1 + 1 = length g)%nat).
  { apply (f_equal (@length N)) in Hq1. rewrite app_length, map_length in Hq1. exact Hq1. }
  destruct t as [|h t'].
  - cbn [map rn_join]. exists s1, cl, cu1, p1. split; [exact E1|]. split; [exact Hs1|]. split.
    + now rewrite Hq1.
    + lia.
  - cbn [map]. rewrite rn_join_cons2.
    destruct (step_param s1 cl cu1 p1 59 Hs1 ltac:(lia) ltac:(lia)) as (s2 & E2 & Hs2).
    cbn in Hs2.
    destruct (IH s2 (cl ++ [cu1 ++ [p1]]) Hs2 eq_refl Ht) as (s3 & cl' & cu' & p' & E3 & Hs3 & Hq & Hl).
    { rewrite concat_snoc, !app_length. cbn [length]. lia. }
    exists s3, cl', cu', p'. split; [|split; [exact Hs3|split; [|exact Hl]]].
    + rewrite vt_run_app, E1, vt_run_app. cbn [vt_run]. rewrite E2. cbn [map] in E3. rewrite E3. reflexivity.
    + rewrite Hq, Hq1, <- app_assoc. reflexivity.
Qed.

(* where a control sequence may start and where it ends *)
Definition ground_st (s : vt) : Prop := vs s = VGround /\ uni s = None.

Lemma ground_init : ground_st vt_init.
Proof. split; reflexivity. Qed.

Lemma step_esc s : ground_st s -> vt_step s 27 = (mkVt VEscape [] false [] [] 0 (osc s) None, []).
Proof. intros [Hv Hu]. destruct s as [v i g c u p o un]. cbn in Hv, Hu. subst. reflexivity. Qed.

Lemma step_bracket o : vt_step (mkVt VEscape [] false [] [] 0 o None) 91 = (mkVt VCsiEntry [] false [] [] 0 o None, []).
Proof. reflexivity. Qed.

Lemma step_final_m s cl cu p :
  csi_st s cl cu p -> (length (concat cl) + length cu < 32)%nat ->
  exists s', vt_step s 109 = (s', [rn_sgr (cl ++ [cu ++ [p]])]) /\ ground_st s'.
Proof.
  intros (Hu & Hi & Hg & Hcl & Hcu & Hp & Hv) Hn.
  destruct s as [v i g c u p0 o un]. cbn in Hu, Hi, Hg, Hcl, Hcu, Hp, Hv. subst.
  assert (Hc : Nat.eqb (count_values (mkVt v [] false cl cu p o None)) max_values = false).
  { apply Nat.eqb_neq. unfold count_values, max_values. cbn [closed cur]. lia. }
  unfold vt_step. cbn [uni vs].
  destruct Hv as [-> | ->].
  - change (vt_trans VCsiEntry 109) with (Some VGround, TCsiDispatch).
    cbn [exit_events vs do_action]. unfold final_params. rewrite Hc.
    eexists. split; [reflexivity|]. split; reflexivity.
  - change (vt_trans VCsiParam 109) with (Some VGround, TCsiDispatch).
    cbn [exit_events vs do_action]. unfold final_params. rewrite Hc.
    eexists. split; [reflexivity|]. split; reflexivity.
Qed.

(* THE round trip: a printed control sequence with final byte 'm', read from the
   ground state, is reported as one CSI dispatch with exactly the printed values *)
Lemma rn_csi_roundtrip gs s :
  rn_csi_ok gs = true -> ground_st s ->
  exists s', vt_run s (rn_csi gs 109) = (s', [rn_sgr (rn_param_values gs)]) /\ ground_st s'.
Proof.
  intros Hok Hs. unfold rn_csi_ok in Hok.
  apply andb_true_iff in Hok. destruct Hok as [Hok Hn]. apply andb_true_iff in Hok. destruct Hok as [Hne Hok].
  apply Nat.leb_le in Hn.
  unfold rn_csi. cbn [vt_run]. rewrite (step_esc s Hs), step_bracket.
  set (s0 := mkVt VCsiEntry [] false [] [] 0 (osc s) None).
  assert (Hs0 : csi_st s0 [] [] 0) by (unfold csi_st, s0; cbn; intuition).
  destruct (run_params gs s0 [] Hs0 Hne Hok ltac:(cbn [concat length]; lia))
    as (s1 & cl & cu & p1 & E1 & Hs1 & Hq & Hl).
  rewrite vt_run_app, E1. cbn [vt_run app].
  destruct (step_final_m s1 cl cu p1 Hs1 Hl) as (s2 & E2 & Hs2).
  rewrite E2. cbn [app] in Hq. rewrite Hq. cbn [app]. exists s2. split; [reflexivity|exact Hs2].
Qed.

Lemma spec_events_pieces_from ps : forall gs s,
  Forall2 (fun p g => exists pr, rn_csi_ok pr = true /\ p = rn_csi pr 109 /\ rn_param_values pr = g) ps gs ->
  ground_st s ->
  exists s', vt_run s (concat ps) = (s', map rn_sgr gs) /\ ground_st s'.
Proof.
  induction ps as [|p t IH]; intros gs s H Hs; inversion H; subst; clear H.
  - exists s. split; [reflexivity|exact Hs].
  - destruct H2 as (pr & Hok & -> & <-).
    destruct (rn_csi_roundtrip pr s Hok Hs) as (s1 & E1 & Hs1).
    destruct (IH _ s1 H4 Hs1) as (s2 & E2 & Hs2).
    exists s2. split; [|exact Hs2]. cbn [concat map]. rewrite vt_run_app, E1, E2. reflexivity.
Qed.

(* ---- the same sequences under Spec/Strip: nothing is kept -------------------- *)

Lemma strip_run_app s a b :
  strip_run s (a ++ b) =
  let '(s1, o1) := strip_run s a in let '(s2, o2) := strip_run s1 b in (s2, o1 ++ o2).
Proof.
  revert s. induction a as [|x a IH]; intros s; cbn [app strip_run].
  - destruct (strip_run s b); reflexivity.
  - destruct (strip_step s x) as [s1 k]. rewrite IH.
    destruct (strip_run s1 a) as [s2 o2]. destruct (strip_run s2 b) as [s3 o3].
    destruct k; reflexivity.
Qed.

Lemma strip_params bs : forall v,
  v = VCsiEntry \/ v = VCsiParam -> Forall (fun b => 48 <= b <= 59) bs ->
  exists v', (v' = VCsiEntry \/ v' = VCsiParam) /\ strip_run (mkS v None) bs = (mkS v' None, []).
Proof.
  induction bs as [|b t IH]; intros v Hv Hb.
  - exists v. split; [exact Hv|reflexivity].
  - inversion Hb as [|? ? Hb1 Hb2]; subst.
    destruct (IH VCsiParam (or_intror eq_refl) Hb2) as (v' & Hv' & E).
    exists v'. split; [exact Hv'|]. cbn [strip_run]. unfold strip_step. cbn [su sv]. unfold plain_step.
    destruct Hv as [-> | ->].
    + rewrite (trans_entry_param b Hb1). cbn [keeps]. rewrite E. reflexivity.
    + rewrite (trans_param_param b Hb1). cbn [keeps]. rewrite E. reflexivity.
Qed.

Lemma join_param_bytes sep l :
  48 <= sep <= 59 -> Forall (Forall (fun b => 48 <= b <= 59)) l -> Forall (fun b => 48 <= b <= 59) (rn_join sep l).
Proof.
  intros Hs. induction l as [|x t IH]; intros H; [constructor|].
  inversion H; subst. destruct t as [|y t']; [assumption|].
  rewrite rn_join_cons2. apply Forall_app. split; [assumption|].
  cbn [app]. constructor; [assumption|]. now apply IH.
Qed.

Lemma params_param_bytes gs :
  forallb (fun g => rn_nonempty g && forallb rn_digits_ok g) gs = true ->
  Forall (fun b => 48 <= b <= 59) (rn_print_params gs).
Proof.
  intros H. unfold rn_print_params. apply join_param_bytes; [lia|].
  apply Forall_forall. intros x Hx. apply in_map_iff in Hx. destruct Hx as (g & <- & Hg).
  rewrite forallb_forall in H. specialize (H g Hg). apply andb_true_iff in H. destruct H as [_ H].
  apply join_param_bytes; [lia|]. apply Forall_forall. intros ds Hds.
  rewrite forallb_forall in H. specialize (H ds Hds). unfold rn_digits_ok in H.
  apply andb_true_iff in H. destruct H as [H _].
  apply Forall_forall. intros d Hd. rewrite forallb_forall in H. specialize (H d Hd).
  apply digit_bounds in H. lia.
Qed.

Lemma strip_csi gs : rn_csi_ok gs = true -> strip_run s_init (rn_csi gs 109) = (s_init, []).
Proof.
  intros Hok. unfold rn_csi_ok in Hok.
  apply andb_true_iff in Hok. destruct Hok as [Hok _]. apply andb_true_iff in Hok. destruct Hok as [_ Hok].
  unfold rn_csi, s_init. cbn [strip_run]. unfold strip_step at 1. cbn [su sv]. unfold plain_step at 1.
  change (vt_trans VGround 27) with (Some VEscape, TNone). cbn [keeps].
  unfold strip_step at 1. cbn [su sv]. unfold plain_step at 1.
  change (vt_trans VEscape 91) with (Some VCsiEntry, TNone). cbn [keeps].
  destruct (strip_params (rn_print_params gs) VCsiEntry (or_introl eq_refl) (params_param_bytes gs Hok)) as (v' & Hv' & E).
  rewrite strip_run_app, E. cbn [strip_run]. unfold strip_step, plain_step. cbn [su sv].
  destruct Hv' as [-> | ->]; reflexivity.
Qed.

Lemma strip_pieces ps gs :
  Forall2 (fun p g => exists pr, rn_csi_ok pr = true /\ p = rn_csi pr 109 /\ rn_param_values pr = g) ps gs ->
  strip_run s_init (concat ps) = (s_init, []).
Proof.
  revert gs. induction ps as [|p t IH]; intros gs H; inversion H; subst; clear H; [reflexivity|].
  destruct H2 as (pr & Hok & -> & _). cbn [concat].
  rewrite strip_run_app, (strip_csi pr Hok), (IH _ H4). reflexivity.
Qed.

(* ======================================================================== *)
(* 2. DisplayBuffer                                                           *)

Definition rn_is_sgr (p : list N) (g : list (list N)) : Prop :=
  exists pr, rn_csi_ok pr = true /\ p = rn_csi pr 109 /\ rn_param_values pr = g.

(* what write_code stores *)
Definition rn_code_digits (n : N) : list N :=
  (if (n / 100) mod 10 =? 0 then [] else [48 + (n / 100) mod 10]) ++ [48 + (n / 10) mod 10; 48 + n mod 10].

Definition cap : nat := N.to_nat rn_display_buffer_capacity.

Lemma buf_put_ok b x : (length b < cap)%nat -> rn_buf_put b x = Some (b ++ [x]).
Proof.
  intros H. unfold rn_buf_put. replace (N.of_nat (length b) <? rn_display_buffer_capacity) with true; [reflexivity|].
  symmetry. apply N.ltb_lt. unfold cap in H. lia.
Qed.

Lemma buf_put_full b x : (cap <= length b)%nat -> rn_buf_put b x = None.
Proof.
  intros H. unfold rn_buf_put. replace (N.of_nat (length b) <? rn_display_buffer_capacity) with false; [reflexivity|].
  symmetry. apply N.ltb_ge. unfold cap in H. lia.
Qed.

Lemma buf_write_str_ok p : forall b, (length b + length p <= cap)%nat -> rn_buf_write_str b p = Some (b ++ p).
Proof.
  induction p as [|x t IH]; intros b H; cbn [rn_buf_write_str].
  - now rewrite app_nil_r.
  - cbn [length] in H. rewrite buf_put_ok by lia. rewrite IH by (rewrite app_length; cbn [length]; lia).
    now rewrite <- app_assoc.
Qed.

Lemma write_code_ok b n : (length b + 3 <= cap)%nat -> rn_write_code b n = Some (b ++ rn_code_digits n).
Proof.
  intros H. unfold rn_write_code, rn_code_digits. cbn [orb negb].
  destruct ((n / 100) mod 10 =? 0); cbn [negb].
  - rewrite orb_true_r. rewrite buf_put_ok by lia. rewrite buf_put_ok by (rewrite app_length; cbn [length]; lia).
    now rewrite <- app_assoc.
  - rewrite orb_true_r. rewrite buf_put_ok by lia. rewrite buf_put_ok by (rewrite app_length; cbn [length]; lia).
    rewrite buf_put_ok by (rewrite !app_length; cbn [length]; lia).
    now rewrite <- !app_assoc.
Qed.

(* the digits denote the number (for every n < 1000, so for every u8) *)
Lemma code_digits_spec n : n < 1000 ->
  forallb rn_is_digit (rn_code_digits n) = true /\ rn_dec_value (rn_code_digits n) = n /\
  (1 <= length (rn_code_digits n) <= 3)%nat.
Proof.
  intros Hn. unfold rn_code_digits.
  pose proof (N.div_mod n 10 ltac:(lia)) as A1. pose proof (N.mod_lt n 10 ltac:(lia)) as A2.
  pose proof (N.div_mod (n / 10) 10 ltac:(lia)) as B1. pose proof (N.mod_lt (n / 10) 10 ltac:(lia)) as B2.
  assert (C : n / 100 = n / 10 / 10) by (rewrite N.div_div by lia; reflexivity).
  pose proof (N.mod_lt (n / 100) 10 ltac:(lia)) as D2.
  pose proof (N.div_mod (n / 100) 10 ltac:(lia)) as D1.
  set (c1 := (n / 100) mod 10) in *. set (c2 := (n / 10) mod 10) in *. set (c3 := n mod 10) in *.
  assert (E : n / 100 = c1).
  { assert (n / 100 < 10) by (apply N.div_lt_upper_bound; lia). subst c1. now rewrite N.mod_small. }
  unfold rn_dec_value, rn_dec_from, rn_is_digit.
  destruct (N.eqb_spec c1 0) as [Z|Z]; cbn [app forallb fold_left length].
  - repeat split; try lia.
    rewrite !andb_true_iff, !N.leb_le. lia.
  - repeat split; try lia.
    rewrite !andb_true_iff, !N.leb_le. lia.
Qed.

Lemma code_digits_ok n : n < 256 -> rn_digits_ok (rn_code_digits n) = true.
Proof.
  intros H. destruct (code_digits_spec n ltac:(lia)) as (A & B & _).
  unfold rn_digits_ok. rewrite A, B. cbn [andb]. apply N.ltb_lt. lia.
Qed.

Fixpoint rn_parts_bytes (ps : list rn_part) (fields : list N) : list N :=
  match ps with
  | [] => []
  | RnStr s :: t => s ++ rn_parts_bytes t fields
  | RnCode k :: t => rn_code_digits (nth k fields 0) ++ rn_parts_bytes t fields
  end.

Fixpoint rn_parts_max (ps : list rn_part) : nat :=
  match ps with
  | [] => 0
  | RnStr s :: t => length s + rn_parts_max t
  | RnCode _ :: t => 3 + rn_parts_max t
  end.

Definition rn_part_fits (n : nat) (p : rn_part) : Prop :=
  match p with RnCode k => (k < n)%nat | RnStr _ => True end.

Lemma code_digits_length n : (length (rn_code_digits n) <= 3)%nat.
Proof. unfold rn_code_digits. destruct (_ =? 0); cbn; lia. Qed.

Lemma parts_bytes_length ps fields : (length (rn_parts_bytes ps fields) <= rn_parts_max ps)%nat.
Proof.
  induction ps as [|[s|k] t IH]; cbn [rn_parts_bytes rn_parts_max]; [cbn; lia| |]; rewrite app_length.
  - lia.
  - pose proof (code_digits_length (nth k fields 0)). lia.
Qed.

Lemma run_parts_ok ps : forall b fields,
  (length b + rn_parts_max ps <= cap)%nat -> Forall (rn_part_fits (length fields)) ps ->
  rn_run_parts b ps fields = Some (b ++ rn_parts_bytes ps fields).
Proof.
  induction ps as [|[s|k] t IH]; intros b fields H F; cbn [rn_run_parts rn_parts_bytes rn_parts_max] in *.
  - now rewrite app_nil_r.
  - inversion F; subst. rewrite buf_write_str_ok by lia.
    rewrite IH by (try rewrite app_length; try assumption; lia). now rewrite <- app_assoc.
  - inversion F as [|? ? Hk F']; subst. cbn [rn_part_fits] in Hk.
    rewrite (nth_error_nth' fields 0 Hk). rewrite write_code_ok by lia.
    pose proof (code_digits_length (nth k fields 0)).
    rewrite IH by (try rewrite app_length; try assumption; lia). now rewrite <- app_assoc.
Qed.

(* the canonical decimal form of a number below 1000 (used to name the printed
   form of the table entries) *)
Definition rn_print_dec (n : N) : list N :=
  if n <? 10 then [48 + n]
  else if n <? 100 then [48 + n / 10; 48 + n mod 10]
  else [48 + n / 100; 48 + (n / 10) mod 10; 48 + n mod 10].
Definition rn_print_groups (g : list (list N)) : list (list (list N)) := map (map rn_print_dec) g.

Lemma csi_ok_intro gs :
  rn_nonempty gs = true ->
  Forall (fun g => rn_nonempty g = true /\ Forall (fun ds => rn_digits_ok ds = true) g) gs ->
  (length (concat gs) <= 32)%nat -> rn_csi_ok gs = true.
Proof.
  intros A B C. unfold rn_csi_ok. rewrite A. cbn [andb]. apply andb_true_iff. split; [|now apply Nat.leb_le].
  apply forallb_forall. intros g Hg. rewrite Forall_forall in B. destruct (B g Hg) as [B1 B2].
  rewrite B1. cbn [andb]. apply forallb_forall. intros ds Hds. rewrite Forall_forall in B2. now apply B2.
Qed.

(* ---- the colour buffers ------------------------------------------------------ *)

Ltac parts_ok :=
  rewrite run_parts_ok by (try (repeat constructor); cbn; lia).

Lemma idx_buffer code d1 d2 parts n :
  parts = [RnStr [27; 91; d1; d2; 59; 53; 59]; RnCode 0%nat; RnStr [109]] ->
  rn_dec_value [d1; d2] = code -> rn_digits_ok [d1; d2] = true ->
  n < 256 ->
  exists p, rn_run_parts rn_buf_new parts [n] = Some p /\ (length p <= cap)%nat /\
            rn_is_sgr p [[code]; [5]; [n]].
Proof.
  intros -> Hv Hd Hn.
  rewrite run_parts_ok by (try (repeat constructor); cbn; lia).
  eexists. split; [reflexivity|]. split.
  - pose proof (parts_bytes_length [RnStr [27; 91; d1; d2; 59; 53; 59]; RnCode 0%nat; RnStr [109]] [n]) as L.
    cbn [rn_buf_new app]. cbn [rn_parts_max length] in L. cbn. cbn in L. lia.
  - exists [[[d1; d2]]; [[53]]; [rn_code_digits n]]. split; [|split].
    + apply csi_ok_intro; [reflexivity| |cbn; lia].
      repeat constructor; try assumption. now apply code_digits_ok.
    + cbn [rn_buf_new rn_parts_bytes nth app]. unfold rn_csi, rn_print_params. cbn [map rn_join app].
      reflexivity.
    + unfold rn_param_values. cbn [map]. rewrite Hv.
      destruct (code_digits_spec n ltac:(lia)) as (_ & -> & _). reflexivity.
Qed.

Lemma rgb_buffer code d1 d2 parts r g b :
  parts = [RnStr [27; 91; d1; d2; 59; 50; 59]; RnCode 0%nat; RnStr [59]; RnCode 1%nat; RnStr [59]; RnCode 2%nat; RnStr [109]] ->
  rn_dec_value [d1; d2] = code -> rn_digits_ok [d1; d2] = true ->
  r < 256 -> g < 256 -> b < 256 ->
  exists p, rn_run_parts rn_buf_new parts [r; g; b] = Some p /\ (length p <= cap)%nat /\
            rn_is_sgr p [[code]; [2]; [r]; [g]; [b]].
Proof.
  intros -> Hv Hd Hr Hg Hb.
  rewrite run_parts_ok by (try (repeat constructor); cbn; lia).
  eexists. split; [reflexivity|]. split.
  - match goal with |- (length (_ ++ rn_parts_bytes ?ps ?fs) <= _)%nat => pose proof (parts_bytes_length ps fs) as L end.
    cbn [rn_buf_new app]. cbn in L. cbn. lia.
  - exists [[[d1; d2]]; [[50]]; [rn_code_digits r]; [rn_code_digits g]; [rn_code_digits b]]. split; [|split].
    + apply csi_ok_intro; [reflexivity| |cbn; lia].
      repeat constructor; try assumption; now apply code_digits_ok.
    + cbn [rn_buf_new rn_parts_bytes nth app]. unfold rn_csi, rn_print_params. cbn [map rn_join app].
      rewrite <- !app_assoc. cbn [app]. rewrite <- !app_assoc. reflexivity.
    + unfold rn_param_values. cbn [map]. rewrite Hv.
      destruct (code_digits_spec r ltac:(lia)) as (_ & -> & _).
      destruct (code_digits_spec g ltac:(lia)) as (_ & -> & _).
      destruct (code_digits_spec b ltac:(lia)) as (_ & -> & _). reflexivity.
Qed.

Fixpoint list_beq (A : Type) (f : A -> A -> bool) (l1 l2 : list A) : bool :=
  match l1, l2 with
  | [], [] => true
  | x :: t, y :: u => f x y && list_beq A f t u
  | _, _ => false
  end.

(* a concrete table entry: the escape string is the canonical print of its groups *)
Definition rn_table_entry (p : list N) (g : list (list N)) : bool :=
  rn_csi_ok (rn_print_groups g) && list_beq (list N) (list_beq N N.eqb) (rn_param_values (rn_print_groups g)) g
  && list_beq N N.eqb p (rn_csi (rn_print_groups g) 109) && Nat.leb (length p) cap.

Lemma list_beq_eq {A} (f : A -> A -> bool) (Hf : forall x y, f x y = true -> x = y) l1 l2 :
  list_beq A f l1 l2 = true -> l1 = l2.
Proof.
  revert l2. induction l1 as [|x t IH]; intros [|y u]; cbn; try discriminate; [reflexivity|].
  intros H. apply andb_true_iff in H. destruct H as [H1 H2]. f_equal; [now apply Hf|now apply IH].
Qed.

Lemma table_entry_sgr p g : rn_table_entry p g = true -> rn_is_sgr p g /\ (length p <= cap)%nat.
Proof.
  unfold rn_table_entry. rewrite !andb_true_iff. intros [[[A B] C] D].
  split; [|now apply Nat.leb_le].
  exists (rn_print_groups g). split; [exact A|]. split.
  - apply (list_beq_eq N.eqb); [|exact C]. intros x y. apply N.eqb_eq.
  - apply (list_beq_eq (list_beq N N.eqb)); [|exact B].
    intros x y. apply list_beq_eq. intros a b. apply N.eqb_eq.
Qed.

Lemma ansi_disc_lt a : ansi_disc a < 16.
Proof. destruct a; reflexivity. Qed.

Lemma ansi_fg_table a : rn_table_entry (ansi_fg_str a) (rn_fg_groups (CAnsi (ansi_disc a))) = true.
Proof. destruct a; vm_compute; reflexivity. Qed.

Lemma ansi_bg_table a : rn_table_entry (ansi_bg_str a) (rn_bg_groups (CAnsi (ansi_disc a))) = true.
Proof. destruct a; vm_compute; reflexivity. Qed.

Lemma ansi256_from_disc a : ansi256_from a = ansi_disc a.
Proof. destruct a; reflexivity. Qed.

Definition rn_color_wf (c : color) : Prop := rn_colour_wf (rn_colour c).

Definition rn_buffer_piece (b : option rn_buf) (g : list (list N)) : Prop :=
  exists p, b = Some p /\ (length p <= cap)%nat /\ rn_is_sgr p g.

Lemma color_fg_piece c : rn_color_wf c -> rn_buffer_piece (rn_color_fg_buffer c) (rn_fg_groups (rn_colour c)).
Proof.
  unfold rn_color_wf, rn_buffer_piece. destruct c as [a|n|r g b]; cbn [rn_colour rn_colour_wf rn_color_fg_buffer].
  - intros _. destruct (table_entry_sgr _ _ (ansi_fg_table a)) as [S L].
    exists (ansi_fg_str a). split; [|split; assumption].
    unfold rn_ansi_fg_buffer. rewrite buf_write_str_ok by (cbn [rn_buf_new length]; lia). reflexivity.
  - intros H. apply (idx_buffer 38 51 56); try reflexivity; assumption.
  - intros (Hr & Hg & Hb). apply (rgb_buffer 38 51 56); try reflexivity; assumption.
Qed.

Lemma color_bg_piece c : rn_color_wf c -> rn_buffer_piece (rn_color_bg_buffer c) (rn_bg_groups (rn_colour c)).
Proof.
  unfold rn_color_wf, rn_buffer_piece. destruct c as [a|n|r g b]; cbn [rn_colour rn_colour_wf rn_color_bg_buffer].
  - intros _. destruct (table_entry_sgr _ _ (ansi_bg_table a)) as [S L].
    exists (ansi_bg_str a). split; [|split; assumption].
    unfold rn_ansi_bg_buffer. rewrite buf_write_str_ok by (cbn [rn_buf_new length]; lia). reflexivity.
  - intros H. apply (idx_buffer 48 52 56); try reflexivity; assumption.
  - intros (Hr & Hg & Hb). apply (rgb_buffer 48 52 56); try reflexivity; assumption.
Qed.

Lemma color_ul_piece c : rn_color_wf c -> rn_buffer_piece (rn_color_ul_buffer c) (rn_ul_groups (rn_colour c)).
Proof.
  unfold rn_color_wf, rn_buffer_piece. destruct c as [a|n|r g b]; cbn [rn_colour rn_colour_wf rn_color_ul_buffer].
  - intros H. unfold rn_ansi_ul_buffer. rewrite ansi256_from_disc.
    apply (idx_buffer 58 53 56); try reflexivity. lia.
  - intros H. apply (idx_buffer 58 53 56); try reflexivity; assumption.
  - intros (Hr & Hg & Hb). apply (rgb_buffer 58 53 56); try reflexivity; assumption.
Qed.

(* ======================================================================== *)
(* 3. what the model renders                                                  *)

Definition rn_effect_escape (i : N) : list N := snd (nth (N.to_nat i) metadata ([], [])).

Lemma metadata_get i : i < 12 -> aget metadata i = Some (nth (N.to_nat i) metadata ([], [])).
Proof. intros H. cases12 H; reflexivity. Qed.

Lemma effect_table i : i < 12 -> rn_table_entry (rn_effect_escape i) (rn_effect_groups i) = true.
Proof. intros H. cases12 H; vm_compute; reflexivity. Qed.

Definition rn_add_out (f : rn_fmt) (bs : list N) : rn_fmt := rn_f_write_str f bs.

Lemma write_str_twice f a b : rn_f_write_str (rn_f_write_str f a) b = rn_f_write_str f (a ++ b).
Proof. unfold rn_f_write_str. cbn. now rewrite app_assoc. Qed.

Lemma write_str_nil f : rn_f_write_str f [] = f.
Proof. destruct f. unfold rn_f_write_str. cbn. now rewrite app_nil_r. Qed.

Lemma fmt_effects_loop_ok l : forall f, Forall (fun i => i < 12) l ->
  rn_fmt_effects_loop l f = Some (rn_f_write_str f (concat (map rn_effect_escape l))).
Proof.
  induction l as [|i t IH]; intros f H; cbn [rn_fmt_effects_loop map concat].
  - now rewrite write_str_nil.
  - inversion H; subst. rewrite metadata_get by assumption. rewrite IH by assumption.
    now rewrite write_str_twice.
Qed.

Lemma fmt_effects_ok e f :
  rn_fmt_effects e f = Some (rn_f_write_str f (concat (map rn_effect_escape (members e)))).
Proof. unfold rn_fmt_effects. rewrite index_iter_members. apply fmt_effects_loop_ok, members_lt. Qed.

Lemma effects_pieces l : Forall (fun i => i < 12) l ->
  Forall2 rn_is_sgr (map rn_effect_escape l) (map rn_effect_groups l).
Proof.
  induction 1 as [|i t Hi _ IH]; cbn [map]; constructor; [|exact IH].
  apply (table_entry_sgr _ _ (effect_table i Hi)).
Qed.

Definition rn_opiece (buffer : color -> option rn_buf) (o : option color) : list (list N) :=
  match o with
  | Some c => match buffer c with Some p => [p] | None => [] end
  | None => []
  end.

Lemma fmt_ocolor_ok buffer groups o f :
  (forall c, rn_color_wf c -> rn_buffer_piece (buffer c) (groups (rn_colour c))) ->
  rn_ocolour_wf (option_map rn_colour o) ->
  rn_fmt_ocolor buffer o f = Some (rn_f_write_str f (concat (rn_opiece buffer o))) /\
  Forall2 rn_is_sgr (rn_opiece buffer o) (rn_opt groups (option_map rn_colour o)) /\
  Forall (fun p => (length p <= cap)%nat) (rn_opiece buffer o).
Proof.
  intros Hb Hw. destruct o as [c|]; cbn [rn_fmt_ocolor rn_opiece option_map rn_opt concat].
  - destruct (Hb c Hw) as (p & -> & L & S). cbn [rn_fmt_buffer concat]. rewrite app_nil_r.
    split; [reflexivity|]. split.
    + constructor; [exact S|constructor].
    + constructor; [exact L|constructor].
  - rewrite write_str_nil. split; [reflexivity|]. split; constructor.
Qed.

Definition rn_pieces (s : style) : list (list N) :=
  map rn_effect_escape (members (st_eff s))
  ++ rn_opiece rn_color_fg_buffer (st_fg s) ++ rn_opiece rn_color_bg_buffer (st_bg s)
  ++ rn_opiece rn_color_ul_buffer (st_ul s).

Lemma fmt_to_ok s f : rn_wf (rn_sstyle s) ->
  rn_style_fmt_to s f = Some (rn_f_write_str f (concat (rn_pieces s))) /\
  Forall2 rn_is_sgr (rn_pieces s) (rn_groups_of (rn_sstyle s)).
Proof.
  intros (_ & Hf & Hb & Hu). unfold rn_sstyle in Hf, Hb, Hu. cbn [s_fg s_bg s_ul] in Hf, Hb, Hu.
  unfold rn_style_fmt_to, rn_fmt_order. cbn [rn_fmt_slots rn_fmt_slot].
  rewrite fmt_effects_ok.
  destruct (fmt_ocolor_ok rn_color_fg_buffer rn_fg_groups (st_fg s)
              (rn_f_write_str f (concat (map rn_effect_escape (members (st_eff s))))) color_fg_piece Hf) as (-> & F1 & _).
  rewrite write_str_twice.
  destruct (fmt_ocolor_ok rn_color_bg_buffer rn_bg_groups (st_bg s)
              (rn_f_write_str f (concat (map rn_effect_escape (members (st_eff s))) ++ concat (rn_opiece rn_color_fg_buffer (st_fg s))))
              color_bg_piece Hb) as (-> & F2 & _).
  rewrite write_str_twice.
  match goal with |- context [rn_fmt_ocolor rn_color_ul_buffer (st_ul s) ?ff] =>
    destruct (fmt_ocolor_ok rn_color_ul_buffer rn_ul_groups (st_ul s) ff color_ul_piece Hu) as (-> & F3 & _) end.
  rewrite write_str_twice. split.
  - unfold rn_pieces. rewrite !concat_app, <- !app_assoc. reflexivity.
  - unfold rn_pieces, rn_groups_of, rn_sstyle. cbn [s_eff s_fg s_bg s_ul].
    repeat apply Forall2_app; try assumption. apply effects_pieces, members_lt.
Qed.

Lemma render_ok s : rn_wf (rn_sstyle s) -> rn_render_style s = Some (concat (rn_pieces s)).
Proof.
  intros H. unfold rn_render_style, rn_display_render, rn_format.
  destruct (fmt_to_ok s (mkRnFmt false rn_no_flags []) H) as [-> _]. reflexivity.
Qed.

Lemma render_is_sgr_only s : rn_wf (rn_sstyle s) ->
  exists bs, rn_render_style s = Some bs /\ spec_events bs = map rn_sgr (rn_groups_of (rn_sstyle s)).
Proof.
  intros H. exists (concat (rn_pieces s)). split; [now apply render_ok|].
  destruct (fmt_to_ok s (mkRnFmt false rn_no_flags []) H) as [_ F].
  destruct (spec_events_pieces_from _ _ vt_init F ground_init) as (s' & E & _).
  unfold spec_events. now rewrite E.
Qed.

Lemma strip_nothing s : rn_wf (rn_sstyle s) ->
  exists bs, rn_render_style s = Some bs /\ spec_strip bs = [].
Proof.
  intros H. exists (concat (rn_pieces s)). split; [now apply render_ok|].
  destruct (fmt_to_ok s (mkRnFmt false rn_no_flags []) H) as [_ F].
  unfold spec_strip. now rewrite (strip_pieces _ _ F).
Qed.

(* no DisplayBuffer write is out of bounds: for every colour in every slot the
   buffer is built, and holds at most DISPLAY_BUFFER_CAPACITY bytes *)
Lemma buffer_bound c : rn_color_wf c ->
  (exists p, rn_color_fg_buffer c = Some p /\ N.of_nat (length p) <= rn_display_buffer_capacity) /\
  (exists p, rn_color_bg_buffer c = Some p /\ N.of_nat (length p) <= rn_display_buffer_capacity) /\
  (exists p, rn_color_ul_buffer c = Some p /\ N.of_nat (length p) <= rn_display_buffer_capacity).
Proof.
  intros H.
  destruct (color_fg_piece c H) as (p1 & E1 & L1 & _).
  destruct (color_bg_piece c H) as (p2 & E2 & L2 & _).
  destruct (color_ul_piece c H) as (p3 & E3 & L3 & _).
  unfold cap in *. repeat split; eexists; (split; [eassumption|lia]).
Qed.

(* the capacity is exactly what is needed: an RGB colour with three-digit components *)
Lemma buffer_bound_tight : option_map (@length N) (rn_color_ul_buffer (CoRgb 255 255 255)) = Some cap.
Proof. reflexivity. Qed.

(* write_code on its own *)
Lemma write_code_decimal n : n < 256 ->
  exists ds, rn_write_code rn_buf_new n = Some ds /\ forallb rn_is_digit ds = true /\
             rn_dec_value ds = n /\ (1 <= length ds <= 3)%nat.
Proof.
  intros H. exists (rn_code_digits n). split.
  - rewrite write_code_ok by (cbn; lia). reflexivity.
  - apply code_digits_spec. lia.
Qed.

(* ======================================================================== *)
(* 4. interpreting the groups by the SGR rules                                *)

Lemma rn_interp_snd es : forall s, snd (interp s es) = rn_interp_style es s.
Proof.
  unfold rn_interp_style.
  induction es as [|e t IH]; intros s; cbn [interp fold_left]; [reflexivity|].
  rewrite <- IH. destruct (interp (event_style s e) t) as [out s2].
  destruct e; cbn [snd]; try reflexivity. destruct (is_ws_exec b); reflexivity.
Qed.

Lemma interp_sgr_groups gs : forall s,
  rn_interp_style (map rn_sgr gs) s = fold_left sgr_apply gs s.
Proof.
  unfold rn_interp_style. induction gs as [|g t IH]; intros s; cbn [map fold_left]; [reflexivity|].
  rewrite IH. reflexivity.
Qed.

Definition is_ul (i : N) : bool := (3 <=? i) && (i <=? 7).

Definition eff_step (e i : N) : N :=
  if is_ul i then N.lor (N.ldiff e underline_mask) (bit i) else N.lor e (bit i).

Lemma effect_apply s i : i < 12 ->
  sgr_apply s (rn_effect_groups i) = Sgr.mkStyle (s_fg s) (s_bg s) (s_ul s) (eff_step (s_eff s) i).
Proof. intros H. cases12 H; reflexivity. Qed.

Lemma effects_apply l : forall s, Forall (fun i => i < 12) l ->
  fold_left sgr_apply (map rn_effect_groups l) s =
  Sgr.mkStyle (s_fg s) (s_bg s) (s_ul s) (fold_left eff_step l (s_eff s)).
Proof.
  induction l as [|i t IH]; intros s H; cbn [map fold_left].
  - now destruct s.
  - inversion H; subst. rewrite effect_apply by assumption. rewrite IH by assumption. reflexivity.
Qed.

Lemma mask_bits j : N.testbit underline_mask j = is_ul j.
Proof.
  unfold underline_mask, is_ul.
  destruct (N.lt_ge_cases j 8) as [H|H].
  - assert (C : j = 0 \/ j = 1 \/ j = 2 \/ j = 3 \/ j = 4 \/ j = 5 \/ j = 6 \/ j = 7) by lia.
    repeat (destruct C as [C|C]; [subst; reflexivity|]). subst. reflexivity.
  - rewrite N.bits_above_log2 by (change (N.log2 248) with 7; lia).
    symmetry. apply andb_false_iff. right. apply N.leb_gt. lia.
Qed.

Lemma bit_bits k j : N.testbit (bit k) j = (k =? j).
Proof. unfold bit. rewrite N.shiftl_1_l. apply N.pow2_bits_eqb. Qed.

Lemma is_ul_eqb i j : is_ul i = true -> is_ul j = false -> (i =? j) = false.
Proof. intros A B. apply N.eqb_neq. intros ->. congruence. Qed.

(* bit by bit: what a sequence of effect selections leaves *)
Lemma fold_bits l : forall a j,
  N.testbit (fold_left eff_step l a) j =
  if is_ul j
  then match rn_last_opt (filter is_ul l) with Some k => k =? j | None => N.testbit a j end
  else N.testbit a j || existsb (N.eqb j) l.
Proof.
  induction l as [|i t IH]; intros a j; cbn [fold_left filter rn_last_opt existsb].
  - destruct (is_ul j); [reflexivity|now rewrite orb_false_r].
  - rewrite IH. unfold eff_step.
    destruct (is_ul j) eqn:Uj.
    + destruct (is_ul i) eqn:Ui; cbn [rn_last_opt].
      * destruct (rn_last_opt (filter is_ul t)); [reflexivity|].
        rewrite N.lor_spec, N.ldiff_spec, mask_bits, Uj, bit_bits. cbn. now rewrite andb_false_r.
      * destruct (rn_last_opt (filter is_ul t)); [reflexivity|].
        rewrite N.lor_spec, bit_bits. rewrite (N.eqb_sym i j), (is_ul_eqb j i Uj Ui). now rewrite orb_false_r.
    + destruct (is_ul i) eqn:Ui.
      * rewrite N.lor_spec, N.ldiff_spec, mask_bits, Uj, bit_bits. cbn [negb]. rewrite andb_true_r.
        rewrite (N.eqb_sym j i). now rewrite orb_assoc.
      * rewrite N.lor_spec, bit_bits. rewrite (N.eqb_sym j i). now rewrite orb_assoc.
Qed.

Lemma filter_comm {A} (f g : A -> bool) l : filter f (filter g l) = filter g (filter f l).
Proof.
  induction l as [|x t IH]; cbn; [reflexivity|].
  destruct (g x) eqn:G, (f x) eqn:F; cbn; rewrite ?G, ?F, IH; reflexivity.
Qed.

Lemma members_kinds e : filter is_ul (members e) = rn_underline_kinds e.
Proof. unfold members, rn_underline_kinds. rewrite filter_comm. reflexivity. Qed.

Lemma existsb_members e j : existsb (N.eqb j) (members e) = (j <? 12) && mem e j.
Proof.
  destruct (existsb (N.eqb j) (members e)) eqn:E.
  - apply existsb_exists in E. destruct E as (x & Hx & Hj). apply N.eqb_eq in Hj. subst x.
    apply members_In in Hx. destruct Hx as [A B]. rewrite B. apply N.ltb_lt in A. now rewrite A.
  - symmetry. apply not_true_iff_false. intros H. apply andb_true_iff in H. destruct H as [A B].
    apply N.ltb_lt in A. assert (X : existsb (N.eqb j) (members e) = true).
    { apply existsb_exists. exists j. split; [now apply members_In|apply N.eqb_refl]. }
    congruence.
Qed.

Lemma effects_fold e : valid e -> fold_left eff_step (members e) 0 = rn_last_kind_wins e.
Proof.
  intros V. apply N.bits_inj. intros j. rewrite fold_bits, members_kinds. unfold rn_last_kind_wins.
  rewrite N.lor_spec, N.ldiff_spec, mask_bits, N.bits_0. cbn [orb].
  destruct (is_ul j) eqn:U; cbn [negb]; rewrite ?andb_false_r, ?andb_true_r; cbn [orb].
  - destruct (rn_last_opt (rn_underline_kinds e)); [now rewrite bit_bits|now rewrite N.bits_0].
  - rewrite existsb_members.
    assert (Z : N.testbit (match rn_last_opt (rn_underline_kinds e) with Some k => bit k | None => 0 end) j = false).
    { destruct (rn_last_opt (rn_underline_kinds e)) as [k|] eqn:L; [|apply N.bits_0].
      rewrite bit_bits. apply is_ul_eqb; [|exact U].
      assert (I : In k (rn_underline_kinds e)).
      { clear -L. revert k L. induction (rn_underline_kinds e) as [|x t IH]; intros k L; [discriminate|].
        cbn [rn_last_opt] in L. destruct (rn_last_opt t) as [y|] eqn:Y.
        - injection L as <-. right. now apply IH.
        - injection L as <-. now left. }
      rewrite <- members_kinds in I. apply filter_In in I. tauto. }
    rewrite Z, orb_false_r. fold (mem e j).
    destruct (N.ltb_spec j 12) as [H|H]; [reflexivity|]. cbn [andb]. symmetry. now apply valid_high.
Qed.

(* at most one underline kind: nothing is lost *)
Lemma last_kind_wins_id e : (length (rn_underline_kinds e) <= 1)%nat -> rn_last_kind_wins e = e.
Proof.
  intros H. apply N.bits_inj. intros j. unfold rn_last_kind_wins.
  rewrite N.lor_spec, N.ldiff_spec, mask_bits. fold (mem e j).
  assert (K : forall i, is_ul i = true -> mem e i = true -> In i (rn_underline_kinds e)).
  { intros i U M. unfold rn_underline_kinds. apply filter_In. split; [|exact M].
    unfold is_ul in U. apply andb_true_iff in U. destruct U as [A B]. apply N.leb_le in A, B.
    assert (C : i = 3 \/ i = 4 \/ i = 5 \/ i = 6 \/ i = 7) by lia. cbn [In]. intuition. }
  destruct (rn_underline_kinds e) as [|k [|k' t]] eqn:E; cbn [rn_last_opt length] in *; [| |lia].
  - rewrite N.bits_0, orb_false_r. destruct (is_ul j) eqn:U; cbn [negb]; [|now rewrite andb_true_r].
    rewrite andb_false_r. destruct (mem e j) eqn:M; [|reflexivity]. destruct (K j U M).
  - rewrite bit_bits. destruct (is_ul j) eqn:U; cbn [negb].
    + rewrite andb_false_r. cbn [orb]. destruct (mem e j) eqn:M.
      * destruct (K j U M) as [->|[]]. apply N.eqb_refl.
      * apply N.eqb_neq. intros ->.
        assert (I : In j (rn_underline_kinds e)) by (rewrite E; now left).
        unfold rn_underline_kinds in I. apply filter_In in I. destruct I as [_ I]. congruence.
    + rewrite andb_true_r.
      assert (I : In k (rn_underline_kinds e)) by (rewrite E; now left).
      rewrite <- members_kinds in I. apply filter_In in I. destruct I as [_ I].
      rewrite (is_ul_eqb k j I U). now rewrite orb_false_r.
Qed.

Lemma ansi_cases i : i < 16 ->
  i = 0 \/ i = 1 \/ i = 2 \/ i = 3 \/ i = 4 \/ i = 5 \/ i = 6 \/ i = 7 \/
  i = 8 \/ i = 9 \/ i = 10 \/ i = 11 \/ i = 12 \/ i = 13 \/ i = 14 \/ i = 15.
Proof. lia. Qed.

Lemma fg_apply s c : rn_colour_wf c -> sgr_apply s (rn_fg_groups c) = set_fg s (Some c).
Proof.
  destruct c as [i|n|r g b]; cbn [rn_colour_wf]; intros H; [|reflexivity|reflexivity].
  apply ansi_cases in H. repeat (destruct H as [H|H]; [subst; reflexivity|]). subst. reflexivity.
Qed.

Lemma bg_apply s c : rn_colour_wf c -> sgr_apply s (rn_bg_groups c) = set_bg s (Some c).
Proof.
  destruct c as [i|n|r g b]; cbn [rn_colour_wf]; intros H; [|reflexivity|reflexivity].
  apply ansi_cases in H. repeat (destruct H as [H|H]; [subst; reflexivity|]). subst. reflexivity.
Qed.

Lemma ul_apply s c : sgr_apply s (rn_ul_groups c) = set_ulc s (rn_norm_ul (Some c)).
Proof. destruct c; reflexivity. Qed.

(* the spec-level round trip, for every style value, no underline hypothesis *)
Lemma groups_roundtrip_general t : rn_wf t ->
  rn_interp_style (map rn_sgr (rn_groups_of t)) style_default = rn_norm_general t.
Proof.
  intros (V & Hf & Hb & Hu). rewrite interp_sgr_groups. unfold rn_groups_of.
  rewrite !fold_left_app. rewrite effects_apply by apply members_lt.
  cbn [style_default s_fg s_bg s_ul s_eff]. rewrite (effects_fold _ V).
  destruct t as [[f|] [b|] [u|] e]; cbn [s_fg s_bg s_ul s_eff rn_opt fold_left rn_ocolour_wf] in *;
    rewrite ?fg_apply, ?bg_apply, ?ul_apply by assumption; reflexivity.
Qed.

Lemma groups_roundtrip t : rn_wf t -> rn_at_most_one_underline_kind t ->
  rn_interp_style (map rn_sgr (rn_groups_of t)) style_default = rn_norm t.
Proof.
  intros W H. rewrite (groups_roundtrip_general t W). unfold rn_norm_general, rn_norm.
  now rewrite (last_kind_wins_id _ H).
Qed.

Lemma render_roundtrip_general s : rn_wf (rn_sstyle s) ->
  exists bs, rn_render_style s = Some bs /\
             rn_interp_style (spec_events bs) style_default = rn_norm_general (rn_sstyle s).
Proof.
  intros W. destruct (render_is_sgr_only s W) as (bs & E & Ev). exists bs. split; [exact E|].
  rewrite Ev. now apply groups_roundtrip_general.
Qed.

Lemma render_roundtrip s : rn_wf (rn_sstyle s) -> rn_at_most_one_underline_kind (rn_sstyle s) ->
  exists bs, rn_render_style s = Some bs /\
             rn_interp_style (spec_events bs) style_default = rn_norm (rn_sstyle s).
Proof.
  intros W H. destruct (render_is_sgr_only s W) as (bs & E & Ev). exists bs. split; [exact E|].
  rewrite Ev. now apply groups_roundtrip.
Qed.

(* ======================================================================== *)
(* 5. reset, the io::Write path, the format flags                              *)

Lemma reset_empty_iff s : rn_render_reset s = [] <-> s = st_new.
Proof.
  unfold rn_render_reset. destruct (style_eqb s st_new) eqn:E; cbn [negb].
  - split; [intros _; now apply style_eqb_eq|reflexivity].
  - split; [discriminate|]. intros ->. rewrite (proj2 (style_eqb_eq st_new st_new) eq_refl) in E. discriminate.
Qed.

Lemma reset_interp t : rn_interp_style (spec_events rn_reset_str) t = style_default.
Proof. reflexivity. Qed.

Lemma reset_semantics s :
  (rn_render_reset s = [] <-> s = st_new) /\
  (s = st_new <-> st_is_plain s = true) /\
  (s <> st_new -> rn_render_reset s = rn_reset_str) /\
  (forall t, rn_interp_style (spec_events rn_reset_str) t = style_default) /\
  spec_strip rn_reset_str = [].
Proof.
  split; [apply reset_empty_iff|]. split; [symmetry; apply st_is_plain_iff|]. split; [|split; [apply reset_interp|reflexivity]].
  intros H. unfold rn_render_reset. destruct (style_eqb s st_new) eqn:E; [|reflexivity].
  apply style_eqb_eq in E. contradiction.
Qed.

(* rendering, then the reset form: the terminal is back in its default state *)
Lemma render_then_reset s : rn_wf (rn_sstyle s) ->
  exists bs, rn_render_style s = Some bs /\
             rn_interp_style (spec_events (bs ++ rn_render_reset s)) style_default = style_default.
Proof.
  intros W. exists (concat (rn_pieces s)). split; [now apply render_ok|].
  destruct (fmt_to_ok s (mkRnFmt false rn_no_flags []) W) as [_ F].
  destruct (spec_events_pieces_from _ _ vt_init F ground_init) as (s1 & E1 & G1).
  unfold rn_render_reset. destruct (style_eqb s st_new) eqn:Q; cbn [negb].
  - apply style_eqb_eq in Q. subst s. reflexivity.
  - assert (R : rn_is_sgr rn_reset_str [[0]]).
    { exists [[[48]]]. repeat split. }
    destruct R as (pr & Rok & Rp & Rv).
    destruct (rn_csi_roundtrip pr s1 Rok G1) as (s2 & E2 & _).
    unfold spec_events. rewrite vt_run_app, E1, Rp, E2. cbn [snd].
    unfold rn_interp_style. rewrite fold_left_app. cbn [fold_left]. rewrite Rv. reflexivity.
Qed.

(* ---- io::Write path = Display path ---- *)

Definition paths_rel (w : option rn_writer) (f0 : rn_fmt) (f : option rn_fmt) : Prop :=
  match w, f with
  | Some w', Some f' => f' = mkRnFmt (fm_alternate f0) (fm_flags f0) (concat w')
  | None, None => True
  | _, _ => False
  end.

Lemma concat_snoc1 (w : list (list N)) x : concat (w ++ [x]) = concat w ++ x.
Proof. apply concat_snoc. Qed.

Lemma paths_effects_loop l : forall w f, fm_out f = concat w ->
  paths_rel (rn_write_effects_loop l w) f (rn_fmt_effects_loop l f).
Proof.
  induction l as [|i t IH]; intros w f H; cbn [rn_write_effects_loop rn_fmt_effects_loop].
  - unfold paths_rel. destruct f; cbn in *. now subst.
  - destruct (aget metadata i) as [md|]; [|exact I].
    specialize (IH (w ++ [snd md]) (rn_f_write_str f (snd md))). cbn [rn_f_write_str fm_out fm_alternate fm_flags] in IH.
    apply IH. rewrite concat_snoc1. now rewrite H.
Qed.

Lemma paths_ocolor buffer o w f : fm_out f = concat w ->
  paths_rel (rn_write_ocolor buffer o w) f (rn_fmt_ocolor buffer o f).
Proof.
  intros H. destruct o as [c|]; cbn [rn_write_ocolor rn_fmt_ocolor].
  - unfold rn_buffer_write_to, rn_fmt_buffer. destruct (buffer c) as [p|]; [|exact I].
    unfold paths_rel, rn_f_write_str. rewrite concat_snoc1, H. reflexivity.
  - unfold paths_rel. destruct f; cbn in *. now subst.
Qed.

Lemma paths_slot s sl w f : fm_out f = concat w ->
  paths_rel (rn_write_slot s sl w) f (rn_fmt_slot s sl f).
Proof.
  intros H. destruct sl; cbn [rn_write_slot rn_fmt_slot]; try now apply paths_ocolor.
  unfold rn_write_effects, rn_fmt_effects. destruct (e_index_iter (st_eff s)); [|exact I].
  now apply paths_effects_loop.
Qed.

Lemma paths_slots s l : forall w f, fm_out f = concat w ->
  paths_rel (rn_write_slots s l w) f (rn_fmt_slots s l f).
Proof.
  induction l as [|sl t IH]; intros w f H; cbn [rn_write_slots rn_fmt_slots].
  - unfold paths_rel. destruct f; cbn in *. now subst.
  - pose proof (paths_slot s sl w f H) as P.
    destruct (rn_write_slot s sl w) as [w'|], (rn_fmt_slot s sl f) as [f'|]; cbn [paths_rel] in P; try contradiction; [|exact I].
    subst f'. specialize (IH w' (mkRnFmt (fm_alternate f) (fm_flags f) (concat w')) eq_refl).
    exact IH.
Qed.

Lemma orders_agree : rn_write_order = rn_fmt_order.
Proof. reflexivity. Qed.

Lemma paths_agree s : option_map (@concat N) (rn_write_to s) = rn_render_style s.
Proof.
  unfold rn_write_to, rn_render_style, rn_display_render, rn_format, rn_style_fmt_to. rewrite orders_agree.
  pose proof (paths_slots s rn_fmt_order [] (mkRnFmt false rn_no_flags []) eq_refl) as P.
  destruct (rn_write_slots s rn_fmt_order []) as [w|], (rn_fmt_slots s rn_fmt_order (mkRnFmt false rn_no_flags [])) as [f|];
    cbn [paths_rel] in P; try contradiction; [|reflexivity].
  subst f. reflexivity.
Qed.

Lemma paths_agree_reset s : concat (rn_write_reset_to s) = rn_render_reset s.
Proof. unfold rn_write_reset_to, rn_render_reset. destruct (negb _); reflexivity. Qed.

(* ---- the flags are carried along and never looked at ---- *)

(* every Display impl on the path only appends bytes that do not depend on the
   formatter: what is appended, as a function of the value alone *)
Fixpoint effects_bytes (l : list N) : option (list N) :=
  match l with
  | [] => Some []
  | i :: t => md <- aget metadata i ;; r <- effects_bytes t ;; Some (snd md ++ r)
  end.

Definition ocolor_bytes (buffer : color -> option rn_buf) (o : option color) : option (list N) :=
  match o with Some c => buffer c | None => Some [] end.

Definition slot_bytes (s : style) (sl : rn_slot) : option (list N) :=
  match sl with
  | RnEffects => l <- e_index_iter (st_eff s) ;; effects_bytes l
  | RnFg => ocolor_bytes rn_color_fg_buffer (st_fg s)
  | RnBg => ocolor_bytes rn_color_bg_buffer (st_bg s)
  | RnUl => ocolor_bytes rn_color_ul_buffer (st_ul s)
  end.

Fixpoint slots_bytes (s : style) (l : list rn_slot) : option (list N) :=
  match l with
  | [] => Some []
  | sl :: t => a <- slot_bytes s sl ;; b <- slots_bytes s t ;; Some (a ++ b)
  end.

Lemma fmt_effects_loop_bytes l : forall f,
  rn_fmt_effects_loop l f = option_map (rn_f_write_str f) (effects_bytes l).
Proof.
  induction l as [|i t IH]; intros f; cbn [rn_fmt_effects_loop effects_bytes option_map].
  - now rewrite write_str_nil.
  - destruct (aget metadata i) as [md|]; [|reflexivity]. rewrite IH.
    destruct (effects_bytes t); cbn [option_map]; [|reflexivity]. now rewrite write_str_twice.
Qed.

Lemma fmt_slot_bytes s sl f : rn_fmt_slot s sl f = option_map (rn_f_write_str f) (slot_bytes s sl).
Proof.
  assert (O : forall buffer o, rn_fmt_ocolor buffer o f = option_map (rn_f_write_str f) (ocolor_bytes buffer o)).
  { intros buffer [c|]; cbn [rn_fmt_ocolor ocolor_bytes option_map]; [|now rewrite write_str_nil].
    unfold rn_fmt_buffer. now destruct (buffer c). }
  destruct sl; cbn [rn_fmt_slot slot_bytes]; try apply O.
  unfold rn_fmt_effects. destruct (e_index_iter (st_eff s)); [apply fmt_effects_loop_bytes|reflexivity].
Qed.

Lemma fmt_slots_bytes s l : forall f, rn_fmt_slots s l f = option_map (rn_f_write_str f) (slots_bytes s l).
Proof.
  induction l as [|sl t IH]; intros f; cbn [rn_fmt_slots slots_bytes option_map].
  - now rewrite write_str_nil.
  - rewrite fmt_slot_bytes. destruct (slot_bytes s sl) as [a|]; cbn [option_map]; [|reflexivity].
    rewrite IH. destruct (slots_bytes s t); cbn [option_map]; [|reflexivity]. now rewrite write_str_twice.
Qed.

Lemma display_render_bytes alternate flags s :
  rn_display_render alternate flags s = slots_bytes s rn_fmt_order.
Proof.
  unfold rn_display_render, rn_format, rn_style_fmt_to. rewrite fmt_slots_bytes.
  destruct (slots_bytes s rn_fmt_order); reflexivity.
Qed.

(* `style.render()`: neither the flags nor `#` matter *)
Lemma flags_irrelevant_render flags alternate s : rn_display_render alternate flags s = rn_render_style s.
Proof. unfold rn_render_style. now rewrite !display_render_bytes. Qed.

(* `{}` is render, `{:#}` is render_reset, whatever the flags *)
Lemma display_forms flags s :
  rn_display false flags s = rn_render_style s /\ rn_display true flags s = Some (rn_render_reset s).
Proof.
  split; [|reflexivity].
  change (rn_display false flags s) with (rn_display_render false flags s). apply flags_irrelevant_render.
Qed.

Lemma flags_irrelevant flags alternate s : rn_display alternate flags s = rn_display alternate rn_no_flags s.
Proof.
  destruct alternate.
  - reflexivity.
  - now rewrite (proj1 (display_forms flags s)), (proj1 (display_forms rn_no_flags s)).
Qed.

(* the other public renderers *)
Lemma flags_irrelevant_others flags alternate :
  (forall s, rn_display_reset_of alternate flags s = Some (rn_render_reset s)) /\
  (forall e, rn_display_effects alternate flags e = rn_display_effects false rn_no_flags e) /\
  (forall c, rn_display_color_fg alternate flags c = rn_color_fg_buffer c) /\
  (forall c, rn_display_color_bg alternate flags c = rn_color_bg_buffer c) /\
  (forall a, rn_display_ansi_fg alternate flags a = Some (ansi_fg_str a)) /\
  (forall a, rn_display_ansi_bg alternate flags a = Some (ansi_bg_str a)) /\
  rn_display_reset alternate flags = Some rn_reset_str.
Proof.
  repeat split; intros.
  - unfold rn_display_effects, rn_format, rn_fmt_effects.
    destruct (e_index_iter e); [|reflexivity]. rewrite !fmt_effects_loop_bytes.
    destruct (effects_bytes l); reflexivity.
  - unfold rn_display_color_fg, rn_format, rn_fmt_buffer. now destruct (rn_color_fg_buffer c).
  - unfold rn_display_color_bg, rn_format, rn_fmt_buffer. now destruct (rn_color_bg_buffer c).
Qed.
