(* Proofs/StreamAuto.v -- C08: AutoStream forwards every Write method to the arm
   chosen at construction.  Never = StripStream (same results, same inner-writer
   history); AlwaysAnsi / Always = the inner writer itself; with an accept-all
   inner writer the delivered bytes are the stripped resp. unchanged data. *)
From Coq Require Import NArith Arith List Bool Lia.
From AV Require Import Generated.Table Spec.Io Spec.Strip Model.Base Model.Utf8parse Model.Parser Model.Strip
  Model.Stream Proofs.TableFacts Proofs.StripMachine Proofs.StripSim Proofs.StreamIo Proofs.Stream.
Import ListNotations.
Local Open Scope N_scope.

(* StripStream driven directly: the fold of [ss_op] *)
Fixpoint ss_run (s : sbytes) (w : writer) (ops : list sop) : option (sbytes * writer * list sres) :=
  match ops with
  | [] => Some (s, w, [])
  | o :: rest =>
      '(s1, w1, r) <- ss_op s w o ;;
      '(s2, w2, rs) <- ss_run s1 w1 rest ;;
      Some (s2, w2, r :: rs)
  end.

(* the inner writer driven directly: the fold of [pass_op] *)
Fixpoint pass_run (wv_all : bool) (w : writer) (ops : list sop) : writer * list sres :=
  match ops with
  | [] => (w, [])
  | o :: rest =>
      let '(w1, r) := pass_op wv_all w o in
      let '(w2, rs) := pass_run wv_all w1 rest in
      (w2, r :: rs)
  end.

(* the bytes an operation hands over, and what it answers when nothing goes wrong *)
Definition pass_data (wv_all : bool) (o : sop) : list N :=
  match o with
  | OWrite buf => buf
  | OWriteAll buf => buf
  | OWriteVectored bufs => if wv_all then concat bufs else first_nonempty bufs
  | OWriteFmt frags => concat frags
  | OFlush => []
  end.

Definition pass_res (wv_all : bool) (o : sop) : sres :=
  match o with
  | OWrite _ | OWriteVectored _ => ROkN (N.of_nat (length (pass_data wv_all o)))
  | _ => ROk
  end.

Definition strip_data (o : sop) : list N := pass_data false o.
Definition strip_res (o : sop) : sres := pass_res false o.

(* ---- forwarding ------------------------------------------------------------------ *)

Lemma run_ops_strip b s w ops : run_ops b MStrip s w ops = ss_run s w ops.
Proof.
  revert s w. induction ops as [|o rest IH]; intros s w; cbn [run_ops ss_run auto_op]; [reflexivity|].
  destruct (ss_op s w o) as [[[s1 w1] r]|]; [|reflexivity]. rewrite IH. reflexivity.
Qed.

Lemma run_ops_pass b s w ops :
  run_ops b MPass s w ops = Some (s, fst (pass_run b w ops), snd (pass_run b w ops)).
Proof.
  revert w. induction ops as [|o rest IH]; intros w; cbn [run_ops pass_run auto_op]; [reflexivity|].
  destruct (pass_op b w o) as [w1 r]. rewrite IH. destruct (pass_run b w1 rest) as [w2 rs]. reflexivity.
Qed.

Theorem never_is_strip : forall b d s w ops,
  run_ops b (auto_mode CNever d) s w ops = ss_run s w ops.
Proof. intros. apply run_ops_strip. Qed.

(* ---- accept-all writers under the pass-through arm --------------------------------- *)

Lemma w_write_fmt_accept_all : forall frags w,
  w_script w = [] ->
  exists w1, w_write_fmt w frags = (w1, ROk) /\ w_script w1 = [] /\
             w_received w1 = w_received w ++ concat frags.
Proof.
  induction frags as [|fr rest IH]; intros w Hs; cbn [w_write_fmt concat].
  - exists w. rewrite app_nil_r. auto.
  - destruct (w_write_all_accept_all w fr Hs) as (w1 & Hw & Hs1 & Hrec1). rewrite Hw.
    destruct (IH w1 Hs1) as (w2 & Hf & Hs2 & Hrec2). exists w2. split; [exact Hf|].
    split; [exact Hs2|]. rewrite Hrec2, Hrec1, app_assoc. reflexivity.
Qed.

Lemma pass_op_accept_all b w o :
  w_script w = [] ->
  exists w1, pass_op b w o = (w1, pass_res b o) /\ w_script w1 = [] /\
             w_received w1 = w_received w ++ pass_data b o.
Proof.
  intros Hs. destruct o as [buf|buf|bufs|frags|]; cbn [pass_op pass_res pass_data].
  - rewrite (w_write_accept_all w buf Hs). eexists. split; [reflexivity|]. cbn. auto.
  - destruct (w_write_all_accept_all w buf Hs) as (w1 & Hw & Hs1 & Hrec1). rewrite Hw. eauto.
  - rewrite (w_write_accept_all w _ Hs). eexists. split; [reflexivity|]. cbn. auto.
  - apply w_write_fmt_accept_all, Hs.
  - exists (w_flush w). cbn. rewrite app_nil_r. auto.
Qed.

Lemma pass_run_accept_all b : forall ops w,
  w_script w = [] ->
  exists w', pass_run b w ops = (w', map (pass_res b) ops) /\ w_script w' = [] /\
             w_received w' = w_received w ++ concat (map (pass_data b) ops).
Proof.
  induction ops as [|o rest IH]; intros w Hs; cbn [pass_run map concat].
  - exists w. rewrite app_nil_r. auto.
  - destruct (pass_op_accept_all b w o Hs) as (w1 & Hp & Hs1 & Hrec1). rewrite Hp.
    destruct (IH w1 Hs1) as (w2 & Hr & Hs2 & Hrec2). rewrite Hr. exists w2.
    split; [reflexivity|]. split; [exact Hs2|]. rewrite Hrec2, Hrec1, app_assoc. reflexivity.
Qed.

Theorem always_ansi_is_identity : forall b d c s w ops,
  c = CAlwaysAnsi \/ c = CAlways ->
  run_ops b (auto_mode c d) s w ops = Some (s, fst (pass_run b w ops), snd (pass_run b w ops)) /\
  (w_script w = [] ->
   snd (pass_run b w ops) = map (pass_res b) ops /\
   w_received (fst (pass_run b w ops)) = w_received w ++ concat (map (pass_data b) ops)).
Proof.
  intros b d c s w ops Hc.
  assert (Hm : auto_mode c d = MPass) by (destruct Hc as [-> | ->]; reflexivity).
  rewrite Hm. split; [apply run_ops_pass|].
  intros Hs. destruct (pass_run_accept_all b ops w Hs) as (w' & Hr & _ & Hrec). rewrite Hr. cbn. auto.
Qed.

Theorem always_eq_always_ansi : forall b d s w ops,
  run_ops b (auto_mode CAlways d) s w ops = run_ops b (auto_mode CAlwaysAnsi d) s w ops.
Proof. reflexivity. Qed.

Theorem current_choice_spec : forall d,
  current_choice (auto_mode CNever d) = CNever /\
  current_choice (auto_mode CAlwaysAnsi d) = CAlwaysAnsi /\
  current_choice (auto_mode CAlways d) = CAlwaysAnsi /\
  current_choice (auto_mode CAuto d) = match d with CNever => CNever | _ => CAlwaysAnsi end.
Proof. intros d. repeat split. destruct d; reflexivity. Qed.

(* the reported choice is the arm in force *)
Theorem reported_mode_in_force : forall b m s w ops,
  (current_choice m = CNever -> run_ops b m s w ops = ss_run s w ops) /\
  (current_choice m = CAlwaysAnsi ->
   run_ops b m s w ops = Some (s, fst (pass_run b w ops), snd (pass_run b w ops))).
Proof.
  intros b m s w ops. destruct m; cbn [current_choice]; split; intros H; try discriminate.
  - apply run_ops_pass.
  - apply run_ops_strip.
Qed.

(* ---- accept-all writers under the strip arm ------------------------------------------ *)

Lemma ss_write_loop_accept_all : forall fuel buf bs off s0 st u d w s' w' r,
  w_script w = [] ->
  ss_write_loop fuel buf bs off s0 st u d w = Some (s', w', r) ->
  r = ROkN (N.of_nat (length buf)) /\ w_script w' = [].
Proof.
  induction fuel as [|fuel IH]; intros buf bs off s0 st u d w s' w' r Hs H; [discriminate|].
  cbn [ss_write_loop] in H.
  destruct (next_bytes bs off st u) as [[[[[p bs'] off'] st'] u']|]; [|discriminate].
  destruct p as [pc|].
  - rewrite (w_write_accept_all w _ Hs) in H. cbv beta iota in H.
    rewrite N.eqb_refl in H. cbn [negb] in H.
    eapply IH; [|exact H]. reflexivity.
  - inversion H; subst. auto.
Qed.

Lemma ss_write_all_loop_accept_all : forall fuel bs off st u w s' w' r,
  w_script w = [] ->
  ss_write_all_loop fuel bs off st u w = Some (s', w', r) ->
  r = ROk /\ w_script w' = [].
Proof.
  induction fuel as [|fuel IH]; intros bs off st u w s' w' r Hs H; [discriminate|].
  cbn [ss_write_all_loop] in H.
  destruct (next_bytes bs off st u) as [[[[[p bs'] off'] st'] u']|]; [|discriminate].
  destruct p as [pc|].
  - destruct (w_write_all_accept_all w (p_bytes pc) Hs) as (w1 & Hw & Hs1 & _).
    rewrite Hw in H. eapply IH; [exact Hs1|exact H].
  - inversion H; subst. auto.
Qed.

Lemma ss_write_fmt_accept_all : forall frags s w s' w' r,
  w_script w = [] ->
  ss_write_fmt s frags w = Some (s', w', r) ->
  r = ROk /\ w_script w' = [].
Proof.
  induction frags as [|fr rest IH]; intros s w s' w' r Hs H; cbn [ss_write_fmt] in H.
  - inversion H; subst. auto.
  - destruct (ss_write_all s fr w) as [[[s1 w1] r1]|] eqn:Hwa; [|discriminate].
    destruct (ss_write_all_loop_accept_all _ _ _ _ _ _ _ _ _ Hs Hwa) as [-> Hs1].
    eapply IH; [exact Hs1|exact H].
Qed.

Lemma ss_op_accept_all s w o :
  w_script w = [] -> bytes_ok (strip_data o) -> SInv s ->
  exists w', ss_op s w o = Some (after s (strip_data o), w', strip_res o) /\ w_script w' = [] /\
             w_received w' = w_received w ++ kept s (strip_data o).
Proof.
  intros Hs Hok HI.
  assert (Hwrite : forall buf, bytes_ok buf ->
    exists w', ss_write s buf w = Some (after s buf, w', ROkN (N.of_nat (length buf))) /\ w_script w' = [] /\
               w_received w' = w_received w ++ kept s buf).
  { intros buf Hb. destruct (ss_write_spec s buf w Hb HI) as (s1 & w1 & r1 & Hwr & Hpost).
    destruct (ss_write_loop_accept_all _ _ _ _ _ _ _ _ _ _ _ _ Hs Hwr) as [-> Hs1].
    destruct Hpost as (_ & Hrec & Hs' & _). rewrite Nat2N.id, firstn_all in Hrec, Hs'.
    exists w1. rewrite Hwr, Hs'. auto. }
  destruct o as [buf|buf|bufs|frags|]; cbn [ss_op]; unfold strip_res, strip_data in *;
    cbn [pass_res pass_data] in *.
  - apply Hwrite, Hok.
  - destruct (ss_write_all_spec s buf w Hok HI) as (s1 & w1 & r1 & Hwr & _ & cs & _ & Hr).
    destruct (ss_write_all_loop_accept_all _ _ _ _ _ _ _ _ _ Hs Hwr) as [-> Hs1].
    destruct Hr as (Hrec & Hs' & _). exists w1. rewrite Hwr, Hs'. auto.
  - apply Hwrite, Hok.
  - destruct (ss_write_fmt_spec frags s w Hok HI) as (s1 & w1 & r1 & Hwr & _ & cs & _ & Hr).
    destruct (ss_write_fmt_accept_all _ _ _ _ _ _ Hs Hwr) as [-> Hs1].
    destruct Hr as (Hrec & Hs' & _). exists w1. rewrite Hwr, Hs'. auto.
  - exists (w_flush w). rewrite after_nil, kept_nil, app_nil_r. cbn. auto.
Qed.

Lemma ss_run_accept_all : forall ops s w,
  w_script w = [] -> bytes_ok (concat (map strip_data ops)) -> SInv s ->
  exists w', ss_run s w ops = Some (after s (concat (map strip_data ops)), w', map strip_res ops) /\
             w_script w' = [] /\
             w_received w' = w_received w ++ kept s (concat (map strip_data ops)).
Proof.
  induction ops as [|o rest IH]; intros s w Hs Hok HI; cbn [ss_run map concat] in *.
  - exists w. rewrite after_nil, kept_nil, app_nil_r. auto.
  - pose proof Hok as Hok2. apply bytes_ok_app in Hok2 as [Ho Hrest].
    destruct (ss_op_accept_all s w o Hs Ho HI) as (w1 & Hop & Hs1 & Hrec1). rewrite Hop.
    assert (HI1 : SInv (after s (strip_data o))) by (apply after_inv; assumption).
    destruct (IH _ w1 Hs1 Hrest HI1) as (w2 & Hr & Hs2 & Hrec2). rewrite Hr.
    exists w2. rewrite (after_app s _ _ Hok), (kept_app s _ _ Hok).
    split; [reflexivity|]. split; [exact Hs2|]. rewrite Hrec2, Hrec1, app_assoc. reflexivity.
Qed.

(* Never over an accept-all inner writer, from a fresh stream, any interleaving of
   the five operations: every call succeeds and the inner writer has received
   exactly the specification's stripping of all the data *)
Theorem never_delivers_spec_strip : forall b d w ops,
  w_script w = [] -> bytes_ok (concat (map strip_data ops)) ->
  exists s' w',
    run_ops b (auto_mode CNever d) sb_new w ops = Some (s', w', map strip_res ops) /\
    w_received w' = w_received w ++ spec_strip (concat (map strip_data ops)).
Proof.
  intros b d w ops Hs Hok. rewrite never_is_strip.
  destruct (ss_run_accept_all ops sb_new w Hs Hok SInv_new) as (w' & Hr & _ & Hrec).
  do 2 eexists. split; [exact Hr|]. rewrite Hrec, (kept_new_is_spec _ Hok). reflexivity.
Qed.
