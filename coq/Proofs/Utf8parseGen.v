(* Proofs/Utf8parseGen.v -- the utf8parse decoder TRANSLATED from the registry source
   (Generated/Utf8parseFn.v, tools/gen_fn_utf8parse.py) is the hand model Model/Utf8parse.v
   the theorems of C01 / C02 / C03 / C04 / C20 are about: for every state, every accumulated
   code point and every byte (no bound on the numbers is needed).
   Also: the callers inside anstyle-parse (`CharAccumulator::add`) are the hand model's
   `char_add`, and the argument of `char::from_u32_unchecked` is a Unicode scalar value for
   every decoder reachable from `Parser::new()` (the precondition of the unsafe call). *)
From Coq Require Import NArith List Bool Lia.
From AV Require Import Model.Base Model.Imp Model.Utf8parse Model.Parser Generated.Utf8parseFn Proofs.Utf8Sim.
Import ListNotations.
Local Open Scope N_scope.

(* ---- constants, constructors ------------------------------------------------ *)

Lemma g_CONTINUATION_MASK_eq : g_CONTINUATION_MASK = CONTINUATION_MASK.
Proof. reflexivity. Qed.

Lemma g_u8_parser_new_eq : g_u8_parser_new = u8_new.
Proof. reflexivity. Qed.

Lemma g_u8_parser_default_eq : g_u8_parser_default = u8_new.
Proof. reflexivity. Qed.

(* ---- State::advance ---------------------------------------------------------- *)

(* both sides are chains of range tests on the byte; split every test (the head test of the
   translated chain first), close a leaf by computation, or -- when the arms were tested in
   another order -- by arithmetic on the recorded outcomes *)
Ltac tests_to_props :=
  repeat match goal with
  | H : (_ && _) = true |- _ => apply andb_true_iff in H; destruct H
  | H : (_ && _) = false |- _ => apply andb_false_iff in H; destruct H
  | H : (_ <=? _) = true |- _ => apply N.leb_le in H
  | H : (_ <=? _) = false |- _ => apply N.leb_gt in H
  | H : (_ =? _) = true |- _ => apply N.eqb_eq in H
  | H : (_ =? _) = false |- _ => apply N.eqb_neq in H
  end.

Ltac split_tests :=
  repeat match goal with
  | |- context [if ?c then _ else _] =>
      match c with context [if _ then _ else _] => fail 1 | _ => idtac end;
      destruct c eqn:?
  end.

Lemma g_u8_state_advance_eq : forall s b, g_u8_state_advance s b = Some (u8_advance s b).
Proof.
  intros s b. unfold g_u8_state_advance, u8_advance, rng.
  destruct s; split_tests; try reflexivity; exfalso; tests_to_props; lia.
Qed.

(* ---- Parser::perform_action --------------------------------------------------- *)

(* the hand model's second half: what `u8_parser_advance` does once the table has answered
   (st, a) -- the code point it keeps and what the receiver is told *)
Definition u8_perform (p : u8parser) (b : N) (a : u8action) : N * u8out :=
  match a with
  | InvalidSequence => (0, U8Invalid)
  | EmitByte => (u8point p, U8Codepoint b)
  | SetByte1 => (0, U8Codepoint (N.lor (u8point p) (N.land b CONTINUATION_MASK)))
  | SetByte2 => (N.lor (u8point p) (N.shiftl (N.land b CONTINUATION_MASK) 6), U8None)
  | SetByte2Top => (N.lor (u8point p) (N.shiftl (N.land b 31) 6), U8None)
  | SetByte3 => (N.lor (u8point p) (N.shiftl (N.land b CONTINUATION_MASK) 12), U8None)
  | SetByte3Top => (N.lor (u8point p) (N.shiftl (N.land b 15) 12), U8None)
  | SetByte4 => (N.lor (u8point p) (N.shiftl (N.land b 7) 18), U8None)
  end.

Lemma u8_parser_advance_perform : forall p b,
  u8_parser_advance p b =
  (mkU8 (fst (u8_perform p b (snd (u8_advance (u8st p) b)))) (fst (u8_advance (u8st p) b)),
   snd (u8_perform p b (snd (u8_advance (u8st p) b)))).
Proof.
  intros p b. unfold u8_parser_advance.
  destruct (u8_advance (u8st p) b) as [st a]. destruct a; reflexivity.
Qed.

(* a masked byte shifted into place stays inside the u32: the checked shift answers, and the
   reduction modulo 2^32 is the identity *)
Lemma land_ones_lt : forall b k, N.land b (N.ones k) < 2 ^ k.
Proof. intros b k. rewrite N.land_ones. apply N.mod_lt. apply N.pow_nonzero. discriminate. Qed.

Lemma cshl_masked : forall b k i, k + i <= 32 -> i < 32 ->
  u8_cshl 32 (N.land b (N.ones k)) i = Some (N.shiftl (N.land b (N.ones k)) i).
Proof.
  intros b k i Hk Hi. unfold u8_cshl.
  apply N.ltb_lt in Hi. rewrite Hi. f_equal.
  apply N.mod_small. rewrite N.shiftl_mul_pow2.
  pose proof (land_ones_lt b k) as Hlt.
  apply N.lt_le_trans with (2 ^ k * 2 ^ i).
  - apply N.mul_lt_mono_pos_r; [|exact Hlt].
    apply N.neq_0_lt_0, N.pow_nonzero. discriminate.
  - rewrite <- N.pow_add_r. apply N.pow_le_mono_r; [discriminate | exact Hk].
Qed.

Lemma cshl_63_6 b : u8_cshl 32 (N.land b 63) 6 = Some (N.shiftl (N.land b 63) 6).
Proof. exact (cshl_masked b 6 6 ltac:(lia) ltac:(lia)). Qed.
Lemma cshl_31_6 b : u8_cshl 32 (N.land b 31) 6 = Some (N.shiftl (N.land b 31) 6).
Proof. exact (cshl_masked b 5 6 ltac:(lia) ltac:(lia)). Qed.
Lemma cshl_63_12 b : u8_cshl 32 (N.land b 63) 12 = Some (N.shiftl (N.land b 63) 12).
Proof. exact (cshl_masked b 6 12 ltac:(lia) ltac:(lia)). Qed.
Lemma cshl_15_12 b : u8_cshl 32 (N.land b 15) 12 = Some (N.shiftl (N.land b 15) 12).
Proof. exact (cshl_masked b 4 12 ltac:(lia) ltac:(lia)). Qed.
Lemma cshl_7_18 b : u8_cshl 32 (N.land b 7) 18 = Some (N.shiftl (N.land b 7) 18).
Proof. exact (cshl_masked b 3 18 ltac:(lia) ltac:(lia)). Qed.

Lemma g_u8_perform_action_eq : forall p r b a,
  g_u8_perform_action p r b a =
  Some (set_u8point p (fst (u8_perform p b a)), r ++ u8_events (snd (u8_perform p b a))).
Proof.
  intros p r b a. unfold g_u8_perform_action, u8_perform.
  change g_CONTINUATION_MASK with 63. change CONTINUATION_MASK with 63.
  destruct a; cbn [fst snd u8_events];
    rewrite ?cshl_63_6, ?cshl_31_6, ?cshl_63_12, ?cshl_15_12, ?cshl_7_18;
    rewrite ?app_nil_r; try reflexivity.
  (* EmitByte: the code point is untouched *)
  destruct p; reflexivity.
Qed.

(* ---- Parser::advance ------------------------------------------------------------ *)

Theorem g_u8_parser_advance_eq : forall p r b,
  g_u8_parser_advance p r b =
  Some (fst (u8_parser_advance p b), r ++ u8_events (snd (u8_parser_advance p b))).
Proof.
  intros p r b. unfold g_u8_parser_advance.
  rewrite g_u8_state_advance_eq, u8_parser_advance_perform.
  destruct (u8_advance (u8st p) b) as [st a].
  rewrite g_u8_perform_action_eq. reflexivity.
Qed.

(* the reading tools/gen_fn_strip.py's `m_u8_advance` and Model/Parser.v's `char_add` use: one call of
   `advance` on a receiver that has seen nothing tells it exactly what the hand model answers *)
Corollary translated_advance_is_model : forall p b,
  g_u8_parser_advance p [] b =
  Some (fst (u8_parser_advance p b), u8_events (snd (u8_parser_advance p b))).
Proof. intros p b. rewrite g_u8_parser_advance_eq. reflexivity. Qed.

(* any receiver: running its two methods over the calls of one `advance` is the case analysis on the
   hand model's answer *)
Lemma u8_deliver_events : forall (R : Type) (cp : R -> N -> R) (inv : R -> R) o r,
  u8_deliver cp inv (u8_events o) r =
  match o with U8None => r | U8Codepoint c => cp r c | U8Invalid => inv r end.
Proof. intros R cp inv o r. destruct o; reflexivity. Qed.

(* a whole byte string through the translated decoder = the hand model folded over it *)
Fixpoint u8_model_run (p : u8parser) (bs : list N) : u8parser * list u8out :=
  match bs with
  | [] => (p, [])
  | b :: rest =>
      let '(p1, o) := u8_parser_advance p b in
      let '(p2, evs) := u8_model_run p1 rest in
      (p2, u8_events o ++ evs)
  end.

Fixpoint g_u8_run (p : u8parser) (r : list u8out) (bs : list N) : option (u8parser * list u8out) :=
  match bs with
  | [] => Some (p, r)
  | b :: rest => '(p1, r1) <- g_u8_parser_advance p r b ;; g_u8_run p1 r1 rest
  end.

Theorem translated_run_is_model : forall bs p r,
  g_u8_run p r bs = Some (fst (u8_model_run p bs), r ++ snd (u8_model_run p bs)).
Proof.
  induction bs as [|b rest IH]; intros p r; cbn [g_u8_run u8_model_run].
  - rewrite app_nil_r. reflexivity.
  - rewrite g_u8_parser_advance_eq.
    destruct (u8_parser_advance p b) as [p1 o]. cbn [fst snd].
    rewrite IH. destruct (u8_model_run p1 rest) as [p2 evs]. cbn [fst snd].
    rewrite app_assoc. reflexivity.
Qed.

(* ---- the callers inside anstyle-parse ---------------------------------------------- *)

Lemma g_pa_utf8_add_eq : forall c u b, utf8_on c = true -> g_pa_utf8_add u b = char_add c u b.
Proof.
  intros c u b Hc. unfold g_pa_utf8_add, char_add, u8acc_inner, set_u8acc_inner. rewrite Hc.
  rewrite translated_advance_is_model, u8_deliver_events.
  destruct (u8_parser_advance u b) as [u' o]. destruct o; reflexivity.
Qed.

Lemma g_pa_ascii_add_eq : forall c a u b, utf8_on c = false ->
  option_map snd (g_pa_ascii_add a b) = option_map snd (char_add c u b).
Proof. intros c a u b Hc. unfold g_pa_ascii_add, char_add. rewrite Hc. reflexivity. Qed.

Theorem translated_char_add_is_model : forall c u b,
  (if utf8_on c then g_pa_utf8_add u b
   else option_map (fun '(_, o) => (u, o)) (g_pa_ascii_add tt b)) = char_add c u b.
Proof.
  intros c u b. destruct (utf8_on c) eqn:Hc.
  - apply g_pa_utf8_add_eq, Hc.
  - unfold g_pa_ascii_add, char_add. rewrite Hc. reflexivity.
Qed.

(* ---- no panic ------------------------------------------------------------------------- *)

Theorem translated_advance_never_panics : forall p r b, g_u8_parser_advance p r b <> None.
Proof. intros p r b. rewrite g_u8_parser_advance_eq. discriminate. Qed.

Theorem translated_run_never_panics : forall bs p r, g_u8_run p r bs <> None.
Proof. intros bs p r. rewrite translated_run_is_model. discriminate. Qed.

(* ---- the precondition of `unsafe { char::from_u32_unchecked(point) }` ------------------------
   The translation reads the unsafe call as the identity on the number.  That is what the call does
   when its argument is a Unicode scalar value, which is the case for every decoder that was started
   from `Parser::new()` and fed bytes: the invariant below (per automaton state, which partial code
   points can have been accumulated) is kept by every step and makes every code point handed to the
   receiver a scalar value. *)

Definition u8_inv (p : u8parser) : Prop :=
  let x := u8point p in
  match u8st p with
  | U8Ground => x = 0
  | U8Tail1 => exists k, x = k * 64 /\ 2 <= k /\ k < 17408 /\ (k < 864 \/ 896 <= k)
  | U8Tail2 => exists k, x = k * 4096 /\ 1 <= k /\ k < 272 /\ k <> 13
  | U8Tail3 => exists k, x = k * 262144 /\ 1 <= k /\ k <= 3
  | U8_3_2_e0 => x = 0
  | U8_3_2_ed => x = 13 * 4096
  | U8_4_3_f0 => x = 0
  | U8_4_3_f4 => x = 4 * 262144
  end.

Definition u8_out_scalar (o : u8out) : Prop :=
  match o with U8Codepoint c => u8_is_scalar c = true | _ => True end.

Lemma u8_is_scalar_intro : forall c, c < 55296 \/ (57343 < c /\ c < 1114112) -> u8_is_scalar c = true.
Proof.
  intros c [H | [H1 H2]]; unfold u8_is_scalar.
  - apply N.ltb_lt in H. rewrite H. reflexivity.
  - apply N.ltb_lt in H1, H2. rewrite H1, H2. apply orb_true_r.
Qed.

Lemma mod_parts : forall b m, m <> 0 -> b = m * (b / m) + b mod m /\ b mod m < m.
Proof. intros b m Hm. split; [apply N.div_mod, Hm | apply N.mod_lt, Hm]. Qed.

(* [b mod m] for the masks in use, as linear facts over fresh variables ([lia] does not look
   inside [b / m], [b mod m]) *)
Ltac mod_fact b m :=
  let q := fresh "q" in let r := fresh "r" in
  pose proof (mod_parts b m ltac:(discriminate)) as [? ?];
  set (q := b / m) in *; set (r := b mod m) in *; clearbody q r.
Ltac mod_facts b := mod_fact b 64; mod_fact b 32; mod_fact b 16; mod_fact b 8.

(* the tests that held on the way to a leaf, as propositions; the failed ones are not needed *)
Ltac held_tests :=
  repeat match goal with
  | H : rng _ _ _ = true |- _ =>
      unfold rng in H; apply andb_true_iff in H; destruct H as [?%N.leb_le ?%N.leb_le]
  | H : (_ =? _) = true |- _ => apply N.eqb_eq in H
  | H : _ = false |- _ => clear H
  end.

Ltac to_arith :=
  rewrite ?N.lor_0_l;
  try (rewrite lor64 by lia); try (rewrite lor4096 by lia); try (rewrite lor262144 by lia).

(* the new partial code point is [k' * unit] for one of these k' *)
Ltac new_point b :=
  first [ reflexivity | lia
        | eexists; split; [reflexivity | lia]
        | match goal with |- exists _, ?k * _ + ?r * _ = _ /\ _ => exists (k * 64 + r); lia end ].

Theorem u8_inv_step : forall p b, b < 256 -> u8_inv p ->
  u8_inv (fst (u8_parser_advance p b)) /\ u8_out_scalar (snd (u8_parser_advance p b)).
Proof.
  intros [x s] b Hb Hinv. unfold u8_inv in Hinv. cbn [u8st u8point] in Hinv.
  unfold u8_parser_advance, u8_advance. cbn [u8st u8point].
  change CONTINUATION_MASK with 63.
  rewrite ?land63, ?land31, ?land15, ?land7, ?shl6, ?shl12, ?shl18.
  mod_facts b.
  destruct s;
    try (destruct Hinv as (k & Hx & Hinv)); subst x;
    split_tests; held_tests;
    cbn [fst snd u8st u8point u8_out_scalar]; unfold u8_inv; cbn [u8st u8point];
    to_arith;
    (split; [new_point b | first [exact I | apply u8_is_scalar_intro; lia]]).
Qed.

Lemma u8_inv_new : u8_inv u8_new.
Proof. reflexivity. Qed.

Lemma u8_events_scalar : forall o, u8_out_scalar o -> Forall u8_out_scalar (u8_events o).
Proof. intros [| c |] H; cbn [u8_events]; repeat constructor; exact H. Qed.

Lemma u8_run_inv : forall bs p, Forall (fun b => b < 256) bs -> u8_inv p ->
  u8_inv (fst (u8_model_run p bs)) /\ Forall u8_out_scalar (snd (u8_model_run p bs)).
Proof.
  induction bs as [|b rest IH]; intros p Hbs Hp; cbn [u8_model_run].
  - split; [exact Hp | constructor].
  - inversion Hbs as [|? ? Hb Hrest]; subst.
    destruct (u8_inv_step p b Hb Hp) as [Hp1 Ho].
    destruct (u8_parser_advance p b) as [p1 o]. cbn [fst snd] in Hp1, Ho.
    destruct (IH p1 Hrest Hp1) as [Hp2 Hevs].
    destruct (u8_model_run p1 rest) as [p2 evs]. cbn [fst snd] in *.
    split; [exact Hp2|]. apply Forall_app. split; [apply u8_events_scalar, Ho | exact Hevs].
Qed.

(* every code point the TRANSLATED decoder, started from Parser::new() / Parser::default(), hands to its
   receiver is a Unicode scalar value: the unsafe `char::from_u32_unchecked` is within its contract, and
   `byte as char` on the ASCII arm is below 128 *)
Theorem unchecked_char_is_scalar : forall bs p r,
  Forall (fun b => b < 256) bs ->
  g_u8_run g_u8_parser_new [] bs = Some (p, r) -> Forall u8_out_scalar r.
Proof.
  intros bs p r Hbs H. rewrite translated_run_is_model, g_u8_parser_new_eq in H.
  injection H as _ <-. cbn [app].
  exact (proj2 (u8_run_inv bs u8_new Hbs u8_inv_new)).
Qed.
