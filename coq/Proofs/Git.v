(* Proofs/Git.v -- C11: the model of anstyle_git::parse against Spec/GitSyntax. *)
From Coq Require Import NArith PeanoNat List Bool Lia.
From AV Require Import Generated.Git Spec.StyleRec Spec.SgrCodes Spec.GitSyntax Model.Base Model.Text Model.Git
  Proofs.Text Proofs.LsParse Proofs.GitWords Proofs.GitColor.
Import ListNotations.
Local Open Scope N_scope.

(* ---- the word loop --------------------------------------------------------------- *)

Lemma colors_of_app : forall a b, colors_of (a ++ b) = colors_of a ++ colors_of b.
Proof. induction a as [|[c|on x] a IH]; intros b; cbn; [reflexivity | now rewrite IH | apply IH]. Qed.

(* the state of the loop after the tokens [ts] *)
Definition state_of (ts : list gtoken) (ncol : nat) (fg bg : option tcolor) (eff : N) : Prop :=
  denote ts = mkTStyle fg bg None eff /\ length (colors_of ts) = ncol.

Lemma state_attr : forall ts ncol fg bg eff on a,
  state_of ts ncol fg bg eff ->
  state_of (ts ++ [GAttr on a]) ncol fg bg (if on then eff_insert eff (attr_bit a) else eff_remove eff (attr_bit a)).
Proof.
  intros ts ncol fg bg eff on a [Hd Hn]. unfold state_of, denote in *.
  rewrite colors_of_app, fold_left_app. cbn [colors_of]. rewrite app_nil_r. split; [|exact Hn].
  injection Hd as -> -> ->. cbn [fold_left apply_attr]. destruct on; reflexivity.
Qed.

Lemma state_color0 : forall ts fg bg eff c,
  state_of ts 0 fg bg eff -> state_of (ts ++ [GColor c]) 1 c bg eff.
Proof.
  intros ts fg bg eff c [Hd Hn]. unfold state_of, denote in *.
  rewrite colors_of_app, fold_left_app. cbn [colors_of fold_left apply_attr].
  destruct (colors_of ts) as [|x l]; [|discriminate Hn]. cbn [app nth length].
  cbn [nth] in Hd. injection Hd as <- <- ->. split; reflexivity.
Qed.

Lemma state_color1 : forall ts fg bg eff c,
  state_of ts 1 fg bg eff -> state_of (ts ++ [GColor c]) 2 fg c eff.
Proof.
  intros ts fg bg eff c [Hd Hn]. unfold state_of, denote in *.
  rewrite colors_of_app, fold_left_app. cbn [colors_of fold_left apply_attr].
  destruct (colors_of ts) as [|x [|y l]]; try discriminate Hn. cbn [app nth length].
  cbn [nth] in Hd. injection Hd as <- _ ->. split; reflexivity.
Qed.

Lemma loop_scan : forall ws ncol acc fg bg eff,
  state_of (rev acc) ncol fg bg eff ->
  match scan ws ncol acc with
  | GitOpen => True
  | GitDecided r => git_loop ws fg bg (N.of_nat ncol) eff = Some r
  end.
Proof.
  induction ws as [|w ws IH]; intros ncol acc fg bg eff St.
  - cbn [scan git_loop]. destruct St as [Hd _]. now rewrite Hd.
  - cbn [scan git_loop]. destruct (open_word w) eqn:Ho; [exact I|].
    unfold open_word in Ho. apply orb_false_iff in Ho as [Ho _]. pose proof (word_agree (map ascii_lower w) Ho) as W.
    unfold classify. change (to_lowercase w) with (map ascii_lower w).
    destruct (classify_lower (map ascii_lower w)) as [[c|on a]|].
    + destruct W as [W1 W2]. rewrite W1, W2.
      destruct ncol as [|[|n]].
      * cbn [Nat.leb]. change (N.of_nat 0 =? 0) with true. cbn iota.
        apply (IH 1%nat (GColor c :: acc)). cbn [rev]. now apply state_color0 with fg.
      * cbn [Nat.leb]. change (N.of_nat 1 =? 0) with false. change (N.of_nat 1 =? 1) with true. cbn iota.
        apply (IH 2%nat (GColor c :: acc)). cbn [rev]. now apply state_color1 with bg.
      * cbn [Nat.leb].
        assert ((N.of_nat (S (S n)) =? 0) = false) as -> by (apply N.eqb_neq; lia).
        assert ((N.of_nat (S (S n)) =? 1) = false) as -> by (apply N.eqb_neq; lia).
        reflexivity.
    + rewrite W. destruct on; apply (IH ncol (GAttr _ a :: acc)); cbn [rev];
        [exact (state_attr _ _ _ _ _ true a St) | exact (state_attr _ _ _ _ _ false a St)].
    + destruct W as [W1 W2]. rewrite W1, W2. reflexivity.
Qed.

(* ---- model = specification, for every input string -------------------------------- *)

Theorem git_model_is_spec : forall s,
  match spec_git s with
  | GitOpen => True
  | GitDecided r => git_parse s = Some r
  end.
Proof.
  intros s. unfold spec_git, spec_git_words, git_parse. rewrite words_split_whitespace.
  apply (loop_scan (split_whitespace s) 0 [] None None 0). split; reflexivity.
Qed.

(* ---- no panic ------------------------------------------------------------------------ *)

Lemma git_loop_total : forall ws fg bg ncol eff, git_loop ws fg bg ncol eff <> None.
Proof.
  induction ws as [|w ws IH]; intros fg bg ncol eff; cbn [git_loop]; [discriminate|].
  destruct (assoc (to_lowercase w) git_keywords) as [[[] bit]|]; try apply IH.
  pose proof (parse_color_total (to_lowercase w)) as T.
  destruct (parse_color (to_lowercase w)) as [[c|]|]; [| discriminate | contradiction].
  destruct (ncol =? 0); [apply IH|]. destruct (ncol =? 1); [apply IH | discriminate].
Qed.

Theorem git_no_panic : forall s, git_parse s <> None.
Proof. intros s. apply git_loop_total. Qed.

(* ---- consequences on the specification side ---------------------------------------------- *)

(* a word of the vocabulary is ASCII ... *)
Definition ascii_only (w : list N) : bool := forallb (fun c => c <? 128) w.

Lemma lookup_some_in : forall w T t, lookup w T = Some t -> In w (map fst T).
Proof.
  intros w. induction T as [|[k v] T IH]; intros t H; [discriminate H|].
  cbn [lookup] in H. destruct (bytes_eqb w k) eqn:E.
  - left. cbn [fst]. rewrite bytes_list_eqb in E. apply list_eqb_eq in E. now subst.
  - right. now apply (IH t).
Qed.

Lemma tables_ascii : forallb ascii_only (map fst attr_words) = true /\ forallb ascii_only (map fst color_words) = true.
Proof. split; vm_compute; reflexivity. Qed.

Lemma classify_lower_ascii : forall lw t, classify_lower lw = Some t -> ascii_only lw = true.
Proof.
  intros lw t H. unfold classify_lower in H. destruct tables_ascii as [T1 T2].
  destruct (lookup lw attr_words) eqn:L1.
  { apply lookup_some_in in L1. rewrite forallb_forall in T1. now apply T1. }
  destruct (lookup lw color_words) eqn:L2.
  { apply lookup_some_in in L2. rewrite forallb_forall in T2. now apply T2. }
  destruct lw as [|c ds]; [discriminate H|].
  destruct (c =? HASH) eqn:E.
  - apply N.eqb_eq in E. subst c. unfold hex_color in H. destruct (forallb is_hex ds) eqn:F; [|discriminate H].
    unfold ascii_only. cbn [forallb]. change (HASH <? 128) with true. cbn [andb].
    apply forallb_forall. intros x Hx. rewrite forallb_forall in F. apply N.ltb_lt. now apply is_hex_ascii, F.
  - unfold strict_u8 in H. destruct (forallb is_digit (c :: ds)) eqn:F; [|discriminate H].
    unfold ascii_only. apply forallb_forall. intros x Hx. rewrite forallb_forall in F. apply N.ltb_lt. now apply is_digit_ascii, F.
Qed.

Lemma ascii_lower_ascii : forall c, (ascii_lower c <? 128) = true -> (c <? 128) = true.
Proof.
  intros c H. unfold ascii_lower, between in H. apply N.ltb_lt.
  destruct (N.leb_spec 65 c); destruct (N.leb_spec c 90); cbn [andb] in H; apply N.ltb_lt in H; lia.
Qed.

(* ... and is not in the open class *)
Lemma classify_not_open : forall w t, classify w = Some t -> open_word w = false.
Proof.
  intros w t H. unfold open_word. apply orb_false_iff. split.
  - unfold classify in *. set (lw := map ascii_lower w) in *.
    destruct lw as [|c ds]; [reflexivity|]. cbn [open_field].
    destruct (c =? 43) eqn:E; [|reflexivity]. apply N.eqb_eq in E. subst c. exfalso.
    unfold classify_lower in H. destruct tables_no_plus as [T1 T2].
    rewrite (lookup_first 43 ds _ T1), (lookup_first 43 ds _ T2) in H.
    change (43 =? HASH) with false in H. cbn iota in H.
    unfold strict_u8 in H. cbn [forallb] in H. change (is_digit 43) with false in H. cbn [andb] in H. discriminate H.
  - apply classify_lower_ascii in H. unfold ascii_only in H. rewrite forallb_forall in H.
    destruct (existsb odd_case w) eqn:X; [|reflexivity]. exfalso.
    apply existsb_exists in X as (c & Hc & Ho).
    specialize (H (ascii_lower c) (in_map _ _ _ Hc)). apply ascii_lower_ascii in H. apply N.ltb_lt in H.
    unfold odd_case in Ho. apply orb_true_iff in Ho as [Ho|Ho]; apply N.eqb_eq in Ho; lia.
Qed.

(* scanning a prefix of vocabulary words that holds at most two colours *)
Lemma scan_prefix : forall pre toks rest ncol acc,
  Forall2 (fun w t => classify w = Some t) pre toks ->
  (ncol + length (colors_of toks) <= 2)%nat ->
  scan (pre ++ rest) ncol acc = scan rest (ncol + length (colors_of toks)) (rev toks ++ acc).
Proof.
  intros pre toks rest ncol acc H. revert ncol acc.
  induction H as [|w t pre toks Hw H IH]; intros ncol acc Hn.
  - cbn. now rewrite Nat.add_0_r.
  - cbn [app scan]. rewrite (classify_not_open w t Hw), Hw.
    destruct t as [c|on a].
    + cbn [colors_of length] in *. destruct (Nat.leb 2 ncol) eqn:E; [apply Nat.leb_le in E; lia|].
      rewrite IH by lia. cbn [rev]. rewrite <- app_assoc. cbn [app]. f_equal. lia.
    + cbn [colors_of] in *. rewrite IH by lia. cbn [rev]. rewrite <- app_assoc. reflexivity.
Qed.

Lemma decided (s : list N) (r : git_result) : spec_git s = GitDecided r -> git_parse s = Some r.
Proof. intros H. pose proof (git_model_is_spec s) as M. now rewrite H in M. Qed.

(* every description of the grammar is accepted and denotes [denote toks] *)
Theorem git_accepts_words : forall s toks,
  Forall2 (fun w t => classify w = Some t) (words s) toks ->
  (length (colors_of toks) <= 2)%nat ->
  git_parse s = Some (GOk (denote toks)).
Proof.
  intros s toks H Hn. apply decided. unfold spec_git, spec_git_words.
  rewrite <- (app_nil_r (words s)). rewrite (scan_prefix _ toks [] 0 []) by (auto; lia).
  cbn [scan]. rewrite app_nil_r, rev_involutive. reflexivity.
Qed.

Theorem git_accepts_grammar : forall lead wss toks,
  ws_only lead = true -> Forall is_word (map fst wss) -> good_seps wss ->
  Forall2 (fun w t => classify w = Some t) (map fst wss) toks ->
  (length (colors_of toks) <= 2)%nat ->
  git_parse (layout lead wss) = Some (GOk (denote toks)).
Proof.
  intros lead wss toks Hl Hw Hs H Hn. apply git_accepts_words; [|exact Hn].
  now rewrite words_layout.
Qed.

(* the first word outside the vocabulary is reported as the unknown word *)
Theorem git_rejects_unknown : forall lead wss pre toks w post,
  ws_only lead = true -> Forall is_word (map fst wss) -> good_seps wss ->
  map fst wss = pre ++ w :: post ->
  Forall2 (fun w t => classify w = Some t) pre toks ->
  (length (colors_of toks) <= 2)%nat ->
  classify w = None -> open_word w = false ->
  git_parse (layout lead wss) = Some (GUnknownWord w).
Proof.
  intros lead wss pre toks w post Hl Hw Hs E H Hn Hc Ho. apply decided.
  unfold spec_git, spec_git_words. rewrite words_layout by assumption. rewrite E.
  rewrite (scan_prefix pre toks _ 0 []) by (auto; lia). cbn [scan]. now rewrite Ho, Hc.
Qed.

(* a third colour is reported as the extra colour *)
Theorem git_rejects_extra : forall lead wss pre toks w c post,
  ws_only lead = true -> Forall is_word (map fst wss) -> good_seps wss ->
  map fst wss = pre ++ w :: post ->
  Forall2 (fun w t => classify w = Some t) pre toks ->
  length (colors_of toks) = 2%nat ->
  classify w = Some (GColor c) ->
  git_parse (layout lead wss) = Some (GExtraColor w).
Proof.
  intros lead wss pre toks w c post Hl Hw Hs E H Hn Hc. apply decided.
  unfold spec_git, spec_git_words. rewrite words_layout by assumption. rewrite E.
  rewrite (scan_prefix pre toks _ 0 []) by (auto; lia). cbn [scan].
  rewrite (classify_not_open w _ Hc), Hc, Hn. reflexivity.
Qed.

(* '#' words: a digit that is not hexadecimal, or a length other than 3 / 6 *)
Lemma is_hex_lower : forall c, is_hex (ascii_lower c) = is_hex c.
Proof.
  intros c. apply eq_true_iff_eq. unfold is_hex, ascii_lower, between.
  destruct (N.leb_spec 65 c); destruct (N.leb_spec c 90); cbn [andb];
    rewrite !orb_true_iff, !andb_true_iff, !N.leb_le; lia.
Qed.

Lemma hash_word_rejected : forall digits,
  (length digits <> 3%nat /\ length digits <> 6%nat) \/ (exists c, In c digits /\ is_hex c = false) ->
  classify (HASH :: digits) = None.
Proof.
  intros digits Hbad.
  unfold classify. cbn [map]. change (ascii_lower HASH) with 35. unfold classify_lower.
  destruct tables_no_hash as [T1 T2]. rewrite (lookup_first 35 _ _ T1), (lookup_first 35 _ _ T2).
  change (35 =? HASH) with true. cbn iota. unfold hex_color.
  destruct (forallb is_hex (map ascii_lower digits)) eqn:F; [|reflexivity].
  destruct Hbad as [[H3 H6] | (c & Hin & Hc)].
  - rewrite <- (map_length ascii_lower) in H3, H6.
    destruct (map ascii_lower digits) as [|? [|? [|? [|? [|? [|? [|? ?]]]]]]]; try reflexivity; cbn in H3, H6; contradiction.
  - exfalso. rewrite forallb_forall in F. specialize (F (ascii_lower c) (in_map _ _ _ Hin)).
    rewrite is_hex_lower in F. congruence.
Qed.

Theorem git_rejects_hash : forall lead wss pre toks digits post,
  ws_only lead = true -> Forall is_word (map fst wss) -> good_seps wss ->
  map fst wss = pre ++ (HASH :: digits) :: post ->
  Forall2 (fun w t => classify w = Some t) pre toks ->
  (length (colors_of toks) <= 2)%nat ->
  (length digits <> 3%nat /\ length digits <> 6%nat) \/ (exists c, In c digits /\ is_hex c = false) ->
  existsb odd_case digits = false ->
  git_parse (layout lead wss) = Some (GUnknownWord (HASH :: digits)).
Proof.
  intros lead wss pre toks digits post Hl Hw Hs E H Hn Hbad Hodd.
  assert (Ho : open_word (HASH :: digits) = false).
  { unfold open_word. cbn [existsb map]. change (odd_case HASH) with false. cbn [orb].
    rewrite Hodd, orb_false_r. reflexivity. }
  exact (git_rejects_unknown lead wss pre toks (HASH :: digits) post Hl Hw Hs E H Hn (hash_word_rejected digits Hbad) Ho).
Qed.
