(* Proofs/StripVisible.v -- the bridge between the two specifications of C01: on
   valid UTF-8, what Spec/Strip keeps is exactly the UTF-8 encoding of the text
   the VT model of Spec/Vt shows (every printed character except DEL, every
   executed TAB / LF / FF / CR).  Both machines are run in lockstep together with
   the UTF-8 validity DFA ([vnext] of Proofs/StripStr). *)
From Coq Require Import NArith ZArith List Bool Lia.
From AV Require Import Spec.Utf8 Spec.Vt Spec.Strip Proofs.StripStr.
Import ListNotations.
Local Open Scope N_scope.

(* the code points the VT model shows *)
Definition visible_of (e : event) : list N :=
  match e with
  | EPrint cp => if cp =? 127 then [] else [cp]
  | EExecute b => if is_ws_control b then [b] else []
  | _ => []
  end.

Definition visible_text (evs : list event) : list N :=
  flat_map utf8_encode (flat_map visible_of evs).

(* ---- UTF-8: encode after decode, for every sequence Table 3-7 accepts --------- *)

(* the continuation DFA over the bytes after the lead byte: [UMore u] = all
   accepted, [u] expected next; [UDone] = exactly one complete character *)
Fixpoint ucrun (u : ustate) (bs : list N) : ucont :=
  match bs with
  | [] => UMore u
  | b :: r =>
      match utf8_cont u b with
      | UMore u' => ucrun u' r
      | UDone => match r with [] => UDone | _ => UBad end
      | UBad => UBad
      end
  end.

Lemma ucrun_snoc : forall rest u0 u b,
  ucrun u0 rest = UMore u -> ucrun u0 (rest ++ [b]) = utf8_cont u b.
Proof.
  induction rest as [|x rest IH]; intros u0 u b H; cbn [ucrun app] in *.
  - inversion H; subst. destruct (utf8_cont u b); reflexivity.
  - destruct (utf8_cont u0 x) as [u1| |]; [now apply IH| |discriminate].
    destruct rest; discriminate.
Qed.

(* one well-formed character: a 7-bit byte, or a lead byte and the continuation
   bytes the DFA asks for *)
Definition one_char (bs : list N) : bool :=
  match bs with
  | [] => false
  | a :: rest =>
      if a <? 128 then match rest with [] => true | _ => false end
      else match utf8_lead a with
           | Some u => match ucrun u rest with UDone => true | _ => false end
           | None => false
           end
  end.

Ltac ranges :=
  repeat match goal with
         | H : in_range _ _ _ = true |- _ =>
             unfold in_range in H; apply andb_true_iff in H; destruct H
         | H : (_ <=? _) = true |- _ => apply N.leb_le in H
         | H : (_ =? _) = true |- _ => apply N.eqb_eq in H
         | H : (_ <? _) = true |- _ => apply N.ltb_lt in H
         | H : (_ <? _) = false |- _ => apply N.ltb_ge in H
         end.

Lemma dm64 x y : y < 64 -> (x * 64 + y) / 64 = x /\ (x * 64 + y) mod 64 = y.
Proof.
  intros H. split.
  - rewrite N.div_add_l by discriminate. rewrite (N.div_small y 64 H). apply N.add_0_r.
  - rewrite N.add_comm, N.mod_add by discriminate. apply N.mod_small, H.
Qed.

Lemma mod_off a k m : k * m <= a -> a < k * m + m -> a mod m = a - k * m.
Proof.
  intros H1 H2. assert (Hm : m <> 0) by lia.
  replace a with ((a - k * m) + k * m) at 1 by lia.
  rewrite N.mod_add by exact Hm. apply N.mod_small. lia.
Qed.

Lemma horner3 x y z : y < 64 -> z < 64 ->
  ((x * 64 + y) * 64 + z) / 4096 = x /\
  (((x * 64 + y) * 64 + z) / 64) mod 64 = y /\
  ((x * 64 + y) * 64 + z) mod 64 = z.
Proof.
  intros Hy Hz. destruct (dm64 (x * 64 + y) z Hz) as [D1 M1]. destruct (dm64 x y Hy) as [D2 M2].
  replace 4096 with (64 * 64) by reflexivity.
  rewrite <- N.div_div by discriminate. rewrite D1, D2, M1, M2. auto.
Qed.

Lemma horner4 x y z w : y < 64 -> z < 64 -> w < 64 ->
  (((x * 64 + y) * 64 + z) * 64 + w) / 262144 = x /\
  ((((x * 64 + y) * 64 + z) * 64 + w) / 4096) mod 64 = y /\
  ((((x * 64 + y) * 64 + z) * 64 + w) / 64) mod 64 = z /\
  (((x * 64 + y) * 64 + z) * 64 + w) mod 64 = w.
Proof.
  intros Hy Hz Hw. destruct (dm64 ((x * 64 + y) * 64 + z) w Hw) as [D0 M0].
  destruct (dm64 (x * 64 + y) z Hz) as [D1 M1]. destruct (dm64 x y Hy) as [D2 M2].
  replace 262144 with (64 * 64 * 64) by reflexivity.
  replace 4096 with (64 * 64) by reflexivity.
  rewrite <- !N.div_div by discriminate. rewrite D0, D1, D2, M0, M1, M2. auto.
Qed.

Lemma enc2 a b : 194 <= a <= 223 -> 128 <= b <= 191 ->
  utf8_encode (utf8_decode [a; b]) = [a; b] /\ 128 <= utf8_decode [a; b]
  /\ is_scalar (utf8_decode [a; b]) = true.
Proof.
  intros Ha Hb. cbn [utf8_decode].
  rewrite (mod_off a 6 32), (mod_off b 2 64) by lia.
  assert (Hx : exists x, a = 192 + x /\ 2 <= x < 32) by (exists (a - 192); lia).
  assert (Hy : exists y, b = 128 + y /\ y < 64) by (exists (b - 128); lia).
  destruct Hx as (x & -> & Hx). destruct Hy as (y & -> & Hy).
  replace ((192 + x - 6 * 32) * 64 + (128 + y - 2 * 64)) with (x * 64 + y) by lia.
  destruct (dm64 x y Hy) as [D M].
  unfold utf8_encode, is_scalar. rewrite D, M.
  destruct (N.ltb_spec (x * 64 + y) 128); [lia|]. destruct (N.ltb_spec (x * 64 + y) 2048); [|lia].
  destruct (N.ltb_spec (x * 64 + y) 55296); [|lia].
  split; [reflexivity|]. split; [lia|reflexivity].
Qed.

Lemma enc3 a b c :
  (a = 224 /\ 160 <= b <= 191) \/ (225 <= a <= 236 /\ 128 <= b <= 191) \/
  (a = 237 /\ 128 <= b <= 159) \/ (238 <= a <= 239 /\ 128 <= b <= 191) ->
  128 <= c <= 191 ->
  utf8_encode (utf8_decode [a; b; c]) = [a; b; c] /\ 128 <= utf8_decode [a; b; c]
  /\ is_scalar (utf8_decode [a; b; c]) = true.
Proof.
  intros Hab Hc. cbn [utf8_decode].
  rewrite (mod_off a 14 16), (mod_off b 2 64), (mod_off c 2 64) by lia.
  assert (Hx : exists x, a = 224 + x /\ x < 16) by (exists (a - 224); lia).
  assert (Hy : exists y, b = 128 + y /\ y < 64) by (exists (b - 128); lia).
  assert (Hz : exists z, c = 128 + z /\ z < 64) by (exists (c - 128); lia).
  destruct Hx as (x & -> & Hx). destruct Hy as (y & -> & Hy). destruct Hz as (z & -> & Hz).
  replace ((224 + x - 14 * 16) * 4096 + (128 + y - 2 * 64) * 64 + (128 + z - 2 * 64))
    with ((x * 64 + y) * 64 + z) by lia.
  destruct (horner3 x y z Hy Hz) as (E1 & E2 & E3).
  unfold utf8_encode, is_scalar. rewrite E1, E2, E3.
  set (cp := (x * 64 + y) * 64 + z).
  assert (Hcp : cp = (x * 64 + y) * 64 + z) by reflexivity. clearbody cp. clear E1 E2 E3.
  destruct (N.ltb_spec cp 128); [lia|]. destruct (N.ltb_spec cp 2048); [lia|].
  destruct (N.ltb_spec cp 65536); [|lia].
  split; [reflexivity|]. split; [lia|].
  destruct (N.ltb_spec cp 55296); [reflexivity|]. cbn [orb].
  destruct (N.leb_spec 57344 cp); [|lia]. destruct (N.ltb_spec cp 1114112); [reflexivity|lia].
Qed.

Lemma enc4 a b c d :
  (a = 240 /\ 144 <= b <= 191) \/ (241 <= a <= 243 /\ 128 <= b <= 191) \/
  (a = 244 /\ 128 <= b <= 143) ->
  128 <= c <= 191 -> 128 <= d <= 191 ->
  utf8_encode (utf8_decode [a; b; c; d]) = [a; b; c; d] /\ 128 <= utf8_decode [a; b; c; d]
  /\ is_scalar (utf8_decode [a; b; c; d]) = true.
Proof.
  intros Hab Hc Hd. cbn [utf8_decode].
  rewrite (mod_off a 30 8), (mod_off b 2 64), (mod_off c 2 64), (mod_off d 2 64) by lia.
  assert (Hx : exists x, a = 240 + x /\ x < 8) by (exists (a - 240); lia).
  assert (Hy : exists y, b = 128 + y /\ y < 64) by (exists (b - 128); lia).
  assert (Hz : exists z, c = 128 + z /\ z < 64) by (exists (c - 128); lia).
  assert (Hw : exists w, d = 128 + w /\ w < 64) by (exists (d - 128); lia).
  destruct Hx as (x & -> & Hx). destruct Hy as (y & -> & Hy).
  destruct Hz as (z & -> & Hz). destruct Hw as (w & -> & Hw).
  replace ((240 + x - 30 * 8) * 262144 + (128 + y - 2 * 64) * 4096 + (128 + z - 2 * 64) * 64
           + (128 + w - 2 * 64))
    with (((x * 64 + y) * 64 + z) * 64 + w) by lia.
  destruct (horner4 x y z w Hy Hz Hw) as (E1 & E2 & E3 & E4).
  unfold utf8_encode, is_scalar. rewrite E1, E2, E3, E4.
  set (cp := ((x * 64 + y) * 64 + z) * 64 + w).
  assert (Hcp : cp = ((x * 64 + y) * 64 + z) * 64 + w) by reflexivity. clearbody cp.
  clear E1 E2 E3 E4.
  destruct (N.ltb_spec cp 128); [lia|]. destruct (N.ltb_spec cp 2048); [lia|].
  destruct (N.ltb_spec cp 65536); [lia|].
  split; [reflexivity|]. split; [lia|].
  destruct (N.ltb_spec cp 55296); [lia|]. cbn [orb].
  destruct (N.leb_spec 57344 cp); [|lia]. destruct (N.ltb_spec cp 1114112); [reflexivity|lia].
Qed.

Ltac pick := first [ split; [reflexivity | lia] | left; split; [reflexivity | lia] | right; pick ].

Lemma utf8_lead_cases a u : utf8_lead a = Some u ->
  (u = UTail1 /\ 194 <= a <= 223) \/ (u = UE0 /\ a = 224) \/
  (u = UTail2 /\ (225 <= a <= 236 \/ 238 <= a <= 239)) \/ (u = UED /\ a = 237) \/
  (u = UF0 /\ a = 240) \/ (u = UTail3 /\ 241 <= a <= 243) \/ (u = UF4 /\ a = 244).
Proof.
  unfold utf8_lead.
  repeat match goal with |- context [if ?c then _ else _] => destruct c eqn:? end;
    intros H; inversion H; subst; ranges; pick.
Qed.

Ltac cont_step H :=
  cbn [ucrun utf8_cont] in H;
  match type of H with context [if ?c then _ else _] => destruct c eqn:? end;
  [|discriminate H].

(* a lead byte followed by exactly the continuation bytes the DFA accepts:
   encoding the decoded scalar value gives the bytes back (the E0 / F0 rows of
   Table 3-7 exclude the overlong forms, which is what makes the encoder pick the
   same length), and the value is a scalar value above U+007F *)
Lemma utf8_multi_roundtrip a rest u0 :
  utf8_lead a = Some u0 -> ucrun u0 rest = UDone ->
  utf8_encode (utf8_decode (a :: rest)) = a :: rest /\ 128 <= utf8_decode (a :: rest)
  /\ is_scalar (utf8_decode (a :: rest)) = true.
Proof.
  intros Hl Hr.
  destruct (utf8_lead_cases _ _ Hl) as [[-> Ha]|[[-> Ha]|[[-> Ha]|[[-> Ha]|[[-> Ha]|[[-> Ha]|[-> Ha]]]]]]].
  - (* two bytes *)
    destruct rest as [|b rest]; [discriminate|]. cont_step Hr.
    destruct rest; [|discriminate]. ranges. apply enc2; lia.
  - destruct rest as [|b rest]; [discriminate|]. cont_step Hr.
    destruct rest as [|c rest]; [discriminate|]. cont_step Hr.
    destruct rest; [|discriminate]. ranges. apply enc3; lia.
  - destruct rest as [|b rest]; [discriminate|]. cont_step Hr.
    destruct rest as [|c rest]; [discriminate|]. cont_step Hr.
    destruct rest; [|discriminate]. ranges. apply enc3; lia.
  - destruct rest as [|b rest]; [discriminate|]. cont_step Hr.
    destruct rest as [|c rest]; [discriminate|]. cont_step Hr.
    destruct rest; [|discriminate]. ranges. apply enc3; lia.
  - destruct rest as [|b rest]; [discriminate|]. cont_step Hr.
    destruct rest as [|c rest]; [discriminate|]. cont_step Hr.
    destruct rest as [|d rest]; [discriminate|]. cont_step Hr.
    destruct rest; [|discriminate]. ranges. apply enc4; lia.
  - destruct rest as [|b rest]; [discriminate|]. cont_step Hr.
    destruct rest as [|c rest]; [discriminate|]. cont_step Hr.
    destruct rest as [|d rest]; [discriminate|]. cont_step Hr.
    destruct rest; [|discriminate]. ranges. apply enc4; lia.
  - destruct rest as [|b rest]; [discriminate|]. cont_step Hr.
    destruct rest as [|c rest]; [discriminate|]. cont_step Hr.
    destruct rest as [|d rest]; [discriminate|]. cont_step Hr.
    destruct rest; [|discriminate]. ranges. apply enc4; lia.
Qed.

Lemma utf8_encode_ascii b : b < 128 -> utf8_encode b = [b].
Proof. intros H. unfold utf8_encode. apply N.ltb_lt in H. rewrite H. reflexivity. Qed.

Theorem utf8_encode_decode : forall bs,
  one_char bs = true ->
  utf8_encode (utf8_decode bs) = bs /\ is_scalar (utf8_decode bs) = true.
Proof.
  intros [|a rest]; [discriminate|]. cbn [one_char].
  destruct (a <? 128) eqn:Hlt.
  - destruct rest; [|discriminate]. intros _. cbn [utf8_decode]. apply N.ltb_lt in Hlt.
    split; [now apply utf8_encode_ascii|].
    unfold is_scalar. destruct (N.ltb_spec a 55296); [reflexivity|lia].
  - destruct (utf8_lead a) as [u|] eqn:Hl; [|discriminate].
    destruct (ucrun u rest) eqn:Hr; try discriminate. intros _.
    destruct (utf8_multi_roundtrip _ _ _ Hl Hr) as (? & _ & ?). auto.
Qed.

(* ---- one step of the VT model outside a character ---------------------------- *)

Lemma trans_utf8_range s b t : vt_trans s b = (t, TUtf8) -> in_range 194 244 b = true.
Proof.
  unfold vt_trans. destruct ((b =? 24) || (b =? 26)); [discriminate|].
  destruct (b =? 27); [discriminate|].
  destruct s;
    repeat match goal with |- context [if ?c then _ else _] => destruct c eqn:? end;
    intros H; first [discriminate H | assumption | reflexivity].
Qed.

Lemma trans_print_range s b t : vt_trans s b = (t, TPrint) -> in_range 32 127 b = true.
Proof.
  unfold vt_trans. destruct ((b =? 24) || (b =? 26)); [discriminate|].
  destruct (b =? 27); [discriminate|].
  destruct s;
    repeat match goal with |- context [if ?c then _ else _] => destruct c eqn:? end;
    intros H; first [discriminate H | assumption | reflexivity].
Qed.

Lemma do_action_vs v a b : vs (fst (do_action v a b)) = vs v.
Proof.
  destruct a; cbn [do_action fst]; try reflexivity.
  - unfold collect. destruct (Nat.eqb _ _); reflexivity.
  - unfold param. destruct (Nat.eqb _ _); [reflexivity|].
    destruct (b =? 59); [reflexivity|]. destruct (b =? 58); reflexivity.
  - destruct (final_params v); reflexivity.
  - destruct (utf8_lead b); reflexivity.
Qed.

Lemma do_action_uni v a b : a <> TUtf8 -> uni (fst (do_action v a b)) = uni v.
Proof.
  intros Ha. destruct a; cbn [do_action fst]; try reflexivity.
  - unfold collect. destruct (Nat.eqb _ _); reflexivity.
  - unfold param. destruct (Nat.eqb _ _); [reflexivity|].
    destruct (b =? 59); [reflexivity|]. destruct (b =? 58); reflexivity.
  - destruct (final_params v); reflexivity.
  - contradiction.
Qed.

Lemma do_action_vis v a b : a <> TUtf8 ->
  flat_map visible_of (snd (do_action v a b)) = if keeps a b then [b] else [].
Proof.
  intros Ha. destruct a; cbn [do_action snd keeps flat_map visible_of]; try reflexivity.
  - destruct (b =? 127); reflexivity.
  - destruct (is_ws_control b); reflexivity.
  - destruct (final_params v); reflexivity.
  - contradiction.
Qed.

Lemma do_action_utf8 v b u : utf8_lead b = Some u ->
  uni (fst (do_action v TUtf8 b)) = Some (u, [b]) /\ snd (do_action v TUtf8 b) = [].
Proof. intros H. cbn [do_action]. rewrite H. split; reflexivity. Qed.

Lemma enter_vs v t b : vs (fst (enter v t b)) = t.
Proof. destruct t; cbn [enter fst set_vs vs]; try reflexivity. destruct (final_params v); reflexivity. Qed.

Lemma enter_uni v t b : uni (fst (enter v t b)) = uni v.
Proof. destruct t; cbn [enter fst set_vs clear osc_start uni]; try reflexivity. destruct (final_params v); reflexivity. Qed.

Lemma enter_vis v t b : flat_map visible_of (snd (enter v t b)) = [].
Proof. destruct t; cbn [enter snd]; try reflexivity. destruct (final_params v); reflexivity. Qed.

Lemma exit_vis v b : flat_map visible_of (exit_events v b) = [].
Proof. unfold exit_events. destruct (vs v); reflexivity. Qed.

Lemma vt_step_plain v b :
  uni v = None ->
  vt_step v b =
    let '(tgt, a) := vt_trans (vs v) b in
    match tgt with
    | None => do_action v a b
    | Some t =>
        (fst (enter (fst (do_action v a b)) t b),
         exit_events v b ++ snd (do_action v a b) ++ snd (enter (fst (do_action v a b)) t b))
    end.
Proof.
  intros Hu. unfold vt_step. rewrite Hu. destruct (vt_trans (vs v) b) as [[t|] a]; [|reflexivity].
  destruct (do_action v a b) as [v1 e1]. cbn [fst snd]. destruct (enter v1 t b); reflexivity.
Qed.

Lemma vt_step_plain_props v b tgt a :
  uni v = None -> vt_trans (vs v) b = (tgt, a) ->
  vs (fst (vt_step v b)) = match tgt with Some t => t | None => vs v end /\
  (a <> TUtf8 ->
     uni (fst (vt_step v b)) = None /\
     flat_map visible_of (snd (vt_step v b)) = if keeps a b then [b] else []) /\
  (a = TUtf8 -> forall u, utf8_lead b = Some u ->
     uni (fst (vt_step v b)) = Some (u, [b]) /\ flat_map visible_of (snd (vt_step v b)) = []).
Proof.
  intros Hu Ht. rewrite (vt_step_plain v b Hu), Ht. destruct tgt as [t|]; cbn [fst snd].
  - split; [apply enter_vs|]. split.
    + intros Ha. rewrite enter_uni, (do_action_uni _ _ _ Ha). split; [exact Hu|].
      rewrite !flat_map_app, exit_vis, enter_vis, (do_action_vis _ _ _ Ha), app_nil_r. reflexivity.
    + intros -> u Hl. destruct (do_action_utf8 v b u Hl) as [H1 H2].
      rewrite enter_uni, H1, H2. split; [reflexivity|].
      rewrite !flat_map_app, exit_vis, enter_vis. reflexivity.
  - split; [apply do_action_vs|]. split.
    + intros Ha. rewrite (do_action_uni _ _ _ Ha), (do_action_vis _ _ _ Ha). auto.
    + intros -> u Hl. destruct (do_action_utf8 v b u Hl) as [H1 H2]. rewrite H1, H2. auto.
Qed.

Lemma keeps_ascii s b tgt a :
  vt_trans s b = (tgt, a) -> a <> TUtf8 -> keeps a b = true -> b < 128.
Proof.
  intros Ht Ha Hk. destruct a; cbn [keeps] in Hk; try discriminate; try contradiction.
  - apply trans_print_range in Ht. ranges. lia.
  - unfold is_ws_control in Hk. repeat (apply orb_true_iff in Hk as [Hk|Hk]); ranges; lia.
Qed.

(* ---- the lockstep invariant --------------------------------------------------- *)

(* [pend]: bytes of the open character, already kept by Spec/Strip but not yet
   accounted for by an event of Spec/Vt *)
Definition SV (s : sstate) (v : vt) (vu : option ustate) (pend : list N) : Prop :=
  sv s = vs v /\
  match su s with
  | None => uni v = None /\ pend = []
  | Some u =>
      vu = Some u /\
      exists a rest u0, uni v = Some (u, a :: rest) /\ pend = a :: rest /\
                        utf8_lead a = Some u0 /\ ucrun u0 rest = UMore u
  end.

Lemma SV_init : SV s_init vt_init None [].
Proof. split; [reflexivity|]. cbn. auto. Qed.

Lemma visible_text_app e1 e2 : visible_text (e1 ++ e2) = visible_text e1 ++ visible_text e2.
Proof. unfold visible_text. now rewrite !flat_map_app. Qed.

Lemma sv_run : forall bs s v vu pend,
  SV s v vu pend -> valid_from vu bs = true ->
  pend ++ snd (strip_run s bs) = visible_text (snd (vt_run v bs)).
Proof.
  induction bs as [|b bs IH]; intros s v vu pend (Hsv & HI) Hv.
  - cbn [strip_run vt_run snd]. cbn [valid_from] in Hv. destruct vu; [discriminate|].
    destruct (su s); [destruct HI as [C _]; discriminate|]. destruct HI as [_ ->]. reflexivity.
  - rewrite valid_from_cons in Hv. destruct (vnext vu b) as [vu'|] eqn:Hvn; [|discriminate].
    cbn [strip_run vt_run].
    destruct (strip_step s b) as [s1 k] eqn:Hss. destruct (vt_step v b) as [v1 e1] eqn:Hvs.
    specialize (IH s1 v1 vu').
    destruct (strip_run s1 bs) as [s2 out] eqn:Hsr. destruct (vt_run v1 bs) as [v2 e2] eqn:Hvr.
    cbn [snd] in *. rewrite visible_text_app.
    unfold strip_step in Hss. destruct (su s) as [u|] eqn:Hsu.
    + (* inside a character *)
      destruct HI as (-> & a & rest & u0 & Huni & -> & Hl & Hcr).
      cbn [vnext] in Hvn.
      assert (Hnb : utf8_cont u b <> UBad) by (destruct (utf8_cont u b); congruence).
      destruct (utf8_cont_range u b Hnb) as (_ & Hlt & _). rewrite Hlt in Hss.
      unfold vt_step in Hvs. rewrite Huni in Hvs.
      pose proof (ucrun_snoc rest u0 u b Hcr) as Hsn.
      remember (utf8_decode ((a :: rest) ++ [b])) as cp eqn:Hcp in Hvs.
      destruct (utf8_cont u b) as [u'| |] eqn:Hc; [| |contradiction];
        inversion Hvn; subst vu'; inversion Hss; subst s1 k; inversion Hvs; subst v1 e1.
      * rewrite <- (IH ((a :: rest) ++ [b])), <- app_assoc; [reflexivity| |exact Hv].
        split; [exact Hsv|]. cbn [su]. split; [reflexivity|].
        exists a, (rest ++ [b]), u0. cbn [set_uni uni]. auto.
      * destruct (utf8_multi_roundtrip a (rest ++ [b]) u0 Hl Hsn) as (Henc & Hge & _).
        rewrite <- (IH []); [| |exact Hv].
        -- change (a :: rest ++ [b]) with ((a :: rest) ++ [b]) in Henc, Hge.
           rewrite <- Hcp in Henc, Hge.
           unfold visible_text. cbn [flat_map visible_of].
           replace (cp =? 127) with false by (symmetry; apply N.eqb_neq; lia).
           cbn [flat_map app]. rewrite Henc, !app_nil_r, <- app_assoc. reflexivity.
        -- split; [exact Hsv|]. cbn [su set_uni uni]. auto.
    + (* outside a character: one step of the plain machine on both sides *)
      destruct HI as [Huni ->]. cbn [app].
      unfold plain_step in Hss. rewrite Hsv in Hss.
      destruct (vt_trans (vs v) b) as [tgt a] eqn:Ht.
      destruct (vt_step_plain_props v b tgt a Huni Ht) as (Hvs1 & Hother & Hutf).
      rewrite Hvs in Hvs1, Hother, Hutf. cbn [fst snd] in Hvs1, Hother, Hutf.
      assert (Ha : {a = TUtf8} + {a <> TUtf8}) by (destruct a; (left; reflexivity) || (right; discriminate)).
      destruct Ha as [->|Ha].
      * inversion Hss; subst s1 k. clear Hss.
        pose proof (trans_utf8_range _ _ _ Ht) as Hr. ranges.
        assert (Hvu : vu = None).
        { destruct vu as [u|]; [|reflexivity]. cbn [vnext] in Hvn.
          assert (Hnb : utf8_cont u b <> UBad) by (destruct (utf8_cont u b); congruence).
          destruct (utf8_cont_range u b Hnb) as (_ & _ & Hnl).
          exfalso. revert Hnl. unfold utf8_lead, in_range.
          repeat match goal with |- context [if ?c then _ else _] => destruct c eqn:? end;
            try discriminate; intros _; ranges;
            repeat match goal with
                   | H : (_ && _) = false |- _ => apply andb_false_iff in H as [H|H]
                   | H : (_ <=? _) = false |- _ => apply N.leb_gt in H
                   | H : (_ =? _) = false |- _ => apply N.eqb_neq in H
                   end; lia. }
        subst vu. cbn [vnext] in Hvn.
        replace (b <? 128) with false in Hvn by (symmetry; apply N.ltb_ge; lia).
        destruct (utf8_lead b) as [u|] eqn:Hl; [|discriminate]. inversion Hvn; subst vu'.
        destruct (Hutf eq_refl u eq_refl) as [Hu1 He1].
        unfold visible_text at 1. rewrite He1. cbn [flat_map app].
        rewrite <- (IH [b]); [reflexivity| |exact Hv].
        split; [cbn [sv]; now rewrite Hvs1|]. cbn [su]. split; [reflexivity|].
        exists b, [], u. cbn [ucrun]. auto.
      * assert (Hss' : s1 = mkS (match tgt with Some t => t | None => vs v end) None /\ k = keeps a b).
        { destruct a; inversion Hss; auto; contradiction. }
        destruct Hss' as [-> ->]. clear Hss.
        destruct (Hother Ha) as [Hu1 He1].
        unfold visible_text at 1. rewrite He1.
        rewrite <- (IH []); [| |exact Hv].
        -- destruct (keeps a b) eqn:Hk; [|reflexivity].
           cbn [flat_map]. rewrite (utf8_encode_ascii b (keeps_ascii _ _ _ _ Ht Ha Hk)). reflexivity.
        -- split; [cbn [sv]; now rewrite Hvs1|]. cbn [su]. auto.
Qed.

Theorem strip_visible_text : forall input,
  Forall (fun b => b < 256) input -> valid_utf8 input = true ->
  spec_strip input = flat_map utf8_encode (flat_map visible_of (spec_events input)).
Proof.
  intros input _ Hv. unfold spec_strip, spec_events.
  exact (sv_run input s_init vt_init None [] SV_init Hv).
Qed.
