(* Proofs/OwoFnGen.v -- the functions of the third-party crate owo-colors 4.0.0 that tools/gen_fn_owo.py
   translates (Generated/OwoFn.v: the rendering path of `owo_colors::Style` and the builder methods the adapter
   calls) are equal to the hand model Model/Owo.v; composition with Proofs/OwoRender.v (what the bytes mean). *)
From Coq Require Import NArith List Bool Lia.
From AV Require Import Spec.Vt Spec.Sgr Spec.Targets Model.Base Model.Imp Generated.Table Proofs.TableFacts.
From AV Require Import Generated.Adapters Model.Adapters Model.Owo Generated.OwoFn Proofs.OwoRender Proofs.OwoFnColours.
From AV Require Import Generated.AdaptersFn Proofs.AdaptersGen.
Import ListNotations.
Local Open Scope N_scope.

(* ---- StyleFlags ---------------------------------------------------------------- *)

Definition og_getters (fl : N) : list bool :=
  [g_owo_flags_dimmed fl; g_owo_flags_italic fl; g_owo_flags_underline fl; g_owo_flags_blink fl;
   g_owo_flags_blink_fast fl; g_owo_flags_reversed fl; g_owo_flags_hidden fl; g_owo_flags_strikethrough fl].
Definition og_setters (fl : N) (v : bool) : list N :=
  [g_owo_flags_set_dimmed fl v; g_owo_flags_set_italic fl v; g_owo_flags_set_underline fl v; g_owo_flags_set_blink fl v;
   g_owo_flags_set_blink_fast fl v; g_owo_flags_set_reversed fl v; g_owo_flags_set_hidden fl v; g_owo_flags_set_strikethrough fl v].

Fixpoint og_bools_eqb (a b : list bool) : bool :=
  match a, b with
  | [], [] => true
  | x :: a', y :: b' => Bool.eqb x y && og_bools_eqb a' b'
  | _, _ => false
  end.
Fixpoint og_ns_eqb (a b : list N) : bool :=
  match a, b with
  | [], [] => true
  | x :: a', y :: b' => (x =? y) && og_ns_eqb a' b'
  | _, _ => false
  end.
Lemma og_bools_eqb_eq a : forall b, og_bools_eqb a b = true -> a = b.
Proof.
  induction a as [|x a IH]; intros [|y b] H; cbn in H; try discriminate; [reflexivity|].
  apply andb_true_iff in H. destruct H as [H1 H2]. apply Bool.eqb_prop in H1. f_equal; [exact H1|now apply IH].
Qed.
Lemma og_ns_eqb_eq a : forall b, og_ns_eqb a b = true -> a = b.
Proof.
  induction a as [|x a IH]; intros [|y b] H; cbn in H; try discriminate; [reflexivity|].
  apply andb_true_iff in H. destruct H as [H1 H2]. apply N.eqb_eq in H1. f_equal; [exact H1|now apply IH].
Qed.

Definition og_bits : list N := [0; 1; 2; 3; 4; 5; 6; 7].

(* every getter is the bit test, every setter sets / clears exactly its bit (all 256 flag bytes) *)
Lemma g_owo_flags_getters_eq fl : fl < 256 -> og_getters fl = map (N.testbit fl) og_bits.
Proof.
  intros H. apply og_bools_eqb_eq.
  exact (forall_bytes (fun fl => og_bools_eqb (og_getters fl) (map (N.testbit fl) og_bits)) ltac:(vm_compute; reflexivity) fl H).
Qed.

Lemma g_owo_flags_setters_eq fl v : og_setters fl v = map (fun k => owo_set_flag fl k v) og_bits.
Proof. destruct v; reflexivity. Qed.

Lemma og_zero_bits fl : fl < 256 -> (fl =? 0) = negb (existsb (N.testbit fl) og_bits).
Proof.
  intros H. apply Bool.eqb_prop.
  exact (forall_bytes (fun fl => Bool.eqb (fl =? 0) (negb (existsb (N.testbit fl) og_bits))) ltac:(vm_compute; reflexivity) fl H).
Qed.

(* ---- the builder methods -------------------------------------------------------- *)

Lemma g_owo_style_new_eq : g_owo_style_new = mkOwo None None false 0.
Proof. reflexivity. Qed.

Lemma g_owo_style_color_eq s c : g_owo_style_color s c = set_ow_fg s (Some c).
Proof. reflexivity. Qed.
Lemma g_owo_style_on_color_eq s c : g_owo_style_on_color s c = set_ow_bg s (Some c).
Proof. reflexivity. Qed.

(* the builder method called [name], as translated *)
Definition g_owo_builder (name : list N) : option (owo_style -> owo_style) :=
  if ad_name_eqb name owo_bold_name then Some g_owo_style_bold
  else match ad_assoc name owo_flag_names with
       | Some k => nth_error [g_owo_style_dimmed; g_owo_style_italic; g_owo_style_underline; g_owo_style_blink;
                              g_owo_style_blink_fast; g_owo_style_reversed; g_owo_style_hidden; g_owo_style_strikethrough]
                             (N.to_nat k)
       | None => None
       end.

Lemma g_owo_builders_eq s :
  [g_owo_style_dimmed s; g_owo_style_italic s; g_owo_style_underline s; g_owo_style_blink s;
   g_owo_style_blink_fast s; g_owo_style_reversed s; g_owo_style_hidden s; g_owo_style_strikethrough s]
  = map (fun k => set_ow_flags s (owo_set_flag (ow_flags s) k true)) og_bits.
Proof. reflexivity. Qed.

Lemma g_owo_builder_eq name s :
  option_map (fun b => b s) (g_owo_builder name) = owo_attr s name.
Proof.
  unfold g_owo_builder, owo_attr.
  destruct (ad_name_eqb name owo_bold_name); [reflexivity|].
  unfold owo_flag_names. cbn [ad_assoc].
  repeat match goal with
  | |- context [if ad_name_eqb name ?k then _ else _] => destruct (ad_name_eqb name k); [reflexivity|]
  end.
  reflexivity.
Qed.

Lemma owo_set_flag_lt fl k : fl < 256 -> k < 8 -> owo_set_flag fl k true < 256.
Proof.
  intros H Hk.
  assert (E : (owo_set_flag fl k true <? 256) = true).
  { assert (HI : In k og_bits).
    { unfold og_bits. rewrite <- (N2Nat.id k). assert (Hn : (N.to_nat k < 8)%nat) by lia.
      revert Hn. generalize (N.to_nat k). intros n Hn.
      do 8 (destruct n as [|n]; [cbn; repeat (first [left; reflexivity | right]) | ]). lia. }
    pose proof (forall_bytes (fun fl => forallb (fun k => owo_set_flag fl k true <? 256) og_bits) ltac:(vm_compute; reflexivity) fl H) as A.
    cbv beta in A. rewrite forallb_forall in A. exact (A k HI). }
  now apply N.ltb_lt.
Qed.

(* ---- Style::is_plain, fmt_suffix ------------------------------------------------ *)

Lemma g_owo_style_is_plain_eq s : g_owo_style_is_plain s = owo_is_plain s.
Proof. destruct s as [[?|] [?|] [|] fl]; reflexivity. Qed.

Lemma g_owo_style_fmt_suffix_eq s f : g_owo_style_fmt_suffix s f = Some (f ++ owo_suffix s, inl tt).
Proof.
  unfold g_owo_style_fmt_suffix, owo_suffix, owo_write_str. rewrite g_owo_style_is_plain_eq.
  destruct (owo_is_plain s); cbn [negb]; [rewrite app_nil_r|]; reflexivity.
Qed.

(* ---- Style::fmt_prefix ----------------------------------------------------------- *)

(* one `if <effect> { if semicolon { ";" } <code>; semicolon = true }` statement *)
Definition og_estep (b : bool) (code : N) (f : list N) (sc : bool) : list N * bool :=
  if b then ((if sc then f ++ [59] else f) ++ [code], true) else (f, sc).

Lemma og_estep_bind {R : Type} (b : bool) (code : N) (f : list N) (sc : bool) (K : list N -> bool -> option R) :
  ('(f', sc') <- (if b then f1 <- (if sc then Some (owo_write_str f [59]) else Some f) ;; Some (owo_write_str f1 [code], true)
                  else Some (f, sc)) ;; K f' sc')
  = K (fst (og_estep b code f sc)) (snd (og_estep b code f sc)).
Proof. destruct b, sc; reflexivity. Qed.

Fixpoint og_erun (l : list (bool * N)) (f : list N) (sc : bool) : list N * bool :=
  match l with
  | [] => (f, sc)
  | (b, c) :: t => og_erun t (fst (og_estep b c f sc)) (snd (og_estep b c f sc))
  end.

Definition og_codes (l : list (bool * N)) : list (list N) :=
  flat_map (fun p : bool * N => if fst p then [[snd p]] else []) l.
Definition og_sep (sc : bool) (cs : list (list N)) : list N :=
  match cs with [] => [] | _ => (if sc then [59] else []) ++ owo_join cs end.

Lemma owo_join_cons x y t : owo_join (x :: y :: t) = x ++ 59 :: owo_join (y :: t).
Proof. reflexivity. Qed.

Lemma og_erun_spec (l : list (bool * N)) : forall (f : list N) (sc : bool),
  og_erun l f sc = (f ++ og_sep sc (og_codes l), sc || existsb fst l).
Proof.
  induction l as [|[b c] t IH]; intros f sc; cbn [og_erun og_codes flat_map existsb fst snd].
  - unfold og_sep. now rewrite app_nil_r, orb_false_r.
  - fold (og_codes t). destruct b; unfold og_estep; cbn [fst snd app].
    + rewrite IH. rewrite orb_true_r. cbn [orb]. f_equal. unfold og_sep.
      destruct (og_codes t) as [|y t'].
      * cbn [owo_join]. destruct sc; rewrite <- ?app_assoc; now rewrite app_nil_r.
      * rewrite owo_join_cons. destruct sc; rewrite <- ?app_assoc; reflexivity.
    + rewrite IH. cbn [orb]. reflexivity.
Qed.

Definition og_effects (bold : bool) (fl : N) : list (bool * N) :=
  (bold, 49) :: map (fun k => (N.testbit fl k, 50 + k)) og_bits.

Lemma og_codes_effects bold fl : og_codes (og_effects bold fl) = owo_effect_params (mkOwo None None bold fl).
Proof.
  unfold og_effects, og_codes, owo_effect_params, owo_flag_codes, og_bits. cbn [ow_bold ow_flags map flat_map fst snd].
  destruct bold; reflexivity.
Qed.

(* the effect statements of fmt_prefix and its closing "m", as a function of the formatter / separator state they are
   reached with (the text is the generated one; [change] in the main proof checks it by conversion) *)
Definition og_chain (pl bold : bool) (fl : N) (f9 : list N) (sc2 : bool) : option (list N * (unit + unit)) :=
    ('(f47, semicolon22) <- (if bold || negb (fl =? 0) then
        '(f13, semicolon4) <- (if bold then
          f11 <- (if sc2 then Some (owo_write_str f9 [59]) else Some f9) ;; Some (owo_write_str f11 [49], true)
        else Some (f9, sc2)) ;;
        '(f46, semicolon21) <- (if negb (fl =? 0) then
          '(f17, semicolon6) <- (if N.testbit fl 0 then f15 <- (if semicolon4 then Some (owo_write_str f13 [59]) else Some f13) ;; Some (owo_write_str f15 [50], true) else Some (f13, semicolon4)) ;;
          '(f21, semicolon8) <- (if N.testbit fl 1 then f19 <- (if semicolon6 then Some (owo_write_str f17 [59]) else Some f17) ;; Some (owo_write_str f19 [51], true) else Some (f17, semicolon6)) ;;
          '(f25, semicolon10) <- (if N.testbit fl 2 then f23 <- (if semicolon8 then Some (owo_write_str f21 [59]) else Some f21) ;; Some (owo_write_str f23 [52], true) else Some (f21, semicolon8)) ;;
          '(f29, semicolon12) <- (if N.testbit fl 3 then f27 <- (if semicolon10 then Some (owo_write_str f25 [59]) else Some f25) ;; Some (owo_write_str f27 [53], true) else Some (f25, semicolon10)) ;;
          '(f33, semicolon14) <- (if N.testbit fl 4 then f31 <- (if semicolon12 then Some (owo_write_str f29 [59]) else Some f29) ;; Some (owo_write_str f31 [54], true) else Some (f29, semicolon12)) ;;
          '(f37, semicolon16) <- (if N.testbit fl 5 then f35 <- (if semicolon14 then Some (owo_write_str f33 [59]) else Some f33) ;; Some (owo_write_str f35 [55], true) else Some (f33, semicolon14)) ;;
          '(f41, semicolon18) <- (if N.testbit fl 6 then f39 <- (if semicolon16 then Some (owo_write_str f37 [59]) else Some f37) ;; Some (owo_write_str f39 [56], true) else Some (f37, semicolon16)) ;;
          '(f45, semicolon20) <- (if N.testbit fl 7 then f43 <- (if semicolon18 then Some (owo_write_str f41 [59]) else Some f41) ;; Some (owo_write_str f43 [57], true) else Some (f41, semicolon18)) ;;
          Some (f45, semicolon20)
        else Some (f13, semicolon4)) ;;
        Some (f46, semicolon21)
      else Some (f9, sc2)) ;;
     f49 <- (if negb (pl) then Some (owo_write_str f47 [109]) else Some f47) ;;
     Some (f49, @inl unit unit tt)).

Lemma og_if_bind {A R : Type} (c : bool) (a b : A) (K : A -> option R) :
  (x <- (if c then Some a else Some b) ;; K x) = K (if c then a else b).
Proof. destruct c; reflexivity. Qed.

Lemma og_chain_eq pl bold fl f9 sc2 : fl < 256 ->
  og_chain pl bold fl f9 sc2
  = Some ((f9 ++ og_sep sc2 (owo_effect_params (mkOwo None None bold fl))) ++ (if pl then [] else [109]), inl tt).
Proof.
  intros Hfl. pose proof (og_zero_bits fl Hfl) as Z. unfold og_chain.
  rewrite <- og_codes_effects.
  pose proof (og_erun_spec (og_effects bold fl) f9 sc2) as R.
  apply (f_equal fst) in R. cbn [fst] in R. rewrite <- R. clear R.
  unfold og_effects, og_bits. cbn [map og_erun].
  rewrite Z. unfold og_bits. cbn [existsb]. rewrite negb_involutive.
  destruct (N.testbit fl 0 || (N.testbit fl 1 || (N.testbit fl 2 || (N.testbit fl 3 || (N.testbit fl 4 || (N.testbit fl 5 || (N.testbit fl 6 || (N.testbit fl 7 || false)))))))) eqn:E.
  - rewrite orb_true_r. cbv iota. rewrite !og_estep_bind. unfold owo_write_str.
    destruct pl; cbn [negb]; [rewrite app_nil_r|]; reflexivity.
  - repeat (apply orb_false_iff in E; destruct E as [?E E]). rewrite E0, E1, E2, E3, E4, E5, E6, E7.
    unfold owo_write_str.
    destruct bold, sc2, pl; cbn [orb negb og_estep fst snd]; rewrite ?app_nil_r; reflexivity.
Qed.

Lemma g_owo_style_fmt_prefix_eq s f : owo_style_ok s ->
  g_owo_style_fmt_prefix s f = Some (f ++ owo_prefix s, inl tt).
Proof.
  intros (Hfg & Hbg & Hfl). destruct s as [fg bg bold fl]. cbn [ow_fg ow_bg ow_flags] in Hfg, Hbg, Hfl.
  pose proof (g_owo_flags_getters_eq fl Hfl) as G. unfold og_getters, og_bits in G. cbn [map] in G.
  injection G as G0 G1 G2 G3 G4 G5 G6 G7.
  unfold g_owo_style_fmt_prefix. rewrite g_owo_style_is_plain_eq.
  cbn [ow_fg ow_bg ow_bold ow_flags]. rewrite G0, G1, G2, G3, G4, G5, G6, G7.
  unfold owf_default. cbv zeta. rewrite og_if_bind.
  unfold owo_prefix. cbn [ow_fg ow_bg].
  assert (P : owo_effect_params (mkOwo fg bg bold fl) = owo_effect_params (mkOwo None None bold fl)) by reflexivity.
  rewrite P. clear P. set (effs := owo_effect_params (mkOwo None None bold fl)).
  (* the part after the colours is [og_chain] at the formatter / separator state reached *)
  Ltac og_to_chain pl bold fl :=
    match goal with
    | |- context [if bold then _ else Some (?x, ?sc)] =>
        match goal with |- ?L = ?R => change (og_chain pl bold fl x sc = R) end
    end.
  destruct fg as [cf|]; destruct bg as [cb|]; cbn [opt_is_some];
    try rewrite (g_owo_dyn_raw_fg_eq cf _ Hfg); cbv beta iota zeta;
    try rewrite (g_owo_dyn_raw_bg_eq cb _ Hbg); cbv beta iota zeta.
  - og_to_chain (owo_is_plain (mkOwo (Some cf) (Some cb) bold fl)) bold fl. rewrite (og_chain_eq _ _ _ _ _ Hfl).
    fold effs. change (owo_is_plain (mkOwo (Some cf) (Some cb) bold fl)) with false. cbn [negb]. unfold og_sep, owo_write_str.
    destruct effs; repeat (rewrite <- ?app_assoc; cbn [app]); reflexivity.
  - og_to_chain (owo_is_plain (mkOwo (Some cf) None bold fl)) bold fl. rewrite (og_chain_eq _ _ _ _ _ Hfl).
    fold effs. change (owo_is_plain (mkOwo (Some cf) None bold fl)) with false. cbn [negb]. unfold og_sep, owo_write_str.
    destruct effs; repeat (rewrite <- ?app_assoc; cbn [app]); reflexivity.
  - og_to_chain (owo_is_plain (mkOwo None (Some cb) bold fl)) bold fl. rewrite (og_chain_eq _ _ _ _ _ Hfl).
    fold effs. change (owo_is_plain (mkOwo None (Some cb) bold fl)) with false. cbn [negb]. unfold og_sep, owo_write_str.
    destruct effs; repeat (rewrite <- ?app_assoc; cbn [app]); reflexivity.
  - og_to_chain (owo_is_plain (mkOwo None None bold fl)) bold fl. rewrite (og_chain_eq _ _ _ _ _ Hfl).
    fold effs. unfold og_sep, owo_write_str.
    destruct (owo_is_plain (mkOwo None None bold fl)) eqn:Hpl; cbn [negb].
    + (* plain: not bold, no flag: no effect parameter *)
      assert (effs = []) as ->.
      { subst effs. unfold owo_is_plain in Hpl. cbn [ow_fg ow_bg ow_bold ow_flags orb] in Hpl.
        destruct bold; [discriminate|]. cbn [orb] in Hpl. rewrite negb_involutive in Hpl.
        apply N.eqb_eq in Hpl. subst fl. reflexivity. }
      now rewrite !app_nil_r.
    + destruct effs; repeat (rewrite <- ?app_assoc; cbn [app]); reflexivity.
Qed.

(* ---- Styled<&str> as Display, format! -------------------------------------------- *)

Lemma g_owo_styled_fmt_eq s text f : owo_style_ok s ->
  g_owo_styled_fmt (mkOwoStyled text s) f = Some (f ++ owo_render s text, inl tt).
Proof.
  intros H. unfold g_owo_styled_fmt. cbn [owd_style owd_target].
  rewrite (g_owo_style_fmt_prefix_eq s f H). cbv zeta. rewrite g_owo_style_fmt_suffix_eq.
  unfold owo_render, owo_write_str. now rewrite <- !app_assoc.
Qed.

(* ENTRY POINT: format!("{}", s.style(text)) for every owo_colors::Style without a CSS colour: no panic, and the
   bytes are the hand model's *)
Theorem translated_owo_render_is_model s text : owo_style_ok s ->
  g_owo_render s text = Some (owo_render s text).
Proof.
  intros H. unfold g_owo_render, g_owo_style_style. rewrite (g_owo_styled_fmt_eq s text [] H). reflexivity.
Qed.

(* ---- the value the adapter's calls build ------------------------------------------ *)

(* the adapter model's abstract target style (constructor and builder NAMES) run through the TRANSLATED constructors
   and builder methods: Style::new(), .color(c), .on_color(c), then the attribute calls in order *)
Definition g_owo_of_tcolor (c : ad_tcolor) : option owo_dyn :=
  match c with
  | AdNamed nm => option_map OwAnsi (owo_index_of nm g_owo_ansi_names 0)
  | AdFixed n => option_map OwXterm (g_owo_xterm_from n)
  | AdRgb r g b => Some (OwRgb r g b)
  end.

Fixpoint g_owo_apply (s : owo_style) (names : list (list N)) : option owo_style :=
  match names with
  | [] => Some s
  | n :: t => match g_owo_builder n with Some b => g_owo_apply (b s) t | None => None end
  end.

Definition g_owo_of_tstyle (t : ad_tstyle) : option owo_style :=
  match ad_t_ul t with
  | Some _ => None
  | None =>
      s1 <- (match ad_t_fg t with
             | Some c => option_map (g_owo_style_color g_owo_style_new) (g_owo_of_tcolor c)
             | None => Some g_owo_style_new end) ;;
      s2 <- (match ad_t_bg t with
             | Some c => option_map (g_owo_style_on_color s1) (g_owo_of_tcolor c)
             | None => Some s1 end) ;;
      g_owo_apply s2 (ad_t_attrs t)
  end.

Lemma g_owo_of_tcolor_eq c : g_owo_of_tcolor c = owo_of_tcolor g_owo_ansi_names c.
Proof.
  destruct c as [nm|n|r g b]; cbn [g_owo_of_tcolor owo_of_tcolor]; try reflexivity.
  destruct (n <? 256) eqn:E.
  - apply N.ltb_lt in E. now rewrite g_owo_xterm_from_eq.
  - apply N.ltb_ge in E. unfold g_owo_xterm_from.
    (* above 255 no arm of the 256-arm match applies *)
    cbv zeta.
    repeat match goal with
    | |- context [if n =? ?k then _ else _] => replace (n =? k) with false by (symmetry; apply N.eqb_neq; lia)
    end.
    reflexivity.
Qed.

Lemma owo_attr_flags s name s' : ow_flags s < 256 -> owo_attr s name = Some s' -> ow_flags s' < 256.
Proof.
  intros H. unfold owo_attr. destruct (ad_name_eqb name owo_bold_name).
  - intros E. injection E as <-. exact H.
  - destruct (ad_assoc name owo_flag_names) as [k|] eqn:A; [|discriminate].
    intros E. injection E as <-. cbn [ow_flags set_ow_flags]. apply owo_set_flag_lt; [exact H|].
    unfold owo_flag_names in A. cbn [ad_assoc] in A.
    repeat match type of A with
    | (if ?c then _ else _) = _ => destruct c; [injection A as <-; reflexivity|]
    end. discriminate.
Qed.

Lemma g_owo_apply_eq names : forall s, ow_flags s < 256 -> g_owo_apply s names = owo_attrs s names.
Proof.
  induction names as [|n t IH]; intros s H; cbn [g_owo_apply owo_attrs]; [reflexivity|].
  pose proof (g_owo_builder_eq n s) as E. destruct (g_owo_builder n) as [b|]; cbn [option_map] in E; rewrite <- E.
  - apply IH. apply (owo_attr_flags s n (b s) H). now symmetry.
  - reflexivity.
Qed.

Theorem translated_owo_value_is_model t : g_owo_of_tstyle t = owo_of_tstyle g_owo_ansi_names t.
Proof.
  unfold g_owo_of_tstyle, owo_of_tstyle, owo_of_slot. destruct t as [fg bg ul attrs]. cbn [ad_t_fg ad_t_bg ad_t_ul ad_t_attrs].
  destruct ul as [u|].
  - destruct fg as [c|]; [rewrite <- g_owo_of_tcolor_eq; destruct (g_owo_of_tcolor c)|]; cbn [option_map];
      try reflexivity; (destruct bg as [c'|]; [rewrite <- g_owo_of_tcolor_eq; destruct (g_owo_of_tcolor c')|]; reflexivity).
  - destruct fg as [c|]; [rewrite <- g_owo_of_tcolor_eq; destruct (g_owo_of_tcolor c) as [d|]|]; cbn [option_map]; try reflexivity;
      (destruct bg as [c'|]; [rewrite <- g_owo_of_tcolor_eq; destruct (g_owo_of_tcolor c') as [d'|]|]; cbn [option_map]; try reflexivity;
       apply g_owo_apply_eq; cbn; lia).
Qed.

(* ---- the image of the adapter: to_owo_style(s) is [owo_value s] ------------------------------------ *)

Lemma owo_attrs_colours names : forall fg bg b fl,
  owo_attrs (mkOwo fg bg b fl) names
  = option_map (fun v => mkOwo fg bg (ow_bold v) (ow_flags v)) (owo_attrs (mkOwo None None b fl) names).
Proof.
  induction names as [|n t IH]; intros fg bg b fl; cbn [owo_attrs]; [reflexivity|].
  unfold owo_attr. cbn [ow_flags set_ow_bold set_ow_flags ow_fg ow_bg ow_bold].
  destruct (ad_name_eqb n owo_bold_name); [apply IH|].
  destruct (ad_assoc n owo_flag_names); [apply IH|reflexivity].
Qed.

Definition og_style_eqb (a b : option owo_style) : bool :=
  match a, b with
  | Some x, Some y => Bool.eqb (ow_bold x) (ow_bold y) && (ow_flags x =? ow_flags y)
                      && match ow_fg x, ow_bg x, ow_fg y, ow_bg y with None, None, None, None => true | _, _, _, _ => false end
  | _, _ => false
  end.

Lemma owo_effects_value e : e < 4096 ->
  owo_attrs (mkOwo None None false 0) (ad_conv_effects ad_gen_owo_effects e)
  = Some (mkOwo None None (N.testbit e BOLD) (owo_flags_of e)).
Proof.
  intros H.
  pose proof (forall_effects (fun e => og_style_eqb (owo_attrs (mkOwo None None false 0) (ad_conv_effects ad_gen_owo_effects e))
                                                    (Some (mkOwo None None (N.testbit e BOLD) (owo_flags_of e))))
                ltac:(vm_compute; reflexivity) e H) as A.
  cbv beta in A. unfold og_style_eqb in A.
  destruct (owo_attrs (mkOwo None None false 0) (ad_conv_effects ad_gen_owo_effects e)) as [[fg bg b fl]|]; [|discriminate].
  cbn [ow_fg ow_bg ow_bold ow_flags] in A. destruct fg; [now rewrite andb_false_r in A|]. destruct bg; [now rewrite andb_false_r in A|].
  rewrite andb_true_r in A. apply andb_true_iff in A. destruct A as [A B]. apply Bool.eqb_prop in A. apply N.eqb_eq in B.
  now rewrite A, B.
Qed.

Lemma og_lt16_In i : i < 16 -> In i [0; 1; 2; 3; 4; 5; 6; 7; 8; 9; 10; 11; 12; 13; 14; 15].
Proof.
  intros H. rewrite <- (N2Nat.id i). assert (Hn : (N.to_nat i < 16)%nat) by lia.
  revert Hn. generalize (N.to_nat i). intros n Hn.
  do 16 (destruct n as [|n]; [cbn; repeat (first [left; reflexivity | right]) | ]). lia.
Qed.

Lemma owo_colour_of_adapter c : ad_colour_ok (Some c) -> owo_u8_colour (Some c) ->
  owo_of_tcolor g_owo_ansi_names (ad_conv_colour ad_gen_owo_colors c) = Some (owo_colour c).
Proof.
  destruct c as [i|n|r g b]; cbn [ad_colour_ok owo_u8_colour ad_conv_colour owo_of_tcolor owo_colour]; intros H U.
  - pose proof (og_lt16_In i H) as HI. cbn [In] in HI.
    repeat (destruct HI as [<-|HI]; [reflexivity|]). destruct HI.
  - apply N.ltb_lt in U. now rewrite U.
  - reflexivity.
Qed.

Theorem owo_value_of_adapter s : owo_src_ok s -> owo_of_tstyle g_owo_ansi_names (ad_to_owo s) = Some (owo_value s).
Proof.
  intros ((Hfg & Hbg & _ & He) & Ufg & Ubg). unfold owo_of_tstyle, ad_to_owo, owo_value, owo_of_slot.
  cbn [ad_t_fg ad_t_bg ad_t_ul ad_t_attrs].
  destruct (s_fg s) as [cf|]; destruct (s_bg s) as [cb|]; cbn [option_map];
    try rewrite (owo_colour_of_adapter cf Hfg Ufg); try rewrite (owo_colour_of_adapter cb Hbg Ubg); cbn [option_map];
    rewrite owo_attrs_colours, (owo_effects_value _ He); reflexivity.
Qed.

(* ---- composition: adapter (translated) ; owo-colors (translated) ; terminal --------------------------- *)

(* the rendering of ANY owo_colors::Style without a CSS colour, by the translated crate: no panic, and outside the
   separator defect the bytes mean the colours and effects the fields of the value name *)
Theorem translated_owo_render_meaning v : owo_style_ok v -> owo_rgb_u8 (ow_fg v) -> owo_rgb_u8 (ow_bg v) -> owo_sep_ok v ->
  (bytes <- g_owo_render v [120] ;; ad_interp_x bytes)
  = Some (mkStyle (owo_slot_meaning (ow_fg v)) (owo_slot_meaning (ow_bg v)) None (owo_eff_meaning (ow_bold v) (ow_flags v))).
Proof.
  intros Hok Rf Rb Hs. rewrite (translated_owo_render_is_model v [120] Hok). exact (owo_render_meaning v Hok Rf Rb Hs).
Qed.

(* render(convert s) interprets to project(s): to_owo_style as translated from the repository, the value run through
   the translated constructors / builders of the crate, rendered by the translated Display impl, read by Spec/Vt + Spec/Sgr *)
Definition g_owo_convert_render (s : sstyle) : option (list N) :=
  t <- g_to_owo_style s ;; v <- g_owo_of_tstyle t ;; g_owo_render v [120].

Theorem translated_owo_convert_render s : owo_src_ok s ->
  g_owo_convert_render s = Some (owo_render (owo_value s) [120]).
Proof.
  intros Hs. unfold g_owo_convert_render. rewrite (g_to_owo_style_eq s (proj1 Hs)).
  rewrite translated_owo_value_is_model, (owo_value_of_adapter s Hs).
  apply translated_owo_render_is_model. apply (owo_value_ok s Hs).
Qed.

Theorem translated_owo_rendered_meaning s : owo_src_ok s -> owo_defect s = false ->
  (bytes <- g_owo_convert_render s ;; ad_interp_x bytes) = Some (ad_project AdOwo s).
Proof.
  intros Hs Hd. rewrite (translated_owo_convert_render s Hs). exact (owo_render_interp s Hs Hd).
Qed.

Theorem translated_owo_rendered_refuted :
  owo_src_ok owo_witness /\
  g_owo_convert_render owo_witness = Some [27; 91; 52; 49; 49; 109; 120; 27; 91; 48; 109] /\
  (bytes <- g_owo_convert_render owo_witness ;; ad_interp_x bytes) = Some style_default /\
  (bytes <- g_owo_convert_render owo_witness ;; Some (ad_render_ok (ad_project AdOwo owo_witness) bytes)) = Some false.
Proof.
  destruct owo_render_refuted as (Hs & _ & Hb & Hi & Hf).
  split; [exact Hs|]. rewrite (translated_owo_convert_render _ Hs). rewrite Hb in *.
  split; [reflexivity|]. split; [exact Hi|]. now rewrite Hf.
Qed.
