(* Proofs/MacrosGen.v -- the print macros TRANSLATED from crates/anstream/src/_macros.rs (Generated/MacrosFn.v, written
   by tools/gen_fn_macros.py and its macro_rules reader on every run) do what the hand models assume about them
   (Model/Glue.v mac_emit / mac_captured / mac_adapted; ocaml/drv_stream.ml `pm`, `tas`):
   * outside tests every arm makes a FRESH AutoStream::auto stream over ITS OWN std handle (print / println: stdout,
     eprint / eprintln: stderr), performs exactly ONE write_fmt on it (println / eprintln: of `format_args_nl!`) and
     panics on an error that is not BrokenPipe; nothing else happens;
   * under test the fragments go through to_adapted_string, which asks the stream the macro names (print: stdout, eprint
     and panic!: stderr) and strips in an in-memory Vec; the text goes to std's own macro;
   * panic!(..) adapts its message for stderr, panic!() is std's.
   A change to one of the arms changes the translation; if it changes the meaning, a proof here fails. *)
From Coq Require Import NArith List Bool Lia.
From AV Require Import Generated.Table Spec.Io Model.Base Model.Imp Model.Utf8parse Model.Parser Model.Strip Model.Stream Model.Glue
  Generated.StreamFn Generated.AutoFn Generated.GlueFn Generated.MacrosFn Proofs.StreamGen Proofs.AutoGen Proofs.GlueGen.
Import ListNotations.
Local Open Scope N_scope.

Section Macros.
Variable lossy : list N -> list N.
Variable fmt_nl : list (list N) -> list (list N).

Lemma g_feature_test_activated_eq b : g_FEATURE_TEST_ACTIVATED b = b.
Proof. reflexivity. Qed.

Lemma mac_mode_decided d : d <> CAuto -> forall d', auto_mode d d' = mac_mode d.
Proof. intros Hd d'. unfold mac_mode. destruct d; [congruence|reflexivity..]. Qed.

(* ---- to_adapted_string ---------------------------------------------------------------------------------- *)
Lemma g_to_adapted_string_eq cfv ch frags target :
  ch target <> CAuto ->
  g_to_adapted_string lossy cfv ch frags target = mac_adapted lossy (ac_wv_all cfv) (ch target) frags.
Proof.
  intros Hd. unfold g_to_adapted_string, mac_adapted.
  rewrite g_as_new_eq. unfold auto_new.
  replace (cchoice_eqb (ch target) CAuto) with false by (destruct (ch target); [congruence|reflexivity..]).
  cbn [andb]. rewrite (mac_mode_decided _ Hd).
  cbv zeta.
  pose proof (g_as_write_fmt_eq cfv (mac_mode (ch target)) sb_new (writer_of []) frags) as H.
  destruct (g_as_write_fmt cfv (as_of (mac_mode (ch target)) sb_new (writer_of [])) frags) as [[a1 r]|];
    destruct (auto_op (ac_wv_all cfv) (mac_mode (ch target)) sb_new (writer_of []) (OWriteFmt frags)) as [[[s1 w1] r']|];
    cbn [conv_as as_res] in H; try discriminate; [|reflexivity].
  injection H as Ha _. subst a1.
  rewrite g_as_into_inner_of. reflexivity.
Qed.

(* ---- the non-test path of the four printing arms, once: stream constructor, one write_fmt, the match ------------- *)
Definition emit_body (cf : acfg) (mk : option astream) (prefix : list N) (frags : list (list N)) (world : list mevent)
  : option (list mevent) :=
  match mk with
  | Some a =>
      match g_as_write_fmt cf a frags with
      | Some (a1, r) =>
          Some (match r with
                | inr e => world ++ [MWriteFmt a1 (inr e); MPanicIo prefix e]
                | inl u => world ++ [MWriteFmt a1 (inl u)]
                end)
      | None => None
      end
  | None => None
  end.

Lemma emit_body_model cf h prefix frags world :
  ac_decided cf <> CAuto ->
  emit_body cf (g_as_auto cf h) prefix frags world = mac_emit cf h prefix frags world.
Proof.
  intros Hd. unfold emit_body, mac_emit.
  rewrite g_as_auto_eq. unfold auto_new.
  replace (cchoice_eqb (ac_decided cf) CAuto) with false by (destruct (ac_decided cf); [congruence|reflexivity..]).
  cbn [cchoice_eqb andb]. fold (mac_mode (ac_decided cf)).
  pose proof (g_as_write_fmt_eq cf (mac_mode (ac_decided cf)) sb_new h frags) as H.
  destruct (g_as_write_fmt cf (as_of (mac_mode (ac_decided cf)) sb_new h) frags) as [[a1 r]|];
    destruct (auto_op (ac_wv_all cf) (mac_mode (ac_decided cf)) sb_new h (OWriteFmt frags)) as [[[s1 w1] r']|];
    cbn [conv_as as_res] in H; try discriminate; [|reflexivity].
  injection H as Ha Hr. subst a1. cbv zeta.
  destruct r as [[]|e]; cbn [sres_of_unit] in Hr; subst r'; reflexivity.
Qed.

Lemma ekindx_never_broken_pipe e : ekindx_eqb (EKOf e) EKBrokenPipe = false.
Proof. destruct e; reflexivity. Qed.

Ltac arm_nontest :=
  cbv zeta; unfold emit_body;
  match goal with |- context [g_as_auto ?cf ?h] => destruct (g_as_auto cf h) as [?a|]; [|reflexivity] end;
  match goal with |- context [g_as_write_fmt ?cf ?x ?f] => destruct (g_as_write_fmt cf x f) as [[?a1 [[]|?e]]|]; [| |reflexivity] end;
  [reflexivity | rewrite ekindx_never_broken_pipe; cbn [negb]; rewrite <- app_assoc; reflexivity].

Ltac arm_test :=
  cbv zeta;
  match goal with |- context [g_to_adapted_string ?l ?c ?h ?f ?t] => destruct (g_to_adapted_string l c h f t); reflexivity end.

(* the arms as "test ? captured : emitted" over the translated callees *)
Definition arm_shape (test : bool) (captured emitted : option (list mevent)) : option (list mevent) :=
  if test then captured else emitted.

Definition captured_body (cfv : acfg) (ch : writer -> cchoice) (err nl : bool) (frags : list (list N)) (target : writer)
           (world : list mevent) : option (list mevent) :=
  match g_to_adapted_string lossy cfv ch frags target with
  | Some t => Some (world ++ [MStdPrint err nl t])
  | None => None
  end.

Lemma g_print_arm0_shape ct ft cfv ch cf so se world args :
  g_print_arm0 lossy fmt_nl ct ft cfv ch cf so se world args =
  arm_shape (ct || ft) (captured_body cfv ch false false args so world)
            (emit_body cf (g_as_auto cf so) mac_msg_stdout args world).
Proof.
  unfold g_print_arm0, arm_shape, captured_body. rewrite g_feature_test_activated_eq, translated_stdout_is_auto.
  destruct (ct || ft); [arm_test|arm_nontest].
Qed.

Lemma g_println_arm1_shape ct ft cfv ch cf so se world args :
  g_println_arm1 lossy fmt_nl ct ft cfv ch cf so se world args =
  arm_shape (ct || ft) (captured_body cfv ch false true args so world)
            (emit_body cf (g_as_auto cf so) mac_msg_stdout (fmt_nl args) world).
Proof.
  unfold g_println_arm1, arm_shape, captured_body. rewrite g_feature_test_activated_eq, translated_stdout_is_auto.
  destruct (ct || ft); [arm_test|arm_nontest].
Qed.

Lemma g_eprint_arm0_shape ct ft cfv ch cf so se world args :
  g_eprint_arm0 lossy fmt_nl ct ft cfv ch cf so se world args =
  arm_shape (ct || ft) (captured_body cfv ch true false args se world)
            (emit_body cf (g_as_auto cf se) mac_msg_stderr args world).
Proof.
  unfold g_eprint_arm0, arm_shape, captured_body. rewrite g_feature_test_activated_eq, translated_stderr_is_auto.
  destruct (ct || ft); [arm_test|arm_nontest].
Qed.

Lemma g_eprintln_arm1_shape ct ft cfv ch cf so se world args :
  g_eprintln_arm1 lossy fmt_nl ct ft cfv ch cf so se world args =
  arm_shape (ct || ft) (captured_body cfv ch true true args se world)
            (emit_body cf (g_as_auto cf se) mac_msg_stderr (fmt_nl args) world).
Proof.
  unfold g_eprintln_arm1, arm_shape, captured_body. rewrite g_feature_test_activated_eq, translated_stderr_is_auto.
  destruct (ct || ft); [arm_test|arm_nontest].
Qed.

(* ---- against the hand model ------------------------------------------------------------------------------- *)
(* what one macro call does: [err] the std stream, [nl] the newline variant *)
Definition mac_model (test : bool) (cfv : acfg) (ch : writer -> cchoice) (cf : acfg) (err nl : bool) (so se : writer)
           (frags : list (list N)) (world : list mevent) : option (list mevent) :=
  let h := if err then se else so in
  if test then mac_captured lossy (ac_wv_all cfv) (ch h) err nl frags world
  else mac_emit cf h (if err then mac_msg_stderr else mac_msg_stdout) (if nl then fmt_nl frags else frags) world.

Lemma captured_body_model cfv ch err nl frags target world :
  ch target <> CAuto ->
  captured_body cfv ch err nl frags target world = mac_captured lossy (ac_wv_all cfv) (ch target) err nl frags world.
Proof. intros Hd. unfold captured_body, mac_captured. rewrite g_to_adapted_string_eq by exact Hd. reflexivity. Qed.

Theorem translated_print_is_model : forall ct ft cfv ch cf so se world args,
  ac_decided cf <> CAuto -> ch so <> CAuto ->
  g_print_arm0 lossy fmt_nl ct ft cfv ch cf so se world args = mac_model (ct || ft) cfv ch cf false false so se args world.
Proof.
  intros. rewrite g_print_arm0_shape. unfold arm_shape, mac_model.
  destruct (ct || ft); [apply captured_body_model|apply emit_body_model]; assumption.
Qed.

Theorem translated_println_is_model : forall ct ft cfv ch cf so se world args,
  ac_decided cf <> CAuto -> ch so <> CAuto ->
  g_println_arm1 lossy fmt_nl ct ft cfv ch cf so se world args = mac_model (ct || ft) cfv ch cf false true so se args world.
Proof.
  intros. rewrite g_println_arm1_shape. unfold arm_shape, mac_model.
  destruct (ct || ft); [apply captured_body_model|apply emit_body_model]; assumption.
Qed.

Theorem translated_eprint_is_model : forall ct ft cfv ch cf so se world args,
  ac_decided cf <> CAuto -> ch se <> CAuto ->
  g_eprint_arm0 lossy fmt_nl ct ft cfv ch cf so se world args = mac_model (ct || ft) cfv ch cf true false so se args world.
Proof.
  intros. rewrite g_eprint_arm0_shape. unfold arm_shape, mac_model.
  destruct (ct || ft); [apply captured_body_model|apply emit_body_model]; assumption.
Qed.

Theorem translated_eprintln_is_model : forall ct ft cfv ch cf so se world args,
  ac_decided cf <> CAuto -> ch se <> CAuto ->
  g_eprintln_arm1 lossy fmt_nl ct ft cfv ch cf so se world args = mac_model (ct || ft) cfv ch cf true true so se args world.
Proof.
  intros. rewrite g_eprintln_arm1_shape. unfold arm_shape, mac_model.
  destruct (ct || ft); [apply captured_body_model|apply emit_body_model]; assumption.
Qed.

(* println!() / eprintln!() are print!("\n") / eprint!("\n"): the one fragment "\n", no `format_args_nl!` *)
Theorem translated_empty_println_is_print : forall ct ft cfv ch cf so se world,
  g_println_arm0 lossy fmt_nl ct ft cfv ch cf so se world = g_print_arm0 lossy fmt_nl ct ft cfv ch cf so se world [[10]] /\
  g_eprintln_arm0 lossy fmt_nl ct ft cfv ch cf so se world = g_eprint_arm0 lossy fmt_nl ct ft cfv ch cf so se world [[10]].
Proof.
  intros. unfold g_println_arm0, g_eprintln_arm0. split.
  - destruct (g_print_arm0 lossy fmt_nl ct ft cfv ch cf so se world [[10]]); reflexivity.
  - destruct (g_eprint_arm0 lossy fmt_nl ct ft cfv ch cf so se world [[10]]); reflexivity.
Qed.

(* panic!(..): the message is adapted for STDERR (asked through ch), whatever the test configuration; panic!() is std's *)
Theorem translated_panic_is_model : forall ct ft cfv ch cf so se world args,
  ch se <> CAuto ->
  g_panic_arm1 lossy fmt_nl ct ft cfv ch cf so se world args =
  match mac_adapted lossy (ac_wv_all cfv) (ch se) args with Some t => Some (world ++ [MPanic t]) | None => None end.
Proof.
  intros. unfold g_panic_arm1. rewrite g_to_adapted_string_eq by assumption.
  destruct (mac_adapted lossy (ac_wv_all cfv) (ch se) args); reflexivity.
Qed.

Theorem translated_panic_empty : forall ct ft cfv ch cf so se world,
  g_panic_arm0 lossy fmt_nl ct ft cfv ch cf so se world = world ++ [MPanicExplicit].
Proof. reflexivity. Qed.

(* ---- consequences the properties use ------------------------------------------------------------------------ *)
(* C08 / C09: outside tests the stream that is WRITTEN TO is the stream whose own answers (cf: choice(&raw), terminal-ness)
   decided the mode -- the handle the macro names -- and the other handle is not touched: the event is ONE write_fmt whose
   resulting stream is [as_of (mac_mode ..) s1 w1] with (s1, w1) the hand model's run over THAT handle *)
Definition mac_arm (err nl : bool) (ct ft : bool) (cfv : acfg) (ch : writer -> cchoice) (cf : acfg) (so se : writer)
           (world : list mevent) (args : list (list N)) : option (list mevent) :=
  match err, nl with
  | false, false => g_print_arm0 lossy fmt_nl ct ft cfv ch cf so se world args
  | false, true => g_println_arm1 lossy fmt_nl ct ft cfv ch cf so se world args
  | true, false => g_eprint_arm0 lossy fmt_nl ct ft cfv ch cf so se world args
  | true, true => g_eprintln_arm1 lossy fmt_nl ct ft cfv ch cf so se world args
  end.

Theorem translated_print_writes_own_stream : forall cfv ch cf so se world args,
  ac_decided cf <> CAuto ->
  forall err nl,
  mac_arm err nl false false cfv ch cf so se world args =
  match auto_op (ac_wv_all cf) (mac_mode (ac_decided cf)) sb_new (if err then se else so)
                (OWriteFmt (if nl then fmt_nl args else args)) with
  | Some (s1, w1, r) =>
      Some (world ++ MWriteFmt (as_of (mac_mode (ac_decided cf)) s1 w1) (match r with RErr e => inr e | _ => inl tt end)
                     :: match r with RErr e => [MPanicIo (if err then mac_msg_stderr else mac_msg_stdout) e] | _ => [] end)
  | None => None
  end.
Proof.
  intros cfv ch cf so se world args Hd err nl.
  assert (E : forall h p fr, emit_body cf (g_as_auto cf h) p fr world =
      match auto_op (ac_wv_all cf) (mac_mode (ac_decided cf)) sb_new h (OWriteFmt fr) with
      | Some (s1, w1, r) =>
          Some (world ++ MWriteFmt (as_of (mac_mode (ac_decided cf)) s1 w1) (match r with RErr e => inr e | _ => inl tt end)
                         :: match r with RErr e => [MPanicIo p e] | _ => [] end)
      | None => None
      end).
  { intros h p fr. rewrite emit_body_model by exact Hd. unfold mac_emit.
    destruct (auto_op (ac_wv_all cf) (mac_mode (ac_decided cf)) sb_new h (OWriteFmt fr)) as [[[s1 w1] [n| |e]]|]; reflexivity. }
  destruct err, nl; unfold mac_arm.
  - rewrite g_eprintln_arm1_shape. apply E.
  - rewrite g_eprint_arm0_shape. apply E.
  - rewrite g_println_arm1_shape. apply E.
  - rewrite g_print_arm0_shape. apply E.
Qed.

(* C19: a macro call outside tests is ONE Write-method call (write_fmt) on a stream nobody else holds; by the lock
   translation of Generated/AutoFn.v (Proofs/AutoGen.v translated_ops_lock_once) that call takes the std lock exactly
   once, around all its inner writes: the lock log of the handle grows by one Acquire / Release pair *)
Theorem translated_print_lock_once : forall cf h prefix frags world log a,
  g_as_auto cf h = Some a ->
  (* the arm's only effect is the operation write_fmt on the fresh stream .. *)
  emit_body cf (g_as_auto cf h) prefix frags world =
  match g_as_op cf a (OWriteFmt frags) with
  | Some (a1, r) =>
      Some (world ++ MWriteFmt a1 (match r with RErr e => inr e | _ => inl tt end)
                     :: match r with RErr e => [MPanicIo prefix e] | _ => [] end)
  | None => None
  end /\
  (* .. and that operation, over the raw stream that logs its lock events, takes the lock once around its inner calls *)
  gl_as_op cf (las_with log a) (OWriteFmt frags) =
  match g_as_op cf a (OWriteFmt frags) with
  | Some (a1, r) => Some (las_with (lock_once log (as_writer a) (as_writer a1)) a1, r)
  | None => None
  end.
Proof.
  intros cf h prefix frags world log a Ha. split; [|apply translated_ops_lock_once].
  rewrite Ha. unfold emit_body. cbn [g_as_op]. unfold conv_as.
  destruct (g_as_write_fmt cf a frags) as [[a1 [[]|e]]|]; reflexivity.
Qed.

(* the four printing arms at once *)
Lemma mac_arm_shape err nl ct ft cfv ch cf so se world args :
  mac_arm err nl ct ft cfv ch cf so se world args =
  arm_shape (ct || ft) (captured_body cfv ch err nl args (if err then se else so) world)
            (emit_body cf (g_as_auto cf (if err then se else so)) (if err then mac_msg_stderr else mac_msg_stdout)
                       (if nl then fmt_nl args else args) world).
Proof.
  destruct err, nl; unfold mac_arm;
    [apply g_eprintln_arm1_shape|apply g_eprint_arm0_shape|apply g_println_arm1_shape|apply g_print_arm0_shape].
Qed.

Theorem translated_macros_are_model : forall (err nl ct ft : bool) cfv (ch : writer -> cchoice) cf (so se : writer) world args,
  ac_decided cf <> CAuto -> ch (if err then se else so) <> CAuto ->
  mac_arm err nl ct ft cfv ch cf so se world args = mac_model (ct || ft) cfv ch cf err nl so se args world.
Proof.
  intros. rewrite mac_arm_shape. unfold arm_shape, mac_model.
  destruct (ct || ft); [apply captured_body_model|apply emit_body_model]; assumption.
Qed.

Theorem translated_macro_lock_once : forall (err nl : bool) cfv ch cf (so se : writer) world args log a,
  g_as_auto cf (if err then se else so) = Some a ->
  mac_arm err nl false false cfv ch cf so se world args =
  match g_as_op cf a (OWriteFmt (if nl then fmt_nl args else args)) with
  | Some (a1, r) =>
      Some (world ++ MWriteFmt a1 (match r with RErr e => inr e | _ => inl tt end)
                     :: match r with RErr e => [MPanicIo (if err then mac_msg_stderr else mac_msg_stdout) e] | _ => [] end)
  | None => None
  end /\
  gl_as_op cf (las_with log a) (OWriteFmt (if nl then fmt_nl args else args)) =
  match g_as_op cf a (OWriteFmt (if nl then fmt_nl args else args)) with
  | Some (a1, r) => Some (las_with (lock_once log (as_writer a) (as_writer a1)) a1, r)
  | None => None
  end.
Proof.
  intros. rewrite mac_arm_shape. cbn [orb arm_shape]. apply translated_print_lock_once. assumption.
Qed.

End Macros.
