(* Proofs/GitGen.v -- the functions TRANSLATED from crates/anstyle-git/src/lib.rs
   (Generated/GitFn.v, written by tools/gen_fn_text.py on every run: `parse_color` with
   its name arms, the '#' branch -- length test, hex-digit test, the three slices, the
   three from_str_radix -- and the number fall-back; `parse` with the `for` loop over
   split_whitespace, the lower-cased keyword arms, the colour-slot counter, both error
   returns and the final `style |= effects`) are extensionally equal to the hand model
   Model/Git.v that the theorems of C11 are about.  A change to the Rust functions
   changes the translation; if it changes their meaning, one of these proofs fails. *)
From Coq Require Import NArith List Bool Lia.
From AV Require Import Generated.Git Spec.StyleRec Model.Base Model.Imp Model.Text Model.Git Generated.GitFn.
Import ListNotations.
Local Open Scope N_scope.

(* Result<Option<Color>, ()> as the hand model writes it: Err(()) = None *)
Definition git_color_res (r : result (option tcolor) unit) : option (option tcolor) :=
  match r with Ok c => Some c | Err _ => None end.

Ltac git_keys w keys tac :=
  lazymatch keys with
  | nil => idtac
  | cons ?k ?t => destruct (list_eqb w k); [tac | git_keys w t tac]
  end.

Lemma hexdigit_ascii x : is_ascii_hexdigit x = true -> (128 <=? x) = false.
Proof.
  unfold is_ascii_hexdigit. intros H. apply N.leb_gt.
  repeat (apply orb_true_iff in H; destruct H as [H|H]); apply andb_true_iff in H; destruct H as [_ H]; apply N.leb_le in H; lia.
Qed.


(* on ASCII text every position up to the end is a char boundary: slicing a str is slicing its bytes *)
Lemma is_char_boundary_hex b : forallb is_ascii_hexdigit b = true ->
  forall i, (i <=? N.of_nat (length b)) = true -> is_char_boundary b i = true.
Proof.
  intros H i Hi. unfold is_char_boundary. destruct (i =? 0); [reflexivity|].
  destruct (nth_error b (N.to_nat i)) as [x|] eqn:E.
  - apply nth_error_In in E. rewrite forallb_forall in H. rewrite (hexdigit_ascii x (H x E)). reflexivity.
  - apply nth_error_None in E. apply N.leb_le in Hi. apply N.eqb_eq. lia.
Qed.

Lemma str_slice_hex b lo hi : forallb is_ascii_hexdigit b = true -> str_slice b lo hi = slice b lo hi.
Proof.
  intros H. unfold str_slice, slice.
  destruct (lo <=? hi) eqn:E1; [|reflexivity]. destruct (hi <=? N.of_nat (length b)) eqn:E2; cbn [andb].
  - rewrite !(is_char_boundary_hex b H) by (try assumption; apply N.leb_le; apply N.leb_le in E1, E2; lia). reflexivity.
  - destruct (is_char_boundary b lo && is_char_boundary b hi); reflexivity.
Qed.

(* the '#' digits once their number is known: [b] is a list of that many variables.  The hex-digit test of the
   code (`all`, a loop, ..) is decided digit by digit on both sides; with every digit an ASCII hex digit each
   slice / split_at of the bytes computes *)
Ltac hex_side :=
  cbn [forallb]; repeat match goal with H : is_ascii_hexdigit _ = true |- _ => rewrite H end; reflexivity.
Ltac hex_cbn :=
  cbn -[u8_from_str_radix is_ascii_hexdigit str_slice];
  repeat (progress (repeat match goal with |- context [Pos.to_nat ?p] =>
                      let v := eval vm_compute in (Pos.to_nat p) in change (Pos.to_nat p) with v end);
          cbn -[u8_from_str_radix is_ascii_hexdigit str_slice]).
Ltac hex_each :=
  hex_cbn;
  lazymatch goal with
  | |- context [is_ascii_hexdigit ?x] => let H := fresh "H" in destruct (is_ascii_hexdigit x) eqn:H; hex_each
  | _ => idtac
  end.
Ltac hex_slices :=
  repeat (hex_cbn;
          match goal with |- context [str_slice ?bb ?lo ?hi] => rewrite (str_slice_hex bb lo hi) by hex_side end);
  hex_cbn;
  repeat match goal with |- context [u8_from_str_radix ?r ?d] => destruct (u8_from_str_radix r d) end;
  reflexivity.
Ltac hex_digits := hex_each; first [reflexivity | hex_slices].

Lemma g_git_parse_color_eq : forall w,
  option_map git_color_res (g_git_parse_color w) = parse_color w.
Proof.
  intros w. unfold g_git_parse_color, parse_color, git_color_names. cbn [assoc]. cbv beta zeta.
  let keys := eval cbv in (map fst git_color_names) in git_keys w keys ltac:(reflexivity).
  destruct w as [|c hex]; cbn [str_strip_prefix].
  { destruct (parse_u8 (str_bytes [])); reflexivity. }
  unfold git_hex_prefix, git_hex_lens, git_hex_radix. cbn [existsb].
  destruct (c =? 35).
  2: { destruct (parse_u8 (str_bytes (c :: hex))); reflexivity. }
  unfold str_len, str_slice_cp, str_split_at_cp, str_split_at.
  change (fun b : N => is_ascii_hexdigit b) with is_ascii_hexdigit.
  change (3 =? 0) with false. cbv iota.
  generalize (str_bytes hex). clear c hex. intros b.
  destruct (N.of_nat (length b) =? 3) eqn:E3; [|destruct (N.of_nat (length b) =? 6) eqn:E6].
  - apply N.eqb_eq in E3. destruct b as [|? [|? [|? [|? ?]]]]; cbn [length] in E3; try lia. clear E3. hex_digits.
  - apply N.eqb_eq in E6. destruct b as [|? [|? [|? [|? [|? [|? [|? ?]]]]]]]; cbn [length] in E6; try lia. clear E3 E6. hex_digits.
  - cbn [negb andb orb option_map git_color_res]. reflexivity.
Qed.

(* what follows the loop: `style |= effects; Ok(style)`, or the error a `return` carried *)
Definition git_fin (lr : (tstyle * N * N) + result tstyle git_error) : option (result tstyle git_error) :=
  match lr with
  | inl st => let '(style, _, eff) := st in Some (Ok (style_or_effects style eff))
  | inr rv => Some rv
  end.

Theorem g_git_parse_eq : forall s, option_map git_result_of (g_git_parse s) = git_parse s.
Proof.
  intros s. unfold g_git_parse, git_parse. cbv zeta.
  match goal with |- context [for_list ?f _ _] => set (body := f) end.
  assert (L : forall ws style ncol eff, t_ul style = None -> t_eff style = 0 ->
            option_map git_result_of (lr <- for_list body ws (style, ncol, eff) ;; git_fin lr)
            = git_loop ws (t_fg style) (t_bg style) ncol eff).
  { induction ws as [|word rest IH]; intros style ncol eff Hu He.
    - destruct style as [fg bg ul e]. cbn in *. subst. reflexivity.
    - cbn [for_list git_loop]. unfold body at 1. cbv beta zeta.
      unfold git_keywords. cbn [assoc].
      let keys := eval cbv in (map fst git_keywords) in
        git_keys (to_lowercase word) keys ltac:(cbn [orb]; cbv iota; rewrite IH by assumption; reflexivity).
      cbn [orb]. cbv iota.
      rewrite <- g_git_parse_color_eq.
      destruct (g_git_parse_color (to_lowercase word)) as [[color|[]]|]; cbn [option_map git_color_res]; try reflexivity.
      destruct (ncol =? 0); [|destruct (ncol =? 1)]; cbv iota; try reflexivity.
      all: rewrite IH by (destruct style; assumption); destruct style; reflexivity. }
  specialize (L (split_whitespace s) t_default 0 fx_new eq_refl eq_refl).
  etransitivity; [|exact L].
  destruct (for_list body (split_whitespace s) (t_default, 0, fx_new)) as [[[[st n] e]|rv]|]; reflexivity.
Qed.

(* the `style` field of either error is the whole input *)
Theorem g_git_parse_error_style : forall s r,
  g_git_parse s = Some r -> match git_error_style r with Some s' => s' = s | None => True end.
Proof.
  intros s r. unfold g_git_parse. cbv zeta.
  match goal with |- context [for_list ?f _ _] => set (body := f) end.
  assert (L : forall ws st rv, for_list body ws st = Some (inr rv) -> git_error_style rv = Some s).
  { induction ws as [|word rest IH]; intros [[style ncol] eff] rv; cbn [for_list]; [discriminate|].
    unfold body at 1. cbv beta zeta.
    repeat match goal with
           | |- context [if ?c then _ else _] => destruct c
           | |- context [match g_git_parse_color ?w with _ => _ end] => destruct (g_git_parse_color w) as [[?|[]]|]
           end;
      try discriminate; try apply IH; intros E; injection E as <-; reflexivity. }
  destruct (for_list body (split_whitespace s) (t_default, 0, fx_new)) as [[[[st n] e]|rv]|] eqn:E; [| |discriminate].
  - intros H. injection H as <-. exact I.
  - intros H. injection H as <-. now rewrite (L _ _ _ E).
Qed.

(* ---- impl std::fmt::Display for Error ------------------------------------------------
   The translated `fmt` appends the message to whatever the formatter already holds and answers Ok(()); it never
   panics.  The pieces of the format string are appended one by one (left-nested appends), the hand model is one
   right-nested concatenation: associativity, then the literal pieces are convertible. *)
Theorem g_git_error_fmt_eq : forall (e : git_error) (f : list N),
  g_git_error_fmt e f = Some (f ++ git_error_message e, Ok tt).
Proof.
  intros [style word | style word] f; unfold g_git_error_fmt, git_error_message, git_fmt_write; cbv zeta;
    rewrite <- !app_assoc; reflexivity.
Qed.

(* `e.to_string()`: Display into an empty String *)
Theorem g_git_error_to_string : forall e : git_error,
  option_map fst (g_git_error_fmt e []) = Some (git_error_to_string e).
Proof. intros e. rewrite g_git_error_fmt_eq. reflexivity. Qed.
