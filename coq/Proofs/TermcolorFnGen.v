From Coq Require Import NArith.
