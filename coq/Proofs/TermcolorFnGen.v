(* Proofs/TermcolorFnGen.v -- C16, termcolor: what the TRANSLATED rendering code of the library
   (Generated/TermcolorFn.v: termcolor::Ansi<Vec<u8>>::set_color / write_color / reset and the
   harness entry point `tc::render`, translated from the registry source cargo links) writes for
   a ColorSpec, and what a terminal (Spec/Vt + Spec/Sgr, the interpreter of C05 / C07) makes of it.

   1. bytes: for EVERY ColorSpec whose colour components are u8 (and not the hidden variant
      `__Nonexhaustive`, on which write_color panics) the rendering does not panic and writes the
      control sequences [tcr_params] (decimal digits without leading zeros), the text, ESC[0m;
   2. interpretation: read from the terminal's default state the text is shown in the rendition
      [tcr_shown sp];
   3. the abstract target style of Spec/Targets (constructor / setter NAMES, what the translated
      adapter builds) denotes a ColorSpec through the TRANSLATED `ColorSpec::new` and setters
      ([tcr_spec_of]); whenever Spec/Targets gives the style a meaning, the ColorSpec is shown as
      exactly that meaning;
   4. composition with Proofs/AdaptersGen.v and Proofs/Adapters.v: render (convert s) is read as
      ad_project AdTermcolor s, for every anstyle style s with u8 components.
   There is no hand model in between: the statements are about the generated functions. *)
From Coq Require Import String.
From Coq Require Import NArith Arith List Bool Lia.
From AV Require Import Spec.Utf8 Spec.Vt Spec.Sgr Spec.Algebra Spec.Render Spec.Targets Model.Base Model.Imp
  Generated.Adapters Model.Adapters Generated.AdaptersFn Proofs.Adapters Proofs.AdaptersGen
  Model.Termcolor Generated.TermcolorFn Proofs.TermcolorVt.
Import ListNotations.
Local Open Scope N_scope.

(* ======================================================================== *)
(* vocabulary of the statements                                              *)

(* the values the Rust types can hold *)
Definition tcr_color_ok (c : tc_color) : Prop :=
  match c with
  | TcAnsi256 n => n < 256
  | TcRgb r g b => r < 256 /\ g < 256 /\ b < 256
  | TcNonexhaustive => False       (* #[doc(hidden)]: write_color panics on it (unreachable!) *)
  | _ => True
  end.
Definition tcr_ocolor_ok (o : option tc_color) : Prop := match o with Some c => tcr_color_ok c | None => True end.
Definition tcr_spec_ok (sp : tc_spec) : Prop := tcr_ocolor_ok (tcs_fg_color sp) /\ tcr_ocolor_ok (tcs_bg_color sp).

(* the ANSI number of a named colour *)
Definition tcr_hue (c : tc_color) : N :=
  match c with
  | TcBlack => 0 | TcRed => 1 | TcGreen => 2 | TcYellow => 3 | TcBlue => 4 | TcMagenta => 5 | TcCyan => 6 | TcWhite => 7
  | _ => 0
  end.

(* the printed parameter list (digit strings) of the sequence that selects colour [c];
   [first] is the digit 3 (foreground) or 4 (background) *)
Definition tcr_color_params (first : N) (intense : bool) (c : tc_color) : list (list (list N)) :=
  match c with
  | TcAnsi256 n => [[[first; 56]]; [[53]]; [tcv_digits n]]
  | TcRgb r g b => [[[first; 56]]; [[50]]; [tcv_digits r]; [tcv_digits g]; [tcv_digits b]]
  | TcNonexhaustive => []
  | _ => if intense then [[[first; 56]]; [[53]]; [tcv_digits (8 + tcr_hue c)]] else [[first :: tcv_digits (tcr_hue c)]]
  end.
Definition tcr_slot_digit (fg : bool) : N := if fg then 51 else 52.

Definition tcr_ocolor_params (fg : bool) (intense : bool) (o : option tc_color) : list (list (list (list N))) :=
  match o with Some c => [tcr_color_params (tcr_slot_digit fg) intense c] | None => [] end.

Definition tcr_flag (b : bool) (digit : N) : list (list (list (list N))) := if b then [[[[digit]]]] else [].

(* the control sequences set_color writes, in order, as printed parameter lists *)
Definition tcr_params (sp : tc_spec) : list (list (list (list N))) :=
  tcr_flag (tcs_reset sp) 48 ++ tcr_flag (tcs_bold sp) 49 ++ tcr_flag (tcs_dimmed sp) 50 ++ tcr_flag (tcs_italic sp) 51
  ++ tcr_flag (tcs_underline sp) 52 ++ tcr_flag (tcs_strikethrough sp) 57
  ++ tcr_ocolor_params true (tcs_intense sp) (tcs_fg_color sp) ++ tcr_ocolor_params false (tcs_intense sp) (tcs_bg_color sp).

Definition tcr_seqs (prs : list (list (list (list N)))) : list (list N) := map (fun pr => rn_csi pr 109) prs.

(* what `render` returns: the sequences of set_color, the text "x", ESC [ 0 m *)
Definition tcr_bytes (sp : tc_spec) : list N := concat (tcr_seqs (tcr_params sp)) ++ [120] ++ rn_csi [[[48]]] 109.

(* the rendition a terminal shows the text in *)
Definition tcr_colour (intense : bool) (c : tc_color) : colour :=
  match c with
  | TcAnsi256 n => CIdx n
  | TcRgb r g b => CRgb r g b
  | _ => if intense then CIdx (8 + tcr_hue c) else CAnsi (tcr_hue c)
  end.
Definition tcr_eff (sp : tc_spec) : N :=
  N.lor (if tcs_bold sp then bit BOLD else 0) (N.lor (if tcs_dimmed sp then bit DIMMED else 0)
  (N.lor (if tcs_italic sp then bit ITALIC else 0) (N.lor (if tcs_underline sp then bit UNDERLINE else 0)
  (if tcs_strikethrough sp then bit STRIKETHROUGH else 0)))).
Definition tcr_shown (sp : tc_spec) : sstyle :=
  mkStyle (option_map (tcr_colour (tcs_intense sp)) (tcs_fg_color sp))
          (option_map (tcr_colour (tcs_intense sp)) (tcs_bg_color sp)) None (tcr_eff sp).

(* ---- the abstract target style as a ColorSpec --------------------------------------------- *)
(* Generated/AdaptersFn.v builds the adapter's result over the vocabulary of Model/Adapters.v:
   `ColorSpec::new()` = ad_t_new, `set_fg(c)` / `set_bg(c)` = the slot, `set_x(true)` = the NAME
   set_x appended to the attribute list.  The ColorSpec that value denotes: the translated
   `ColorSpec::new`, the translated `set_fg` / `set_bg`, then the translated setter of every name in
   call order (tables g_tcr_color_names / g_tcr_flag_setters, written by the plug-in from the enum's
   variants and the impl's methods). *)
Definition tcr_color_of (c : ad_tcolor) : option tc_color :=
  match c with
  | AdNamed nm => ad_assoc nm g_tcr_color_names
  | AdFixed n => Some (TcAnsi256 n)
  | AdRgb r g b => Some (TcRgb r g b)
  end.
Definition tcr_ocolor_of (o : option ad_tcolor) : option (option tc_color) :=
  match o with None => Some None | Some c => option_map Some (tcr_color_of c) end.
Fixpoint tcr_apply_attrs (sp : tc_spec) (names : list (list N)) : option tc_spec :=
  match names with
  | [] => Some sp
  | nm :: rest =>
      match ad_assoc nm g_tcr_flag_setters with
      | Some f => tcr_apply_attrs (fst (f sp true)) rest
      | None => None
      end
  end.
Definition tcr_spec_of (t : ad_tstyle) : option tc_spec :=
  match tcr_ocolor_of (ad_t_fg t), tcr_ocolor_of (ad_t_bg t), ad_t_ul t with
  | Some fg, Some bg, None =>
      tcr_apply_attrs (fst (g_tcr_set_bg (fst (g_tcr_set_fg g_tcr_spec_new fg)) bg)) (ad_t_attrs t)
  | _, _, _ => None
  end.

(* u8 components *)
Definition tcr_tcolor_ok (o : option ad_tcolor) : Prop :=
  match o with
  | Some (AdFixed n) => n < 256
  | Some (AdRgb r g b) => r < 256 /\ g < 256 /\ b < 256
  | _ => True
  end.
Definition tcr_tstyle_ok (t : ad_tstyle) : Prop := tcr_tcolor_ok (ad_t_fg t) /\ tcr_tcolor_ok (ad_t_bg t).
Definition tcr_src_u8 (s : sstyle) : Prop := rn_ocolour_wf (s_fg s) /\ rn_ocolour_wf (s_bg s).

(* rendering a target style with the library: its ColorSpec, then the harness's `render` *)
Definition tcr_render_tstyle (t : ad_tstyle) : option (list N) := sp <- tcr_spec_of t ;; g_tcr_render sp.

(* ======================================================================== *)
(* 1. the bytes                                                              *)

Lemma digit_cadd d : d < 10 -> cadd 8 48 d = Some (48 + d).
Proof.
  intros H. unfold cadd. replace (48 + d <? 2 ^ 8) with true; [reflexivity|].
  symmetry. apply N.ltb_lt. change (2 ^ 8) with 256. lia.
Qed.

Ltac digit_bounds n :=
  let B1 := fresh in let B2 := fresh in let B3 := fresh in
  pose proof (N.mod_lt (n / 100) 10 ltac:(lia)) as B1;
  pose proof (N.mod_lt (n / 10) 10 ltac:(lia)) as B2;
  pose proof (N.mod_lt n 10 ltac:(lia)) as B3.

Ltac digit_names n :=
  let c1 := fresh "c1" in let c2 := fresh "c2" in let c3 := fresh "c3" in
  set (c1 := (n / 100) mod 10) in *; set (c2 := (n / 10) mod 10) in *; set (c3 := n mod 10) in *.

(* one case per digit count: the tests of the translated code and of tcv_digits are the same *)
Ltac digit_cases :=
  repeat match goal with
  | c := ((_ / 100) mod 10) |- _ => destruct (c =? 0); clearbody c
  | c := ((_ / 10) mod 10) |- _ => destruct (c =? 0); clearbody c
  | c := (_ mod 10) |- _ => clearbody c
  end.

(* write_color: the named colours by computation, the two custom forms for every u8 *)
Lemma g_tcr_write_color_eq w fg c intense : tcr_color_ok c ->
  g_tcr_ansi_write_color w fg c intense =
  Some (w ++ rn_csi (tcr_color_params (tcr_slot_digit fg) intense c) 109, inl tt).
Proof.
  intros Hc. destruct c; cbn [tcr_color_ok] in Hc; try contradiction.
  1-8: destruct intense, fg; reflexivity.
  - (* Ansi256 *)
    digit_bounds n.
    unfold g_tcr_ansi_write_color, tcr_color_params, tcv_digits, rn_csi, rn_print_params.
    change (100 =? 0) with false. change (10 =? 0) with false.
    destruct intense, fg; cbv beta iota zeta; digit_names n; rewrite !digit_cadd by assumption;
      digit_cases; cbn -[N.add]; reflexivity.
  - (* Rgb *)
    destruct Hc as (Hr & Hg & Hb). digit_bounds r. digit_bounds g. digit_bounds b.
    unfold g_tcr_ansi_write_color, tcr_color_params, tcv_digits, rn_csi, rn_print_params.
    change (100 =? 0) with false. change (10 =? 0) with false.
    destruct intense, fg; cbv beta iota zeta; digit_names r; digit_names g; digit_names b;
      rewrite !digit_cadd by assumption; digit_cases; cbn -[N.add]; reflexivity.
Qed.

(* from here on write_color is only used through the lemma above (a failing `rewrite` must not
   start to unfold the 900-line definition) *)
Local Opaque g_tcr_ansi_write_color.

Lemma g_tcr_write_str_eq w s : g_tcr_ansi_write_str w s = (w ++ s, inl tt).
Proof. reflexivity. Qed.

Lemma g_tcr_reset_eq w : g_tcr_ansi_reset w = (w ++ rn_csi [[[48]]] 109, inl tt).
Proof. reflexivity. Qed.

Lemma tcr_seqs_app a b : tcr_seqs (a ++ b) = tcr_seqs a ++ tcr_seqs b.
Proof. apply map_app. Qed.

(* set_color *)
Lemma g_tcr_set_color_eq w sp : tcr_spec_ok sp ->
  g_tcr_ansi_set_color w sp = Some (w ++ concat (tcr_seqs (tcr_params sp)), inl tt).
Proof.
  intros [Hf Hb]. destruct sp as [fg bg bold intense underline dimmed italic reset strike].
  cbn [tcs_fg_color tcs_bg_color] in Hf, Hb.
  unfold g_tcr_ansi_set_color, tcr_params.
  (* write_color only through its lemma: as an abstract function, so that a `rewrite` that does not
     apply (another slot flag, another argument order) fails at once instead of unfolding it *)
  pose proof g_tcr_write_color_eq as HWC.
  set (WC := g_tcr_ansi_write_color) in *. clearbody WC.
  cbn [tcs_fg_color tcs_bg_color tcs_bold tcs_intense tcs_underline tcs_dimmed tcs_italic tcs_reset tcs_strikethrough].
  destruct reset, bold, dimmed, italic, underline, strike;
    cbv beta iota zeta; rewrite ?g_tcr_reset_eq, ?g_tcr_write_str_eq; cbv beta iota zeta;
    rewrite ?g_tcr_write_str_eq; cbv beta iota zeta;
    (destruct fg as [cf|]; [cbn [tcr_ocolor_ok] in Hf; rewrite (HWC _ true cf intense Hf); cbv beta iota zeta|]);
    (destruct bg as [cb|]; [cbn [tcr_ocolor_ok] in Hb; rewrite (HWC _ false cb intense Hb); cbv beta iota zeta|]);
    cbn [tcr_flag tcr_ocolor_params tcr_seqs map concat app tcr_slot_digit];
    rewrite <- ?app_assoc, ?app_nil_r; reflexivity.
Qed.

(* the entry point *)
Theorem g_tcr_render_eq sp : tcr_spec_ok sp -> g_tcr_render sp = Some (tcr_bytes sp).
Proof.
  intros H. unfold g_tcr_render, g_tcr_ansi_new, tc_ansi_mk, tc_vec_new.
  rewrite (g_tcr_set_color_eq [] sp H). cbv beta iota zeta.
  unfold g_tcr_ansi_write_all, set_tc_ansi_f0, tc_ansi_f0. cbv beta iota zeta.
  rewrite g_tcr_reset_eq. cbv beta iota zeta. unfold g_tcr_ansi_into_inner, tc_ansi_f0, tcr_bytes.
  cbn [app]. now rewrite <- app_assoc.
Qed.

(* the hidden variant panics *)
Lemma g_tcr_render_nonexhaustive_panics :
  g_tcr_render (fst (g_tcr_set_fg g_tcr_spec_new (Some TcNonexhaustive))) = None.
Proof. vm_compute. reflexivity. Qed.

(* ======================================================================== *)
(* 2. the interpretation                                                     *)

Lemma tcr_hue_lt c : tcr_hue c < 8.
Proof. destruct c; cbn; lia. Qed.

Lemma tcr_color_params_ok first intense c : first = 51 \/ first = 52 -> tcr_color_ok c ->
  rn_csi_ok (tcr_color_params first intense c) = true.
Proof.
  intros Hfirst Hc.
  assert (Hd : forall n, n < 256 -> rn_digits_ok (tcv_digits n) = true) by exact tcv_digits_ok.
  assert (H2 : rn_digits_ok [first; 56] = true) by (destruct Hfirst; subst; reflexivity).
  assert (Hnamed : forall h, h < 8 ->
            rn_csi_ok (if intense then [[[first; 56]]; [[53]]; [tcv_digits (8 + h)]] else [[first :: tcv_digits h]]) = true).
  { intros h Hh. destruct intense.
    - apply csi_ok_intro; [reflexivity| |cbn; lia].
      repeat constructor; try assumption; try reflexivity. apply Hd. lia.
    - assert (Hc8 : h = 0 \/ h = 1 \/ h = 2 \/ h = 3 \/ h = 4 \/ h = 5 \/ h = 6 \/ h = 7) by lia.
      destruct Hfirst; subst; repeat (destruct Hc8 as [->|Hc8]; [reflexivity|]); subst; reflexivity. }
  destruct c; cbn [tcr_color_ok] in Hc; try contradiction; cbn [tcr_color_params];
    try (apply (Hnamed _ (tcr_hue_lt _))).
  - apply csi_ok_intro; [reflexivity| |cbn; lia].
    repeat constructor; try assumption; try reflexivity. now apply Hd.
  - destruct Hc as (Hr & Hg & Hb). apply csi_ok_intro; [reflexivity| |cbn; lia].
    repeat constructor; try assumption; try reflexivity; now apply Hd.
Qed.

Lemma tcv_value n : n < 256 -> rn_dec_value (tcv_digits n) = n.
Proof. intros H. now destruct (tcv_digits_spec n ltac:(lia)) as (_ & E & _). Qed.

(* the parameter values of the colour sequence, applied by the SGR rules *)
Lemma tcr_color_apply fgslot intense c s : tcr_color_ok c ->
  sgr_apply s (rn_param_values (tcr_color_params (tcr_slot_digit fgslot) intense c)) =
  (if fgslot then set_fg else set_bg) s (Some (tcr_colour intense c)).
Proof.
  intros Hc.
  assert (Hnamed : forall h, h < 8 ->
    sgr_apply s (rn_param_values (if intense then [[[tcr_slot_digit fgslot; 56]]; [[53]]; [tcv_digits (8 + h)]]
                                  else [[tcr_slot_digit fgslot :: tcv_digits h]])) =
    (if fgslot then set_fg else set_bg) s (Some (if intense then CIdx (8 + h) else CAnsi h))).
  { intros h Hh. destruct intense.
    - unfold rn_param_values. cbn [map]. rewrite (tcv_value (8 + h)) by lia. destruct fgslot; reflexivity.
    - assert (Hc8 : h = 0 \/ h = 1 \/ h = 2 \/ h = 3 \/ h = 4 \/ h = 5 \/ h = 6 \/ h = 7) by lia.
      destruct fgslot; repeat (destruct Hc8 as [->|Hc8]; [reflexivity|]); subst; reflexivity. }
  destruct c; cbn [tcr_color_ok] in Hc; try contradiction; cbn [tcr_color_params tcr_colour];
    try (apply (Hnamed _ (tcr_hue_lt _))).
  - unfold rn_param_values. cbn [map]. rewrite (tcv_value n) by assumption. destruct fgslot; reflexivity.
  - destruct Hc as (Hr & Hg & Hb). unfold rn_param_values. cbn [map].
    rewrite (tcv_value r), (tcv_value g), (tcv_value b) by assumption. destruct fgslot; reflexivity.
Qed.

Lemma tcr_params_ok sp : tcr_spec_ok sp -> Forall (fun pr => rn_csi_ok pr = true) (tcr_params sp).
Proof.
  intros [Hf Hb]. unfold tcr_params.
  repeat (apply Forall_app; split).
  1-6: match goal with |- Forall _ (tcr_flag ?b _) => destruct b; cbn [tcr_flag]; repeat constructor end.
  - destruct (tcs_fg_color sp); cbn [tcr_ocolor_params]; repeat constructor.
    apply tcr_color_params_ok; [now left|exact Hf].
  - destruct (tcs_bg_color sp); cbn [tcr_ocolor_params]; repeat constructor.
    apply tcr_color_params_ok; [now right|exact Hb].
Qed.

(* the events a terminal's parser reports for the rendering *)
Lemma tcr_events sp : tcr_spec_ok sp ->
  spec_events (tcr_bytes sp) = map rn_sgr (map rn_param_values (tcr_params sp)) ++ [EPrint 120; rn_sgr [[0]]].
Proof.
  intros H. unfold spec_events, tcr_bytes.
  destruct (spec_events_pieces_from (tcr_seqs (tcr_params sp)) (map rn_param_values (tcr_params sp)) vt_init) as (s1 & E1 & G1).
  { pose proof (tcr_params_ok sp H) as F. unfold tcr_seqs.
    induction (tcr_params sp) as [|pr t IH]; cbn [map]; constructor.
    - inversion F; subst. exists pr. auto.
    - inversion F; subst. now apply IH. }
  { exact ground_init. }
  destruct (step_print_x s1 G1) as (s2 & E2 & G2).
  destruct (rn_csi_roundtrip [[[48]]] s2 eq_refl G2) as (s3 & E3 & _).
  rewrite vt_run_app, E1. cbn [app vt_run]. rewrite E2.
  change (vt_run s2 (rn_csi [[[48]]] 109)) with (vt_run s2 (rn_csi [[[48]]] 109)). rewrite E3.
  cbn [snd app]. reflexivity.
Qed.

(* the flags, applied from the default rendition *)
Lemma tcr_flags_apply sp :
  fold_left sgr_apply (map rn_param_values
    (tcr_flag (tcs_reset sp) 48 ++ tcr_flag (tcs_bold sp) 49 ++ tcr_flag (tcs_dimmed sp) 50 ++ tcr_flag (tcs_italic sp) 51
     ++ tcr_flag (tcs_underline sp) 52 ++ tcr_flag (tcs_strikethrough sp) 57)) style_default =
  mkStyle None None None (tcr_eff sp).
Proof.
  unfold tcr_eff.
  destruct (tcs_reset sp), (tcs_bold sp), (tcs_dimmed sp), (tcs_italic sp), (tcs_underline sp), (tcs_strikethrough sp);
    reflexivity.
Qed.

Lemma tcr_groups_apply sp : tcr_spec_ok sp ->
  fold_left sgr_apply (map rn_param_values (tcr_params sp)) style_default = tcr_shown sp.
Proof.
  intros [Hf Hb]. unfold tcr_params.
  rewrite !app_assoc, map_app, fold_left_app, map_app, fold_left_app, <- !app_assoc.
  rewrite tcr_flags_apply. unfold tcr_shown.
  destruct (tcs_fg_color sp) as [cf|], (tcs_bg_color sp) as [cb|];
    cbn [tcr_ocolor_params map fold_left option_map tcr_ocolor_ok] in *;
    rewrite ?(tcr_color_apply true), ?(tcr_color_apply false) by assumption; reflexivity.
Qed.

(* THE rendering theorem for every ColorSpec: no panic, and the text is shown as [tcr_shown sp] *)
Theorem tcr_render_shown sp : tcr_spec_ok sp ->
  g_tcr_render sp = Some (tcr_bytes sp) /\ ad_interp_x (tcr_bytes sp) = Some (tcr_shown sp).
Proof.
  intros H. split; [exact (g_tcr_render_eq sp H)|].
  unfold ad_interp_x. rewrite (tcr_events sp H), interp_sgr_prefix, (tcr_groups_apply sp H).
  reflexivity.
Qed.

(* ======================================================================== *)
(* 3. target styles (names) as ColorSpecs                                    *)

Lemma ad_name_eqb_eq a : forall b, ad_name_eqb a b = true -> a = b.
Proof.
  induction a as [|x a IH]; intros [|y b] H; cbn in H; try discriminate; [reflexivity|].
  apply andb_true_iff in H. destruct H as [H1 H2]. apply N.eqb_eq in H1. f_equal; auto.
Qed.

Lemma ad_assoc_in {A} k (tbl : list (list N * A)) v : ad_assoc k tbl = Some v -> In (k, v) tbl.
Proof.
  induction tbl as [|[k' v'] t IH]; cbn [ad_assoc]; [discriminate|].
  destruct (ad_name_eqb k k') eqn:E; intros H.
  - apply ad_name_eqb_eq in E. injection H as <-. subst. now left.
  - right. auto.
Qed.

(* a colour Spec/Targets gives a meaning to is a colour of the library, shown as that meaning *)
Lemma tcr_colour_meaning o m : tcr_tcolor_ok o -> ad_slot_meaning AdTermcolor o = Some m ->
  exists oc, tcr_ocolor_of o = Some oc /\ tcr_ocolor_ok oc /\ option_map (tcr_colour false) oc = m.
Proof.
  intros Hok Hm. destruct o as [[nm|n|r g b]|]; cbn [ad_slot_meaning ad_colour_meaning] in Hm.
  - apply ad_assoc_in in Hm. cbn [ad_colour_table ad_termcolor_colours] in Hm.
    repeat (destruct Hm as [Hm|Hm]; [injection Hm as <- <-; eexists; split; [reflexivity|split; [exact I|reflexivity]]|]).
    contradiction.
  - injection Hm as <-. exists (Some (TcAnsi256 n)). split; [reflexivity|split; [exact Hok|reflexivity]].
  - injection Hm as <-. exists (Some (TcRgb r g b)). split; [reflexivity|split; [exact Hok|reflexivity]].
  - injection Hm as <-. exists None. split; [reflexivity|split; [exact I|reflexivity]].
Qed.

(* what the four attribute names of Spec/Targets do to a ColorSpec, through the translated setters *)
Lemma tcr_attrs_meaning names : forall sp e, ad_attrs_meaning AdTermcolor names = Some e ->
  exists sp', tcr_apply_attrs sp names = Some sp' /\
    tcs_fg_color sp' = tcs_fg_color sp /\ tcs_bg_color sp' = tcs_bg_color sp /\ tcs_intense sp' = tcs_intense sp /\
    tcr_eff sp' = N.lor e (tcr_eff sp).
Proof.
  induction names as [|nm rest IH]; intros sp e H; cbn [ad_attrs_meaning] in H.
  - injection H as <-. exists sp. repeat split; reflexivity.
  - destruct (ad_assoc nm (ad_attr_table AdTermcolor)) as [k|] eqn:Ek; [|discriminate].
    destruct (ad_attrs_meaning AdTermcolor rest) as [m|] eqn:Em; [|discriminate]. injection H as <-.
    apply ad_assoc_in in Ek. cbn [ad_attr_table ad_termcolor_attrs] in Ek.
    assert (Hstep : exists sp1, ad_assoc nm g_tcr_flag_setters = Some (fun s b => (sp1 s b, sp1 s b)) /\
              tcs_fg_color (sp1 sp true) = tcs_fg_color sp /\ tcs_bg_color (sp1 sp true) = tcs_bg_color sp /\
              tcs_intense (sp1 sp true) = tcs_intense sp /\ tcr_eff (sp1 sp true) = N.lor (bit k) (tcr_eff sp)).
    { destruct sp as [fg bg bold intense underline dimmed italic reset strike].
      repeat (destruct Ek as [Ek|Ek];
        [injection Ek as <- <-; eexists; split; [reflexivity|];
         repeat split; unfold tcr_eff; cbn; destruct bold, dimmed, italic, underline, strike; reflexivity|]).
      contradiction. }
    destruct Hstep as (sp1 & Ea & H1 & H2 & H3 & H4).
    destruct (IH (sp1 sp true) m eq_refl) as (sp' & Er & G1 & G2 & G3 & G4).
    exists sp'. cbn [tcr_apply_attrs]. rewrite Ea. cbn [fst]. split; [exact Er|].
    rewrite G1, G2, G3, G4, H1, H2, H3, H4. repeat split.
    rewrite N.lor_assoc, (N.lor_comm m (bit k)). reflexivity.
Qed.

(* every target style Spec/Targets gives a meaning to IS a ColorSpec (built by the translated
   constructor and setters) that the library shows as exactly that meaning *)
Theorem tcr_meaning_shown t m : tcr_tstyle_ok t -> ad_meaning AdTermcolor t = Some m ->
  exists sp, tcr_spec_of t = Some sp /\ tcr_spec_ok sp /\ tcr_shown sp = m.
Proof.
  intros [Hf Hb] Hm. unfold ad_meaning in Hm. cbn [ad_has_ul] in Hm.
  destruct (ad_slot_meaning AdTermcolor (ad_t_fg t)) as [mf|] eqn:Ef; [|discriminate].
  destruct (ad_slot_meaning AdTermcolor (ad_t_bg t)) as [mb|] eqn:Eb; [|discriminate].
  destruct (ad_t_ul t) eqn:Eu; [discriminate|].
  destruct (ad_attrs_meaning AdTermcolor (ad_t_attrs t)) as [e|] eqn:Ee; [|discriminate]. injection Hm as <-.
  destruct (tcr_colour_meaning _ _ Hf Ef) as (cf & Cf & Okf & Mf).
  destruct (tcr_colour_meaning _ _ Hb Eb) as (cb & Cb & Okb & Mb).
  destruct (tcr_attrs_meaning (ad_t_attrs t) (fst (g_tcr_set_bg (fst (g_tcr_set_fg g_tcr_spec_new cf)) cb)) e Ee)
    as (sp & Es & G1 & G2 & G3 & G4).
  exists sp. unfold tcr_spec_of. rewrite Cf, Cb, Eu. split; [exact Es|].
  cbn in G1, G2, G3, G4. split.
  - unfold tcr_spec_ok. now rewrite G1, G2.
  - unfold tcr_shown. rewrite G1, G2, G3, G4, Mf, Mb, N.lor_0_r. reflexivity.
Qed.

(* [tcr_spec_of] agrees with the call sequence of anstyle_termcolor::to_termcolor_spec: the abstract
   value Generated/AdaptersFn.v builds for `ColorSpec::new(); set_fg(f); set_bg(b); set_bold(b1);
   set_dimmed(b2); set_italic(b3); set_underline(b4)` (vocabulary of Model/Adapters.v: a flag set to
   false leaves the list) denotes the ColorSpec the TRANSLATED constructor and setters build when
   called in that order with those arguments *)
Definition tcr_n_set_bold : list N := Eval vm_compute in ad_str "set_bold".
Definition tcr_n_set_dimmed : list N := Eval vm_compute in ad_str "set_dimmed".
Definition tcr_n_set_italic : list N := Eval vm_compute in ad_str "set_italic".
Definition tcr_n_set_underline : list N := Eval vm_compute in ad_str "set_underline".

Lemma tcr_spec_of_call_sequence cf cb f b b1 b2 b3 b4 :
  tcr_ocolor_of cf = Some f -> tcr_ocolor_of cb = Some b ->
  tcr_spec_of (ad_t_flag (ad_t_flag (ad_t_flag (ad_t_flag (ad_t_set_bg (ad_t_set_fg ad_t_new cf) cb)
                 tcr_n_set_bold b1) tcr_n_set_dimmed b2) tcr_n_set_italic b3) tcr_n_set_underline b4) =
  Some (fst (g_tcr_set_underline (fst (g_tcr_set_italic (fst (g_tcr_set_dimmed (fst (g_tcr_set_bold
         (fst (g_tcr_set_bg (fst (g_tcr_set_fg g_tcr_spec_new f)) b)) b1)) b2)) b3)) b4)).
Proof.
  intros Hf Hb. destruct b1, b2, b3, b4; unfold tcr_spec_of; cbn; rewrite Hf, Hb; reflexivity.
Qed.

Theorem tcr_meaning_rendered t m : tcr_tstyle_ok t -> ad_meaning AdTermcolor t = Some m ->
  exists bytes, tcr_render_tstyle t = Some bytes /\ ad_interp_x bytes = Some m /\ ad_render_ok m bytes = true.
Proof.
  intros Ht Hm. destruct (tcr_meaning_shown t m Ht Hm) as (sp & Es & Ok & Sh).
  destruct (tcr_render_shown sp Ok) as [R I].
  exists (tcr_bytes sp). unfold tcr_render_tstyle. rewrite Es, R, <- Sh. split; [reflexivity|]. split; [exact I|].
  unfold ad_render_ok. rewrite I.
  assert (Hrefl : forall x, sstyle_eqb x x = true).
  { intros [f b u e]. unfold sstyle_eqb. cbn [s_fg s_bg s_ul s_eff].
    assert (Hc : forall c, opt_colour_eqb c c = true).
    { intros [[i|i|r g b0]|]; cbn; rewrite ?N.eqb_refl; reflexivity. }
    now rewrite !Hc, N.eqb_refl. }
  apply Hrefl.
Qed.

(* ======================================================================== *)
(* 4. composition: render (convert s) is read as project(s)                   *)

Lemma tcr_converted_ok s : tcr_src_u8 s -> tcr_tstyle_ok (ad_to_termcolor s).
Proof.
  intros [Hf Hb]. unfold tcr_tstyle_ok, ad_to_termcolor. cbn [ad_t_fg ad_t_bg].
  split.
  - destruct (s_fg s) as [[i|n|r g b]|]; cbn in *; auto.
  - destruct (s_bg s) as [[i|n|r g b]|]; cbn in *; auto.
Qed.

(* for every anstyle style with u8 components: the translated adapter returns a target style,
   that style is a ColorSpec, the translated library renders it without panic, and a terminal
   shows the text in exactly the rendition the property expects (hue kept, brightness dropped,
   indexed / RGB exact, bold / dimmed / italic / underline and nothing else) *)
Theorem tcr_convert_rendered s : ad_src_ok s -> tcr_src_u8 s ->
  exists bytes, (t <- g_to_termcolor_spec s ;; tcr_render_tstyle t) = Some bytes /\
                ad_interp_x bytes = Some (ad_project AdTermcolor s) /\
                ad_render_ok (ad_project AdTermcolor s) bytes = true.
Proof.
  intros Hs Hu. rewrite (g_to_termcolor_spec_eq s Hs).
  exact (tcr_meaning_rendered (ad_to_termcolor s) (ad_project AdTermcolor s) (tcr_converted_ok s Hu)
           (ad_convert_meaning AdTermcolor s Hs)).
Qed.

(* ---- outside the adapter's image: `set_intense` ------------------------------------------- *)
(* Spec/Targets reads termcolor's named colours "with intense off" (hue only).  The library CAN
   show a bright named colour -- for both slots at once: with the flag set every named colour is
   written as the 256-palette entry 8 + hue.  The adapter never sets the flag. *)
Theorem tcr_intense_shown sp : tcr_spec_ok sp -> tcs_intense sp = true ->
  exists bytes, g_tcr_render sp = Some bytes /\
    ad_interp_x bytes = Some (mkStyle (option_map (tcr_colour true) (tcs_fg_color sp))
                                      (option_map (tcr_colour true) (tcs_bg_color sp)) None (tcr_eff sp)).
Proof.
  intros H Hi. destruct (tcr_render_shown sp H) as [R I]. exists (tcr_bytes sp). split; [exact R|].
  rewrite I. unfold tcr_shown. now rewrite Hi.
Qed.

(* witness: red foreground + set_intense is shown as bright red (palette entry 9), which the
   meaning table of Spec/Targets (Red = CAnsi 1) does not say; after the documented identification
   of palette entries 0-15 with the 16 ANSI colours it is CAnsi 9 *)
Theorem tcr_intense_witness :
  let sp := fst (g_tcr_set_intense (fst (g_tcr_set_fg g_tcr_spec_new (Some TcRed))) true) in
  option_map (fun bs => option_map ad_norm_style (ad_interp_x bs)) (g_tcr_render sp)
  = Some (Some (mkStyle (Some (CAnsi 9)) None None 0)).
Proof. vm_compute. reflexivity. Qed.
