(* Proofs/AutoGen.v -- the functions TRANSLATED from crates/anstream/src/auto.rs and the
   constructors / accessors of crates/anstream/src/strip.rs (Generated/AutoFn.v, written by
   tools/gen_fn_auto.py on every run; non-Windows target, default features) are extensionally
   equal to the hand model Model/Stream.v (auto_mode, auto_op, run_ops, current_choice) that
   the theorems of C08 are about.  A change to the Rust functions changes the translation; if it
   changes their meaning, one of these proofs fails.

   The hand model keeps the arm chosen at construction, the strip state and the inner writer
   side by side ([auto_op b m s w]); the Rust value is [as_of m s w] (a pass-through stream
   has no strip state: [as_of MPass s w] does not mention [s]).  [cf : acfg] is what the raw
   stream answers besides being a writer: [ac_decided cf] = `choice(&raw)` (C09's subject),
   [ac_tty cf] = `raw.is_terminal()`, [ac_wv_all cf] = real vectored writes. *)
From Coq Require Import NArith List Bool Lia.
From AV Require Import Generated.Table Spec.Io Model.Base Model.Imp Model.Utf8parse Model.Parser Model.Strip
  Model.Stream Proofs.StripMachine Generated.StreamFn Proofs.StreamGen Generated.AutoFn.
Import ListNotations.
Local Open Scope N_scope.

(* ---- strip.rs: StripStream::{new, into_inner, is_terminal, lock} ---------------------------- *)

Lemma g_ss_new_eq cf raw : g_ss_new cf raw = mkSS raw sb_new.
Proof. reflexivity. Qed.

Lemma g_ss_into_inner_eq cf x : g_ss_into_inner cf x = ss_raw x.
Proof. reflexivity. Qed.

Lemma g_ss_is_terminal_eq cf x : g_ss_is_terminal cf x = ac_tty cf.
Proof. reflexivity. Qed.

(* taking std's lock changes neither the stream the bytes go to nor the strip state *)
Lemma g_ss_lock_stdout_eq cf x : g_ss_lock_stdout cf x = x.
Proof. destruct x; reflexivity. Qed.

Lemma g_ss_lock_stderr_eq cf x : g_ss_lock_stderr cf x = x.
Proof. destruct x; reflexivity. Qed.

(* the TRANSLATED StripStream::write_vectored (Generated/StreamFn.v; Proofs/StreamGen.v g_ss_write_vectored_first) *)
Lemma g_ss_write_vectored_eq x bufs :
  conv_ss sres_of_n (g_ss_write_vectored x bufs) = ss_op (ss_state x) (ss_raw x) (OWriteVectored bufs).
Proof. rewrite g_ss_write_vectored_first, g_ss_write_eq. reflexivity. Qed.

(* ---- auto.rs: the constructors ------------------------------------------------------------------ *)

Lemma g_as_always_ansi__eq cf raw d s : g_as_always_ansi_ cf raw = as_of (auto_mode CAlwaysAnsi d) s raw.
Proof. reflexivity. Qed.

Lemma g_as_always_ansi_eq cf raw d s : g_as_always_ansi cf raw = Some (as_of (auto_mode CAlwaysAnsi d) s raw).
Proof. unfold g_as_always_ansi. destruct (raw_is_terminal cf raw); reflexivity. Qed.

Lemma g_as_always_eq cf raw d s : g_as_always cf raw = Some (as_of (auto_mode CAlways d) s raw).
Proof. unfold g_as_always. rewrite (g_as_always_ansi_eq cf raw d s). reflexivity. Qed.

Lemma g_as_never_eq cf raw d : g_as_never cf raw = as_of (auto_mode CNever d) sb_new raw.
Proof. reflexivity. Qed.

(* AutoStream::wincon off Windows (`#[cfg(not(all(windows, feature = "wincon")))] { Err(raw) }`): no legacy-console stream
   is ever built, the raw stream is handed back unchanged *)
Lemma g_as_wincon_eq cf raw : g_as_wincon cf raw = inr raw.
Proof. reflexivity. Qed.

Lemma g_as_choice_eq cf raw : g_as_choice cf raw = ac_decided cf.
Proof. reflexivity. Qed.

(* what `new` / `auto` answer: the arm [auto_mode] names, a fresh strip state, the raw stream;
   `choice(&raw)` answering Auto is the `debug_assert_ne!` of `auto` (a panic) *)
Definition auto_new (cf : acfg) (raw : writer) (c : cchoice) : option astream :=
  if cchoice_eqb c CAuto && cchoice_eqb (ac_decided cf) CAuto then None
  else Some (as_of (auto_mode c (ac_decided cf)) sb_new raw).

Lemma g_as_new_rec_direct fuel cf raw c :
  c <> CAuto -> g_as_new_rec (S fuel) cf raw c = Some (as_of (auto_mode c (ac_decided cf)) sb_new raw).
Proof.
  intros Hc. cbn [g_as_new_rec]. destruct c; [congruence| | |].
  - rewrite (g_as_always_ansi_eq cf raw (ac_decided cf) sb_new). reflexivity.
  - rewrite (g_as_always_eq cf raw (ac_decided cf) sb_new). reflexivity.
  - reflexivity.
Qed.

(* Auto: `Self::auto(raw)` inlined, then `new` again (one level of fuel down) with the decided choice *)
Lemma g_as_new_rec_auto f1 cf raw :
  (forall c, c <> CAuto -> g_as_new_rec f1 cf raw c = Some (as_of (auto_mode c (ac_decided cf)) sb_new raw)) ->
  g_as_new_rec (S f1) cf raw CAuto = auto_new cf raw CAuto.
Proof.
  intros Hrec. unfold auto_new. cbn [g_as_new_rec cchoice_eqb andb]. rewrite g_as_choice_eq.
  destruct (ac_decided cf) eqn:Hd; cbn [cchoice_eqb negb]; [reflexivity| | |];
    rewrite Hrec by congruence; rewrite ?Hd; reflexivity.
Qed.

Lemma g_as_new_eq cf raw c : g_as_new cf raw c = auto_new cf raw c.
Proof.
  unfold g_as_new. destruct c.
  - apply g_as_new_rec_auto. intros c Hc. apply g_as_new_rec_direct, Hc.
  - rewrite g_as_new_rec_direct by congruence. reflexivity.
  - rewrite g_as_new_rec_direct by congruence. reflexivity.
  - rewrite g_as_new_rec_direct by congruence. reflexivity.
Qed.

Lemma g_as_auto_eq cf raw : g_as_auto cf raw = auto_new cf raw CAuto.
Proof.
  unfold g_as_auto, auto_new. rewrite g_as_choice_eq, g_as_new_eq. unfold auto_new.
  destruct (ac_decided cf); reflexivity.
Qed.

(* with the decision of C09 (never Auto) every constructor succeeds *)
Lemma g_as_new_decided cf raw c :
  ac_decided cf <> CAuto -> g_as_new cf raw c = Some (as_of (auto_mode c (ac_decided cf)) sb_new raw).
Proof.
  intros Hd. rewrite g_as_new_eq. unfold auto_new.
  destruct (ac_decided cf); [congruence| | |]; destruct c; reflexivity.
Qed.

(* ---- auto.rs: accessors ---------------------------------------------------------------------- *)

Lemma g_as_into_inner_eq cf a : g_as_into_inner cf a = Some (as_writer a).
Proof. unfold g_as_into_inner, as_writer. destruct (as_inner a); reflexivity. Qed.

Lemma g_as_into_inner_of cf m s w : g_as_into_inner cf (as_of m s w) = Some (auto_into_inner m s w).
Proof. destruct m; reflexivity. Qed.

Lemma g_as_is_terminal_eq cf a : g_as_is_terminal cf a = Some (auto_is_terminal cf (as_mode a)).
Proof. unfold g_as_is_terminal. destruct (as_inner a); reflexivity. Qed.

Lemma g_as_current_choice_eq cf a : g_as_current_choice cf a = Some (current_choice (as_mode a)).
Proof. unfold g_as_current_choice, as_mode. destruct (as_inner a); reflexivity. Qed.

Lemma as_mode_of m s w : as_mode (as_of m s w) = m.
Proof. destruct m; reflexivity. Qed.

Lemma g_as_current_choice_of cf m s w : g_as_current_choice cf (as_of m s w) = Some (current_choice m).
Proof. rewrite g_as_current_choice_eq, as_mode_of. reflexivity. Qed.

Lemma g_as_lock_stdout_eq cf a : g_as_lock_stdout cf a = Some a.
Proof.
  unfold g_as_lock_stdout. destruct a as [[w|x]]; cbn [as_inner]; [reflexivity|].
  rewrite g_ss_lock_stdout_eq. reflexivity.
Qed.

Lemma g_as_lock_stderr_eq cf a : g_as_lock_stderr cf a = Some a.
Proof.
  unfold g_as_lock_stderr. destruct a as [[w|x]]; cbn [as_inner]; [reflexivity|].
  rewrite g_ss_lock_stderr_eq. reflexivity.
Qed.

(* ---- impl io::Write for AutoStream: every method forwards to the arm ------------------------ *)

(* translated: (stream, io::Result); hand model: (state, writer, sres) *)
Definition conv_as {A} (f : A -> sres) (r : option (astream * A)) : option (astream * sres) :=
  match r with Some (a, x) => Some (a, f x) | None => None end.
Definition as_res (m : amode) (r : option (sbytes * writer * sres)) : option (astream * sres) :=
  match r with Some (s1, w1, x) => Some (as_of m s1 w1, x) | None => None end.

Lemma raw_write_fmt_eq w frags :
  (let '(w1, r) := raw_write_fmt w frags in (w1, sres_of_unit r)) = w_write_fmt w frags.
Proof.
  revert w. induction frags as [|fr rest IH]; intros w; cbn [raw_write_fmt w_write_fmt]; [reflexivity|].
  destruct (w_write_all w fr) as [w1 [u|e]]; [apply IH|reflexivity].
Qed.

(* the Strip arm: one lemma for "call the translated StripStream method, put the stream back" *)
Lemma strip_arm {A} (f : A -> sres) (call : option (sstream * A)) s w o :
  conv_ss f call = ss_op s w o ->
  conv_as f (match call with Some (x1, r) => Some (set_as_inner (mkAStream (SIStrip (mkSS w s))) (SIStrip x1), r) | None => None end)
  = as_res MStrip (ss_op s w o).
Proof.
  intros H. rewrite <- H. destruct call as [[[w1 s1] r]|]; reflexivity.
Qed.

Lemma g_as_write_eq cf m s w buf :
  conv_as sres_of_n (g_as_write cf (as_of m s w) buf) = as_res m (auto_op (ac_wv_all cf) m s w (OWrite buf)).
Proof.
  destruct m; unfold g_as_write; cbn [as_of as_inner auto_op pass_op].
  - unfold raw_write. destruct (w_write w buf) as [w1 [n|e]]; reflexivity.
  - rewrite <- (strip_arm sres_of_n (g_ss_write (mkSS w s) buf) s w (OWrite buf) (g_ss_write_eq (mkSS w s) buf)).
    destruct (g_ss_write (mkSS w s) buf) as [[x1 r]|]; reflexivity.
Qed.

Lemma g_as_write_vectored_eq cf m s w bufs :
  conv_as sres_of_n (g_as_write_vectored cf (as_of m s w) bufs)
  = as_res m (auto_op (ac_wv_all cf) m s w (OWriteVectored bufs)).
Proof.
  destruct m; unfold g_as_write_vectored; cbn [as_of as_inner auto_op pass_op].
  - unfold raw_write_vectored. destruct (w_write w _) as [w1 [n|e]]; reflexivity.
  - rewrite <- (strip_arm sres_of_n (g_ss_write_vectored (mkSS w s) bufs) s w (OWriteVectored bufs)
                  (g_ss_write_vectored_eq (mkSS w s) bufs)).
    destruct (g_ss_write_vectored (mkSS w s) bufs) as [[x1 r]|]; reflexivity.
Qed.

Lemma g_as_flush_eq cf m s w :
  conv_as sres_of_unit (g_as_flush cf (as_of m s w)) = as_res m (auto_op (ac_wv_all cf) m s w OFlush).
Proof. destruct m; reflexivity. Qed.

Lemma g_as_write_all_eq cf m s w buf :
  conv_as sres_of_unit (g_as_write_all cf (as_of m s w) buf) = as_res m (auto_op (ac_wv_all cf) m s w (OWriteAll buf)).
Proof.
  destruct m; unfold g_as_write_all; cbn [as_of as_inner auto_op pass_op].
  - unfold raw_write_all. destruct (w_write_all w buf) as [w1 [n|e]]; reflexivity.
  - rewrite <- (strip_arm sres_of_unit (g_ss_write_all (mkSS w s) buf) s w (OWriteAll buf) (g_ss_write_all_eq (mkSS w s) buf)).
    destruct (g_ss_write_all (mkSS w s) buf) as [[x1 r]|]; reflexivity.
Qed.

Lemma g_as_write_fmt_eq cf m s w frags :
  conv_as sres_of_unit (g_as_write_fmt cf (as_of m s w) frags) = as_res m (auto_op (ac_wv_all cf) m s w (OWriteFmt frags)).
Proof.
  destruct m; unfold g_as_write_fmt; cbn [as_of as_inner auto_op pass_op].
  - rewrite <- raw_write_fmt_eq. destruct (raw_write_fmt w frags) as [w1 [n|e]]; reflexivity.
  - rewrite <- (strip_arm sres_of_unit (g_ss_write_fmt (mkSS w s) frags) s w (OWriteFmt frags) (g_ss_write_fmt_eq (mkSS w s) frags)).
    destruct (g_ss_write_fmt (mkSS w s) frags) as [[x1 r]|]; reflexivity.
Qed.

(* ---- the entry points: one operation, operation sequences, construction + use ---------------- *)

Definition g_as_op (cf : acfg) (a : astream) (o : sop) : option (astream * sres) :=
  match o with
  | OWrite buf => conv_as sres_of_n (g_as_write cf a buf)
  | OWriteAll buf => conv_as sres_of_unit (g_as_write_all cf a buf)
  | OWriteVectored bufs => conv_as sres_of_n (g_as_write_vectored cf a bufs)
  | OWriteFmt frags => conv_as sres_of_unit (g_as_write_fmt cf a frags)
  | OFlush => conv_as sres_of_unit (g_as_flush cf a)
  end.

Fixpoint g_as_run (cf : acfg) (a : astream) (ops : list sop) : option (astream * list sres) :=
  match ops with
  | [] => Some (a, [])
  | o :: rest =>
      '(a1, r) <- g_as_op cf a o ;;
      '(a2, rs) <- g_as_run cf a1 rest ;;
      Some (a2, r :: rs)
  end.

Definition as_run_res (m : amode) (r : option (sbytes * writer * list sres)) : option (astream * list sres) :=
  match r with Some (s1, w1, rs) => Some (as_of m s1 w1, rs) | None => None end.

Lemma g_as_op_eq cf m s w o :
  g_as_op cf (as_of m s w) o = as_res m (auto_op (ac_wv_all cf) m s w o).
Proof.
  destruct o as [buf|buf|bufs|frags|]; cbn [g_as_op].
  - apply g_as_write_eq.
  - apply g_as_write_all_eq.
  - apply g_as_write_vectored_eq.
  - apply g_as_write_fmt_eq.
  - apply g_as_flush_eq.
Qed.

Lemma g_as_run_eq cf m : forall ops s w,
  g_as_run cf (as_of m s w) ops = as_run_res m (run_ops (ac_wv_all cf) m s w ops).
Proof.
  induction ops as [|o rest IH]; intros s w; cbn [g_as_run run_ops]; [reflexivity|].
  rewrite g_as_op_eq.
  destruct (auto_op (ac_wv_all cf) m s w o) as [[[s1 w1] r]|]; cbn [as_res]; [|reflexivity].
  rewrite IH. destruct (run_ops (ac_wv_all cf) m s1 w1 rest) as [[[s2 w2] rs]|]; reflexivity.
Qed.

(* AutoStream::new(raw, c), any sequence of the five Write methods, then current_choice() and
   into_inner(): the translated Rust code answers what the hand model of C08 answers -- the same
   per-call results, the same inner writer (script, received bytes, call history), the reported
   mode of the arm chosen at construction; a panic (None) exactly where the model has one.
   [ac_decided cf <> CAuto]: `choice(&raw)` never answers Auto (C09). *)
Definition g_as_session (cf : acfg) (raw : writer) (c : cchoice) (ops : list sop)
  : option (list sres * cchoice * writer) :=
  a <- g_as_new cf raw c ;;
  '(a1, rs) <- g_as_run cf a ops ;;
  cur <- g_as_current_choice cf a1 ;;
  w1 <- g_as_into_inner cf a1 ;;
  Some (rs, cur, w1).

Definition auto_session (b : bool) (d : cchoice) (raw : writer) (c : cchoice) (ops : list sop)
  : option (list sres * cchoice * writer) :=
  match run_ops b (auto_mode c d) sb_new raw ops with
  | Some (_, w1, rs) => Some (rs, current_choice (auto_mode c d), w1)
  | None => None
  end.

Theorem translated_autostream_is_model : forall cf raw c ops,
  ac_decided cf <> CAuto ->
  g_as_session cf raw c ops = auto_session (ac_wv_all cf) (ac_decided cf) raw c ops.
Proof.
  intros cf raw c ops Hd. unfold g_as_session, auto_session.
  rewrite (g_as_new_decided cf raw c Hd).
  rewrite g_as_run_eq.
  destruct (run_ops (ac_wv_all cf) (auto_mode c (ac_decided cf)) sb_new raw ops) as [[[s1 w1] rs]|]; [|reflexivity].
  cbn [as_run_res]. rewrite g_as_current_choice_of, g_as_into_inner_of. reflexivity.
Qed.

(* the same through `AutoStream::auto(raw)` *)
Theorem translated_autostream_auto_is_model : forall cf raw ops,
  ac_decided cf <> CAuto ->
  (a <- g_as_auto cf raw ;; g_as_run cf a ops)
  = as_run_res (auto_mode CAuto (ac_decided cf))
      (run_ops (ac_wv_all cf) (auto_mode CAuto (ac_decided cf)) sb_new raw ops).
Proof.
  intros cf raw ops Hd. rewrite g_as_auto_eq, <- g_as_new_eq, (g_as_new_decided cf raw CAuto Hd).
  apply g_as_run_eq.
Qed.

(* and when `choice(&raw)` answers Auto, `auto` (hence `new(raw, Auto)`) panics: the debug_assert_ne! *)
Theorem translated_autostream_auto_undecided : forall cf raw,
  ac_decided cf = CAuto -> g_as_auto cf raw = None /\ g_as_new cf raw CAuto = None.
Proof.
  intros cf raw Hd. rewrite g_as_auto_eq, g_as_new_eq. unfold auto_new. rewrite Hd. split; reflexivity.
Qed.

Theorem translated_accessors : forall cf m s w,
  g_as_current_choice cf (as_of m s w) = Some (current_choice m) /\
  g_as_into_inner cf (as_of m s w) = Some w /\
  g_as_is_terminal cf (as_of m s w) = Some (ac_tty cf) /\
  g_as_lock_stdout cf (as_of m s w) = Some (as_of m s w) /\
  g_as_lock_stderr cf (as_of m s w) = Some (as_of m s w).
Proof.
  intros cf m s w.
  exact (conj (g_as_current_choice_of cf m s w) (conj (g_as_into_inner_of cf m s w)
        (conj (g_as_is_terminal_eq cf (as_of m s w)) (conj (g_as_lock_stdout_eq cf _) (g_as_lock_stderr_eq cf _))))).
Qed.

(* ==== LOCK (C19): the second translation `gl_*` =================================================
   The same Rust methods over a raw stream that logs its lock events ([lraw]: the writer and the
   positions, in the writer's call history, at which the lock was taken / given back).  Every one of
   the five Write methods of StripStream and of AutoStream, in either arm:
     - answers what the first translation answers (same result, same writer, same strip state), and
     - extends the lock log by exactly ONE Acquire, at the length of the inner call history before
       the call, and ONE Release, at its length after the call ([lock_once]): the lock is taken
       once, before the first inner call, and given back after the last one.
   (A panic inside the call is [None] in both translations; the unwinding that drops the guard is
   not modelled.) *)

Definition lss_locked (x : lsstream) (x1 : sstream) : lsstream :=
  mkLSS (mkLR (ss_raw x1) (lock_once (lr_log (lss_raw x)) (lr_w (lss_raw x)) (ss_raw x1))) (ss_state x1).

Definition lss_res {A} (x : lsstream) (r : option (sstream * A)) : option (lsstream * A) :=
  match r with Some (x1, v) => Some (lss_locked x x1, v) | None => None end.

Lemma lock_once_app log w w1 :
  (log ++ [LAcq (length (w_calls w))]) ++ [LRel (length (w_calls w1))] = lock_once log w w1.
Proof. unfold lock_once. rewrite <- app_assoc. reflexivity. Qed.

Ltac lk_norm :=
  unfold set_lss_raw, set_lss_state, set_lr_w, lr_acquire, lr_release, set_ss_raw, set_ss_state;
  cbn [lss_raw lss_state lr_w lr_log ss_raw ss_state].

Lemma gl_ss_write_eq x buf : gl_ss_write x buf = lss_res x (g_ss_write (lss_erase x) buf).
Proof.
  destruct x as [[w log] s]. unfold gl_ss_write, g_ss_write, lss_erase, lss_res, lss_locked.
  lk_norm.
  destruct (g_write w s buf) as [[[w1 s1] r]|]; [|reflexivity].
  lk_norm. rewrite lock_once_app. reflexivity.
Qed.

Lemma gl_ss_write_all_eq x buf : gl_ss_write_all x buf = lss_res x (g_ss_write_all (lss_erase x) buf).
Proof.
  destruct x as [[w log] s]. unfold gl_ss_write_all, g_ss_write_all, lss_erase, lss_res, lss_locked.
  lk_norm.
  destruct (g_write_all w s buf) as [[[w1 s1] r]|]; [|reflexivity].
  lk_norm. rewrite lock_once_app. reflexivity.
Qed.

Lemma gl_ss_write_fmt_eq x frags : gl_ss_write_fmt x frags = lss_res x (g_ss_write_fmt (lss_erase x) frags).
Proof.
  destruct x as [[w log] s]. unfold gl_ss_write_fmt, g_ss_write_fmt, lss_erase, lss_res, lss_locked.
  lk_norm.
  destruct (g_write_fmt w s frags) as [[[w1 s1] r]|]; [|reflexivity].
  lk_norm. rewrite lock_once_app. reflexivity.
Qed.

Lemma gl_ss_flush_eq x : Some (gl_ss_flush x) = lss_res x (Some (g_ss_flush (lss_erase x))).
Proof.
  destruct x as [[w log] s]. unfold gl_ss_flush, g_ss_flush, lss_erase, lss_res, lss_locked, raw_flush, ss_raw_flush.
  lk_norm.
  rewrite lock_once_app. reflexivity.
Qed.

Lemma gl_ss_write_vectored_eq x bufs :
  gl_ss_write_vectored x bufs = lss_res x (g_ss_write_vectored (lss_erase x) bufs).
Proof.
  rewrite g_ss_write_vectored_first. unfold gl_ss_write_vectored. cbv zeta.
  (* whichever way the selection after `find` is spelled (StreamGen.v select_first_nonempty) *)
  select_first_nonempty gl_ss_write bufs.
  all: rewrite gl_ss_write_eq;
    match goal with |- context [g_ss_write (lss_erase ?y) ?b] => destruct (g_ss_write (lss_erase y) b) as [[? ?]|] end; reflexivity.
Qed.

(* AutoStream: [las_with log a] is the stream value [a] whose raw stream carries the log [log] *)
Definition las_locked (log : list lmark) (a a1 : astream) : lastream :=
  las_with (lock_once log (as_writer a) (as_writer a1)) a1.

Definition las_res {A} (log : list lmark) (a : astream) (r : option (astream * A)) : option (lastream * A) :=
  match r with Some (a1, v) => Some (las_locked log a a1, v) | None => None end.

(* the Strip arm: rewrite with the lemma of the locked StripStream method, then one case analysis on the
   call of the first translation *)
Ltac lock_strip_arm L call :=
  rewrite L; unfold lss_res, lss_erase, las_res, las_locked, las_with, lss_locked; cbn [lss_raw lss_state lr_w lr_log];
  destruct call as [[[w1 s1] r]|]; reflexivity.

Ltac lock_pass_arm :=
  unfold lr_acquire, lr_release, set_lr_w, las_res, las_locked, las_with; cbn [lr_w lr_log as_inner as_writer];
  match goal with |- context [let '(o, r) := ?c in _] => destruct c as [w1 r] end;
  cbn [lr_w lr_log as_inner as_writer set_as_inner set_las_inner]; rewrite lock_once_app; reflexivity.

Lemma gl_as_write_eq cf log a buf :
  gl_as_write cf (las_with log a) buf = las_res log a (g_as_write cf a buf).
Proof.
  destruct a as [[w|[w s]]]; unfold gl_as_write, g_as_write, las_with; cbn [as_inner las_inner ss_raw ss_state].
  - lock_pass_arm.
  - lock_strip_arm gl_ss_write_eq (g_ss_write (mkSS w s) buf).
Qed.

Lemma gl_as_write_vectored_eq cf log a bufs :
  gl_as_write_vectored cf (las_with log a) bufs = las_res log a (g_as_write_vectored cf a bufs).
Proof.
  destruct a as [[w|[w s]]]; unfold gl_as_write_vectored, g_as_write_vectored, las_with; cbn [as_inner las_inner ss_raw ss_state].
  - lock_pass_arm.
  - lock_strip_arm gl_ss_write_vectored_eq (g_ss_write_vectored (mkSS w s) bufs).
Qed.

Lemma gl_as_flush_eq cf log a :
  gl_as_flush cf (las_with log a) = las_res log a (g_as_flush cf a).
Proof.
  destruct a as [[w|[w s]]]; unfold gl_as_flush, g_as_flush, las_with; cbn [as_inner las_inner ss_raw ss_state].
  - lock_pass_arm.
  - pose proof (gl_ss_flush_eq (mkLSS (mkLR w log) s)) as H. unfold lss_res, lss_erase in H. cbn [lss_raw lss_state lr_w] in H.
    destruct (gl_ss_flush (mkLSS (mkLR w log) s)) as [x1 r], (g_ss_flush (mkSS w s)) as [[w1 s1] r'].
    injection H as -> ->. reflexivity.
Qed.

Lemma gl_as_write_all_eq cf log a buf :
  gl_as_write_all cf (las_with log a) buf = las_res log a (g_as_write_all cf a buf).
Proof.
  destruct a as [[w|[w s]]]; unfold gl_as_write_all, g_as_write_all, las_with; cbn [as_inner las_inner ss_raw ss_state].
  - lock_pass_arm.
  - lock_strip_arm gl_ss_write_all_eq (g_ss_write_all (mkSS w s) buf).
Qed.

Lemma gl_as_write_fmt_eq cf log a frags :
  gl_as_write_fmt cf (las_with log a) frags = las_res log a (g_as_write_fmt cf a frags).
Proof.
  destruct a as [[w|[w s]]]; unfold gl_as_write_fmt, g_as_write_fmt, las_with; cbn [as_inner las_inner ss_raw ss_state].
  - lock_pass_arm.
  - lock_strip_arm gl_ss_write_fmt_eq (g_ss_write_fmt (mkSS w s) frags).
Qed.

(* one operation, with the results as [sres] *)
Definition gl_as_op (cf : acfg) (a : lastream) (o : sop) : option (lastream * sres) :=
  match o with
  | OWrite buf => match gl_as_write cf a buf with Some (a1, x) => Some (a1, sres_of_n x) | None => None end
  | OWriteAll buf => match gl_as_write_all cf a buf with Some (a1, x) => Some (a1, sres_of_unit x) | None => None end
  | OWriteVectored bufs => match gl_as_write_vectored cf a bufs with Some (a1, x) => Some (a1, sres_of_n x) | None => None end
  | OWriteFmt frags => match gl_as_write_fmt cf a frags with Some (a1, x) => Some (a1, sres_of_unit x) | None => None end
  | OFlush => match gl_as_flush cf a with Some (a1, x) => Some (a1, sres_of_unit x) | None => None end
  end.

(* every Write method of the translated AutoStream, in either arm: same answer as without the log,
   and the lock taken exactly once around all the inner calls of the operation *)
Theorem translated_ops_lock_once : forall cf log a o,
  gl_as_op cf (las_with log a) o = las_res log a (g_as_op cf a o).
Proof.
  intros cf log a o. destruct o as [buf|buf|bufs|frags|]; cbn [gl_as_op g_as_op].
  - rewrite gl_as_write_eq. destruct (g_as_write cf a buf) as [[a1 x]|]; reflexivity.
  - rewrite gl_as_write_all_eq. destruct (g_as_write_all cf a buf) as [[a1 x]|]; reflexivity.
  - rewrite gl_as_write_vectored_eq. destruct (g_as_write_vectored cf a bufs) as [[a1 x]|]; reflexivity.
  - rewrite gl_as_write_fmt_eq. destruct (g_as_write_fmt cf a frags) as [[a1 x]|]; reflexivity.
  - rewrite gl_as_flush_eq. destruct (g_as_flush cf a) as [[a1 x]|]; reflexivity.
Qed.

(* read through the hand model of C08: the log after one operation on [as_of m s w] *)
Theorem translated_ops_lock_once_model : forall cf log m s w o,
  gl_as_op cf (las_with log (as_of m s w)) o =
  match auto_op (ac_wv_all cf) m s w o with
  | Some (s1, w1, r) => Some (las_with (lock_once log w w1) (as_of m s1 w1), r)
  | None => None
  end.
Proof.
  intros cf log m s w o. rewrite translated_ops_lock_once, g_as_op_eq.
  destruct (auto_op (ac_wv_all cf) m s w o) as [[[s1 w1] r]|]; [|reflexivity].
  cbn [as_res las_res]. unfold las_locked. destruct m; reflexivity.
Qed.

Theorem translated_strip_lock_once : forall x,
  (forall buf, gl_ss_write x buf = lss_res x (g_ss_write (lss_erase x) buf)) /\
  (forall buf, gl_ss_write_all x buf = lss_res x (g_ss_write_all (lss_erase x) buf)) /\
  (forall frags, gl_ss_write_fmt x frags = lss_res x (g_ss_write_fmt (lss_erase x) frags)) /\
  (forall bufs, gl_ss_write_vectored x bufs = lss_res x (g_ss_write_vectored (lss_erase x) bufs)) /\
  gl_ss_flush x = (lss_locked x (fst (g_ss_flush (lss_erase x))), snd (g_ss_flush (lss_erase x))).
Proof.
  intros x.
  refine (conj (gl_ss_write_eq x) (conj (gl_ss_write_all_eq x) (conj (gl_ss_write_fmt_eq x) (conj (gl_ss_write_vectored_eq x) _)))).
  destruct x as [[w log] s]. unfold gl_ss_flush, g_ss_flush, lss_erase, lss_locked, raw_flush, ss_raw_flush.
  lk_norm. cbn [fst snd ss_raw ss_state]. rewrite lock_once_app. reflexivity.
Qed.
