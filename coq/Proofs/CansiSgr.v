(* Proofs/CansiSgr.v -- cansi 2.2.1 `adjust_sgr` as translated (Generated/CansiFn.v) = the arm table of the hand model
   (Model/Roff.v [rf_adjust_sgr]).  Kept apart from Proofs/CansiGen.v because the 48-arm comparison takes a few seconds. *)
From Coq Require Import NArith List Bool Lia.
From AV Require Import Model.Base Model.Imp Generated.Roff Model.Roff Generated.CansiFn.
Import ListNotations.
Local Open Scope N_scope.

(* ---- adjust_sgr -------------------------------------------------------------------------------- *)

Lemma rf_eqb_eq a : forall b, rf_eqb a b = true -> a = b.
Proof.
  induction a as [|x a IH]; intros [|y b] H; cbn [rf_eqb] in H; try discriminate; [reflexivity|].
  apply andb_true_iff in H as [H1 H2]. apply N.eqb_eq in H1. rewrite H1, (IH b H2). reflexivity.
Qed.

Lemma existsb_false_in {A} (f : A -> bool) l : existsb f l = false -> forall x, In x l -> f x = false.
Proof.
  induction l as [|y l IH]; intros H x Hx; [destruct Hx|]. cbn [existsb] in H. apply orb_false_iff in H as [H1 H2].
  destruct Hx as [<-|Hx]; [exact H1|exact (IH H2 x Hx)].
Qed.

(* the string literals of the hand model's arm table *)
Definition rf_cansi_keys : list (list N) := map (fun p => rf_code_str (fst p)) rf_cansi_arms.

Ltac in_keys := cbv [rf_cansi_keys rf_cansi_arms map fst]; cbn [In]; repeat (first [left; reflexivity | right]).

(* whatever the order of the arms: either [seq] is one of the 48 literals (then both sides compute), or every
   comparison fails on both sides *)
Lemma g_cansi_adjust_sgr_eq sgr seq : g_cansi_adjust_sgr sgr seq = rf_adjust_sgr sgr seq.
Proof.
  destruct (existsb (rf_eqb seq) rf_cansi_keys) eqn:E.
  - apply existsb_exists in E as [k [Hin Hk]]. apply rf_eqb_eq in Hk. subst seq.
    vm_compute in Hin. repeat (destruct Hin as [<-|Hin]; [reflexivity|]). destruct Hin.
  - pose proof (existsb_false_in _ _ E) as HF. clear E.
    unfold g_cansi_adjust_sgr, rf_adjust_sgr. cbv [rf_cansi_arms]. cbn [rf_cansi_lookup].
    repeat match goal with |- context [rf_eqb seq ?k] => rewrite (HF k) by in_keys end.
    reflexivity.
Qed.

