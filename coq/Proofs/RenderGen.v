(* Proofs/RenderGen.v -- the functions TRANSLATED from crates/anstyle/src/color.rs
   (Generated/RenderFn.v, written by tools/gen_fn_render.py on every run):
   DisplayBuffer::{write_str, write_code, as_str} and the as_{fg,bg,underline}_buffer
   families of AnsiColor / Ansi256Color / RgbColor, against the hand model Model/Render.v
   that the theorems of C05 are about.

   The translation works on the Rust data layout (a 19-byte array and a length); the hand
   model keeps the bytes buffer[0..len].  The two are related by [dbuf_rel]; every translated
   function maps related states to related states and panics ([None]) exactly when the hand
   model does ([orel]); for the functions that start from DisplayBuffer::default() this is
   an equation through [rn_dbuf_abs] (= DisplayBuffer::as_str). *)
From Coq Require Import NArith Arith List Bool Lia.
From AV Require Import Generated.Style Generated.Render Spec.Vt Spec.Strip Spec.Sgr Spec.Algebra Spec.Render Spec.Io Model.Base Model.Imp Model.Style Model.Render
  Generated.StyleFn Generated.RenderFn Proofs.ParamsSim Proofs.StreamIo Proofs.Style Proofs.StyleGen Proofs.Render.
Import ListNotations.
Local Open Scope N_scope.

Definition dbuf_rel (d : rn_dbuf) (b : rn_buf) : Prop :=
  length (db_buffer d) = cap /\ (N.to_nat (db_len d) <= cap)%nat /\ rn_dbuf_abs d = b.

(* same outcome: both panic, or both succeed with related states *)
Definition orel (x : option rn_dbuf) (y : option rn_buf) : Prop :=
  match x, y with
  | Some d, Some b => dbuf_rel d b
  | None, None => True
  | _, _ => False
  end.

Lemma orel_abs x y : orel x y -> option_map rn_dbuf_abs x = y.
Proof.
  destruct x as [d|], y as [b|]; cbn; try tauto. intros (_ & _ & <-). reflexivity.
Qed.

Lemma rel_length d b : dbuf_rel d b -> length b = N.to_nat (db_len d).
Proof.
  intros (Hl & Hn & <-). unfold rn_dbuf_abs. apply firstn_length_le. lia.
Qed.

Lemma default_rel : dbuf_rel rn_dbuf_default rn_buf_new.
Proof.
  unfold dbuf_rel, rn_dbuf_default, rn_dbuf_abs, rn_buf_new, cap. cbn [db_buffer db_len].
  rewrite repeat_length. repeat split; try lia; reflexivity.
Qed.

Lemma aset_nat_none {A} : forall (l : list A) i v, (length l <= i)%nat -> aset_nat l i v = None.
Proof.
  induction l as [|h t IH]; intros i v H; [reflexivity|].
  destruct i as [|j]; cbn [length] in H; [lia|]. cbn [aset_nat]. rewrite IH by lia. reflexivity.
Qed.

Lemma buf_write_str_full p : forall b, (cap < length b + length p)%nat -> (length b <= cap)%nat ->
  rn_buf_write_str b p = None.
Proof.
  induction p as [|x t IH]; intros b H Hb; cbn [length] in H; [lia|]. cbn [rn_buf_write_str].
  destruct (PeanoNat.Nat.eq_dec (length b) cap) as [E|E].
  - rewrite buf_put_full by lia. reflexivity.
  - rewrite buf_put_ok by lia. apply IH; rewrite app_length; cbn [length]; lia.
Qed.

(* ---- one store: self.buffer[self.len] = x; self.len += 1 ---------------------------- *)

Lemma put_sim d b x : dbuf_rel d b ->
  match aset (db_buffer d) (db_len d) x, rn_buf_put b x with
  | Some arr, Some b' => dbuf_rel (mkRnDbuf arr (db_len d + 1)) b'
  | None, None => True
  | _, _ => False
  end.
Proof.
  intros H. pose proof (rel_length d b H) as Hlen. destruct H as (Hl & Hn & Ha). unfold aset.
  destruct (PeanoNat.Nat.eq_dec (N.to_nat (db_len d)) cap) as [E|E].
  - rewrite aset_nat_none by lia. rewrite buf_put_full by lia. exact I.
  - destruct (aset_nat_some (db_buffer d) (N.to_nat (db_len d)) x) as [arr Harr]; [lia|].
    rewrite Harr, buf_put_ok by lia.
    unfold dbuf_rel, rn_dbuf_abs. cbn [db_buffer db_len].
    rewrite (aset_nat_length _ _ _ _ Harr). repeat split; [lia | lia |].
    replace (N.to_nat (db_len d + 1)) with (S (N.to_nat (db_len d))) by lia.
    rewrite (aset_nat_firstn_S _ _ _ _ Harr). unfold rn_dbuf_abs in Ha. rewrite Ha. reflexivity.
Qed.

(* ---- DisplayBuffer::write_code -------------------------------------------------------- *)

Lemma cadd_digit c : c < 10 -> cadd 8 48 c = Some (48 + c).
Proof.
  intros H. unfold cadd. replace (48 + c <? 2 ^ 8) with true; [reflexivity|].
  symmetry. apply N.ltb_lt. change (2 ^ 8) with 256. lia.
Qed.

Ltac put_step :=
  match goal with
  | H : dbuf_rel (mkRnDbuf ?buf ?l) ?b |- context [aset ?buf ?l ?x] =>
      let P := fresh "P" in
      pose proof (put_sim _ b x H) as P; cbn [db_buffer db_len] in P;
      destruct (aset buf l x) as [?arr|], (rn_buf_put b x) as [?b'|];
      try contradiction; try exact I; cbv iota beta; rewrite ?orb_true_r; cbv iota; cbn [orel db_buffer db_len]
  end.

Lemma gr_write_code_sim d b code : dbuf_rel d b -> orel (gr_write_code d code) (rn_write_code b code).
Proof.
  intros H. destruct d as [buf l]. unfold gr_write_code, rn_write_code, set_db_len, set_db_buffer.
  cbn [db_buffer db_len].
  change (100 =? 0) with false. change (10 =? 0) with false. cbv iota zeta.
  rewrite !cadd_digit by (apply N.mod_lt; lia).
  rewrite ?orb_true_r.
  destruct ((code / 100) mod 10 =? 0); cbn [negb]; cbv iota beta; rewrite ?orb_true_r; cbv iota; cbn [db_buffer db_len].
  - put_step. put_step. exact P0.
  - put_step. put_step. put_step. exact P1.
Qed.

(* ---- DisplayBuffer::write_str --------------------------------------------------------- *)

(* the body of the `for` loop as the translator emits it *)
Definition write_str_body : N * N -> rn_dbuf -> option (bctl rn_dbuf) :=
  fun x d2 =>
    let '(i1, b1) := x in
    arr <- aset (db_buffer d2) ((db_len d2) + i1) b1 ;;
    let d3 := (set_db_buffer d2 arr) in
    Some (BNext d3).

Lemma write_str_loop part : forall i0 d,
  length (db_buffer d) = cap -> (N.to_nat (db_len d + i0) <= cap)%nat ->
  ((N.to_nat (db_len d + i0) + length part <= cap)%nat ->
     exists buf', for_list0 write_str_body (combine (range_from i0 (length part)) part) d = Some (mkRnDbuf buf' (db_len d)) /\
                  length buf' = cap /\
                  firstn (N.to_nat (db_len d + i0) + length part) buf' = firstn (N.to_nat (db_len d + i0)) (db_buffer d) ++ part) /\
  ((cap < N.to_nat (db_len d + i0) + length part)%nat ->
     for_list0 write_str_body (combine (range_from i0 (length part)) part) d = None).
Proof.
  induction part as [|x t IH]; intros i0 d Hl Hn; cbn [length range_from combine for_list0].
  - split; [|lia]. intros _. exists (db_buffer d). destruct d as [buf l]. cbn [db_buffer db_len] in *.
    rewrite Nat.add_0_r, app_nil_r. auto.
  - unfold write_str_body at 1 3. unfold aset.
    destruct (PeanoNat.Nat.eq_dec (N.to_nat (db_len d + i0)) cap) as [E|E].
    + rewrite aset_nat_none by lia. split; [lia | reflexivity].
    + destruct (aset_nat_some (db_buffer d) (N.to_nat (db_len d + i0)) x) as [arr Harr]; [lia|].
      rewrite Harr. cbv zeta.
      pose proof (aset_nat_length _ _ _ _ Harr) as Hla.
      destruct (IH (i0 + 1) (set_db_buffer d arr)) as [IHa IHb].
      { cbn [set_db_buffer db_buffer]. lia. }
      { cbn [set_db_buffer db_len]. lia. }
      cbn [set_db_buffer db_buffer db_len] in IHa, IHb.
      replace (N.to_nat (db_len d + (i0 + 1))) with (S (N.to_nat (db_len d + i0))) in IHa, IHb by lia.
      split.
      * intros Hfit. destruct IHa as (buf' & E1 & E2 & E3); [lia|].
        exists buf'. split; [exact E1|]. split; [exact E2|].
        replace (N.to_nat (db_len d + i0) + S (length t))%nat with (S (N.to_nat (db_len d + i0)) + length t)%nat by lia.
        rewrite E3, (aset_nat_firstn_S _ _ _ _ Harr), <- app_assoc. reflexivity.
      * intros Hno. apply IHb. lia.
Qed.

Lemma gr_write_str_sim d b part : dbuf_rel d b -> orel (gr_write_str d part) (rn_buf_write_str b part).
Proof.
  intros H. pose proof (rel_length d b H) as Hlen. destruct H as (Hl & Hn & Ha).
  unfold gr_write_str, rn_enumerate.
  change (for_list0 _ ?l ?s) with (for_list0 write_str_body l s).
  destruct (write_str_loop part 0 d Hl ltac:(lia)) as [Hfit Hno].
  rewrite N.add_0_r in Hfit, Hno.
  destruct (le_lt_dec (N.to_nat (db_len d) + length part) cap) as [Hc|Hc].
  - destruct (Hfit Hc) as (buf' & E1 & E2 & E3). rewrite E1. cbv zeta.
    rewrite buf_write_str_ok by lia. cbn [orel].
    unfold dbuf_rel, rn_dbuf_abs, set_db_len, len. cbn [db_buffer db_len].
    repeat split; [exact E2 | lia |].
    replace (N.to_nat (db_len d + N.of_nat (length part))) with (N.to_nat (db_len d) + length part)%nat by lia.
    rewrite E3. unfold rn_dbuf_abs in Ha. rewrite Ha. reflexivity.
  - rewrite (Hno Hc). rewrite buf_write_str_full by lia. exact I.
Qed.

(* DisplayBuffer::as_str: the related byte list itself *)
Lemma gr_as_str_eq d b : dbuf_rel d b -> gr_as_str d = Some b.
Proof.
  intros (Hl & Hn & Ha). unfold gr_as_str, slice, rn_from_utf8_unchecked.
  replace ((0 <=? db_len d) && (db_len d <=? N.of_nat (length (db_buffer d)))) with true.
  - cbn [skipn N.to_nat]. rewrite N.sub_0_r. unfold rn_dbuf_abs in Ha. rewrite Ha. reflexivity.
  - symmetry. apply andb_true_iff. split; apply N.leb_le; lia.
Qed.

(* ---- the builder chains ----------------------------------------------------------------- *)

Ltac sim_step :=
  match goal with
  | H : dbuf_rel ?d ?b |- context [gr_write_str ?d ?s] =>
      let P := fresh "P" in
      pose proof (gr_write_str_sim d b s H) as P;
      destruct (gr_write_str d s) as [?dd|], (rn_buf_write_str b s) as [?bb|];
      cbn [orel] in P; try contradiction; try exact I
  | H : dbuf_rel ?d ?b |- context [gr_write_code ?d ?n] =>
      let P := fresh "P" in
      pose proof (gr_write_code_sim d b n H) as P;
      destruct (gr_write_code d n) as [?dd|], (rn_write_code b n) as [?bb|];
      cbn [orel] in P; try contradiction; try exact I
  end.
Ltac sim_chain := pose proof default_rel; repeat sim_step; try assumption.

Lemma gr_rgb_acc r g b : gr_rgb_r (r, g, b) = r /\ gr_rgb_g (r, g, b) = g /\ gr_rgb_b (r, g, b) = b.
Proof. repeat split. Qed.

Lemma gr_a256_index_eq i : gr_a256_index i = i.
Proof. reflexivity. Qed.

Lemma gr_from_ansi_eq a : gr_from_ansi a = Some (ansi256_from a).
Proof. destruct a; reflexivity. Qed.

(* impl From<AnsiColor> for Ansi256Color *)
Lemma gr_a256_from_eq a : gr_a256_from a = Some (ansi256_from a).
Proof. unfold gr_a256_from. rewrite gr_from_ansi_eq. reflexivity. Qed.

Lemma gr_ansi_fg_str_eq a : gr_ansi_fg_str a = Some (ansi_fg_str a).
Proof. destruct a; reflexivity. Qed.

Lemma gr_ansi_bg_str_eq a : gr_ansi_bg_str a = Some (ansi_bg_str a).
Proof. destruct a; reflexivity. Qed.

(* Ansi256Color *)
Lemma gr_a256_fg_sim n : orel (gr_a256_fg_buffer n) (rn_ansi256_fg_buffer n).
Proof.
  unfold gr_a256_fg_buffer, rn_ansi256_fg_buffer, rn_ansi256_fg_parts. cbn [rn_run_parts nth_error].
  rewrite gr_a256_index_eq. sim_chain.
Qed.
Lemma gr_a256_bg_sim n : orel (gr_a256_bg_buffer n) (rn_ansi256_bg_buffer n).
Proof.
  unfold gr_a256_bg_buffer, rn_ansi256_bg_buffer, rn_ansi256_bg_parts. cbn [rn_run_parts nth_error].
  rewrite gr_a256_index_eq. sim_chain.
Qed.
Lemma gr_a256_ul_sim n : orel (gr_a256_underline_buffer n) (rn_ansi256_ul_buffer n).
Proof.
  unfold gr_a256_underline_buffer, rn_ansi256_ul_buffer, rn_ansi256_ul_parts. cbn [rn_run_parts nth_error].
  rewrite gr_a256_index_eq. sim_chain.
Qed.

(* RgbColor *)
Lemma gr_rgb_fg_sim r g b : orel (gr_rgb_fg_buffer (r, g, b)) (rn_rgb_fg_buffer r g b).
Proof.
  unfold gr_rgb_fg_buffer, rn_rgb_fg_buffer, rn_rgb_fg_parts. cbn [rn_run_parts nth_error].
  destruct (gr_rgb_acc r g b) as (-> & -> & ->). sim_chain.
Qed.
Lemma gr_rgb_bg_sim r g b : orel (gr_rgb_bg_buffer (r, g, b)) (rn_rgb_bg_buffer r g b).
Proof.
  unfold gr_rgb_bg_buffer, rn_rgb_bg_buffer, rn_rgb_bg_parts. cbn [rn_run_parts nth_error].
  destruct (gr_rgb_acc r g b) as (-> & -> & ->). sim_chain.
Qed.
Lemma gr_rgb_ul_sim r g b : orel (gr_rgb_underline_buffer (r, g, b)) (rn_rgb_ul_buffer r g b).
Proof.
  unfold gr_rgb_underline_buffer, rn_rgb_ul_buffer, rn_rgb_ul_parts. cbn [rn_run_parts nth_error].
  destruct (gr_rgb_acc r g b) as (-> & -> & ->). sim_chain.
Qed.

(* AnsiColor *)
Lemma gr_ansi_fg_sim a : orel (gr_ansi_fg_buffer a) (rn_ansi_fg_buffer a).
Proof. unfold gr_ansi_fg_buffer, rn_ansi_fg_buffer. rewrite gr_ansi_fg_str_eq. sim_chain. Qed.
Lemma gr_ansi_bg_sim a : orel (gr_ansi_bg_buffer a) (rn_ansi_bg_buffer a).
Proof. unfold gr_ansi_bg_buffer, rn_ansi_bg_buffer. rewrite gr_ansi_bg_str_eq. sim_chain. Qed.
Lemma gr_ansi_ul_sim a : orel (gr_ansi_underline_buffer a) (rn_ansi_ul_buffer a).
Proof.
  unfold gr_ansi_underline_buffer, rn_ansi_ul_buffer. rewrite gr_a256_from_eq.
  pose proof (gr_a256_ul_sim (ansi256_from a)) as P.
  destruct (gr_a256_underline_buffer (ansi256_from a)), (rn_ansi256_ul_buffer (ansi256_from a)); exact P.
Qed.

(* ---- the entry points ------------------------------------------------------------------
   Color::render_fg / render_bg / render_underline (translated: the DisplayBuffer they return as
   `impl Display`), on the Rust enum with its payloads ([rn_color_view_of]); what Display then
   shows is DisplayBuffer::as_str. *)
Definition gr_color_fg_buffer (c : color) : option rn_dbuf := gr_color_render_fg (rn_color_view_of c).
Definition gr_color_bg_buffer (c : color) : option rn_dbuf := gr_color_render_bg (rn_color_view_of c).
Definition gr_color_ul_buffer (c : color) : option rn_dbuf := gr_color_render_underline (rn_color_view_of c).

Lemma bind_some_id {A} (x : option A) : (v <- (r <- x ;; Some r) ;; Some v) = x.
Proof. destruct x; reflexivity. Qed.

Lemma bind_some_id' {A} (x : option A) : (r <- x ;; Some r) = x.
Proof. destruct x; reflexivity. Qed.

(* the bytes a translated buffer shows: as_str of the result *)
Definition gr_shown (x : option rn_dbuf) : option (list N) := d <- x ;; gr_as_str d.

Lemma shown_of_sim x y : orel x y -> gr_shown x = y.
Proof.
  destruct x as [d|], y as [b|]; cbn [orel gr_shown]; try tauto. intros H. exact (gr_as_str_eq d b H).
Qed.

Theorem translated_buffers_are_model (c : color) :
  gr_shown (gr_color_fg_buffer c) = rn_color_fg_buffer c /\
  gr_shown (gr_color_bg_buffer c) = rn_color_bg_buffer c /\
  gr_shown (gr_color_ul_buffer c) = rn_color_ul_buffer c.
Proof.
  unfold gr_color_fg_buffer, gr_color_bg_buffer, gr_color_ul_buffer,
    gr_color_render_fg, gr_color_render_bg, gr_color_render_underline.
  destruct c as [a | n | r g b]; cbn [rn_color_view_of rn_color_fg_buffer rn_color_bg_buffer rn_color_ul_buffer];
    rewrite !bind_some_id; repeat split; apply shown_of_sim.
  - apply gr_ansi_fg_sim.
  - apply gr_ansi_bg_sim.
  - apply gr_ansi_ul_sim.
  - apply gr_a256_fg_sim.
  - apply gr_a256_bg_sim.
  - apply gr_a256_ul_sim.
  - apply gr_rgb_fg_sim.
  - apply gr_rgb_bg_sim.
  - apply gr_rgb_ul_sim.
Qed.

(* statements in the form quoted by Props/C05.v *)
Lemma translated_write_str (d : rn_dbuf) (b : rn_buf) (part : list N) :
  dbuf_rel d b -> orel (gr_write_str d part) (rn_buf_write_str b part).
Proof. apply gr_write_str_sim. Qed.

Lemma translated_write_code (d : rn_dbuf) (b : rn_buf) (code : N) :
  dbuf_rel d b -> orel (gr_write_code d code) (rn_write_code b code).
Proof. apply gr_write_code_sim. Qed.

(* ==== sinks: `&mut dyn io::Write` and the `dyn fmt::Write` inside a Formatter ========================
   Both are scripted: a write may fail.  The hand model keeps the list of fragments handed to the sink
   ([rn_writer], Model/Render.v: the buffers of Style::write_to) and has no failing sink.  Generic in the sink
   [W], its "write one fragment" [wa] and the predicate "never fails" [acc]:
   [wr_bufs w bufs]: the fragments written one after the other, the first error stops. *)
Section Sink.
Context {W E : Type} (wa : W -> list N -> W * (unit + E)) (acc : W -> Prop).
Hypothesis acc_ok : forall w b, acc w -> exists w1, wa w b = (w1, inl tt) /\ acc w1.

Definition sres : Type := (W * (unit + E))%type.

Definition wr_step (st : sres) (b : list N) : sres :=
  match snd st with inl _ => wa (fst st) b | inr _ => st end.
Definition wr_from (st : sres) (bufs : list (list N)) : sres := fold_left wr_step bufs st.
Definition wr_bufs (w : W) (bufs : list (list N)) : sres := wr_from (w, inl tt) bufs.

Lemma wr_from_err w e bufs : wr_from (w, inr e) bufs = (w, inr e).
Proof. induction bufs as [|b t IH]; [reflexivity|]. exact IH. Qed.

Lemma wr_from_app st a b : wr_from st (a ++ b) = wr_from (wr_from st a) b.
Proof. apply fold_left_app. Qed.

Lemma wr_bufs_cons w b t : wr_bufs w (b :: t) = wr_from (wa w b) t.
Proof. reflexivity. Qed.

(* a sink that never fails takes every fragment and stays that way *)
Lemma wr_bufs_acc bufs : forall w, acc w -> exists o, wr_bufs w bufs = (o, inl tt) /\ acc o.
Proof.
  induction bufs as [|b t IH]; intros w Ha.
  - exists w. auto.
  - destruct (acc_ok w b Ha) as (w1 & E1 & Ha1). destruct (IH w1 Ha1) as (o & Eo & Hao). exists o.
    rewrite wr_bufs_cons, E1. auto.
Qed.

(* a translated writing function [G] against a hand-model function [H] on the list of fragments: when the hand
   model answers, [G] writes exactly the fragments the hand model appends, on ANY sink (errors included:
   the first one is returned, nothing more is written); when the hand model panics, [G] panics on a sink
   that never fails (on a failing sink it may return the error before it reaches the panic) *)
Definition wsim (G : W -> option sres) (H : rn_writer -> option rn_writer) : Prop :=
  forall w bufs0,
    match H bufs0 with
    | Some bufs1 => exists ext, bufs1 = bufs0 ++ ext /\ G w = Some (wr_bufs w ext)
    | None => acc w -> G w = None
    end.

(* `a?; b` *)
Definition seqw (G1 G2 : W -> option sres) (w : W) : option sres :=
  match G1 w with
  | Some (o, inl _) => G2 o
  | Some (o, inr e) => Some (o, inr e)
  | None => None
  end.
Definition retw (w : W) : option sres := Some (w, inl tt).
(* `if let Some(c) = slot { G(c)?; }` *)
Definition oslot (G : rn_color_view -> W -> option sres) (o : option rn_color_view) (w : W) : option sres :=
  match o with Some c => G c w | None => Some (w, inl tt) end.

Lemma wsim_ret : wsim retw (fun b => Some b).
Proof. intros w b0. exists []. rewrite app_nil_r. auto. Qed.

Lemma wsim_seq G1 G2 H1 H2 : wsim G1 H1 -> wsim G2 H2 -> wsim (seqw G1 G2) (fun b => b1 <- H1 b ;; H2 b1).
Proof.
  intros S1 S2 w b0. pose proof (S1 w b0) as P1. unfold seqw. destruct (H1 b0) as [b1|].
  - destruct P1 as (ext1 & -> & E1). rewrite E1.
    destruct (wr_bufs w ext1) as [o [u|e]] eqn:R.
    + pose proof (S2 o (b0 ++ ext1)) as P2. destruct (H2 (b0 ++ ext1)) as [b2|].
      * destruct P2 as (ext2 & -> & E2). exists (ext1 ++ ext2). split; [symmetry; apply app_assoc|].
        rewrite E2. unfold wr_bufs in *. rewrite wr_from_app, R. destruct u. reflexivity.
      * intros Hs. apply P2. destruct (wr_bufs_acc ext1 w Hs) as (o' & E' & Hso).
        rewrite R in E'. injection E' as -> _. exact Hso.
    + pose proof (S2 o (b0 ++ ext1)) as P2. destruct (H2 (b0 ++ ext1)) as [b2|].
      * destruct P2 as (ext2 & -> & _). exists (ext1 ++ ext2). split; [symmetry; apply app_assoc|].
        unfold wr_bufs in *. rewrite wr_from_app, R, wr_from_err. reflexivity.
      * intros Hs. destruct (wr_bufs_acc ext1 w Hs) as (o' & E' & _). rewrite R in E'. discriminate E'.
  - intros Hs. rewrite (P1 Hs). reflexivity.
Qed.

Lemma wsim_ext G G' H : (forall w, G' w = G w) -> wsim G H -> wsim G' H.
Proof. intros Eq S w b0. rewrite Eq. apply S. Qed.

Lemma wsim_oslot G buffer o :
  (forall c, wsim (G (rn_color_view_of c)) (rn_buffer_write_to (buffer c))) ->
  wsim (oslot G (option_map rn_color_view_of o)) (rn_write_ocolor buffer o).
Proof.
  intros S. destruct o as [c|]; cbn [option_map oslot rn_write_ocolor]; [apply S | apply wsim_ret].
Qed.

(* one fragment, built by a computation that may panic *)
Lemma wsim_one (x : option (list N)) :
  wsim (fun w => b <- x ;; Some (wa w b)) (rn_buffer_write_to x).
Proof.
  intros w b0. unfold rn_buffer_write_to. destruct x as [b|]; [|reflexivity].
  exists [b]. split; reflexivity.
Qed.

(* the loop of Effects::write_to / EffectsDisplay::fmt: one fragment per index, `?` leaves the loop.  [step] is
   the translated loop body; what is asked of it is what one iteration means *)
Definition wfin (lr : W + sres) : sres := match lr with inl st => (st, inl tt) | inr p => p end.

Lemma wsim_effects_loop (step : N -> W -> option (lctl W sres)) :
  (forall i w, step i w =
     match aget metadata i with
     | Some md => match wa w (snd md) with
                  | (o, inl _) => Some (LNext o)
                  | (o, inr err) => Some (LRet (o, inr err))
                  end
     | None => None
     end) ->
  forall l w b0,
    match rn_write_effects_loop l b0 with
    | Some b1 => exists ext, b1 = b0 ++ ext /\ option_map wfin (for_list step l w) = Some (wr_bufs w ext)
    | None => acc w -> for_list step l w = None
    end.
Proof.
  intros Hstep. induction l as [|i t IH]; intros w b0; cbn [for_list rn_write_effects_loop].
  - exists []. rewrite app_nil_r. auto.
  - rewrite Hstep. destruct (aget metadata i) as [md|]; [|reflexivity].
    destruct (wa w (snd md)) as [w1 [u|k]] eqn:R; cbv beta iota zeta.
    + pose proof (IH w1 (b0 ++ [snd md])) as P. destruct (rn_write_effects_loop t (b0 ++ [snd md])) as [b1|].
      * destruct P as (ext & -> & E1). exists (snd md :: ext). split; [rewrite <- app_assoc; reflexivity|].
        rewrite E1, wr_bufs_cons, R. destruct u. reflexivity.
      * intros Hs. apply P. destruct (acc_ok w (snd md) Hs) as (w' & E1 & Hs').
        rewrite R in E1. injection E1 as -> _. exact Hs'.
    + pose proof (IH w1 (b0 ++ [snd md])) as P. destruct (rn_write_effects_loop t (b0 ++ [snd md])) as [b1|].
      * destruct P as (ext & -> & _). exists (snd md :: ext). split; [rewrite <- app_assoc; reflexivity|].
        rewrite wr_bufs_cons, R, wr_from_err. reflexivity.
      * intros Hs. destruct (acc_ok w (snd md) Hs) as (w' & E1 & _). rewrite R in E1. discriminate E1.
Qed.

(* the loop together with the iterator it runs over and the match after it *)
Lemma wsim_effects_for (step : N -> W -> option (lctl W sres)) e (G : W -> option sres) :
  (forall i w, step i w =
     match aget metadata i with
     | Some md => match wa w (snd md) with
                  | (o, inl _) => Some (LNext o)
                  | (o, inr err) => Some (LRet (o, inr err))
                  end
     | None => None
     end) ->
  (forall w, G w = (l <- e_index_iter e ;; option_map wfin (for_list step l w))) ->
  wsim G (rn_write_effects e).
Proof.
  intros Hstep HG w b0. rewrite HG. unfold rn_write_effects. destruct (e_index_iter e) as [l|]; [|reflexivity].
  pose proof (wsim_effects_loop step Hstep l w b0) as P. destruct (rn_write_effects_loop l b0) as [b1|].
  - exact P.
  - intros Hs. rewrite (P Hs). reflexivity.
Qed.

(* the whole Style: effects, fg, bg, underline (Generated/Render.v rn_write_order) *)
Lemma wsim_style s Ge Gf Gb Gu :
  wsim Ge (rn_write_effects (st_eff s)) ->
  (forall c, wsim (Gf (rn_color_view_of c)) (rn_buffer_write_to (rn_color_fg_buffer c))) ->
  (forall c, wsim (Gb (rn_color_view_of c)) (rn_buffer_write_to (rn_color_bg_buffer c))) ->
  (forall c, wsim (Gu (rn_color_view_of c)) (rn_buffer_write_to (rn_color_ul_buffer c))) ->
  wsim (seqw Ge (seqw (oslot Gf (rn_st_fg s)) (seqw (oslot Gb (rn_st_bg s)) (seqw (oslot Gu (rn_st_ul s)) retw))))
       (rn_write_slots s rn_write_order).
Proof.
  intros Se Sf Sb Su. unfold rn_write_order, rn_st_fg, rn_st_bg, rn_st_ul.
  refine (wsim_seq _ _ (rn_write_slot s RnEffects) (rn_write_slots s [RnFg; RnBg; RnUl]) Se _).
  refine (wsim_seq _ _ (rn_write_slot s RnFg) (rn_write_slots s [RnBg; RnUl]) (wsim_oslot _ _ _ Sf) _).
  refine (wsim_seq _ _ (rn_write_slot s RnBg) (rn_write_slots s [RnUl]) (wsim_oslot _ _ _ Sb) _).
  refine (wsim_seq _ _ (rn_write_slot s RnUl) (rn_write_slots s []) (wsim_oslot _ _ _ Su) wsim_ret).
Qed.

(* what [wsim] says at the start (no fragment written yet) *)
Lemma wsim_some G s bufs w :
  wsim G (rn_write_slots s rn_write_order) -> rn_write_to s = Some bufs -> G w = Some (wr_bufs w bufs).
Proof.
  intros S E1. pose proof (S w []) as P. unfold rn_write_to in E1. rewrite E1 in P.
  destruct P as (ext & -> & P). exact P.
Qed.
Lemma wsim_acc G s w :
  wsim G (rn_write_slots s rn_write_order) -> acc w -> G w = option_map (wr_bufs w) (rn_write_to s).
Proof.
  intros S Hs. pose proof (S w []) as P. unfold rn_write_to.
  destruct (rn_write_slots s rn_write_order []) as [b1|]; cbn [option_map].
  - destruct P as (ext & -> & P). exact P.
  - exact (P Hs).
Qed.
End Sink.

(* ==== the core::fmt side: Display impls, Style::fmt_to, render / render_reset ===================
   A Formatter is [rn_fmtr] (Model/Render.v): the hand model's [rn_fmt] (text written so far, alternate flag,
   width / fill / align / precision) over a scripted sink; a translated `fmt` answers the new formatter and
   the fmt::Result.  The hand model has no Result (its sink never fails): [ok_fmt] is "the hand model's
   formatter over the sink that never fails, and Ok(())". *)

Definition ok_fmt (x : option rn_fmt) : option (rn_fmtr * (unit + unit)) :=
  option_map (fun f => (mkRnFmtr f [], inl tt)) x.

(* impl Display for DisplayBuffer, on the buffer a translated builder returned *)
Lemma gr_dbuf_fmt_shown x f : (d <- x ;; gr_dbuf_fmt d (mkRnFmtr f [])) = ok_fmt (rn_fmt_buffer (gr_shown x) f).
Proof.
  destruct x as [d|]; [|reflexivity]. unfold gr_dbuf_fmt, gr_shown, rn_fmt_buffer.
  destruct (gr_as_str d); reflexivity.
Qed.

(* impl Display for NullFormatter *)
Lemma gr_null_fmt_eq s f : Some (gr_null_fmt s (mkRnFmtr f [])) = ok_fmt (rn_fmt_null s f).
Proof. reflexivity. Qed.

(* impl Display for Reset, Reset::render *)
Lemma gr_reset_fmt_eq f : Some (gr_reset_fmt (gr_reset_render tt) (mkRnFmtr f [])) = ok_fmt (rn_fmt_null rn_reset_str f).
Proof. reflexivity. Qed.

(* Color::render_fg / render_bg / render_underline shown through Display *)
Lemma gr_color_fmt_fg c f :
  (d <- gr_color_render_fg (rn_color_view_of c) ;; gr_dbuf_fmt d (mkRnFmtr f [])) = ok_fmt (rn_fmt_buffer (rn_color_fg_buffer c) f).
Proof. rewrite gr_dbuf_fmt_shown. destruct (translated_buffers_are_model c) as (<- & _ & _). reflexivity. Qed.
Lemma gr_color_fmt_bg c f :
  (d <- gr_color_render_bg (rn_color_view_of c) ;; gr_dbuf_fmt d (mkRnFmtr f [])) = ok_fmt (rn_fmt_buffer (rn_color_bg_buffer c) f).
Proof. rewrite gr_dbuf_fmt_shown. destruct (translated_buffers_are_model c) as (_ & <- & _). reflexivity. Qed.
Lemma gr_color_fmt_ul c f :
  (d <- gr_color_render_underline (rn_color_view_of c) ;; gr_dbuf_fmt d (mkRnFmtr f [])) = ok_fmt (rn_fmt_buffer (rn_color_ul_buffer c) f).
Proof. rewrite gr_dbuf_fmt_shown. destruct (translated_buffers_are_model c) as (_ & _ & <-). reflexivity. Qed.

(* impl Display for EffectsDisplay: the `for` over the translated index iterator (Generated/StyleFn.v,
   drained: Proofs/StyleGen.v g_eff_index_iter_eq), one write_str per set effect *)
Lemma gr_effects_fmt_eq e f : gr_effects_fmt e (mkRnFmtr f []) = ok_fmt (rn_fmt_effects e f).
Proof.
  unfold gr_effects_fmt, rn_fmt_effects, effd_f0.
  change (iter_drain g_eff_index_iter_next (S (length metadata)) (g_eff_index_iter e)) with (g_eff_index_iter_items e).
  rewrite g_eff_index_iter_eq. destruct (e_index_iter e) as [l|]; [|reflexivity].
  match goal with |- context [for_list ?F l _] => set (step := F) end.
  assert (L : forall l f, for_list step l (mkRnFmtr f []) =
      option_map (fun f' => inl (mkRnFmtr f' [])) (rn_fmt_effects_loop l f) :> option (rn_fmtr + rn_fmtr * (unit + unit))).
  { clear. induction l as [|i t IH]; intros f; [reflexivity|]. cbn [for_list rn_fmt_effects_loop].
    unfold step at 1. destruct (aget metadata i) as [md|]; [|reflexivity].
    unfold rn_fw_write_str, md_escape. cbn [fr_script fr_fmt]. cbv beta iota zeta. apply IH. }
  rewrite L. destruct (rn_fmt_effects_loop l f); reflexivity.
Qed.

(* one colour slot of Style::fmt_to: `if let Some(c) = self.slot { c.render_x().fmt(f)?; }`.  The slot the
   hand model renders NEXT (the outermost [rn_fmt_buffer]: the inner ones are applied to bound variables) must
   be the one the translated code renders next *)
Ltac fmt_slot_with lem c f render buffer :=
  let H := fresh "H" in
  pose proof (lem c f) as H;
  destruct (render (rn_color_view_of c)); [rewrite H|];
  destruct (rn_fmt_buffer (buffer c) f); try discriminate H; try reflexivity; clear H;
  cbn [ok_fmt option_map]; cbv beta iota zeta.
Ltac fmt_slot :=
  match goal with
  | |- context [rn_fmt_buffer (rn_color_fg_buffer ?c) ?f] => fmt_slot_with gr_color_fmt_fg c f gr_color_render_fg rn_color_fg_buffer
  | |- context [rn_fmt_buffer (rn_color_bg_buffer ?c) ?f] => fmt_slot_with gr_color_fmt_bg c f gr_color_render_bg rn_color_bg_buffer
  | |- context [rn_fmt_buffer (rn_color_ul_buffer ?c) ?f] => fmt_slot_with gr_color_fmt_ul c f gr_color_render_underline rn_color_ul_buffer
  end.

Lemma gr_style_fmt_to_eq s f : gr_style_fmt_to s (mkRnFmtr f []) = ok_fmt (rn_style_fmt_to s f).
Proof.
  unfold gr_style_fmt_to, rn_style_fmt_to, rn_fmt_order. cbn [rn_fmt_slots rn_fmt_slot].
  rewrite g_eff_render_eq, gr_effects_fmt_eq.
  destruct (rn_fmt_effects (st_eff s) f) as [f1|]; [|reflexivity]. cbn [ok_fmt option_map]. cbv beta iota zeta.
  unfold rn_st_fg, rn_st_bg, rn_st_ul, rn_fmt_ocolor.
  destruct (st_fg s) as [c1|], (st_bg s) as [c2|], (st_ul s) as [c3|]; cbn [option_map]; repeat fmt_slot; reflexivity.
Qed.

(* "nothing to reset": `self != Self::new()` / `self == Self::new()` (derived PartialEq: [style_eqb]), `self.is_plain()`
   (the translation of Generated/StyleFn.v) or its body written out over the field views all test the same thing;
   [plain_test] brings whichever the source uses to [style_eqb s st_new] *)
Lemma st_is_plain_eqb s : st_is_plain s = style_eqb s st_new.
Proof.
  destruct (style_eqb s st_new) eqn:E.
  - apply style_eqb_eq in E. apply st_is_plain_iff. exact E.
  - destruct (st_is_plain s) eqn:P; [|reflexivity]. apply st_is_plain_iff in P. subst s.
    rewrite (proj2 (style_eqb_eq st_new st_new) eq_refl) in E. discriminate.
Qed.

Lemma rn_plain_views s :
  opt_is_none (rn_st_fg s) && opt_is_none (rn_st_bg s) && opt_is_none (rn_st_ul s) && g_eff_is_plain (st_eff s) = style_eqb s st_new.
Proof. rewrite <- st_is_plain_eqb. destruct s as [[?|] [?|] [?|] x]; reflexivity. Qed.

Lemma style_eqb_new_sym s : style_eqb st_new s = style_eqb s st_new.
Proof.
  destruct (style_eqb s st_new) eqn:E.
  - apply style_eqb_eq in E. subst s. apply style_eqb_eq. reflexivity.
  - destruct (style_eqb st_new s) eqn:P; [|reflexivity]. apply style_eqb_eq in P. subst s.
    rewrite (proj2 (style_eqb_eq st_new st_new) eq_refl) in E. discriminate.
Qed.

Ltac plain_test :=
  cbv zeta;
  rewrite ?g_st_new_eq, ?g_st_is_plain_eq, ?st_is_plain_eqb, ?rn_plain_views, ?style_eqb_new_sym.

(* Style::render_reset: the NullFormatter's text *)
Lemma gr_style_render_reset_eq s : gr_style_render_reset s = rn_render_reset s.
Proof.
  unfold gr_style_render_reset, rn_render_reset, rn_nf_new. plain_test.
  destruct (style_eqb s st_new); reflexivity.     (* `!=` or `==` with the branches swapped *)
Qed.

(* impl Display for Style: `{:#}` is render_reset, anything else fmt_to *)
Lemma gr_style_fmt_eq s f : gr_style_fmt s (mkRnFmtr f []) = ok_fmt (rn_style_fmt s f).
Proof.
  unfold gr_style_fmt, rn_style_fmt, fr_alternate. cbn [fr_fmt]. rewrite gr_style_render_reset_eq, gr_style_fmt_to_eq.
  destruct (fm_alternate f); cbn [negb]; try destruct (rn_style_fmt_to s f); reflexivity.
Qed.

(* impl Display for StyleDisplay, on what Style::render returns *)
Lemma gr_style_display_fmt_eq s f : gr_style_display_fmt (gr_style_render s) (mkRnFmtr f []) = ok_fmt (rn_style_fmt_to s f).
Proof.
  unfold gr_style_display_fmt, gr_style_render, rn_sd_f0, rn_sd_new. rewrite gr_style_fmt_to_eq.
  destruct (rn_style_fmt_to s f); reflexivity.
Qed.

(* ---- format!("{:<flags>}", x): a fresh String (a sink that never fails), the Display impl, the text; an Err
   from a Display impl makes format! / to_string panic *)
Definition gr_format (alternate : bool) (flags : rn_flags) (fmt : rn_fmtr -> option (rn_fmtr * (unit + unit))) : option (list N) :=
  '(f, r) <- fmt (mkRnFmtr (mkRnFmt alternate flags []) []) ;;
  match r with inl _ => Some (fm_out (fr_fmt f)) | inr _ => None end.

Lemma gr_format_ok alternate flags fmt hand :
  (forall f, fmt (mkRnFmtr f []) = ok_fmt (hand f)) -> gr_format alternate flags fmt = rn_format alternate flags hand.
Proof.
  intros H. unfold gr_format, rn_format. rewrite H. destruct (hand _); reflexivity.
Qed.

(* format!("{..}", style) *)
Theorem translated_display_is_model alternate flags s :
  gr_format alternate flags (gr_style_fmt s) = rn_display alternate flags s.
Proof. apply gr_format_ok. intros f. apply gr_style_fmt_eq. Qed.

(* format!("{..}", style.render()) *)
Theorem translated_render_is_model alternate flags s :
  gr_format alternate flags (gr_style_display_fmt (gr_style_render s)) = rn_display_render alternate flags s.
Proof. apply gr_format_ok. intros f. apply gr_style_display_fmt_eq. Qed.

(* style.render().to_string() *)
Definition gr_render_style (s : style) : option (list N) :=
  gr_format false rn_no_flags (gr_style_display_fmt (gr_style_render s)).

Theorem translated_render_style_is_model s : gr_render_style s = rn_render_style s.
Proof. apply translated_render_is_model. Qed.

(* format!("{..}", style.render_reset()) *)
Theorem translated_render_reset_is_model alternate flags s :
  gr_format alternate flags (fun f => Some (gr_null_fmt (gr_style_render_reset s) f)) = rn_display_reset_of alternate flags s.
Proof. apply gr_format_ok. intros f. rewrite gr_style_render_reset_eq. apply gr_null_fmt_eq. Qed.

(* the other Display values: Effects::render, Color::render_fg / render_bg, AnsiColor::render_fg / render_bg
   (a NullFormatter over as_fg_str / as_bg_str), Reset / Reset.render() *)
Theorem translated_displays_are_model alternate flags :
  (forall e, gr_format alternate flags (gr_effects_fmt (g_eff_render e)) = rn_display_effects alternate flags e) /\
  (forall c, gr_format alternate flags (fun f => d <- gr_color_render_fg (rn_color_view_of c) ;; gr_dbuf_fmt d f)
             = rn_display_color_fg alternate flags c) /\
  (forall c, gr_format alternate flags (fun f => d <- gr_color_render_bg (rn_color_view_of c) ;; gr_dbuf_fmt d f)
             = rn_display_color_bg alternate flags c) /\
  (forall a, gr_format alternate flags (fun f => nf <- gr_ansi_render_fg a ;; Some (gr_null_fmt nf f))
             = rn_display_ansi_fg alternate flags a) /\
  (forall a, gr_format alternate flags (fun f => nf <- gr_ansi_render_bg a ;; Some (gr_null_fmt nf f))
             = rn_display_ansi_bg alternate flags a) /\
  gr_format alternate flags (fun f => Some (gr_reset_fmt (gr_reset_render tt) f)) = rn_display_reset alternate flags.
Proof.
  refine (conj _ (conj _ (conj _ (conj _ (conj _ _))))).
  - intros e. apply gr_format_ok. intros f. rewrite g_eff_render_eq. apply gr_effects_fmt_eq.
  - intros c. apply gr_format_ok. intros f. apply gr_color_fmt_fg.
  - intros c. apply gr_format_ok. intros f. apply gr_color_fmt_bg.
  - intros a. apply gr_format_ok. intros f. unfold gr_ansi_render_fg. rewrite gr_ansi_fg_str_eq. reflexivity.
  - intros a. apply gr_format_ok. intros f. unfold gr_ansi_render_bg. rewrite gr_ansi_bg_str_eq. reflexivity.
  - apply gr_format_ok. intros f. apply gr_reset_fmt_eq.
Qed.

(* Ansi256Color / RgbColor::render_fg / render_bg return the as_*_buffer value *)
Theorem translated_color_renders_are_buffers :
  (forall n, gr_shown (gr_a256_render_fg n) = rn_ansi256_fg_buffer n) /\
  (forall n, gr_shown (gr_a256_render_bg n) = rn_ansi256_bg_buffer n) /\
  (forall r g b, gr_shown (gr_rgb_render_fg (r, g, b)) = rn_rgb_fg_buffer r g b) /\
  (forall r g b, gr_shown (gr_rgb_render_bg (r, g, b)) = rn_rgb_bg_buffer r g b).
Proof.
  refine (conj _ (conj _ (conj _ _))); intros.
  - unfold gr_a256_render_fg. rewrite (bind_some_id' (gr_a256_fg_buffer n)). apply shown_of_sim, gr_a256_fg_sim.
  - unfold gr_a256_render_bg. rewrite (bind_some_id' (gr_a256_bg_buffer n)). apply shown_of_sim, gr_a256_bg_sim.
  - unfold gr_rgb_render_fg. rewrite (bind_some_id' (gr_rgb_fg_buffer (r, g, b))). apply shown_of_sim, gr_rgb_fg_sim.
  - unfold gr_rgb_render_bg. rewrite (bind_some_id' (gr_rgb_bg_buffer (r, g, b))). apply shown_of_sim, gr_rgb_bg_sim.
Qed.

(* ---- Style::fmt_to on ANY formatter: a sink that fails.  The fragments are the buffers of the hand model's
   write_to ([rn_write_to]; their concatenation is what render() shows: Proofs/Render.v paths_agree), each handed
   to Formatter::write_str; the first fmt::Error is returned and nothing more is written *)
Definition fr_never_fails (f : rn_fmtr) : Prop := fr_script f = [].

Lemma fr_acc_ok f b : fr_never_fails f -> exists f1, rn_fw_write_str f b = (f1, inl tt) /\ fr_never_fails f1.
Proof.
  unfold fr_never_fails, rn_fw_write_str. intros ->. eexists. split; reflexivity.
Qed.

Notation fsim := (wsim rn_fw_write_str fr_never_fails).
Notation fw_bufs := (wr_bufs rn_fw_write_str).

Lemma fsim_buffer x : fsim (fun f => d <- x ;; gr_dbuf_fmt d f) (rn_buffer_write_to (gr_shown x)).
Proof.
  eapply wsim_ext; [|apply (wsim_one rn_fw_write_str fr_never_fails (gr_shown x))].
  intros f. unfold gr_shown, gr_dbuf_fmt. destruct x as [d|]; [|reflexivity].
  destruct (gr_as_str d) as [b|]; [|reflexivity]. destruct (rn_fw_write_str f b). reflexivity.
Qed.

Lemma fsim_color_fg c : fsim (fun f => d <- gr_color_render_fg (rn_color_view_of c) ;; gr_dbuf_fmt d f)
                             (rn_buffer_write_to (rn_color_fg_buffer c)).
Proof. destruct (translated_buffers_are_model c) as (<- & _ & _). apply fsim_buffer. Qed.
Lemma fsim_color_bg c : fsim (fun f => d <- gr_color_render_bg (rn_color_view_of c) ;; gr_dbuf_fmt d f)
                             (rn_buffer_write_to (rn_color_bg_buffer c)).
Proof. destruct (translated_buffers_are_model c) as (_ & <- & _). apply fsim_buffer. Qed.
Lemma fsim_color_ul c : fsim (fun f => d <- gr_color_render_underline (rn_color_view_of c) ;; gr_dbuf_fmt d f)
                             (rn_buffer_write_to (rn_color_ul_buffer c)).
Proof. destruct (translated_buffers_are_model c) as (_ & _ & <-). apply fsim_buffer. Qed.

Lemma fsim_effects e : fsim (gr_effects_fmt e) (rn_write_effects e).
Proof.
  unfold gr_effects_fmt, effd_f0.
  change (iter_drain g_eff_index_iter_next (S (length metadata)) (g_eff_index_iter e)) with (g_eff_index_iter_items e).
  rewrite g_eff_index_iter_eq.
  match goal with |- context [for_list ?F _ _] => set (step := F) end.
  apply (wsim_effects_for rn_fw_write_str fr_never_fails fr_acc_ok step e).
  - intros i f. unfold step, md_escape. destruct (aget metadata i); reflexivity.
  - intros f. destruct (e_index_iter e) as [l|]; [|reflexivity]. unfold sres.
    destruct (for_list step l f) as [[st|[st rv]]|]; reflexivity.
Qed.

(* Style::fmt_to is the sequence effects, fg, bg, underline; every `?` returns the error *)
Lemma gr_style_fmt_to_shape s f :
  gr_style_fmt_to s f =
  seqw (gr_effects_fmt (g_eff_render (st_eff s)))
    (seqw (oslot (fun v f => d <- gr_color_render_fg v ;; gr_dbuf_fmt d f) (rn_st_fg s))
      (seqw (oslot (fun v f => d <- gr_color_render_bg v ;; gr_dbuf_fmt d f) (rn_st_bg s))
        (seqw (oslot (fun v f => d <- gr_color_render_underline v ;; gr_dbuf_fmt d f) (rn_st_ul s)) retw))) f.
Proof.
  unfold gr_style_fmt_to, seqw, oslot, retw.
  destruct (gr_effects_fmt (g_eff_render (st_eff s)) f) as [[f1 [[]|e]]|]; try reflexivity. cbv beta iota zeta.
  destruct (rn_st_fg s) as [c1|], (rn_st_bg s) as [c2|], (rn_st_ul s) as [c3|];
    repeat (cbv beta iota zeta;
            match goal with
            | |- context [gr_color_render_fg ?c] => destruct (gr_color_render_fg c) as [?d|]
            | |- context [gr_color_render_bg ?c] => destruct (gr_color_render_bg c) as [?d|]
            | |- context [gr_color_render_underline ?c] => destruct (gr_color_render_underline c) as [?d|]
            | |- context [gr_dbuf_fmt ?d ?x] => destruct (gr_dbuf_fmt d x) as [[? [[]|?]]|]
            end); reflexivity.
Qed.

Lemma gr_style_fmt_to_sim s : fsim (gr_style_fmt_to s) (rn_write_slots s rn_write_order).
Proof.
  eapply wsim_ext; [intros f; apply gr_style_fmt_to_shape|]. rewrite g_eff_render_eq.
  apply (wsim_style rn_fw_write_str fr_never_fails fr_acc_ok s).
  - apply fsim_effects.
  - apply fsim_color_fg.
  - apply fsim_color_bg.
  - apply fsim_color_ul.
Qed.

Theorem translated_fmt_to_any_sink s bufs f :
  rn_write_to s = Some bufs -> gr_style_fmt_to s f = Some (fw_bufs f bufs).
Proof. apply (wsim_some rn_fw_write_str fr_never_fails), gr_style_fmt_to_sim. Qed.

(* ==== the io::Write side: DisplayBuffer::write_to, Color::write_*_to, Effects::write_to, Style::write_to,
   Style::write_reset_to =============================================================================
   `write: &mut dyn io::Write` is the scripted writer of Spec/Io.v (it may accept short, fail, be
   interrupted); `write.write_all(buf)` is std's default method [w_write_all]. *)

Definition w_never_fails (w : writer) : Prop := w_script w = [].

Lemma w_acc_ok w b : w_never_fails w -> exists w1, w_write_all w b = (w1, inl tt) /\ w_never_fails w1.
Proof.
  intros Hs. destruct (w_write_all_accept_all w b Hs) as (w1 & E1 & Hs1 & _). exists w1. auto.
Qed.

Notation iosim := (wsim w_write_all w_never_fails).
Notation io_bufs := (wr_bufs w_write_all).

(* an accept-all writer receives the concatenation *)
Lemma io_bufs_received bufs : forall w, w_script w = [] ->
  exists o, io_bufs w bufs = (o, inl tt) /\ w_received o = w_received w ++ concat bufs.
Proof.
  induction bufs as [|b t IH]; intros w Hs.
  - exists w. cbn. rewrite app_nil_r. auto.
  - destruct (w_write_all_accept_all w b Hs) as (w1 & E1 & Hs1 & Hr1).
    destruct (IH w1 Hs1) as (o & Eo & Hro). exists o. rewrite wr_bufs_cons, E1. split; [exact Eo|].
    rewrite Hro, Hr1. cbn [concat]. rewrite app_assoc. reflexivity.
Qed.

(* DisplayBuffer::write_to on the buffer a translated builder returned *)
Lemma iosim_buffer x : iosim (fun w => d <- x ;; gr_dbuf_write_to d w) (rn_buffer_write_to (gr_shown x)).
Proof.
  eapply wsim_ext; [|apply (wsim_one w_write_all w_never_fails (gr_shown x))].
  intros w. unfold gr_shown, gr_dbuf_write_to. destruct x as [d|]; [|reflexivity].
  destruct (gr_as_str d) as [b|]; [|reflexivity]. destruct (w_write_all w b). reflexivity.
Qed.

(* Color::write_fg_to / write_bg_to / write_underline_to: the buffer of render_*, then write_to *)
Lemma gr_color_write_fg_to_shape v w : gr_color_write_fg_to v w = (d <- gr_color_render_fg v ;; gr_dbuf_write_to d w).
Proof.
  unfold gr_color_write_fg_to, gr_color_render_fg. destruct v;
    match goal with |- context [match ?x with Some r => Some r | None => None end] => destruct x as [d|] end;
    try reflexivity; destruct (gr_dbuf_write_to d w) as [[? ?]|]; reflexivity.
Qed.
Lemma gr_color_write_bg_to_shape v w : gr_color_write_bg_to v w = (d <- gr_color_render_bg v ;; gr_dbuf_write_to d w).
Proof.
  unfold gr_color_write_bg_to, gr_color_render_bg. destruct v;
    match goal with |- context [match ?x with Some r => Some r | None => None end] => destruct x as [d|] end;
    try reflexivity; destruct (gr_dbuf_write_to d w) as [[? ?]|]; reflexivity.
Qed.
Lemma gr_color_write_underline_to_shape v w :
  gr_color_write_underline_to v w = (d <- gr_color_render_underline v ;; gr_dbuf_write_to d w).
Proof.
  unfold gr_color_write_underline_to, gr_color_render_underline. destruct v;
    match goal with |- context [match ?x with Some r => Some r | None => None end] => destruct x as [d|] end;
    try reflexivity; destruct (gr_dbuf_write_to d w) as [[? ?]|]; reflexivity.
Qed.

Lemma iosim_color_fg c : iosim (gr_color_write_fg_to (rn_color_view_of c)) (rn_buffer_write_to (rn_color_fg_buffer c)).
Proof.
  destruct (translated_buffers_are_model c) as (<- & _ & _).
  eapply wsim_ext; [intros w; apply gr_color_write_fg_to_shape | apply iosim_buffer].
Qed.
Lemma iosim_color_bg c : iosim (gr_color_write_bg_to (rn_color_view_of c)) (rn_buffer_write_to (rn_color_bg_buffer c)).
Proof.
  destruct (translated_buffers_are_model c) as (_ & <- & _).
  eapply wsim_ext; [intros w; apply gr_color_write_bg_to_shape | apply iosim_buffer].
Qed.
Lemma iosim_color_ul c : iosim (gr_color_write_underline_to (rn_color_view_of c)) (rn_buffer_write_to (rn_color_ul_buffer c)).
Proof.
  destruct (translated_buffers_are_model c) as (_ & _ & <-).
  eapply wsim_ext; [intros w; apply gr_color_write_underline_to_shape | apply iosim_buffer].
Qed.

(* Effects::write_to: one write_all per set effect, the first error leaves the loop *)
Lemma iosim_effects e : iosim (gr_effects_write_to e) (rn_write_effects e).
Proof.
  unfold gr_effects_write_to.
  change (iter_drain g_eff_index_iter_next (S (length metadata)) (g_eff_index_iter e)) with (g_eff_index_iter_items e).
  rewrite g_eff_index_iter_eq.
  match goal with |- context [for_list ?F _ _] => set (step := F) end.
  apply (wsim_effects_for w_write_all w_never_fails w_acc_ok step e).
  - intros i w. unfold step, md_escape. destruct (aget metadata i); reflexivity.
  - intros w. destruct (e_index_iter e) as [l|]; [|reflexivity]. unfold sres.
    destruct (for_list step l w) as [[st|[st rv]]|]; reflexivity.
Qed.

(* Style::write_to is the sequence effects, fg, bg, underline; every `?` returns the error *)
Lemma gr_style_write_to_shape s w :
  gr_style_write_to s w =
  seqw (gr_effects_write_to (st_eff s))
    (seqw (oslot gr_color_write_fg_to (rn_st_fg s))
      (seqw (oslot gr_color_write_bg_to (rn_st_bg s))
        (seqw (oslot gr_color_write_underline_to (rn_st_ul s)) retw))) w.
Proof.
  unfold gr_style_write_to, seqw, oslot, retw.
  destruct (gr_effects_write_to (st_eff s) w) as [[w1 [[]|e]]|]; try reflexivity. cbv beta iota zeta.
  destruct (rn_st_fg s) as [c1|], (rn_st_bg s) as [c2|], (rn_st_ul s) as [c3|];
    repeat (cbv beta iota zeta;
            match goal with
            | |- context [gr_color_write_fg_to ?c ?x] => destruct (gr_color_write_fg_to c x) as [[? [[]|?]]|]
            | |- context [gr_color_write_bg_to ?c ?x] => destruct (gr_color_write_bg_to c x) as [[? [[]|?]]|]
            | |- context [gr_color_write_underline_to ?c ?x] => destruct (gr_color_write_underline_to c x) as [[? [[]|?]]|]
            end); reflexivity.
Qed.

Lemma gr_style_write_to_sim s : iosim (gr_style_write_to s) (rn_write_slots s rn_write_order).
Proof.
  eapply wsim_ext; [intros w; apply gr_style_write_to_shape|].
  apply (wsim_style w_write_all w_never_fails w_acc_ok s).
  - apply iosim_effects.
  - apply iosim_color_fg.
  - apply iosim_color_bg.
  - apply iosim_color_ul.
Qed.

(* Style::write_to, any writer: the buffers of the hand model, written in order with write_all; the first
   error is returned and nothing more is written *)
Theorem translated_write_to_is_model s bufs w :
  rn_write_to s = Some bufs -> gr_style_write_to s w = Some (io_bufs w bufs).
Proof. apply (wsim_some w_write_all w_never_fails), gr_style_write_to_sim. Qed.

(* ... and on a writer that never fails, a panic included *)
Theorem translated_write_to_accept_all s w :
  w_script w = [] -> gr_style_write_to s w = option_map (io_bufs w) (rn_write_to s).
Proof. apply (wsim_acc w_write_all w_never_fails), gr_style_write_to_sim. Qed.

(* what such a writer has received is what `render()` shows (Proofs/Render.v paths_agree) *)
Theorem translated_write_to_bytes s bs :
  rn_render_style s = Some bs ->
  exists w, gr_style_write_to s (writer_of []) = Some (w, inl tt) /\ w_received w = bs.
Proof.
  intros E. rewrite <- paths_agree in E. destruct (rn_write_to s) as [bufs|] eqn:Eb; [|discriminate E].
  injection E as <-. rewrite (translated_write_to_is_model s bufs _ Eb).
  destruct (io_bufs_received bufs (writer_of []) eq_refl) as (o & -> & Hr). exists o. split; [reflexivity|exact Hr].
Qed.

(* Style::write_reset_to *)
Theorem translated_write_reset_to_is_model s w :
  gr_style_write_reset_to s w = Some (io_bufs w (rn_write_reset_to s)).
Proof.
  unfold gr_style_write_reset_to, rn_write_reset_to. plain_test.
  destruct (style_eqb s st_new); cbn [negb]; try reflexivity;
    rewrite wr_bufs_cons; destruct (w_write_all w rn_reset_str); reflexivity.
Qed.

(* ==== the conversions into Color and the `on` / `on_default` constructors of a Style (color.rs) ========
   over the Rust enum [rn_color_view]; [rn_color_of_view] is the colour of Model/Style.v.  Style::new /
   fg_color / bg_color are the functions of Model/Style.v (translated and proved in StyleFn / StyleGen). *)

Lemma rn_color_of_view_of c : rn_color_of_view (rn_color_view_of c) = c.
Proof. destruct c; reflexivity. Qed.

Theorem translated_color_from_is_model :
  (forall a, rn_color_of_view (gr_color_from_ansi a) = CoAnsi a) /\
  (forall n, rn_color_of_view (gr_color_from_a256 n) = CoAnsi256 n) /\
  (forall r g b, rn_color_of_view (gr_color_from_rgb (r, g, b)) = CoRgb r g b) /\
  (forall n, rn_color_of_view (gr_color_from_u8 n) = CoAnsi256 n) /\
  (forall r g b, rn_color_of_view (gr_color_from_tuple (r, g, b)) = CoRgb r g b) /\
  (forall n, gr_a256_from_u8 n = n) /\
  (forall r g b, gr_rgb_from_tuple (r, g, b) = (r, g, b)).
Proof. repeat split. Qed.

(* `fg.on(bg)` = Style::new().fg_color(Some(fg)).bg_color(Some(bg)), `fg.on_default()` = ..fg_color(Some(fg)) *)
Definition st_on (fg bg : color) : style := st_bg_color (st_fg_color st_new (Some fg)) (Some bg).
Definition st_on_default (fg : color) : style := st_fg_color st_new (Some fg).

Theorem translated_on_is_model :
  (forall c b, gr_color_on (rn_color_view_of c) (rn_color_view_of b) = st_on c b) /\
  (forall a b, gr_ansi_on a (rn_color_view_of b) = st_on (CoAnsi a) b) /\
  (forall n b, gr_a256_on n (rn_color_view_of b) = st_on (CoAnsi256 n) b) /\
  (forall r g bl b, gr_rgb_on (r, g, bl) (rn_color_view_of b) = st_on (CoRgb r g bl) b) /\
  (forall c, gr_color_on_default (rn_color_view_of c) = st_on_default c) /\
  (forall a, gr_ansi_on_default a = st_on_default (CoAnsi a)) /\
  (forall n, gr_a256_on_default n = st_on_default (CoAnsi256 n)) /\
  (forall r g bl, gr_rgb_on_default (r, g, bl) = st_on_default (CoRgb r g bl)).
Proof.
  unfold gr_color_on, gr_ansi_on, gr_a256_on, gr_rgb_on, gr_color_on_default, gr_ansi_on_default, gr_a256_on_default,
    gr_rgb_on_default, st_on, st_on_default, rn_st_fg_color, rn_st_bg_color.
  rewrite g_st_new_eq.
  refine (conj _ (conj _ (conj _ (conj _ (conj _ (conj _ (conj _ _))))))); intros; cbn [option_map];
    rewrite ?rn_color_of_view_of; reflexivity.
Qed.

(* ==== the theorems of C05 about the translated code ================================================== *)

(* what `style.render().to_string()` of the TRANSLATED code gives is SGR only and reads back as the style *)
Theorem translated_render_roundtrip s :
  rn_wf (rn_sstyle s) -> rn_at_most_one_underline_kind (rn_sstyle s) ->
  exists bs, gr_render_style s = Some bs /\
             spec_events bs = map rn_sgr (rn_groups_of (rn_sstyle s)) /\
             rn_interp_style (spec_events bs) style_default = rn_norm (rn_sstyle s).
Proof.
  intros Hwf H1. rewrite translated_render_style_is_model.
  destruct (render_is_sgr_only s Hwf) as (bs & E & Hev).
  destruct (render_roundtrip s Hwf H1) as (bs' & E' & Hrt). rewrite E in E'. injection E' as <-.
  exists bs. auto.
Qed.

(* `{}` of the translated Display is render, `{:#}` is render_reset, whatever width / fill / align / precision *)
Theorem translated_display_forms flags s :
  gr_format false flags (gr_style_fmt s) = gr_render_style s /\
  gr_format true flags (gr_style_fmt s) = Some (gr_style_render_reset s).
Proof.
  rewrite !translated_display_is_model, translated_render_style_is_model, gr_style_render_reset_eq.
  apply display_forms.
Qed.
