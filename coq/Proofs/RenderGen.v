(* Proofs/RenderGen.v -- the functions TRANSLATED from crates/anstyle/src/color.rs
   (Generated/RenderFn.v, written by tools/gen_fn_render.py on every run):
   DisplayBuffer::{write_str, write_code, as_str} and the as_{fg,bg,underline}_buffer
   families of AnsiColor / Ansi256Color / RgbColor, against the hand model Model/Render.v
   that the theorems of C05 are about.

   The translation works on the Rust data layout (a 19-byte array and a length); the hand
   model keeps the bytes buffer[0..len].  The two are related by [dbuf_rel]; every translated
   function maps related states to related states and panics ([None]) exactly when the hand
   model does ([orel]); for the functions that start from DisplayBuffer::default() this is
   an equation through [rn_dbuf_abs] (= DisplayBuffer::as_str). *)
From Coq Require Import NArith Arith List Bool Lia.
From AV Require Import Generated.Style Generated.Render Spec.Sgr Model.Base Model.Imp Model.Style Model.Render
  Generated.RenderFn Proofs.ParamsSim Proofs.Render.
Import ListNotations.
Local Open Scope N_scope.

Definition dbuf_rel (d : rn_dbuf) (b : rn_buf) : Prop :=
  length (db_buffer d) = cap /\ (N.to_nat (db_len d) <= cap)%nat /\ rn_dbuf_abs d = b.

(* same outcome: both panic, or both succeed with related states *)
Definition orel (x : option rn_dbuf) (y : option rn_buf) : Prop :=
  match x, y with
  | Some d, Some b => dbuf_rel d b
  | None, None => True
  | _, _ => False
  end.

Lemma orel_abs x y : orel x y -> option_map rn_dbuf_abs x = y.
Proof.
  destruct x as [d|], y as [b|]; cbn; try tauto. intros (_ & _ & <-). reflexivity.
Qed.

Lemma rel_length d b : dbuf_rel d b -> length b = N.to_nat (db_len d).
Proof.
  intros (Hl & Hn & <-). unfold rn_dbuf_abs. apply firstn_length_le. lia.
Qed.

Lemma default_rel : dbuf_rel rn_dbuf_default rn_buf_new.
Proof.
  unfold dbuf_rel, rn_dbuf_default, rn_dbuf_abs, rn_buf_new, cap. cbn [db_buffer db_len].
  rewrite repeat_length. repeat split; try lia; reflexivity.
Qed.

Lemma aset_nat_none {A} : forall (l : list A) i v, (length l <= i)%nat -> aset_nat l i v = None.
Proof.
  induction l as [|h t IH]; intros i v H; [reflexivity|].
  destruct i as [|j]; cbn [length] in H; [lia|]. cbn [aset_nat]. rewrite IH by lia. reflexivity.
Qed.

Lemma buf_write_str_full p : forall b, (cap < length b + length p)%nat -> (length b <= cap)%nat ->
  rn_buf_write_str b p = None.
Proof.
  induction p as [|x t IH]; intros b H Hb; cbn [length] in H; [lia|]. cbn [rn_buf_write_str].
  destruct (PeanoNat.Nat.eq_dec (length b) cap) as [E|E].
  - rewrite buf_put_full by lia. reflexivity.
  - rewrite buf_put_ok by lia. apply IH; rewrite app_length; cbn [length]; lia.
Qed.

(* ---- one store: self.buffer[self.len] = x; self.len += 1 ---------------------------- *)

Lemma put_sim d b x : dbuf_rel d b ->
  match aset (db_buffer d) (db_len d) x, rn_buf_put b x with
  | Some arr, Some b' => dbuf_rel (mkRnDbuf arr (db_len d + 1)) b'
  | None, None => True
  | _, _ => False
  end.
Proof.
  intros H. pose proof (rel_length d b H) as Hlen. destruct H as (Hl & Hn & Ha). unfold aset.
  destruct (PeanoNat.Nat.eq_dec (N.to_nat (db_len d)) cap) as [E|E].
  - rewrite aset_nat_none by lia. rewrite buf_put_full by lia. exact I.
  - destruct (aset_nat_some (db_buffer d) (N.to_nat (db_len d)) x) as [arr Harr]; [lia|].
    rewrite Harr, buf_put_ok by lia.
    unfold dbuf_rel, rn_dbuf_abs. cbn [db_buffer db_len].
    rewrite (aset_nat_length _ _ _ _ Harr). repeat split; [lia | lia |].
    replace (N.to_nat (db_len d + 1)) with (S (N.to_nat (db_len d))) by lia.
    rewrite (aset_nat_firstn_S _ _ _ _ Harr). unfold rn_dbuf_abs in Ha. rewrite Ha. reflexivity.
Qed.

(* ---- DisplayBuffer::write_code -------------------------------------------------------- *)

Lemma cadd_digit c : c < 10 -> cadd 8 48 c = Some (48 + c).
Proof.
  intros H. unfold cadd. replace (48 + c <? 2 ^ 8) with true; [reflexivity|].
  symmetry. apply N.ltb_lt. change (2 ^ 8) with 256. lia.
Qed.

Ltac put_step :=
  match goal with
  | H : dbuf_rel (mkRnDbuf ?buf ?l) ?b |- context [aset ?buf ?l ?x] =>
      let P := fresh "P" in
      pose proof (put_sim _ b x H) as P; cbn [db_buffer db_len] in P;
      destruct (aset buf l x) as [?arr|], (rn_buf_put b x) as [?b'|];
      try contradiction; try exact I; cbv iota beta; rewrite ?orb_true_r; cbv iota; cbn [orel db_buffer db_len]
  end.

Lemma gr_write_code_sim d b code : dbuf_rel d b -> orel (gr_write_code d code) (rn_write_code b code).
Proof.
  intros H. destruct d as [buf l]. unfold gr_write_code, rn_write_code, set_db_len, set_db_buffer.
  cbn [db_buffer db_len].
  change (100 =? 0) with false. change (10 =? 0) with false. cbv iota zeta.
  rewrite !cadd_digit by (apply N.mod_lt; lia).
  rewrite ?orb_true_r.
  destruct ((code / 100) mod 10 =? 0); cbn [negb]; cbv iota beta; rewrite ?orb_true_r; cbv iota; cbn [db_buffer db_len].
  - put_step. put_step. exact P0.
  - put_step. put_step. put_step. exact P1.
Qed.

(* ---- DisplayBuffer::write_str --------------------------------------------------------- *)

(* the body of the `for` loop as the translator emits it *)
Definition write_str_body : N * N -> rn_dbuf -> option (bctl rn_dbuf) :=
  fun x d2 =>
    let '(i1, b1) := x in
    arr <- aset (db_buffer d2) ((db_len d2) + i1) b1 ;;
    let d3 := (set_db_buffer d2 arr) in
    Some (BNext d3).

Lemma write_str_loop part : forall i0 d,
  length (db_buffer d) = cap -> (N.to_nat (db_len d + i0) <= cap)%nat ->
  ((N.to_nat (db_len d + i0) + length part <= cap)%nat ->
     exists buf', for_list0 write_str_body (combine (range_from i0 (length part)) part) d = Some (mkRnDbuf buf' (db_len d)) /\
                  length buf' = cap /\
                  firstn (N.to_nat (db_len d + i0) + length part) buf' = firstn (N.to_nat (db_len d + i0)) (db_buffer d) ++ part) /\
  ((cap < N.to_nat (db_len d + i0) + length part)%nat ->
     for_list0 write_str_body (combine (range_from i0 (length part)) part) d = None).
Proof.
  induction part as [|x t IH]; intros i0 d Hl Hn; cbn [length range_from combine for_list0].
  - split; [|lia]. intros _. exists (db_buffer d). destruct d as [buf l]. cbn [db_buffer db_len] in *.
    rewrite Nat.add_0_r, app_nil_r. auto.
  - unfold write_str_body at 1 3. unfold aset.
    destruct (PeanoNat.Nat.eq_dec (N.to_nat (db_len d + i0)) cap) as [E|E].
    + rewrite aset_nat_none by lia. split; [lia | reflexivity].
    + destruct (aset_nat_some (db_buffer d) (N.to_nat (db_len d + i0)) x) as [arr Harr]; [lia|].
      rewrite Harr. cbv zeta.
      pose proof (aset_nat_length _ _ _ _ Harr) as Hla.
      destruct (IH (i0 + 1) (set_db_buffer d arr)) as [IHa IHb].
      { cbn [set_db_buffer db_buffer]. lia. }
      { cbn [set_db_buffer db_len]. lia. }
      cbn [set_db_buffer db_buffer db_len] in IHa, IHb.
      replace (N.to_nat (db_len d + (i0 + 1))) with (S (N.to_nat (db_len d + i0))) in IHa, IHb by lia.
      split.
      * intros Hfit. destruct IHa as (buf' & E1 & E2 & E3); [lia|].
        exists buf'. split; [exact E1|]. split; [exact E2|].
        replace (N.to_nat (db_len d + i0) + S (length t))%nat with (S (N.to_nat (db_len d + i0)) + length t)%nat by lia.
        rewrite E3, (aset_nat_firstn_S _ _ _ _ Harr), <- app_assoc. reflexivity.
      * intros Hno. apply IHb. lia.
Qed.

Lemma gr_write_str_sim d b part : dbuf_rel d b -> orel (gr_write_str d part) (rn_buf_write_str b part).
Proof.
  intros H. pose proof (rel_length d b H) as Hlen. destruct H as (Hl & Hn & Ha).
  unfold gr_write_str, rn_enumerate.
  change (for_list0 _ ?l ?s) with (for_list0 write_str_body l s).
  destruct (write_str_loop part 0 d Hl ltac:(lia)) as [Hfit Hno].
  rewrite N.add_0_r in Hfit, Hno.
  destruct (le_lt_dec (N.to_nat (db_len d) + length part) cap) as [Hc|Hc].
  - destruct (Hfit Hc) as (buf' & E1 & E2 & E3). rewrite E1. cbv zeta.
    rewrite buf_write_str_ok by lia. cbn [orel].
    unfold dbuf_rel, rn_dbuf_abs, set_db_len, len. cbn [db_buffer db_len].
    repeat split; [exact E2 | lia |].
    replace (N.to_nat (db_len d + N.of_nat (length part))) with (N.to_nat (db_len d) + length part)%nat by lia.
    rewrite E3. unfold rn_dbuf_abs in Ha. rewrite Ha. reflexivity.
  - rewrite (Hno Hc). rewrite buf_write_str_full by lia. exact I.
Qed.

(* DisplayBuffer::as_str: the related byte list itself *)
Lemma gr_as_str_eq d b : dbuf_rel d b -> gr_as_str d = Some b.
Proof.
  intros (Hl & Hn & Ha). unfold gr_as_str, slice, rn_from_utf8_unchecked.
  replace ((0 <=? db_len d) && (db_len d <=? N.of_nat (length (db_buffer d)))) with true.
  - cbn [skipn N.to_nat]. rewrite N.sub_0_r. unfold rn_dbuf_abs in Ha. rewrite Ha. reflexivity.
  - symmetry. apply andb_true_iff. split; apply N.leb_le; lia.
Qed.

(* ---- the builder chains ----------------------------------------------------------------- *)

Ltac sim_step :=
  match goal with
  | H : dbuf_rel ?d ?b |- context [gr_write_str ?d ?s] =>
      let P := fresh "P" in
      pose proof (gr_write_str_sim d b s H) as P;
      destruct (gr_write_str d s) as [?dd|], (rn_buf_write_str b s) as [?bb|];
      cbn [orel] in P; try contradiction; try exact I
  | H : dbuf_rel ?d ?b |- context [gr_write_code ?d ?n] =>
      let P := fresh "P" in
      pose proof (gr_write_code_sim d b n H) as P;
      destruct (gr_write_code d n) as [?dd|], (rn_write_code b n) as [?bb|];
      cbn [orel] in P; try contradiction; try exact I
  end.
Ltac sim_chain := pose proof default_rel; repeat sim_step; try assumption.

Lemma gr_rgb_acc r g b : gr_rgb_r (r, g, b) = r /\ gr_rgb_g (r, g, b) = g /\ gr_rgb_b (r, g, b) = b.
Proof. repeat split. Qed.

Lemma gr_a256_index_eq i : gr_a256_index i = i.
Proof. reflexivity. Qed.

Lemma gr_from_ansi_eq a : gr_from_ansi a = Some (ansi256_from a).
Proof. destruct a; reflexivity. Qed.

(* impl From<AnsiColor> for Ansi256Color *)
Lemma gr_a256_from_eq a : gr_a256_from a = Some (ansi256_from a).
Proof. unfold gr_a256_from. rewrite gr_from_ansi_eq. reflexivity. Qed.

Lemma gr_ansi_fg_str_eq a : gr_ansi_fg_str a = Some (ansi_fg_str a).
Proof. destruct a; reflexivity. Qed.

Lemma gr_ansi_bg_str_eq a : gr_ansi_bg_str a = Some (ansi_bg_str a).
Proof. destruct a; reflexivity. Qed.

(* Ansi256Color *)
Lemma gr_a256_fg_sim n : orel (gr_a256_fg_buffer n) (rn_ansi256_fg_buffer n).
Proof.
  unfold gr_a256_fg_buffer, rn_ansi256_fg_buffer, rn_ansi256_fg_parts. cbn [rn_run_parts nth_error].
  rewrite gr_a256_index_eq. sim_chain.
Qed.
Lemma gr_a256_bg_sim n : orel (gr_a256_bg_buffer n) (rn_ansi256_bg_buffer n).
Proof.
  unfold gr_a256_bg_buffer, rn_ansi256_bg_buffer, rn_ansi256_bg_parts. cbn [rn_run_parts nth_error].
  rewrite gr_a256_index_eq. sim_chain.
Qed.
Lemma gr_a256_ul_sim n : orel (gr_a256_underline_buffer n) (rn_ansi256_ul_buffer n).
Proof.
  unfold gr_a256_underline_buffer, rn_ansi256_ul_buffer, rn_ansi256_ul_parts. cbn [rn_run_parts nth_error].
  rewrite gr_a256_index_eq. sim_chain.
Qed.

(* RgbColor *)
Lemma gr_rgb_fg_sim r g b : orel (gr_rgb_fg_buffer (r, g, b)) (rn_rgb_fg_buffer r g b).
Proof.
  unfold gr_rgb_fg_buffer, rn_rgb_fg_buffer, rn_rgb_fg_parts. cbn [rn_run_parts nth_error].
  destruct (gr_rgb_acc r g b) as (-> & -> & ->). sim_chain.
Qed.
Lemma gr_rgb_bg_sim r g b : orel (gr_rgb_bg_buffer (r, g, b)) (rn_rgb_bg_buffer r g b).
Proof.
  unfold gr_rgb_bg_buffer, rn_rgb_bg_buffer, rn_rgb_bg_parts. cbn [rn_run_parts nth_error].
  destruct (gr_rgb_acc r g b) as (-> & -> & ->). sim_chain.
Qed.
Lemma gr_rgb_ul_sim r g b : orel (gr_rgb_underline_buffer (r, g, b)) (rn_rgb_ul_buffer r g b).
Proof.
  unfold gr_rgb_underline_buffer, rn_rgb_ul_buffer, rn_rgb_ul_parts. cbn [rn_run_parts nth_error].
  destruct (gr_rgb_acc r g b) as (-> & -> & ->). sim_chain.
Qed.

(* AnsiColor *)
Lemma gr_ansi_fg_sim a : orel (gr_ansi_fg_buffer a) (rn_ansi_fg_buffer a).
Proof. unfold gr_ansi_fg_buffer, rn_ansi_fg_buffer. rewrite gr_ansi_fg_str_eq. sim_chain. Qed.
Lemma gr_ansi_bg_sim a : orel (gr_ansi_bg_buffer a) (rn_ansi_bg_buffer a).
Proof. unfold gr_ansi_bg_buffer, rn_ansi_bg_buffer. rewrite gr_ansi_bg_str_eq. sim_chain. Qed.
Lemma gr_ansi_ul_sim a : orel (gr_ansi_underline_buffer a) (rn_ansi_ul_buffer a).
Proof.
  unfold gr_ansi_underline_buffer, rn_ansi_ul_buffer. rewrite gr_a256_from_eq.
  pose proof (gr_a256_ul_sim (ansi256_from a)) as P.
  destruct (gr_a256_underline_buffer (ansi256_from a)), (rn_ansi256_ul_buffer (ansi256_from a)); exact P.
Qed.

(* ---- the entry points ------------------------------------------------------------------
   Color::render_fg / render_bg / render_underline (translated: the DisplayBuffer they return as
   `impl Display`), on the Rust enum with its payloads ([rn_color_view_of]); what Display then
   shows is DisplayBuffer::as_str. *)
Definition gr_color_fg_buffer (c : color) : option rn_dbuf := gr_color_render_fg (rn_color_view_of c).
Definition gr_color_bg_buffer (c : color) : option rn_dbuf := gr_color_render_bg (rn_color_view_of c).
Definition gr_color_ul_buffer (c : color) : option rn_dbuf := gr_color_render_underline (rn_color_view_of c).

Lemma bind_some_id {A} (x : option A) : (v <- (r <- x ;; Some r) ;; Some v) = x.
Proof. destruct x; reflexivity. Qed.

(* the bytes a translated buffer shows: as_str of the result *)
Definition gr_shown (x : option rn_dbuf) : option (list N) := d <- x ;; gr_as_str d.

Lemma shown_of_sim x y : orel x y -> gr_shown x = y.
Proof.
  destruct x as [d|], y as [b|]; cbn [orel gr_shown]; try tauto. intros H. exact (gr_as_str_eq d b H).
Qed.

Theorem translated_buffers_are_model (c : color) :
  gr_shown (gr_color_fg_buffer c) = rn_color_fg_buffer c /\
  gr_shown (gr_color_bg_buffer c) = rn_color_bg_buffer c /\
  gr_shown (gr_color_ul_buffer c) = rn_color_ul_buffer c.
Proof.
  unfold gr_color_fg_buffer, gr_color_bg_buffer, gr_color_ul_buffer,
    gr_color_render_fg, gr_color_render_bg, gr_color_render_underline.
  destruct c as [a | n | r g b]; cbn [rn_color_view_of rn_color_fg_buffer rn_color_bg_buffer rn_color_ul_buffer];
    rewrite !bind_some_id; repeat split; apply shown_of_sim.
  - apply gr_ansi_fg_sim.
  - apply gr_ansi_bg_sim.
  - apply gr_ansi_ul_sim.
  - apply gr_a256_fg_sim.
  - apply gr_a256_bg_sim.
  - apply gr_a256_ul_sim.
  - apply gr_rgb_fg_sim.
  - apply gr_rgb_bg_sim.
  - apply gr_rgb_ul_sim.
Qed.

(* statements in the form quoted by Props/C05.v *)
Lemma translated_write_str (d : rn_dbuf) (b : rn_buf) (part : list N) :
  dbuf_rel d b -> orel (gr_write_str d part) (rn_buf_write_str b part).
Proof. apply gr_write_str_sim. Qed.

Lemma translated_write_code (d : rn_dbuf) (b : rn_buf) (code : N) :
  dbuf_rel d b -> orel (gr_write_code d code) (rn_write_code b code).
Proof. apply gr_write_code_sim. Qed.
