(* Proofs/Choice.v -- C09: the hand model of colour auto-detection is the decision
   list of the property statement, for every environment. *)
From Coq Require Import NArith List Bool String Ascii.
From AV Require Import Spec.Choice Generated.Choice Model.Choice.
Import ListNotations.
Local Open Scope N_scope.

(* ---- byte-string equality -------------------------------------------------- *)

Lemma ch_bytes_eq_chs_eqb : forall a b, ch_bytes_eq a b = chs_eqb a b.
Proof.
  induction a as [|x a IH]; destruct b as [|y b]; cbn [ch_bytes_eq chs_eqb].
  1-3: reflexivity.
  destruct (x =? y); [apply IH | reflexivity].
Qed.

Lemma chs_eqb_eq : forall a b, chs_eqb a b = true <-> a = b.
Proof.
  induction a as [|x a IH]; destruct b as [|y b]; cbn; split; intro H; try reflexivity; try discriminate.
  - apply andb_true_iff in H. destruct H as [H1 H2]. apply N.eqb_eq in H1. apply IH in H2. congruence.
  - inversion H; subst. rewrite N.eqb_refl. cbn. apply IH. reflexivity.
Qed.

Lemma chs_eqb_neq : forall a b, chs_eqb a b = false <-> a <> b.
Proof.
  intros a b. split.
  - intros H E. apply chs_eqb_eq in E. congruence.
  - intro H. destruct (chs_eqb a b) eqn:E; [|reflexivity]. apply chs_eqb_eq in E. contradiction.
Qed.

(* ---- the ASCII codes of Spec/Choice.v spell the published names ---------------- *)

Lemma spelling_holds : spelling.
Proof. unfold spelling. vm_compute. repeat split. Qed.

(* ---- the translated names and literals are the published ones --------------- *)

Lemma ch_names_published :
  ch_var_no_color = NO_COLOR /\ ch_var_clicolor_force = CLICOLOR_FORCE /\ ch_var_clicolor = CLICOLOR /\
  ch_var_term = TERM /\ ch_var_colorterm = COLORTERM /\ ch_var_ci = CI /\
  ch_lit_clicolor_off = V_0 /\ ch_lit_term_dumb = V_dumb /\
  ch_lit_truecolor = [V_truecolor; V_24bit].
Proof. vm_compute. repeat split. Qed.

(* ---- the probes against their published conventions -------------------------- *)

Lemma probe_no_color_spec : forall e, ch_no_color e = spec_no_color e.
Proof.
  intro e. unfold ch_no_color, spec_no_color, set_non_empty, ch_non_empty.
  destruct ch_names_published as (-> & _). destruct (e NO_COLOR) as [[|x v]|]; reflexivity.
Qed.

Lemma probe_clicolor_force_spec : forall e, ch_clicolor_force e = spec_clicolor_force e.
Proof.
  intro e. unfold ch_clicolor_force, spec_clicolor_force, set_non_empty, ch_non_empty.
  destruct ch_names_published as (_ & -> & _). destruct (e CLICOLOR_FORCE) as [[|x v]|]; reflexivity.
Qed.

Lemma probe_clicolor_spec : forall e, ch_clicolor e = spec_clicolor e.
Proof.
  intro e. unfold ch_clicolor, spec_clicolor.
  destruct ch_names_published as (_ & _ & -> & _ & _ & _ & -> & _).
  destruct (e CLICOLOR) as [v|]; [|reflexivity]. rewrite ch_bytes_eq_chs_eqb. reflexivity.
Qed.

Lemma probe_term_spec : forall e, ch_term_supports_color e = spec_term_color e.
Proof.
  intro e. unfold ch_term_supports_color, spec_term_color, set_other_than.
  destruct ch_names_published as (_ & _ & _ & -> & _ & _ & _ & -> & _).
  destruct (e TERM) as [v|]; [|reflexivity]. rewrite ch_bytes_eq_chs_eqb.
  destruct (chs_eqb v (V_dumb)); reflexivity.
Qed.

Lemma probe_term_ansi_spec : forall e, ch_term_supports_ansi_color e = spec_term_color e.
Proof. exact probe_term_spec. Qed.

Lemma probe_truecolor_spec : forall e, ch_truecolor e = spec_truecolor e.
Proof.
  intro e. unfold ch_truecolor, spec_truecolor, set_to.
  destruct ch_names_published as (_ & _ & _ & _ & -> & _ & _ & _ & ->).
  destruct (e COLORTERM) as [v|]; cbn [ch_unwrap_or existsb].
  - rewrite !ch_bytes_eq_chs_eqb. rewrite orb_false_r. reflexivity.
  - reflexivity.
Qed.

Lemma probe_is_ci_spec : forall e, ch_is_ci e = spec_is_ci e.
Proof.
  intro e. unfold ch_is_ci, spec_is_ci, is_set.
  destruct ch_names_published as (_ & _ & _ & _ & _ & -> & _). reflexivity.
Qed.

(* the same conventions as propositions about the environment *)

Lemma probe_no_color : forall e,
  ch_no_color e = true <-> exists v, e NO_COLOR = Some v /\ v <> [].
Proof.
  intro e. rewrite probe_no_color_spec. unfold spec_no_color, set_non_empty.
  destruct (e NO_COLOR) as [[|x v]|]; split; intro H; try discriminate; try reflexivity.
  - destruct H as (v & E & N). inversion E; subst. contradiction.
  - exists (x :: v). split; [reflexivity | discriminate].
  - destruct H as (v & E & _). discriminate.
Qed.

Lemma probe_clicolor_force : forall e,
  ch_clicolor_force e = true <-> exists v, e CLICOLOR_FORCE = Some v /\ v <> [].
Proof.
  intro e. rewrite probe_clicolor_force_spec. unfold spec_clicolor_force, set_non_empty.
  destruct (e CLICOLOR_FORCE) as [[|x v]|]; split; intro H; try discriminate; try reflexivity.
  - destruct H as (v & E & N). inversion E; subst. contradiction.
  - exists (x :: v). split; [reflexivity | discriminate].
  - destruct H as (v & E & _). discriminate.
Qed.

Lemma probe_clicolor : forall e,
  (ch_clicolor e = None <-> e CLICOLOR = None) /\
  (forall b, ch_clicolor e = Some b <-> exists v, e CLICOLOR = Some v /\ (b = true <-> v <> V_0)).
Proof.
  intro e. rewrite probe_clicolor_spec. unfold spec_clicolor.
  destruct (e CLICOLOR) as [v|]; split.
  - split; discriminate.
  - intro b. split.
    + intro H. inversion H; subst. exists v. split; [reflexivity|].
      rewrite negb_true_iff. apply chs_eqb_neq.
    + intros (w & E & Hb). inversion E; subst w. f_equal.
      destruct b.
      * apply negb_true_iff. apply chs_eqb_neq. apply Hb. reflexivity.
      * apply negb_false_iff. destruct (chs_eqb v (V_0)) eqn:Q; [reflexivity|].
        apply chs_eqb_neq in Q. apply Hb in Q. discriminate.
  - split; reflexivity.
  - intro b. split; [discriminate|]. intros (w & E & _). discriminate.
Qed.

Lemma probe_term : forall e,
  ch_term_supports_color e = true <-> exists v, e TERM = Some v /\ v <> V_dumb.
Proof.
  intro e. rewrite probe_term_spec. unfold spec_term_color, set_other_than.
  destruct (e TERM) as [v|]; split; intro H; try discriminate.
  - exists v. split; [reflexivity|]. apply chs_eqb_neq. apply negb_true_iff. exact H.
  - destruct H as (w & E & N). inversion E; subst w. apply negb_true_iff. apply chs_eqb_neq. exact N.
  - destruct H as (w & E & _). discriminate.
Qed.

Lemma probe_term_ansi : forall e,
  ch_term_supports_ansi_color e = true <-> exists v, e TERM = Some v /\ v <> V_dumb.
Proof. exact probe_term. Qed.

Lemma probe_truecolor : forall e,
  ch_truecolor e = true <-> e COLORTERM = Some (V_truecolor) \/ e COLORTERM = Some (V_24bit).
Proof.
  intro e. rewrite probe_truecolor_spec. unfold spec_truecolor, set_to.
  destruct (e COLORTERM) as [v|].
  - rewrite orb_true_iff, !chs_eqb_eq. split; (intros [H|H]; [left|right]; congruence).
  - cbn. split; [discriminate | intros [H|H]; discriminate].
Qed.

Lemma probe_is_ci : forall e, ch_is_ci e = true <-> exists v, e CI = Some v.
Proof.
  intro e. rewrite probe_is_ci_spec. unfold spec_is_ci, is_set.
  destruct (e CI) as [v|]; split; intro H; try discriminate; try reflexivity.
  - exists v. reflexivity.
  - destruct H as (v & E). discriminate.
Qed.

(* ---- the decision function is the decision list ------------------------------- *)

Lemma choice_is_spec : forall global e tty, choice_model global e tty = choice_spec global e tty.
Proof.
  intros global e tty. destruct global; try reflexivity.
  unfold choice_model, choice_spec.
  rewrite probe_no_color_spec, probe_clicolor_force_spec, probe_clicolor_spec, probe_term_spec, probe_is_ci_spec.
  unfold spec_no_color, spec_clicolor_force, spec_clicolor, spec_term_color, spec_is_ci, set_to, set_other_than.
  destruct (set_non_empty e NO_COLOR); [reflexivity|].
  destruct (set_non_empty e CLICOLOR_FORCE); [reflexivity|].
  destruct (e CLICOLOR) as [v|]; cbn [ch_unwrap_or].
  - destruct (chs_eqb v (V_0)); reflexivity.
  - reflexivity.
Qed.

Lemma choice_never_auto : forall global e tty, choice_model global e tty <> ChAuto.
Proof.
  intros global e tty. destruct global; cbn; try discriminate.
  destruct (ch_no_color e); [discriminate|].
  destruct (ch_clicolor_force e); [discriminate|].
  destruct (negb (ch_unwrap_or (ch_clicolor e) true)); [discriminate|].
  destruct (tty && _); discriminate.
Qed.

(* what the statement says about streams that are not terminals: nothing but an
   explicit choice or CLICOLOR_FORCE enables colour *)
Lemma choice_not_terminal : forall e,
  choice_model ChAuto e false = ChAlways -> ch_no_color e = false /\ ch_clicolor_force e = true.
Proof.
  intro e. cbn.
  destruct (ch_no_color e); [discriminate|].
  destruct (ch_clicolor_force e); [auto|].
  destruct (negb (ch_unwrap_or (ch_clicolor e) true)); discriminate.
Qed.

(* ---- the global atomic and the command-line flag ------------------------------ *)

Lemma atomic_roundtrip : forall c, ch_to_choice (ch_from_choice c) = Some c.
Proof. destruct c; reflexivity. Qed.

Lemma atomic_from_injective : forall c d, ch_from_choice c = ch_from_choice d -> c = d.
Proof.
  intros c d H. assert (E : ch_to_choice (ch_from_choice c) = ch_to_choice (ch_from_choice d)) by (rewrite H; reflexivity).
  rewrite !atomic_roundtrip in E. congruence.
Qed.

Lemma global_write_then_read : forall c, ch_global_after_write c = Some c.
Proof. exact atomic_roundtrip. Qed.

Lemma flag_is_spec : forall f, ch_as_choice f = flag_choice_spec f.
Proof. destruct f; reflexivity. Qed.

Lemma flag_injective_named :
  (forall f g, ch_as_choice f = ch_as_choice g -> f = g) /\
  (forall f, choice_word (ch_as_choice f) = flag_word f).
Proof.
  split.
  - intros f g. destruct f, g; cbn; intro H; try reflexivity; discriminate.
  - destruct f; reflexivity.
Qed.

(* typing a flag word selects the choice of that name, and only the three words are flags *)
Lemma flag_word_choice : forall w c,
  ch_flag_choice w = Some c <-> choice_word c = w /\ c <> ChAlwaysAnsi.
Proof.
  intros w c. unfold ch_flag_choice, flag_of_word. cbn [find all_flags].
  destruct (chs_eqb w (flag_word FlAuto)) eqn:E1; [|destruct (chs_eqb w (flag_word FlAlways)) eqn:E2; [|destruct (chs_eqb w (flag_word FlNever)) eqn:E3]].
  - apply chs_eqb_eq in E1. subst w. split.
    + intro H. inversion H; subst. split; [reflexivity | discriminate].
    + intros [H N]. destruct c; try discriminate H; try reflexivity.
  - apply chs_eqb_eq in E2. subst w. split.
    + intro H. inversion H; subst. split; [reflexivity | discriminate].
    + intros [H N]. destruct c; try discriminate H; try reflexivity.
  - apply chs_eqb_eq in E3. subst w. split.
    + intro H. inversion H; subst. split; [reflexivity | discriminate].
    + intros [H N]. destruct c; try discriminate H; try reflexivity.
  - apply chs_eqb_neq in E1, E2, E3. split; [discriminate|].
    intros [H N]. destruct c; cbn in H; subst w; contradiction.
Qed.

(* ---- terminal detection per stream type --------------------------------------- *)

Lemma const_false_streams : forall ty fd_tty,
  In ty ch_streams_const_false -> ch_is_terminal ty fd_tty = Some false.
Proof.
  intros ty fd_tty H. unfold ch_is_terminal.
  replace (existsb (ch_bytes_eq ty) ch_streams_const_false) with true; [reflexivity|].
  symmetry. apply existsb_exists. exists ty. split; [exact H|].
  rewrite ch_bytes_eq_chs_eqb. apply chs_eqb_eq. reflexivity.
Qed.

Lemma const_false_streams_choice : forall ty fd_tty global e,
  In ty ch_streams_const_false -> ch_choice_on ty fd_tty global e = Some (choice_spec global e false).
Proof.
  intros. unfold ch_choice_on. rewrite const_false_streams by assumption. rewrite choice_is_spec. reflexivity.
Qed.
