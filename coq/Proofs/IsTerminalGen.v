(* Proofs/IsTerminalGen.v -- the translated `impl IsTerminal for <T>` of the third-party crate is_terminal_polyfill (and the
   generic impl of is-terminal they forward to), Generated/IsTerminalFn.v, are what the vocabulary of the stream area
   (tools/gen_fn_glue.py: `is_terminal_polyfill::IsTerminal::is_terminal(x)` = [raw_is_terminal cf x]) assumes: every impl
   asks the operating system about the descriptor of the handle it is called on, no other. *)
From Coq Require Import NArith ZArith List Bool.
From AV Require Import Spec.Io Model.Base Model.Imp Model.Stream Model.Glue Generated.StreamFn Generated.AutoFn Generated.GlueFn
  Generated.IsTerminalFn.
From AV Require Spec.Choice Generated.Choice Model.Choice Generated.ChoiceFn Proofs.ChoiceGen.
Import ListNotations.
Local Open Scope N_scope.

(* is-terminal, unix: `libc::isatty(self.as_fd().as_raw_fd()) != 0` *)
Lemma g_it_is_terminal_eq : forall os w, g_it_is_terminal os w = pf_tty os w.
Proof. intros os w. unfold g_it_is_terminal, pf_tty. cbv zeta. reflexivity. Qed.

(* the polyfill's impl for File / Stdin / StdinLock / Stdout / StdoutLock / Stderr / StderrLock: isatty of the descriptor
   of THAT handle *)
Theorem translated_polyfill_asks_self : forall f, In f g_pf_impls -> forall os w, f os w = pf_tty os w.
Proof.
  intros f H os w. cbn [g_pf_impls In] in H.
  repeat (destruct H as [<-|H]; [apply g_it_is_terminal_eq|]). destruct H.
Qed.

(* ... which is the answer `raw.is_terminal()` has in the stream area whenever [cf] describes that stream *)
Theorem translated_polyfill_is_raw_is_terminal :
  forall f, In f g_pf_impls -> forall os cf w, pf_os_agrees os cf w -> f os w = raw_is_terminal cf w.
Proof.
  intros f H os cf w A. rewrite (translated_polyfill_asks_self f H). exact A.
Qed.

(* the five descriptor-backed impls of anstream (Generated/GlueFn.v), which name the polyfill, each meet the polyfill's
   impl for the SAME std type *)
Theorem translated_glue_asks_polyfill : forall os cf w,
  pf_os_agrees os cf w ->
  g_is_terminal_stdout cf w = g_pf_is_terminal_stdout os w /\
  g_is_terminal_stdoutlock cf w = g_pf_is_terminal_stdoutlock os w /\
  g_is_terminal_stderr cf w = g_pf_is_terminal_stderr os w /\
  g_is_terminal_stderrlock cf w = g_pf_is_terminal_stderrlock os w /\
  g_is_terminal_file cf w = g_pf_is_terminal_file os w.
Proof.
  intros os cf w A.
  assert (E : forall f, In f g_pf_impls -> raw_is_terminal cf w = f os w)
    by (intros f H; symmetry; apply translated_polyfill_is_raw_is_terminal; assumption).
  unfold g_is_terminal_stdout, g_is_terminal_stdoutlock, g_is_terminal_stderr, g_is_terminal_stderrlock, g_is_terminal_file.
  exact (conj (E _ (or_intror (or_intror (or_intror (or_introl eq_refl)))))
        (conj (E _ (or_intror (or_intror (or_intror (or_intror (or_introl eq_refl))))))
        (conj (E _ (or_intror (or_intror (or_intror (or_intror (or_intror (or_introl eq_refl)))))))
        (conj (E _ (or_intror (or_intror (or_intror (or_intror (or_intror (or_intror (or_introl eq_refl))))))))
              (E _ (or_introl eq_refl)))))).
Qed.

(* the colour decision (tools/gen_fn_choice.py: `raw.is_terminal()` is a boolean parameter of the translated
   anstream::auto::choice) fed with the polyfill's answer for a handle: the decision list of C09 at "isatty of that handle's
   own descriptor is non-zero" *)
Theorem translated_polyfill_choice : forall f, In f g_pf_impls -> forall e user os w,
  ChoiceFn.g_choice e user (f os w) =
  match Generated.Choice.ch_to_choice user with
  | Some g => Some (Model.Choice.choice_model g e (pf_tty os w))
  | None => None
  end.
Proof.
  intros f H e user os w. rewrite (translated_polyfill_asks_self f H). apply ChoiceGen.translated_choice_is_model.
Qed.
