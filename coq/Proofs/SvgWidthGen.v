(* C14 without the unicode-width oracle: the svg theorems instantiated with the translated width function
   (Model/SvgWidth.v uw_width), and the facts about it the svg model uses. *)
From Coq Require Import NArith ZArith List Bool Lia.
From AV Require Import Model.Base Model.Imp Model.UnicodeWidth Generated.UnicodeWidthFn Proofs.UnicodeWidthGen
  Generated.Svg Spec.Sgr Model.Svg Generated.SvgFn Proofs.SvgGen Model.SvgWidth.
Import ListNotations.
Local Open Scope N_scope.

(* on a &str the Rust call does not panic and answers uw_width *)
Theorem uw_width_is_translated s :
  Forall uw_cp s -> g_uw_str_trait_width s = Some (uw_width s).
Proof.
  intros H. unfold uw_width. destruct (g_uw_str_trait_width_total s H) as [n ->]. reflexivity.
Qed.

Corollary uw_width_is_translated_chars s :
  forallb uw_is_char s = true -> g_uw_str_trait_width s = Some (uw_width s).
Proof.
  intros H. apply uw_width_is_translated. rewrite forallb_forall in H. apply Forall_forall.
  intros c Hc. apply uw_is_char_cp, H, Hc.
Qed.

(* the result is a usize *)
Lemma uw_wrapping_lt sum add : uw_wrapping_add_signed sum add < 18446744073709551616.
Proof.
  unfold uw_wrapping_add_signed.
  pose proof (Z.mod_pos_bound (Z.of_N sum + add) 18446744073709551616 eq_refl) as [H1 H2].
  change 18446744073709551616 with (Z.to_N 18446744073709551616). apply Z2N.inj_lt; lia.
Qed.

Lemma uw_fold_lt l : forall sum info r,
  sum < 18446744073709551616 ->
  uw_fold_m (fun '(sum, next_info) c =>
      r <- g_uw_width_in_str c next_info ;;
      let '(add, info) := r in Some (uw_wrapping_add_signed sum add, info)) (sum, info) l = Some r ->
  fst r < 18446744073709551616.
Proof.
  induction l as [|c l IH]; intros sum info r Hs; cbn [uw_fold_m].
  - intros [= <-]. exact Hs.
  - destruct (g_uw_width_in_str c info) as [[add info']|]; [|discriminate].
    apply IH. apply uw_wrapping_lt.
Qed.

Theorem uw_width_lt s : uw_width s < 18446744073709551616.
Proof.
  unfold uw_width. rewrite g_uw_str_trait_width_eq. unfold g_uw_str_width, uw_rfold_m.
  match goal with |- context [uw_fold_m ?f ?a ?l] => destruct (uw_fold_m f a l) as [r|] eqn:E end; [|reflexivity].
  cbv beta iota. eapply uw_fold_lt; [|exact E]. reflexivity.
Qed.

Theorem uw_width_ascii s :
  Forall uw_printable_ascii s -> N.of_nat (length s) < 18446744073709551616 -> uw_width s = N.of_nat (length s).
Proof.
  intros H L. unfold uw_width. now rewrite g_uw_str_trait_width_eq, g_uw_str_width_ascii.
Qed.

Theorem uw_width_empty : uw_width [] = 0.
Proof. reflexivity. Qed.

(* write_bg_span: `fill.repeat(fragment.width())` is exactly as wide as the fragment, with either fill *)
Theorem uw_width_fill_on x : uw_width (repeat svg_fill_on (N.to_nat (uw_width x))) = uw_width x.
Proof.
  pose proof (uw_width_lt x) as L. unfold uw_width at 1. rewrite g_uw_str_trait_width_eq.
  unfold svg_fill_on. rewrite g_uw_str_width_fill; rewrite N2Nat.id; [reflexivity|exact L].
Qed.

Theorem uw_width_fill_off x : uw_width (repeat svg_fill_off (N.to_nat (uw_width x))) = uw_width x.
Proof.
  pose proof (uw_width_lt x) as L. rewrite uw_width_ascii; rewrite ?repeat_length, ?N2Nat.id; [reflexivity| |exact L].
  generalize (N.to_nat (uw_width x)). induction n; cbn [repeat]; constructor; [|assumption].
  unfold svg_fill_off, uw_printable_ascii. lia.
Qed.

(* ---- render_svg with the widths computed ------------------------------------------------------ *)

Theorem translated_render_svg_uw ceil84 minw t input :
  g_svg_render (svg_uw_oracle ceil84 minw) t input =
  (styled <- svg_styled t input ;;
   d <- svg_doc t input ;;
   Some (svg_m_print_uw (svg_m_width_px_uw ceil84 minw (svg_split_lines styled)) d)).
Proof. exact (translated_render_svg_is_model (svg_uw_oracle ceil84 minw) t input). Qed.

(* `Term::new().<builders>.render_svg(input)`: the only parameter left is the f64 product *)
Theorem translated_built_term_renders_uw ceil84 bs input :
  let t := g_svg_build g_svg_term_new bs in
  g_svg_render_full (svg_tf_uw_oracle ceil84 t) t input =
  (styled <- svg_styled (svg_tf_term t) input ;;
   d <- svg_doc (svg_tf_term t) input ;;
   Some (svg_m_print_uw (svg_m_width_px_uw ceil84 (svg_tf_min_width_px t) (svg_split_lines styled)) d)).
Proof. exact (translated_built_term_renders uw_width ceil84 bs input). Qed.

(* every `t.width()` / `fragment.width()` the translated render_svg evaluates is the translated width function
   on that very string, and it does not panic when the string consists of chars *)
Theorem svg_oracle_uw_is_translated ceil84 minw s :
  forallb uw_is_char s = true ->
  g_uw_str_trait_width s = Some (svg_o_uw (svg_uw_oracle ceil84 minw) s).
Proof. exact (uw_width_is_translated_chars s). Qed.

(* the model the correspondence driver runs for case kind svgraw IS the translated render_svg, under the one
   remaining parameter instantiated with ceil(42 x / 5) *)
Theorem translated_render_svg_is_driver_model palette fg bg background minw input :
  g_svg_render (svg_uw_oracle svg_ceil84_exact minw) (mkSvgTerm palette fg bg background) input =
  svg_m_render_uw palette fg bg background minw input.
Proof. unfold svg_m_render_uw. apply translated_render_svg_uw. Qed.
