(* Proofs/WinconConsole.v -- the legacy-console stream (Model/WinconStream:
   write / write_all / write_vectored / write_fmt over a scripted console writer)
   hands every styled run of the extractor to the console exactly once, in order,
   with 16-colour fg/bg; short writes are completed, errors are reported (C18). *)
From Coq Require Import NArith List Bool Lia Arith.
From AV Require Import Generated.Table Spec.Utf8 Spec.Vt Spec.Sgr Spec.Io Model.Base Model.Utf8parse
  Model.Parser Model.Strip Model.Wincon Model.Stream Model.WinconStream
  Proofs.TableFacts Proofs.VtFacts Proofs.ParserSim Proofs.VtCancel Proofs.WinconRuns Proofs.WinconSpecRuns.
Import ListNotations.
Local Open Scope N_scope.

(* ---- vocabulary --------------------------------------------------------------- *)

(* a stream state whose parser is a state the parser can be in (related to a state
   of the specification machine by C02's simulation relation); ws_new is one and
   every operation keeps it *)
Definition ws_wf (s : wstream) : Prop := exists v, R (ws_parser s) v.

Lemma ws_new_wf : ws_wf ws_new.
Proof. exists vt_init. exact R_init. Qed.

(* the console call that hands over one run in full *)
Definition run_call (r : sstyle * list N) : ccall :=
  let '(style, txt) := r in
  mkCC (cap_opt (s_fg style)) (cap_opt (s_bg style)) (str_bytes txt)
       (inl (N.of_nat (length (str_bytes txt)))).

(* the bytes a call list got accepted, each with the colours it was written in *)
Definition cc_accepted (cc : ccall) : list N :=
  match cc_res cc with inl n => firstn (N.to_nat n) (cc_data cc) | inr _ => [] end.
Definition accepted (calls : list ccall) : list N := flat_map cc_accepted calls.
Definition accepted_col (calls : list ccall) : list (option N * option N * N) :=
  flat_map (fun cc => map (fun b => (cc_fg cc, cc_bg cc, b)) (cc_accepted cc)) calls.

(* the bytes of a run list, each with the capped colours of its run *)
Definition run_col (r : sstyle * list N) : list (option N * option N * N) :=
  let '(style, txt) := r in
  map (fun b => (cap_opt (s_fg style), cap_opt (s_bg style), b)) (str_bytes txt).
Definition runs_col (rs : list (sstyle * list N)) : list (option N * option N * N) :=
  flat_map run_col rs.
Definition runs_bytes (rs : list (sstyle * list N)) : list N :=
  flat_map (fun r => str_bytes (snd r)) rs.

(* the error [k] comes from the last call: a kind the console produced (other than
   Interrupted, which is retried) or WriteZero after the console accepted 0 bytes *)
Definition err_from (new : list ccall) (k : ekind) : Prop :=
  exists pre last, new = pre ++ [last] /\
    ((cc_res last = inr k /\ k <> Interrupted) \/ (cc_res last = inl 0 /\ k = WriteZero)).

Definition res_of (r : unit + ekind) : sres := match r with inl _ => ROk | inr e => RErr e end.

Lemma accepted_app a b : accepted (a ++ b) = accepted a ++ accepted b.
Proof. unfold accepted. apply flat_map_app. Qed.
Lemma accepted_col_app a b : accepted_col (a ++ b) = accepted_col a ++ accepted_col b.
Proof. unfold accepted_col. apply flat_map_app. Qed.

Lemma accepted_col_bytes : forall calls, map snd (accepted_col calls) = accepted calls.
Proof.
  induction calls as [|cc calls IH]; [reflexivity|].
  unfold accepted_col, accepted in *. cbn [flat_map]. rewrite map_app, IH. f_equal.
  rewrite map_map. cbn [snd]. apply map_id.
Qed.

Lemma runs_col_bytes : forall rs, map snd (runs_col rs) = runs_bytes rs.
Proof.
  induction rs as [|[s t] rs IH]; [reflexivity|].
  unfold runs_col, runs_bytes in *. cbn [flat_map]. rewrite map_app, IH. f_equal.
  cbn [run_col snd]. rewrite map_map. cbn [snd]. apply map_id.
Qed.

Lemma accepted_col_uniform : forall calls fg bg,
  Forall (fun cc => cc_fg cc = fg /\ cc_bg cc = bg) calls ->
  accepted_col calls = map (fun b => (fg, bg, b)) (accepted calls).
Proof.
  induction calls as [|cc calls IH]; intros fg bg H; [reflexivity|].
  inversion H as [|? ? [A B] Hr]; subst.
  unfold accepted_col, accepted in *. cbn [flat_map]. rewrite map_app, (IH _ _ Hr). reflexivity.
Qed.

(* ---- cap_wincon_color ------------------------------------------------------------ *)

Lemma cap_colour :
  (forall a, cap_wincon_color (CAnsi a) = Some a) /\
  (forall i, i < 16 -> cap_wincon_color (CIdx i) = Some i) /\
  (forall i, 16 <= i -> cap_wincon_color (CIdx i) = None) /\
  (forall r g b, cap_wincon_color (CRgb r g b) = None).
Proof.
  split; [reflexivity|]. split; [|split; [|reflexivity]].
  - intros i H. cbn [cap_wincon_color]. apply N.ltb_lt in H. rewrite H. reflexivity.
  - intros i H. cbn [cap_wincon_color]. apply N.ltb_ge in H. rewrite H. reflexivity.
Qed.

(* ---- the retry loop of one run ------------------------------------------------------ *)

Lemma run_loop_nil : forall f c fg bg, wc_run_loop f c fg bg [] = (c, inl tt).
Proof. intros [|f] c fg bg; reflexivity. Qed.

Lemma utf8_encode_nonempty : forall cp, utf8_encode cp <> [].
Proof.
  intros cp. unfold utf8_encode.
  destruct (cp <? 128); [discriminate|]. destruct (cp <? 2048); [discriminate|].
  destruct (cp <? 65536); discriminate.
Qed.

Lemma str_bytes_nonempty : forall txt, txt <> [] -> str_bytes txt <> [].
Proof.
  intros [|cp txt] H; [congruence|]. unfold str_bytes. cbn [flat_map].
  pose proof (utf8_encode_nonempty cp) as Hn. destruct (utf8_encode cp); [congruence | discriminate].
Qed.

(* accept-all console: one call takes the whole run *)
Lemma run_loop_accept_all : forall f c fg bg data,
  con_script c = [] -> data <> [] ->
  wc_run_loop (S f) c fg bg data
  = (mkCon [] (con_calls c ++ [mkCC fg bg data (inl (N.of_nat (length data)))]) (con_flushes c), inl tt).
Proof.
  intros f c fg bg data Hs Hd. destruct data as [|d ds]; [congruence|].
  cbn [wc_run_loop]. unfold con_write_colored. rewrite Hs.
  destruct (N.of_nat (length (d :: ds))) as [|pn] eqn:E.
  { cbn [length] in E. lia. }
  rewrite <- E, Nat2N.id, skipn_all, run_loop_nil. reflexivity.
Qed.

Lemma firstn_to_nat_min : forall (n : N) (buf : list N),
  firstn (N.to_nat (N.min n (N.of_nat (length buf)))) buf = firstn (N.to_nat n) buf.
Proof.
  intros n buf. destruct (N.min_spec n (N.of_nat (length buf))) as [[A ->] | [A ->]]; [reflexivity|].
  rewrite Nat2N.id, firstn_all. symmetry. apply firstn_all2. lia.
Qed.

Lemma run_loop_spec : forall fuel c fg bg buf,
  (length (con_script c) < fuel)%nat ->
  exists new,
    con_calls (fst (wc_run_loop fuel c fg bg buf)) = con_calls c ++ new /\
    con_flushes (fst (wc_run_loop fuel c fg bg buf)) = con_flushes c /\
    (length (con_script (fst (wc_run_loop fuel c fg bg buf))) <= length (con_script c))%nat /\
    Forall (fun cc => cc_fg cc = fg /\ cc_bg cc = bg /\ exists pre, buf = pre ++ cc_data cc) new /\
    match snd (wc_run_loop fuel c fg bg buf) with
    | inl _ => accepted new = buf
    | inr k => (exists rest, accepted new ++ rest = buf) /\ err_from new k
    end.
Proof.
  induction fuel as [|f IH]; intros c fg bg buf Hf; [lia|].
  destruct buf as [|d ds].
  { exists []. cbn [wc_run_loop fst snd]. rewrite app_nil_r. repeat split; auto. }
  cbn [wc_run_loop]. set (buf := d :: ds).
  assert (Hlen : N.of_nat (length buf) <> 0) by (unfold buf; cbn [length]; rewrite Nat2N.inj_succ; apply N.neq_succ_0).
  unfold con_write_colored.
  destruct (con_script c) as [|[n|e] rest] eqn:Hs.
  - (* script exhausted: everything is accepted *)
    destruct (N.of_nat (length buf)) as [|pn] eqn:E; [congruence|].
    rewrite <- E, Nat2N.id, skipn_all, run_loop_nil. cbn [fst snd con_calls con_flushes con_script].
    exists [mkCC fg bg buf (inl (N.of_nat (length buf)))]. repeat split; auto.
    + constructor; [|constructor]. cbn. repeat split. exists []. reflexivity.
    + unfold accepted, cc_accepted. cbn [flat_map cc_res cc_data].
      rewrite Nat2N.id, firstn_all, app_nil_r. reflexivity.
  - (* Accept n *)
    destruct (N.min n (N.of_nat (length buf))) as [|pk] eqn:Ek; cbv beta iota zeta.
    + (* Ok(0): WriteZero *)
      set (c1 := mkCon rest (con_calls c ++ [mkCC fg bg buf (inl 0)]) (con_flushes c)).
      cbn [fst snd].
      exists [mkCC fg bg buf (inl 0)]. repeat split; auto.
      * unfold c1. cbn [con_script length]. lia.
      * constructor; [|constructor]. cbn. repeat split. exists []. reflexivity.
      * exists buf. reflexivity.
      * exists [], (mkCC fg bg buf (inl 0)). split; [reflexivity|]. right. split; reflexivity.
    + set (c1 := mkCon rest (con_calls c ++ [mkCC fg bg buf (inl (N.pos pk))]) (con_flushes c)).
      assert (Hf1 : (length (con_script c1) < f)%nat).
      { unfold c1. cbn [con_script length] in *. lia. }
      destruct (IH c1 fg bg (skipn (N.to_nat (N.pos pk)) buf) Hf1)
        as (new & A & B & C & D & E).
      exists (mkCC fg bg buf (inl (N.pos pk)) :: new).
      unfold c1 in A at 2, B at 2, C at 2. cbn [con_calls con_flushes con_script] in A, B, C.
      split.
      { rewrite A, <- app_assoc. reflexivity. }
      split; [exact B|]. split; [cbn [length]; lia|]. split.
      { constructor.
        - cbn. repeat split. exists []. reflexivity.
        - eapply Forall_impl; [|exact D]. cbv beta. intros cc (F1 & F2 & pre & F3).
          repeat split; auto. exists (firstn (N.to_nat (N.pos pk)) buf ++ pre).
          rewrite <- app_assoc, <- F3, firstn_skipn. reflexivity. }
      assert (Hacc : accepted (mkCC fg bg buf (inl (N.pos pk)) :: new)
                     = firstn (N.to_nat (N.pos pk)) buf ++ accepted new) by reflexivity.
      rewrite Hacc.
      destruct (snd (wc_run_loop f c1 fg bg (skipn (N.to_nat (N.pos pk)) buf))) as [u|e].
      * rewrite E, firstn_skipn. reflexivity.
      * destruct E as [[rs E1] (pre & last & E2 & E3)]. split.
        { exists rs. rewrite <- app_assoc, E1, firstn_skipn. reflexivity. }
        { exists (mkCC fg bg buf (inl (N.pos pk)) :: pre), last. rewrite E2. split; [reflexivity | exact E3]. }
  - (* Fail e *)
    cbv beta iota zeta.
    assert (Hone : e <> Interrupted ->
      exists new,
        con_calls (mkCon rest (con_calls c ++ [mkCC fg bg buf (inr e)]) (con_flushes c)) = con_calls c ++ new /\
        con_flushes (mkCon rest (con_calls c ++ [mkCC fg bg buf (inr e)]) (con_flushes c)) = con_flushes c /\
        (length (con_script (mkCon rest (con_calls c ++ [mkCC fg bg buf (inr e)]) (con_flushes c)))
         <= length (Fail e :: rest))%nat /\
        Forall (fun cc => cc_fg cc = fg /\ cc_bg cc = bg /\ exists pre, buf = pre ++ cc_data cc) new /\
        ((exists rs, accepted new ++ rs = buf) /\ err_from new e)).
    { intros Hk. exists [mkCC fg bg buf (inr e)]. cbn [con_calls con_flushes con_script length].
      repeat split; auto.
      - constructor; [|constructor]. cbn. repeat split. exists []. reflexivity.
      - exists buf. reflexivity.
      - exists [], (mkCC fg bg buf (inr e)). split; [reflexivity|]. left. split; [reflexivity | exact Hk]. }
    destruct e; cbv beta iota zeta; try (cbn [fst snd]; apply Hone; discriminate).
    clear Hone.
    (* Interrupted: retry with the same buffer *)
    set (c1 := mkCon rest (con_calls c ++ [mkCC fg bg buf (inr Interrupted)]) (con_flushes c)).
    assert (Hf1 : (length (con_script c1) < f)%nat).
    { unfold c1. cbn [con_script length] in *. lia. }
    destruct (IH c1 fg bg buf Hf1) as (new & A & B & C & D & E).
    exists (mkCC fg bg buf (inr Interrupted) :: new).
    unfold c1 in A at 2, B at 2, C at 2. cbn [con_calls con_flushes con_script] in A, B, C.
    split.
    { rewrite A, <- app_assoc. reflexivity. }
    split; [exact B|]. split; [cbn [length]; lia|]. split.
    { constructor; [|exact D]. cbn. repeat split. exists []. reflexivity. }
    change (accepted (mkCC fg bg buf (inr Interrupted) :: new)) with (accepted new).
    destruct (snd (wc_run_loop f c1 fg bg buf)) as [u|e]; [exact E|].
    destruct E as [E1 (pre & last & E2 & E3)]. split; [exact E1|].
    exists (mkCC fg bg buf (inr Interrupted) :: pre), last. rewrite E2. split; [reflexivity | exact E3].
Qed.

(* ---- the runs fed to the console one after the other ---------------------------------- *)

Fixpoint feed_runs (runs : list (sstyle * list N)) (c : console) : console * (unit + ekind) :=
  match runs with
  | [] => (c, inl tt)
  | (style, txt) :: rest =>
      let data := str_bytes txt in
      let '(c1, r) := wc_run_loop (S (length (con_script c) + length data)) c
                        (cap_opt (s_fg style)) (cap_opt (s_bg style)) data in
      match r with
      | inl _ => feed_runs rest c1
      | inr e => (c1, inr e)
      end
  end.

(* write_all = the extractor's runs fed to the console (the loop is lazy, so on an
   error the extractor stops where it is) *)
Lemma write_all_loop_feed : forall fuel bs p cap its p' cap' c,
  wincon_iter fuel bs p cap = Some (its, p', cap') ->
  exists s1,
    wc_write_all_loop fuel bs p cap c
      = Some (s1, fst (feed_runs its c), res_of (snd (feed_runs its c))) /\
    (forall u, snd (feed_runs its c) = inl u -> s1 = mkWS p' cap').
Proof.
  induction fuel as [|f IH]; intros bs p cap its p' cap' c H; [discriminate H|].
  cbn [wincon_iter wc_write_all_loop] in *.
  destruct (wincon_next bs p cap) as [[[[item bs1] p1] cap1]|]; [|discriminate H].
  destruct item as [[style txt]|].
  - destruct (wincon_iter f bs1 p1 cap1) as [[[its' p2] c2]|] eqn:E; [|discriminate H].
    inversion H; subst. cbn [feed_runs].
    destruct (wc_run_loop (S (length (con_script c) + length (str_bytes txt))) c
                (cap_opt (s_fg style)) (cap_opt (s_bg style)) (str_bytes txt)) as [c1 r].
    destruct r as [u|e].
    + apply (IH bs1 p1 cap1 its' p' cap' c1 E).
    + cbn [fst snd res_of]. eexists. split; [reflexivity|]. intros u Hu. discriminate Hu.
  - inversion H; subst. cbn [feed_runs fst snd res_of]. eexists. split; [reflexivity|]. reflexivity.
Qed.

Lemma feed_runs_accept_all : forall its c,
  con_script c = [] -> Forall (fun r => snd r <> []) its ->
  feed_runs its c = (mkCon [] (con_calls c ++ map run_call its) (con_flushes c), inl tt).
Proof.
  induction its as [|[style txt] its IH]; intros c Hs Hall.
  - cbn [feed_runs map]. rewrite app_nil_r. destruct c; cbn in *; subst; reflexivity.
  - inversion Hall as [|? ? Ht Hr]; subst. cbn [snd] in Ht.
    cbn [feed_runs]. rewrite Hs at 1. cbn [length plus].
    rewrite (run_loop_accept_all _ c _ _ _ Hs (str_bytes_nonempty txt Ht)).
    rewrite IH; [|reflexivity | exact Hr]. cbn [con_calls con_flushes map run_call].
    rewrite <- app_assoc. reflexivity.
Qed.

Lemma feed_runs_spec : forall its c,
  exists new,
    con_calls (fst (feed_runs its c)) = con_calls c ++ new /\
    con_flushes (fst (feed_runs its c)) = con_flushes c /\
    Forall (fun cc => exists r pre, In r its /\ cc_fg cc = cap_opt (s_fg (fst r)) /\
                        cc_bg cc = cap_opt (s_bg (fst r)) /\ str_bytes (snd r) = pre ++ cc_data cc) new /\
    match snd (feed_runs its c) with
    | inl _ => accepted_col new = runs_col its
    | inr k => (exists rest, accepted_col new ++ rest = runs_col its) /\ err_from new k
    end.
Proof.
  induction its as [|[style txt] its IH]; intros c.
  - exists []. cbn [feed_runs fst snd]. rewrite app_nil_r. repeat split; auto.
  - cbn [feed_runs].
    destruct (run_loop_spec (S (length (con_script c) + length (str_bytes txt))) c
                (cap_opt (s_fg style)) (cap_opt (s_bg style)) (str_bytes txt)) as (new1 & A & B & _ & D & E);
      [lia|].
    destruct (wc_run_loop (S (length (con_script c) + length (str_bytes txt))) c
                (cap_opt (s_fg style)) (cap_opt (s_bg style)) (str_bytes txt)) as [c1 r].
    cbn [fst snd] in A, B, E.
    assert (Hcol : accepted_col new1
                   = map (fun b => (cap_opt (s_fg style), cap_opt (s_bg style), b)) (accepted new1)).
    { apply accepted_col_uniform. eapply Forall_impl; [|exact D]. cbv beta. tauto. }
    assert (D' : Forall (fun cc => exists r pre, In r ((style, txt) :: its) /\
                   cc_fg cc = cap_opt (s_fg (fst r)) /\ cc_bg cc = cap_opt (s_bg (fst r)) /\
                   str_bytes (snd r) = pre ++ cc_data cc) new1).
    { eapply Forall_impl; [|exact D]. cbv beta. intros cc (F1 & F2 & pre & F3).
      exists (style, txt), pre. cbn [fst snd In]. auto. }
    destruct r as [u|e].
    + destruct (IH c1) as (new2 & A2 & B2 & D2 & E2).
      exists (new1 ++ new2). split.
      { rewrite A2, A, <- app_assoc. reflexivity. }
      split; [congruence|]. split.
      { apply Forall_app. split; [exact D'|]. eapply Forall_impl; [|exact D2]. cbv beta.
        intros cc (r & pre & F0 & F). exists r, pre. split; [right; exact F0 | exact F]. }
      rewrite accepted_col_app, Hcol, E.
      change (runs_col ((style, txt) :: its)) with (run_col (style, txt) ++ runs_col its).
      cbn [run_col].
      destruct (snd (feed_runs its c1)) as [u2|k].
      * rewrite E2. reflexivity.
      * destruct E2 as [[rs E3] (pre & last & E4 & E5)]. split.
        { exists rs. rewrite <- app_assoc, E3. reflexivity. }
        { exists (new1 ++ pre), last. rewrite E4, app_assoc. split; [reflexivity | exact E5]. }
    + cbn [fst snd]. exists new1. split; [exact A|]. split; [exact B|]. split; [exact D'|].
      destruct E as [[rs E1] E2]. split; [|exact E2].
      change (runs_col ((style, txt) :: its)) with (run_col (style, txt) ++ runs_col its).
      cbn [run_col]. rewrite <- E1, map_app, Hcol.
      exists (map (fun b => (cap_opt (s_fg style), cap_opt (s_bg style), b)) rs ++ runs_col its).
      rewrite app_assoc. reflexivity.
Qed.

(* ---- write_all --------------------------------------------------------------------------- *)

(* what write_all does, in terms of the runs of the extractor; total *)
Lemma write_all_feed : forall s buf c, ws_wf s -> bytes_lt buf ->
  exists its p' cap' s1,
    extract_next buf (ws_parser s) (ws_capture s) = Some (its, p', cap') /\
    Forall (fun r => snd r <> []) its /\ ws_wf (mkWS p' cap') /\
    wc_write_all s buf c = Some (s1, fst (feed_runs its c), res_of (snd (feed_runs its c))) /\
    (forall u, snd (feed_runs its c) = inl u -> s1 = mkWS p' cap').
Proof.
  intros s buf c [v HR] Hbs.
  destruct (extract_next_spec buf (ws_parser s) v (ws_capture s) Hbs HR)
    as (its & p' & He & _ & HR' & _ & Hall).
  unfold extract_next in He.
  destruct (write_all_loop_feed _ _ _ _ _ _ _ c He) as (s1 & Hw & Hs1).
  exists its, p', (mkCap (style_after (c_style (ws_capture s)) (snd (vt_run v buf))) [] None), s1.
  split; [exact He|]. split; [exact Hall|]. split; [eexists; exact HR'|].
  split; [exact Hw | exact Hs1].
Qed.

Theorem write_all_hands_over : forall s buf c,
  ws_wf s -> bytes_lt buf -> con_script c = [] ->
  exists its p' cap',
    extract_next buf (ws_parser s) (ws_capture s) = Some (its, p', cap') /\
    wc_write_all s buf c
      = Some (mkWS p' cap', mkCon [] (con_calls c ++ map run_call its) (con_flushes c), ROk).
Proof.
  intros s buf c Hwf Hbs Hs.
  destruct (write_all_feed s buf c Hwf Hbs) as (its & p' & cap' & s1 & He & Hall & _ & Hw & Hs1).
  exists its, p', cap'. split; [exact He|].
  rewrite (feed_runs_accept_all its c Hs Hall) in Hw, Hs1. cbn [fst snd res_of] in Hw, Hs1.
  rewrite (Hs1 tt eq_refl) in Hw. exact Hw.
Qed.

Theorem write_all_scripted : forall s buf c,
  ws_wf s -> bytes_lt buf ->
  exists its p' cap' s1 c1 r new,
    extract_next buf (ws_parser s) (ws_capture s) = Some (its, p', cap') /\
    wc_write_all s buf c = Some (s1, c1, r) /\
    con_calls c1 = con_calls c ++ new /\ con_flushes c1 = con_flushes c /\
    ((r = ROk /\ s1 = mkWS p' cap' /\ accepted_col new = runs_col its /\ accepted new = runs_bytes its)
     \/ (exists k, r = RErr k /\
           (exists rest, accepted_col new ++ rest = runs_col its) /\
           (exists rest, accepted new ++ rest = runs_bytes its) /\
           err_from new k)).
Proof.
  intros s buf c Hwf Hbs.
  destruct (write_all_feed s buf c Hwf Hbs) as (its & p' & cap' & s1 & He & Hall & _ & Hw & Hs1).
  destruct (feed_runs_spec its c) as (new & A & B & _ & E).
  exists its, p', cap', s1, (fst (feed_runs its c)), (res_of (snd (feed_runs its c))), new.
  split; [exact He|]. split; [exact Hw|]. split; [exact A|]. split; [exact B|].
  destruct (snd (feed_runs its c)) as [u|k].
  - left. cbn [res_of]. split; [reflexivity|]. split; [apply (Hs1 u); reflexivity|].
    split; [exact E|]. rewrite <- accepted_col_bytes, <- runs_col_bytes, E. reflexivity.
  - right. exists k. cbn [res_of]. split; [reflexivity|]. destruct E as [[rs E1] E2].
    split; [exists rs; exact E1|]. split; [|exact E2].
    exists (map snd rs). rewrite <- accepted_col_bytes, <- runs_col_bytes, <- E1, map_app. reflexivity.
Qed.

(* ---- write: all or error ------------------------------------------------------------------ *)

Theorem write_reports_all_or_error : forall s buf c,
  ws_wf s -> bytes_lt buf ->
  exists its p' cap' s1 c1 r new,
    extract_next buf (ws_parser s) (ws_capture s) = Some (its, p', cap') /\
    wc_write s buf c = Some (s1, c1, r) /\
    con_calls c1 = con_calls c ++ new /\
    ((r = ROkN (N.of_nat (length buf)) /\ s1 = mkWS p' cap' /\
      accepted_col new = runs_col its /\ accepted new = runs_bytes its)
     \/ (exists k, r = RErr k /\ (exists rest, accepted new ++ rest = runs_bytes its) /\ err_from new k)).
Proof.
  intros s buf c Hwf Hbs.
  destruct (write_all_scripted s buf c Hwf Hbs)
    as (its & p' & cap' & s1 & c1 & r & new & He & Hw & A & _ & Hcase).
  unfold wc_write. rewrite Hw.
  destruct Hcase as [(-> & H1 & H2 & H3) | (k & -> & _ & H2 & H3)].
  - exists its, p', cap', s1, c1, (ROkN (N.of_nat (length buf))), new.
    split; [exact He|]. split; [reflexivity|]. split; [exact A|]. left. auto.
  - exists its, p', cap', s1, c1, (RErr k), new.
    split; [exact He|]. split; [reflexivity|]. split; [exact A|]. right. exists k. auto.
Qed.

(* write never reports a partial count *)
Corollary write_never_partial : forall s buf c s1 c1 n,
  ws_wf s -> bytes_lt buf -> wc_write s buf c = Some (s1, c1, ROkN n) -> n = N.of_nat (length buf).
Proof.
  intros s buf c s1 c1 n Hwf Hbs H.
  destruct (write_reports_all_or_error s buf c Hwf Hbs)
    as (its & p' & cap' & s2 & c2 & r & new & _ & Hw & _ & Hcase).
  rewrite Hw in H. inversion H; subst.
  destruct Hcase as [(E & _) | (k & E & _)]; [inversion E; reflexivity | discriminate E].
Qed.

(* ---- write_vectored, write_fmt --------------------------------------------------------------- *)

Lemma vectored_is_write : forall s c bufs,
  wc_op s c (OWriteVectored bufs) = wc_write s (first_nonempty bufs) c.
Proof. reflexivity. Qed.

(* every operation keeps the stream state well-formed -- also after an error *)
Lemma write_all_loop_wf : forall fuel bs p v cap c s1 c1 r,
  bytes_lt bs -> R p v ->
  wc_write_all_loop fuel bs p cap c = Some (s1, c1, r) -> ws_wf s1.
Proof.
  induction fuel as [|f IH]; intros bs p v cap c s1 c1 r Hbs HR H; [discriminate H|].
  cbn [wc_write_all_loop] in H. unfold wincon_next in H.
  destruct (wn_loop_spec bs p v (mkCap (c_style cap) (c_printable cap) None) Hbs HR eq_refl)
    as (bs0 & bs1 & p1 & cap1 & Hw & Hsplit & HR1 & _).
  rewrite Hw in H.
  assert (Hbs1 : bytes_lt bs1).
  { unfold bytes_lt in *. rewrite Hsplit in Hbs. apply Forall_app in Hbs. tauto. }
  destruct (c_printable cap1) as [|ch t].
  - inversion H; subst. eexists. exact HR1.
  - match type of H with context [wc_run_loop ?a ?b ?c ?d ?e] => destruct (wc_run_loop a b c d e) as [c2 r2] end.
    destruct r2 as [u|e].
    + eapply IH; eauto.
    + inversion H; subst. eexists. exact HR1.
Qed.

Lemma write_all_wf : forall s buf c s1 c1 r,
  ws_wf s -> bytes_lt buf -> wc_write_all s buf c = Some (s1, c1, r) -> ws_wf s1.
Proof.
  intros s buf c s1 c1 r [v HR] Hbs H. unfold wc_write_all in H.
  eapply write_all_loop_wf; eauto.
Qed.

(* write_fmt = write_all of the fragments one after the other, stopping at the
   first error; total *)
Fixpoint write_all_seq (s : wstream) (frags : list (list N)) (c : console)
  : option (wstream * console * sres) :=
  match frags with
  | [] => Some (s, c, ROk)
  | fr :: rest =>
      match wc_write_all s fr c with
      | Some (s1, c1, RErr e) => Some (s1, c1, RErr e)
      | Some (s1, c1, _) => write_all_seq s1 rest c1
      | None => None
      end
  end.

Lemma write_fmt_total : forall frags s c, ws_wf s -> bytes_lt (concat frags) ->
  exists s1 c1 r, wc_write_fmt s frags c = Some (s1, c1, r) /\ ws_wf s1 /\
                  (r = ROk \/ exists k, r = RErr k).
Proof.
  induction frags as [|fr rest IH]; intros s c Hwf Hbs.
  - exists s, c, ROk. cbn [wc_write_fmt]. auto.
  - cbn [concat] in Hbs. unfold bytes_lt in Hbs. apply Forall_app in Hbs. destruct Hbs as [Hb1 Hb2].
    destruct (write_all_scripted s fr c Hwf Hb1)
      as (its & p' & cap' & s1 & c1 & r & new & _ & Hw & _ & _ & Hcase).
    pose proof (write_all_wf s fr c s1 c1 r Hwf Hb1 Hw) as Hwf1.
    cbn [wc_write_fmt]. rewrite Hw.
    destruct Hcase as [(-> & _) | (k & -> & _)].
    + apply IH; assumption.
    + exists s1, c1, (RErr k). split; [reflexivity|]. split; [exact Hwf1|]. right. eauto.
Qed.

Lemma write_fmt_is_seq : forall frags s c, wc_write_fmt s frags c = write_all_seq s frags c.
Proof.
  induction frags as [|fr rest IH]; intros s c; [reflexivity|].
  cbn [wc_write_fmt write_all_seq].
  destruct (wc_write_all s fr c) as [[[s1 c1] r]|]; [|reflexivity].
  destruct r; try reflexivity; apply IH.
Qed.

(* ---- write_fmt over an accept-all console: the fragments' runs, one call each; as
        coloured bytes this is what write_all of the concatenation hands over ------------- *)

Lemma accepted_col_run_calls : forall rs, accepted_col (map run_call rs) = runs_col rs.
Proof.
  induction rs as [|[style txt] rs IH]; [reflexivity|].
  unfold accepted_col, runs_col in *. cbn [map flat_map]. rewrite IH. f_equal.
  unfold cc_accepted. cbn [run_call run_col cc_res cc_data cc_fg cc_bg].
  rewrite Nat2N.id, firstn_all. reflexivity.
Qed.

Lemma runs_col_flatten : forall rs,
  runs_col rs =
  flat_map (fun x => map (fun b => (cap_opt (s_fg (fst x)), cap_opt (s_bg (fst x)), b)) (utf8_encode (snd x)))
           (flatten rs).
Proof.
  induction rs as [|[style txt] rs IH]; [reflexivity|].
  change (flatten ((style, txt) :: rs)) with (map (pair style) txt ++ flatten rs).
  rewrite flat_map_app, <- IH.
  change (runs_col ((style, txt) :: rs)) with (run_col (style, txt) ++ runs_col rs).
  f_equal. cbn [run_col]. unfold str_bytes.
  induction txt as [|cp txt IHt]; [reflexivity|].
  cbn [flat_map map fst snd]. rewrite map_app, IHt. reflexivity.
Qed.

Lemma write_fmt_accept_all : forall frags s c,
  ws_wf s -> bytes_lt (concat frags) -> con_script c = [] ->
  exists itss p' cap',
    extract_chunks frags (ws_parser s) (ws_capture s) = Some (itss, p', cap') /\
    wc_write_fmt s frags c
      = Some (mkWS p' cap', mkCon [] (con_calls c ++ map run_call (concat itss)) (con_flushes c), ROk).
Proof.
  induction frags as [|fr rest IH]; intros s c Hwf Hbs Hs.
  - exists [], (ws_parser s), (ws_capture s). cbn [extract_chunks wc_write_fmt concat map].
    rewrite app_nil_r. destruct s, c. cbn in *. subst. split; reflexivity.
  - cbn [concat] in Hbs. unfold bytes_lt in Hbs. apply Forall_app in Hbs. destruct Hbs as [Hb1 Hb2].
    destruct (write_all_hands_over s fr c Hwf Hb1 Hs) as (its & p1 & cap1 & He & Hw).
    pose proof (write_all_wf _ _ _ _ _ _ Hwf Hb1 Hw) as Hwf1.
    destruct (IH (mkWS p1 cap1) (mkCon [] (con_calls c ++ map run_call its) (con_flushes c)) Hwf1 Hb2 eq_refl)
      as (itss & p' & cap' & Hc & Hf).
    cbn [ws_parser ws_capture con_calls con_flushes] in Hc, Hf.
    exists (its :: itss), p', cap'. cbn [extract_chunks wc_write_fmt]. rewrite He, Hc, Hw, Hf.
    split; [reflexivity|]. cbn [concat]. rewrite map_app, app_assoc. reflexivity.
Qed.

Theorem write_fmt_hands_over : forall frags s c,
  ws_wf s -> c_printable (ws_capture s) = [] -> c_ready (ws_capture s) = None ->
  bytes_lt (concat frags) -> con_script c = [] ->
  exists itss its p' cap' c1,
    extract_chunks frags (ws_parser s) (ws_capture s) = Some (itss, p', cap') /\
    extract_next (concat frags) (ws_parser s) (ws_capture s) = Some (its, p', cap') /\
    wc_write_fmt s frags c = Some (mkWS p' cap', c1, ROk) /\
    con_calls c1 = con_calls c ++ map run_call (concat itss) /\
    accepted_col (map run_call (concat itss)) = runs_col its.
Proof.
  intros frags s c [v HR] Hpr Hrd Hbs Hs.
  destruct (wincon_chunked_from frags _ v _ Hbs HR Hpr Hrd) as (itss & its & p' & cap' & Hc & He & Hfl & _).
  destruct (write_fmt_accept_all frags s c (ex_intro _ v HR) Hbs Hs) as (itss2 & p2 & cap2 & Hc2 & Hw).
  rewrite Hc in Hc2. inversion Hc2; subst itss2 p2 cap2.
  eexists itss, its, p', cap', _. split; [exact Hc|]. split; [exact He|]. split; [exact Hw|].
  cbn [con_calls]. split; [reflexivity|].
  rewrite accepted_col_run_calls, !runs_col_flatten, Hfl. reflexivity.
Qed.

(* ---- no escape byte reaches the console, whatever the operations ------------------------- *)

Definition ws_clean (s : wstream) : Prop :=
  (exists v, R (ws_parser s) v /\ uni_ok v) /\ Forall byte_clean (c_printable (ws_capture s)).

Definition call_clean (cc : ccall) : Prop := Forall byte_clean (cc_data cc).

Definition op_bytes_lt (o : sop) : Prop :=
  match o with
  | OWrite b | OWriteAll b => bytes_lt b
  | OWriteVectored bufs | OWriteFmt bufs => Forall bytes_lt bufs
  | OFlush => True
  end.

Lemma ws_new_clean : ws_clean ws_new.
Proof. split; [exists vt_init; split; [exact R_init | exact I] | constructor]. Qed.

Lemma ws_clean_wf s : ws_clean s -> ws_wf s.
Proof. intros [(v & HR & _) _]. exists v. exact HR. Qed.

Lemma write_all_loop_clean : forall fuel bs p v cap c s1 c1 r,
  bytes_lt bs -> R p v -> uni_ok v ->
  wc_write_all_loop fuel bs p cap c = Some (s1, c1, r) ->
  (exists v', R (ws_parser s1) v' /\ uni_ok v') /\ c_printable (ws_capture s1) = [].
Proof.
  induction fuel as [|f IH]; intros bs p v cap c s1 c1 r Hbs HR Hu H; [discriminate H|].
  cbn [wc_write_all_loop] in H. unfold wincon_next in H.
  destruct (wn_loop_spec bs p v (mkCap (c_style cap) (c_printable cap) None) Hbs HR eq_refl)
    as (bs0 & bs1 & p1 & cap1 & Hw & Hsplit & HR1 & _).
  rewrite Hw in H.
  assert (Hbs01 : bytes_lt bs0 /\ bytes_lt bs1).
  { unfold bytes_lt in *. rewrite Hsplit in Hbs. apply Forall_app in Hbs. exact Hbs. }
  destruct Hbs01 as [Hbs0 Hbs1].
  destruct (run_ev_ok bs0 v Hbs0 Hu) as [_ Hu1].
  destruct (c_printable cap1) as [|ch t] eqn:Hpr.
  - inversion H; subst. cbn [ws_parser ws_capture]. split; [eauto | exact Hpr].
  - match type of H with context [wc_run_loop ?a ?b ?c ?d ?e] => destruct (wc_run_loop a b c d e) as [c2 r2] end.
    destruct r2 as [u|e].
    + eapply IH; eauto.
    + inversion H; subst. cbn [ws_parser ws_capture c_printable]. split; [eauto | reflexivity].
Qed.

Lemma suffix_clean : forall (pre data : list N), Forall byte_clean (pre ++ data) -> Forall byte_clean data.
Proof. intros pre data H. apply Forall_app in H. tauto. Qed.

Lemma write_all_clean : forall s buf c s1 c1 r,
  ws_clean s -> bytes_lt buf -> Forall call_clean (con_calls c) ->
  wc_write_all s buf c = Some (s1, c1, r) ->
  ws_clean s1 /\ Forall call_clean (con_calls c1).
Proof.
  intros s buf c s1 c1 r Hcl Hbs Hcalls H.
  destruct Hcl as [(v & HR & Hu) Hpr]. split.
  - unfold wc_write_all in H.
    destruct (write_all_loop_clean _ _ _ _ _ _ _ _ _ Hbs HR Hu H) as [A B].
    split; [exact A | rewrite B; constructor].
  - destruct (runs_clean_from buf _ v _ Hbs HR Hu Hpr) as (its & p' & cap' & He & Hclean & _).
    destruct (write_all_feed s buf c (ex_intro _ v HR) Hbs) as (its2 & p2 & cap2 & s2 & He2 & _ & _ & Hw & _).
    rewrite He in He2. inversion He2; subst its2 p2 cap2.
    rewrite Hw in H. inversion H; subst.
    destruct (feed_runs_spec its c) as (new & A & _ & D & _).
    rewrite A. apply Forall_app. split; [exact Hcalls|].
    eapply Forall_impl; [|exact D]. cbv beta. intros cc (rn & pre & Hin & _ & _ & Hd).
    unfold call_clean. apply (suffix_clean pre). rewrite <- Hd.
    rewrite Forall_forall in Hclean. apply (Hclean rn Hin).
Qed.

Lemma first_nonempty_lt : forall bufs, Forall bytes_lt bufs -> bytes_lt (first_nonempty bufs).
Proof.
  induction bufs as [|b bufs IH]; intros H; [constructor|].
  inversion H; subst. destruct b; cbn [first_nonempty]; [apply IH; assumption | assumption].
Qed.

Lemma write_clean : forall s buf c s1 c1 r,
  ws_clean s -> bytes_lt buf -> Forall call_clean (con_calls c) ->
  wc_write s buf c = Some (s1, c1, r) ->
  ws_clean s1 /\ Forall call_clean (con_calls c1).
Proof.
  intros s buf c s1 c1 r Hcl Hbs Hcalls H. unfold wc_write in H.
  destruct (wc_write_all s buf c) as [[[s2 c2] r2]|] eqn:E; [|discriminate H].
  destruct (write_all_clean _ _ _ _ _ _ Hcl Hbs Hcalls E) as [A B].
  destruct r2; inversion H; subst; split; assumption.
Qed.

Lemma write_fmt_clean : forall frags s c s1 c1 r,
  ws_clean s -> Forall bytes_lt frags -> Forall call_clean (con_calls c) ->
  wc_write_fmt s frags c = Some (s1, c1, r) ->
  ws_clean s1 /\ Forall call_clean (con_calls c1).
Proof.
  induction frags as [|fr rest IH]; intros s c s1 c1 r Hcl Hbs Hcalls H; cbn [wc_write_fmt] in H.
  - inversion H; subst. split; assumption.
  - inversion Hbs as [|? ? Hb1 Hb2]; subst.
    destruct (wc_write_all s fr c) as [[[s2 c2] r2]|] eqn:E; [|discriminate H].
    destruct (write_all_clean _ _ _ _ _ _ Hcl Hb1 Hcalls E) as [A B].
    destruct r2; try (eapply IH; eassumption).
    inversion H; subst. split; assumption.
Qed.

Theorem ops_no_escape : forall ops s c s1 c1 rs,
  ws_clean s -> Forall op_bytes_lt ops -> Forall call_clean (con_calls c) ->
  wc_run_ops s c ops = Some (s1, c1, rs) ->
  ws_clean s1 /\ Forall call_clean (con_calls c1).
Proof.
  induction ops as [|o ops IH]; intros s c s1 c1 rs Hcl Hops Hcalls H; cbn [wc_run_ops] in H.
  - inversion H; subst. split; assumption.
  - inversion Hops as [|? ? Ho Hrest]; subst.
    destruct (wc_op s c o) as [[[s2 c2] r2]|] eqn:E; [|discriminate H].
    assert (Hstep : ws_clean s2 /\ Forall call_clean (con_calls c2)).
    { destruct o; cbn [wc_op op_bytes_lt] in E, Ho.
      - eapply write_clean; eassumption.
      - eapply write_all_clean; eassumption.
      - eapply write_clean; [exact Hcl | apply first_nonempty_lt, Ho | exact Hcalls | exact E].
      - eapply write_fmt_clean; eassumption.
      - inversion E; subst. cbn [con_calls]. split; assumption. }
    destruct Hstep as [A B].
    destruct (wc_run_ops s2 c2 ops) as [[[s3 c3] rs3]|] eqn:E2; [|discriminate H].
    inversion H; subst. eapply IH; eassumption.
Qed.

Corollary stream_no_escape : forall script ops s1 c1 rs,
  Forall op_bytes_lt ops ->
  wc_run_ops ws_new (console_of script) ops = Some (s1, c1, rs) ->
  Forall call_clean (con_calls c1).
Proof.
  intros script ops s1 c1 rs Hops H.
  apply (ops_no_escape ops ws_new (console_of script) s1 c1 rs ws_new_clean Hops (Forall_nil _) H).
Qed.

(* ---- totality: no sequence of operations reaches a panic ------------------------------------ *)

Theorem ops_total : forall ops s c,
  ws_wf s -> Forall op_bytes_lt ops ->
  exists s1 c1 rs, wc_run_ops s c ops = Some (s1, c1, rs) /\ ws_wf s1.
Proof.
  induction ops as [|o ops IH]; intros s c Hwf Hops; cbn [wc_run_ops].
  - exists s, c, []. split; [reflexivity | exact Hwf].
  - inversion Hops as [|? ? Ho Hrest]; subst.
    assert (Hstep : exists s2 c2 r2, wc_op s c o = Some (s2, c2, r2) /\ ws_wf s2).
    { destruct o; cbn [wc_op op_bytes_lt] in *.
      - destruct (write_all_scripted s buf c Hwf Ho) as (_ & _ & _ & s2 & c2 & r2 & _ & _ & Hw & _).
        pose proof (write_all_wf _ _ _ _ _ _ Hwf Ho Hw) as Hwf2.
        unfold wc_write. rewrite Hw. destruct r2; eauto.
      - destruct (write_all_scripted s buf c Hwf Ho) as (_ & _ & _ & s2 & c2 & r2 & _ & _ & Hw & _).
        pose proof (write_all_wf _ _ _ _ _ _ Hwf Ho Hw) as Hwf2. eauto.
      - pose proof (first_nonempty_lt bufs Ho) as Hb.
        destruct (write_all_scripted s _ c Hwf Hb) as (_ & _ & _ & s2 & c2 & r2 & _ & _ & Hw & _).
        pose proof (write_all_wf _ _ _ _ _ _ Hwf Hb Hw) as Hwf2.
        unfold wc_write. rewrite Hw. destruct r2; eauto.
      - assert (Hb : bytes_lt (concat frags)).
        { clear -Ho. induction Ho; cbn [concat]; [constructor | apply Forall_app; split; assumption]. }
        destruct (write_fmt_total frags s c Hwf Hb) as (s2 & c2 & r2 & Hw & Hwf2 & _). eauto.
      - eauto. }
    destruct Hstep as (s2 & c2 & r2 & E & Hwf2). rewrite E.
    destruct (IH s2 c2 Hwf2 Hrest) as (s3 & c3 & rs & E3 & Hwf3). rewrite E3. eauto.
Qed.
