(* Proofs/VtFacts.v -- finite facts about the by-range transition function
   [Spec/Vt.vt_trans] (14 states x 256 bytes, complete enumeration in the kernel):
   which states read the bookkeeping, and that every path into such a state passes
   an entry action that clears it.  Spec only: nothing here refers to Model/. *)
From Coq Require Import NArith List Bool Lia.
From AV Require Import Spec.Utf8 Spec.Vt Model.Base Proofs.TableFacts.
Import ListNotations.
Local Open Scope N_scope.

Definition all_vstates : list vstate :=
  [VGround; VEscape; VEscInt; VCsiEntry; VCsiParam; VCsiInt; VCsiIgnore;
   VDcsEntry; VDcsParam; VDcsInt; VDcsPass; VDcsIgnore; VOsc; VSos].

Lemma all_vstates_In : forall v, In v all_vstates.
Proof. intros []; cbn; tauto. Qed.

Lemma forall_vstates_bytes (P : vstate -> N -> bool) :
  forallb (fun v => forallb (P v) all_bytes) all_vstates = true ->
  forall v b, b < 256 -> P v b = true.
Proof.
  intros H v b Hb. rewrite forallb_forall in H.
  pose proof (H v (all_vstates_In v)) as Hv. cbv beta in Hv.
  now apply (forall_bytes _ Hv).
Qed.

(* the states whose actions / outgoing entry actions read the bookkeeping
   (intermediates, flag, parameter groups, pending value) *)
Definition reads (v : vstate) : bool :=
  match v with
  | VEscape | VEscInt | VCsiEntry | VCsiParam | VCsiInt | VDcsEntry | VDcsParam | VDcsInt => true
  | _ => false
  end.

(* the states whose entry action clears the bookkeeping *)
Definition clears (v : vstate) : bool :=
  match v with VEscape | VCsiEntry | VDcsEntry => true | _ => false end.

(* actions that read or write the bookkeeping *)
Definition needs_book (a : vact) : bool :=
  match a with TCollect | TParam | TEscDispatch | TCsiDispatch => true | _ => false end.

Definition is_dispatch (a : vact) : bool :=
  match a with TEscDispatch | TCsiDispatch => true | _ => false end.

Definition trans_ok (v : vstate) (b : N) : bool :=
  let '(tgt, a) := vt_trans v b in
  (* bookkeeping actions only in reading states *)
  implb (needs_book a) (reads v)
  (* a parameter action only on 0-9 : ; *)
  && implb (vact_eqb a TParam) (in_range 48 59 b)
  (* OSC payload only in the OSC state *)
  && implb (vact_eqb a TOscPut) (vstate_eqb v VOsc)
  (* a dispatch always returns to Ground *)
  && implb (is_dispatch a) (opt_vstate_eqb tgt (Some VGround))
  (* a multi-byte character starts only in Ground, without a transition, on a lead byte *)
  && implb (vact_eqb a TUtf8)
       (vstate_eqb v VGround && opt_vstate_eqb tgt None
        && match utf8_lead b with Some _ => true | None => false end)
  (* a reading state that does not clear, and DCS passthrough (whose entry action
     reports the parameters), are entered only from reading states *)
  && match tgt with
     | Some t => implb ((reads t && negb (clears t)) || vstate_eqb t VDcsPass)
                       (reads v && negb (is_dispatch a))
     | None => true
     end.

Lemma trans_ok_all :
  forallb (fun v => forallb (trans_ok v) all_bytes) all_vstates = true.
Proof. vm_compute. reflexivity. Qed.

Lemma trans_ok_holds : forall v b, b < 256 -> trans_ok v b = true.
Proof. exact (forall_vstates_bytes _ trans_ok_all). Qed.

Record trans_facts (v : vstate) (b : N) : Prop := {
  tf_book : needs_book (snd (vt_trans v b)) = true -> reads v = true;
  tf_param : snd (vt_trans v b) = TParam -> 48 <= b <= 59;
  tf_oscput : snd (vt_trans v b) = TOscPut -> v = VOsc;
  tf_dispatch : is_dispatch (snd (vt_trans v b)) = true -> fst (vt_trans v b) = Some VGround;
  tf_utf8 : snd (vt_trans v b) = TUtf8 ->
            v = VGround /\ fst (vt_trans v b) = None /\ exists u, utf8_lead b = Some u;
  tf_enter : forall t, fst (vt_trans v b) = Some t ->
             (reads t = true /\ clears t = false) \/ t = VDcsPass ->
             reads v = true /\ is_dispatch (snd (vt_trans v b)) = false
}.

Lemma vt_trans_facts : forall v b, b < 256 -> trans_facts v b.
Proof.
  intros v b Hb. pose proof (trans_ok_holds v b Hb) as H. unfold trans_ok in H.
  destruct (vt_trans v b) as [tgt a] eqn:E.
  repeat rewrite andb_true_iff in H.
  destruct H as [[[[[H1 H2] H3] H4] H5] H6].
  constructor; rewrite ?E; cbn [fst snd].
  - intros Hn. rewrite Hn in H1. exact H1.
  - intros ->. cbn in H2. unfold in_range in H2. apply andb_true_iff in H2.
    destruct H2 as [A B]. apply N.leb_le in A, B. lia.
  - intros ->. cbn in H3. now apply vstate_eqb_eq in H3.
  - intros Hd. rewrite Hd in H4. cbn in H4.
    destruct tgt as [t|]; [|discriminate]. cbn in H4. apply vstate_eqb_eq in H4. now subst.
  - intros ->. cbn in H5. repeat rewrite andb_true_iff in H5. destruct H5 as [[A B] C].
    apply vstate_eqb_eq in A. destruct tgt; [discriminate|].
    destruct (utf8_lead b) as [u|]; [|discriminate]. eauto.
  - intros t ->. intros Ht.
    assert (Hc : (reads t && negb (clears t)) || vstate_eqb t VDcsPass = true).
    { destruct Ht as [[A B]| ->]; [rewrite A, B; reflexivity | apply orb_true_r]. }
    rewrite Hc in H6. cbn in H6. apply andb_true_iff in H6. destruct H6 as [A B].
    split; [exact A | now apply negb_true_iff in B].
Qed.

(* OSC payload bytes never leave the OSC state *)
Definition oscput_stays (v : vstate) (b : N) : bool :=
  let '(tgt, a) := vt_trans v b in implb (vact_eqb a TOscPut) (opt_vstate_eqb tgt None).

Lemma oscput_stays_all :
  forallb (fun v => forallb (oscput_stays v) all_bytes) all_vstates = true.
Proof. vm_compute. reflexivity. Qed.

Lemma vt_trans_oscput_stays : forall v b, b < 256 ->
  snd (vt_trans v b) = TOscPut -> fst (vt_trans v b) = None.
Proof.
  intros v b Hb. pose proof (forall_vstates_bytes _ oscput_stays_all v b Hb) as H.
  unfold oscput_stays in H. destruct (vt_trans v b) as [tgt a]. cbn [fst snd].
  intros ->. cbn in H. destruct tgt; [discriminate | reflexivity].
Qed.
