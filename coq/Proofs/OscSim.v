(* Proofs/OscSim.v -- the OSC bookkeeping of lib.rs (`osc_raw`, 16 (start,end)
   pairs, `osc_num_params`) against the abstract payload of Spec/Vt: the recorded
   ranges always lie inside `osc_raw`, and the dispatched slices are the first 16
   fields of the payload split at ';'. *)
From Coq Require Import NArith List Bool Lia Arith.
From AV Require Import Generated.Table Spec.Vt Model.Base Model.Parser Proofs.ParamsSim.
Import ListNotations.
Local Open Scope N_scope.

(* ---- a snoc-friendly reading of [split_on] -------------------------------- *)

(* (fields already closed, field being built) *)
Definition osc_step (st : list (list N) * list N) (b : N) : list (list N) * list N :=
  if b =? 59 then (fst st ++ [snd st], []) else (fst st, snd st ++ [b]).

Definition osc_split (payload : list N) : list (list N) * list N :=
  fold_left osc_step payload ([], []).

Lemma split_on_fold : forall bs d acc,
  d ++ split_on 59 acc bs = fst (fold_left osc_step bs (d, acc)) ++ [snd (fold_left osc_step bs (d, acc))].
Proof.
  induction bs as [|b bs IH]; intros d acc; cbn [split_on fold_left]; [reflexivity|].
  unfold osc_step at 2 4. cbn [fst snd]. destruct (b =? 59).
  - rewrite <- IH, <- app_assoc. reflexivity.
  - apply IH.
Qed.

Lemma osc_fields_split : forall payload,
  osc_fields payload = firstn 16 (fst (osc_split payload) ++ [snd (osc_split payload)]).
Proof.
  intros payload. unfold osc_fields, osc_split. rewrite <- split_on_fold. reflexivity.
Qed.

Lemma osc_split_snoc : forall payload b, osc_split (payload ++ [b]) = osc_step (osc_split payload) b.
Proof. intros. unfold osc_split. rewrite fold_left_app. reflexivity. Qed.

(* ---- the representation --------------------------------------------------- *)

Record osc_ok (p : parser) (payload : list N) : Prop := {
  oo_len : length (osc_params p) = 16%nat;
  oo_num : osc_num_params p = N.of_nat (Nat.min (length (fst (osc_split payload))) 16);
  oo_raw : osc_raw p = concat (fst (osc_split payload)) ++ snd (osc_split payload);
  oo_par : forall i, (i < Nat.min (length (fst (osc_split payload))) 16)%nat ->
           nth_error (osc_params p) i =
           Some (N.of_nat (length (concat (firstn i (fst (osc_split payload))))),
                 N.of_nat (length (concat (firstn (S i) (fst (osc_split payload))))))
}.

(* entry action of OscString *)
Lemma osc_start_ok : forall p, length (osc_params p) = 16%nat ->
  osc_ok (set_osc p [] (osc_params p) 0) [].
Proof.
  intros p H. constructor; cbn; auto. intros i Hi. lia.
Qed.

(* a payload byte other than ';' *)
Lemma osc_put_other_ok : forall p payload b, osc_ok p payload -> b <> 59 ->
  osc_ok (set_osc p (osc_raw p ++ [b]) (osc_params p) (osc_num_params p)) (payload ++ [b]).
Proof.
  intros p payload b [Hl Hn Hr Hp] Hb.
  assert (E : osc_split (payload ++ [b]) = (fst (osc_split payload), snd (osc_split payload) ++ [b])).
  { rewrite osc_split_snoc. unfold osc_step. apply N.eqb_neq in Hb. now rewrite Hb. }
  constructor; rewrite ?E; cbn [fst snd osc_params osc_num_params osc_raw set_osc]; auto.
  rewrite Hr, app_assoc. reflexivity.
Qed.

(* recording a ';' (also what OscEnd does before dispatching): the code shared by
   the two places in lib.rs *)
Definition osc_semi (p : parser) : option parser :=
  let param_idx := osc_num_params p in
  let idx := N.of_nat (length (osc_raw p)) in
  if param_idx =? MAX_OSC_PARAMS then Some p
  else if param_idx =? 0 then
    ops <- aset (osc_params p) param_idx (0, idx) ;;
    Some (set_osc p (osc_raw p) ops (param_idx + 1))
  else
    pi <- csub param_idx 1 ;;
    '(_, begin) <- aget (osc_params p) pi ;;
    ops <- aset (osc_params p) param_idx (begin, idx) ;;
    Some (set_osc p (osc_raw p) ops (param_idx + 1)).

Lemma firstn_snoc_le : forall A (l : list A) x i, (i <= length l)%nat -> firstn i (l ++ [x]) = firstn i l.
Proof.
  intros A l x i Hi. rewrite firstn_app. replace (i - length l)%nat with 0%nat by lia.
  cbn [firstn]. apply app_nil_r.
Qed.

Lemma osc_semi_ok : forall p payload, osc_ok p payload ->
  exists ops n, osc_semi p = Some (set_osc p (osc_raw p) ops n)
                /\ osc_ok (set_osc p (osc_raw p) ops n) (payload ++ [59]).
Proof.
  intros p payload [Hl Hn Hr Hp].
  assert (E : osc_split (payload ++ [59]) = (fst (osc_split payload) ++ [snd (osc_split payload)], [])).
  { rewrite osc_split_snoc. reflexivity. }
  set (d := fst (osc_split payload)) in *. set (c := snd (osc_split payload)) in *.
  unfold osc_semi. change MAX_OSC_PARAMS with 16.
  destruct (N.eqb_spec (osc_num_params p) 16) as [H16|H16].
  - (* table full: nothing recorded *)
    exists (osc_params p), (osc_num_params p).
    replace (set_osc p (osc_raw p) (osc_params p) (osc_num_params p)) with p by (destruct p; reflexivity).
    split; [reflexivity|].
    assert (Hd : (16 <= length d)%nat) by lia.
    constructor; rewrite ?E; cbn [fst snd]; auto.
    + rewrite Hn, app_length. cbn [length]. f_equal. lia.
    + rewrite Hr, concat_app. cbn [concat]. now rewrite !app_nil_r.
    + intros i Hi. rewrite app_length in Hi. cbn [length] in Hi.
      rewrite !firstn_snoc_le by lia. apply Hp. lia.
  - assert (Hd : (length d < 16)%nat) by lia.
    assert (Hnum : osc_num_params p = N.of_nat (length d)) by (rewrite Hn; f_equal; lia).
    destruct (aset_nat_some (osc_params p) (length d)
                (N.of_nat (length (concat d)), N.of_nat (length (osc_raw p)))) as [ops Hops]; [lia|].
    exists ops, (osc_num_params p + 1).
    assert (Hres : osc_ok (set_osc p (osc_raw p) ops (osc_num_params p + 1)) (payload ++ [59])).
    { constructor; rewrite ?E; cbn [fst snd osc_params osc_num_params osc_raw set_osc].
      - rewrite (aset_nat_length _ _ _ _ Hops). exact Hl.
      - rewrite Hnum, app_length. cbn [length]. lia.
      - rewrite Hr, concat_app. cbn [concat]. now rewrite !app_nil_r.
      - intros i Hi. rewrite app_length in Hi. cbn [length] in Hi.
        destruct (Nat.eq_dec i (length d)) as [->|Hne].
        + rewrite (aset_nat_nth_eq _ _ _ _ Hops).
          rewrite firstn_snoc_le by lia. rewrite firstn_all.
          rewrite firstn_all2 by (rewrite app_length; cbn [length]; lia).
          rewrite Hr, concat_app. cbn [concat]. rewrite app_nil_r. reflexivity.
        + rewrite (aset_nat_nth_neq _ _ _ _ i Hops Hne).
          rewrite !firstn_snoc_le by lia. apply Hp. lia. }
    split; [|exact Hres].
    destruct (N.eqb_spec (osc_num_params p) 0) as [H0|H0].
    + assert (Hd0 : length d = 0%nat) by lia.
      destruct d as [|? ?]; [|discriminate]. cbn [concat length N.of_nat] in Hops.
      unfold aset. rewrite H0. cbn [N.to_nat]. cbn [length] in Hops. rewrite Hops. reflexivity.
    + unfold csub. destruct (N.leb_spec 1 (osc_num_params p)); [|lia].
      unfold aget. replace (N.to_nat (osc_num_params p - 1)) with (length d - 1)%nat by lia.
      rewrite Hp by lia. replace (S (length d - 1)) with (length d) by lia. rewrite firstn_all.
      unfold aset. rewrite Hnum, Nat2N.id, Hops. reflexivity.
Qed.

(* ---- dispatch ------------------------------------------------------------- *)

Lemma slice_middle : forall (A : Type) (x g r : list A),
  slice (x ++ g ++ r) (N.of_nat (length x)) (N.of_nat (length x + length g)) = Some g.
Proof.
  intros A x g r. unfold slice.
  destruct (N.leb_spec (N.of_nat (length x)) (N.of_nat (length x + length g))); [|lia].
  destruct (N.leb_spec (N.of_nat (length x + length g)) (N.of_nat (length (x ++ g ++ r)))) as [_|H2].
  2:{ rewrite !app_length in H2. lia. }
  cbn [andb]. f_equal.
  replace (N.to_nat (N.of_nat (length x + length g) - N.of_nat (length x))) with (length g) by lia.
  rewrite Nat2N.id, skipn_app, skipn_all, Nat.sub_diag. cbn [skipn app].
  rewrite firstn_app, firstn_all, Nat.sub_diag. cbn [firstn]. apply app_nil_r.
Qed.

Lemma nth_error_split_firstn : forall (A : Type) (l : list A) i x,
  nth_error l i = Some x -> firstn (S i) l = firstn i l ++ [x] /\ l = firstn i l ++ x :: skipn (S i) l.
Proof.
  induction l as [|h t IH]; intros i x H; destruct i as [|i]; cbn [nth_error] in H; try discriminate.
  - injection H as ->. split; reflexivity.
  - destruct (IH _ _ H) as [E1 E2]. split.
    + change (firstn (S (S i)) (h :: t)) with (h :: firstn (S i) t). rewrite E1. reflexivity.
    + cbn [firstn skipn app]. f_equal. exact E2.
Qed.

Lemma slice_field : forall (d : list (list N)) c i g,
  nth_error d i = Some g ->
  slice (concat d ++ c) (N.of_nat (length (concat (firstn i d))))
        (N.of_nat (length (concat (firstn (S i) d)))) = Some g.
Proof.
  intros d c i g H. destruct (nth_error_split_firstn _ _ _ _ H) as [E1 E2].
  rewrite E1. rewrite concat_app, app_length. cbn [concat]. rewrite app_nil_r.
  rewrite E2 at 1. rewrite concat_app. cbn [concat]. rewrite <- !app_assoc.
  apply slice_middle.
Qed.

Lemma osc_slices_spec : forall fs fuel p i,
  (length fs <= fuel)%nat ->
  osc_num_params p = i + N.of_nat (length fs) ->
  (forall k f, nth_error fs k = Some f ->
     exists a b, aget (osc_params p) (i + N.of_nat k) = Some (a, b) /\ slice (osc_raw p) a b = Some f) ->
  osc_slices fuel p i = Some fs.
Proof.
  induction fs as [|f0 fs IH]; intros fuel p i Hf Hn Hk.
  - cbn [length] in Hn. destruct fuel; cbn [osc_slices]; [reflexivity|].
    destruct (N.leb_spec (osc_num_params p) i); [reflexivity | lia].
  - cbn [length] in Hf, Hn. destruct fuel as [|fuel]; [lia|]. cbn [osc_slices].
    destruct (N.leb_spec (osc_num_params p) i); [lia|].
    destruct (Hk 0%nat f0 eq_refl) as (a & b & Ha & Hs). cbn [N.of_nat] in Ha. rewrite N.add_0_r in Ha.
    rewrite Ha, Hs. rewrite (IH fuel p (i + 1)); [reflexivity | lia | lia |].
    intros k f Hkf. destruct (Hk (S k) f Hkf) as (a' & b' & Ha' & Hs').
    exists a', b'. split; [|exact Hs'].
    replace (i + 1 + N.of_nat k) with (i + N.of_nat (S k)) by lia. exact Ha'.
Qed.

Lemma osc_dispatch_ok : forall p payload b, osc_ok p payload ->
  osc_dispatch p b = Some [EOsc (firstn 16 (fst (osc_split payload))) (b =? 7)].
Proof.
  intros p payload b [Hl Hn Hr Hp]. set (d := fst (osc_split payload)) in *.
  unfold osc_dispatch. change MAX_OSC_PARAMS with 16.
  destruct (N.ltb_spec 16 (osc_num_params p)); [lia|].
  change (N.to_nat 16) with 16%nat.
  rewrite (osc_slices_spec (firstn 16 d) 16 p 0); [reflexivity | | | ].
  - rewrite firstn_length. lia.
  - rewrite Hn, firstn_length. lia.
  - intros k f Hk.
    assert (Hlt : (k < Nat.min (length d) 16)%nat).
    { assert (Hk' : (k < length (firstn 16 d))%nat) by (apply nth_error_Some; rewrite Hk; discriminate).
      rewrite firstn_length in Hk'. lia. }
    assert (Hd : nth_error d k = Some f).
    { rewrite <- Hk. symmetry. rewrite <- (firstn_skipn 16 d) at 2.
      rewrite nth_error_app1; [reflexivity|]. rewrite firstn_length. lia. }
    eexists _, _. split.
    + unfold aget. cbn [N.add]. rewrite Nat2N.id. apply Hp. exact Hlt.
    + rewrite Hr. apply slice_field. exact Hd.
Qed.

(* exit action of OscString: record the open field, then dispatch *)
Lemma osc_end_ok : forall p payload b, osc_ok p payload ->
  exists ops n, osc_semi p = Some (set_osc p (osc_raw p) ops n)
    /\ length ops = 16%nat
    /\ osc_dispatch (set_osc p (osc_raw p) ops n) b = Some [EOsc (osc_fields payload) (b =? 7)].
Proof.
  intros p payload b H. destruct (osc_semi_ok p payload H) as (ops & n & Hs & Hok).
  exists ops, n. split; [exact Hs|]. split; [exact (oo_len _ _ Hok)|].
  rewrite (osc_dispatch_ok _ _ b Hok), osc_fields_split, osc_split_snoc. reflexivity.
Qed.
