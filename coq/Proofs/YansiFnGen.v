(* Proofs/YansiFnGen.v -- the RENDERING of a yansi::Style by the third-party crate yansi 1.0.1, translated
   from the pinned registry source (tools/gen_fn_yansi.py -> Generated/YansiFn.v), is (1) equal to the hand
   rendering [ya_render_bytes] -- no panic --, and (2) read back by the terminal model of C05 / C07
   (Spec/Vt + Spec/Sgr, from the default rendition) as exactly the meaning Spec/Targets.v assigns to the
   value; composed with the translated adapter: render (convert s) interprets to project(s). *)
From Coq Require Import NArith Arith List Bool Lia.
From AV Require Import Model.Base Model.Imp Model.YansiRender Generated.YansiFn.
From AV Require Import Spec.Vt Spec.Sgr Spec.Render Spec.Targets Proofs.Render.
Import ListNotations.
Local Open Scope N_scope.

(* ======================================================================== *)
(* 1. the hand rendering                                                      *)

Definition ya_all_attrs : list ya_attr :=
  [YaBold; YaDim; YaItalic; YaUnderline; YaBlink; YaRapidBlink; YaInvert; YaConceal; YaStrike].
Definition ya_attr_list (bits : N) : list ya_attr :=
  filter (fun a => N.testbit bits (ya_attr_disc a)) ya_all_attrs.
Definition ya_attr_code (a : ya_attr) : N := ya_attr_disc a + 1.
Definition ya_has (qs : N) (q : ya_quirk) : bool := N.testbit qs (ya_quirk_disc q).

Definition ya_base (c : ya_color) : N :=
  match c with
  | YaBlack => 30 | YaRed => 31 | YaGreen => 32 | YaYellow => 33 | YaBlue => 34 | YaMagenta => 35 | YaCyan => 36
  | YaWhite => 37 | YaFixed _ | YaRgb _ _ _ => 38 | YaPrimary => 39
  | YaBrightBlack => 90 | YaBrightRed => 91 | YaBrightGreen => 92 | YaBrightYellow => 93 | YaBrightBlue => 94
  | YaBrightMagenta => 95 | YaBrightCyan => 96 | YaBrightWhite => 97
  end.
Definition ya_vbase (v : ya_variant) (c : ya_color) : N := match v with YaFg => ya_base c | YaBg => ya_base c + 10 end.
(* the SGR parameters one colour contributes *)
Definition ya_color_codes (v : ya_variant) (c : ya_color) : list N :=
  match c with
  | YaFixed n => [ya_vbase v c; 5; n]
  | YaRgb r g b => [ya_vbase v c; 2; r; g; b]
  | _ => [ya_vbase v c]
  end.
Definition ya_bright (c : ya_color) : ya_color :=
  match c with
  | YaBlack => YaBrightBlack | YaRed => YaBrightRed | YaGreen => YaBrightGreen | YaYellow => YaBrightYellow
  | YaBlue => YaBrightBlue | YaMagenta => YaBrightMagenta | YaCyan => YaBrightCyan | YaWhite => YaBrightWhite
  | other => other
  end.
Definition ya_brighten (c : option ya_color) (b : bool) : option ya_color :=
  match c, b with Some c, true => Some (ya_bright c) | _, _ => c end.

(* items: one list of SGR parameters per attribute / colour, in the order yansi writes them *)
Definition ya_items (st : ya_style) : list (list N) :=
  map (fun a => [ya_attr_code a]) (ya_attr_list (ya_attrs st))
  ++ match ya_brighten (ya_bg st) (ya_has (ya_quirks st) YaOnBright) with Some c => [ya_color_codes YaBg c] | None => [] end
  ++ match ya_brighten (ya_fg st) (ya_has (ya_quirks st) YaBright) with Some c => [ya_color_codes YaFg c] | None => [] end.

Definition ya_item_bytes (codes : list N) : list N := rn_join 59 (map ya_dec codes).
(* what the AnsiSplicer produces: every item but the first is preceded by ';' *)
Fixpoint ya_spliced (flag : bool) (items : list (list N)) : list N :=
  match items with
  | [] => []
  | it :: rest => (if flag then [59] else []) ++ ya_item_bytes it ++ ya_spliced true rest
  end.

Definition ya_is_default (st : ya_style) : bool :=
  opt_eqb ya_color_eqb (ya_fg st) None && opt_eqb ya_color_eqb (ya_bg st) None && (ya_attrs st =? 0).

Definition ya_prefix (st : ya_style) : list N :=
  if ya_is_default st then [] else [27; 91] ++ ya_spliced false (ya_items st) ++ [109].
Definition ya_suffix (st : ya_style) : list N :=
  if negb (ya_has (ya_quirks st) YaResetting) && negb (ya_has (ya_quirks st) YaClear)
     && (ya_has (ya_quirks st) YaLinger || ya_is_default st)
  then [] else [27; 91; 48; 109].

(* the values the Rust types can hold and the API can build *)
Definition ya_color_ok (c : option ya_color) : Prop :=
  match c with
  | Some (YaFixed n) => n < 256
  | Some (YaRgb r g b) => r < 256 /\ g < 256 /\ b < 256
  | _ => True
  end.
Definition ya_style_ok (st : ya_style) : Prop :=
  ya_color_ok (ya_fg st) /\ ya_color_ok (ya_bg st) /\ ya_attrs st < 512.

(* ======================================================================== *)
(* 2. the translated functions are the hand rendering                         *)

Lemma g_ya_fg_base_eq c : g_ya_fg_base c = ya_base c.
Proof. destruct c; reflexivity. Qed.

Lemma g_ya_to_bright_eq c : g_ya_to_bright c = ya_bright c.
Proof. destruct c; reflexivity. Qed.

Lemma land_pow2_testbit k bits : (N.land (2 ^ k) bits =? 2 ^ k) = N.testbit bits k.
Proof.
  destruct (N.testbit bits k) eqn:E.
  - apply N.eqb_eq. apply N.bits_inj. intros j. rewrite N.land_spec, N.pow2_bits_eqb.
    destruct (N.eqb_spec k j) as [->|]; [now rewrite E|reflexivity].
  - apply N.eqb_neq. intros H. apply (f_equal (fun x => N.testbit x k)) in H.
    rewrite N.land_spec, N.pow2_bits_true, E in H. discriminate.
Qed.

Lemma g_ya_seta_contains_eq bits a : g_ya_seta_contains bits a = Some (N.testbit bits (ya_attr_disc a)).
Proof.
  unfold g_ya_seta_contains, g_ya_attr_sm_bit_mask, g_ya_attr_bit_mask, ya_set_f1.
  destruct a; cbn [ya_attr_disc]; vm_compute (ya_cshl _ _ _); cbv beta iota;
    match goal with |- context [N.land ?m bits] =>
      let k := eval vm_compute in (N.log2 m) in change m with (2 ^ k); rewrite land_pow2_testbit end; reflexivity.
Qed.

Lemma g_ya_setq_contains_eq qs q : g_ya_setq_contains qs q = Some (ya_has qs q).
Proof.
  unfold g_ya_setq_contains, g_ya_quirk_sm_bit_mask, g_ya_quirk_bit_mask, ya_set_f1, ya_has.
  destruct q; cbn [ya_quirk_disc]; vm_compute (ya_cshl _ _ _); cbv beta iota;
    match goal with |- context [N.land ?m qs] =>
      let k := eval vm_compute in (N.log2 m) in change m with (2 ^ k); rewrite land_pow2_testbit end; reflexivity.
Qed.

(* the attribute iterator, drained: exactly the set's members in declaration order *)
Definition ya_attr_list_dec (a b : option (list ya_attr)) : {a = b} + {a <> b}.
Proof. repeat decide equality. Defined.

Definition ya_drain_attrs (bits : N) : option (list ya_attr) :=
  iter_drain g_ya_iter_next (S (S (N.to_nat g_ya_attr_MAX_VALUE))) (g_ya_seta_iter bits).

Lemma ya_drain_all : forallb (fun bits => if ya_attr_list_dec (ya_drain_attrs bits) (Some (ya_attr_list bits)) then true else false)
                             (map N.of_nat (seq 0 512)) = true.
Proof. vm_compute. reflexivity. Qed.

Lemma ya_drain_attrs_eq bits : bits < 512 -> ya_drain_attrs bits = Some (ya_attr_list bits).
Proof.
  intros H. pose proof ya_drain_all as A. rewrite forallb_forall in A.
  specialize (A bits). destruct (ya_attr_list_dec (ya_drain_attrs bits) (Some (ya_attr_list bits))) as [E|]; [exact E|].
  assert (false = true); [|discriminate]. apply A. apply in_map_iff. exists (N.to_nat bits). split; [lia|].
  apply in_seq. lia.
Qed.

(* ---- the splicer's steps --------------------------------------------------- *)

Lemma g_ya_splicer_write_str_eq buf fl s :
  g_ya_splicer_write_str (mkYaSplicer buf fl) s = (mkYaSplicer (buf ++ s) fl, inl tt).
Proof. reflexivity. Qed.

Lemma g_ya_splice_eq buf fl :
  g_ya_splice (mkYaSplicer buf fl) = (mkYaSplicer (buf ++ (if fl then [59] else [])) true, inl tt).
Proof. destruct fl; cbn; [reflexivity|]. now rewrite app_nil_r. Qed.

Lemma g_ya_attr_fmt_eq a buf fl :
  g_ya_attr_fmt a (mkYaSplicer buf fl) = (mkYaSplicer (buf ++ ya_item_bytes [ya_attr_code a]) fl, inl tt).
Proof. destruct a; reflexivity. Qed.

Lemma ya_base_bound c : ya_base c <= 97.
Proof. destruct c; cbn; lia. Qed.

Lemma g_ya_color_fmt_eq c v buf fl :
  g_ya_color_fmt c (mkYaSplicer buf fl) v = Some (mkYaSplicer (buf ++ ya_item_bytes (ya_color_codes v c)) fl, inl tt).
Proof.
  unfold g_ya_color_fmt. rewrite g_ya_fg_base_eq.
  assert (Hc : cadd 8 (ya_base c) 10 = Some (ya_base c + 10)).
  { unfold cadd. pose proof (ya_base_bound c). change (2 ^ 8) with 256.
    destruct (N.ltb_spec (ya_base c + 10) 256); [reflexivity|lia]. }
  destruct v; cbn [ya_vbase]; rewrite ?Hc; cbv beta iota;
    destruct c; cbn [ya_color_codes ya_vbase ya_item_bytes map rn_join];
    rewrite ?g_ya_splicer_write_str_eq; cbv beta iota;
    rewrite ?g_ya_splicer_write_str_eq; cbv beta iota;
    repeat (rewrite g_ya_splicer_write_str_eq; cbv beta iota);
    repeat (rewrite <- app_assoc; cbn [app]); reflexivity.
Qed.

(* the loop over the attributes *)
Lemma ya_spliced_app fl a b :
  ya_spliced fl (a ++ b) = ya_spliced fl a ++ ya_spliced (fl || match a with [] => false | _ => true end) b.
Proof.
  revert fl. induction a as [|x t IH]; intros fl; cbn [app ya_spliced].
  - now rewrite orb_false_r.
  - rewrite IH, orb_true_r. destruct t; cbn [orb]; rewrite <- !app_assoc; reflexivity.
Qed.

Definition ya_nonempty {A} (l : list A) : bool := match l with [] => false | _ => true end.

Lemma ya_attr_loop (F : ya_attr -> ya_splicer -> option (lctl ya_splicer (ya_splicer * (unit + unit)))) :
  (forall a buf fl, F a (mkYaSplicer buf fl) =
      Some (LNext (mkYaSplicer (buf ++ (if fl then [59] else []) ++ ya_item_bytes [ya_attr_code a]) true))) ->
  forall l buf fl,
  for_list F l (mkYaSplicer buf fl) =
  Some (inl (mkYaSplicer (buf ++ ya_spliced fl (map (fun a => [ya_attr_code a]) l)) (fl || ya_nonempty l))).
Proof.
  intros HF. induction l as [|a t IH]; intros buf fl; cbn [for_list map ya_spliced ya_nonempty].
  - now rewrite app_nil_r, orb_false_r.
  - rewrite HF, IH, orb_true_r. cbn [orb]. rewrite <- !app_assoc. reflexivity.
Qed.

Lemma g_ya_style_eq_default st : g_ya_style_eq st g_ya_style_DEFAULT = ya_is_default st.
Proof. reflexivity. Qed.

(* one optional colour: `if let Some(color) = .. { f.splice()?; color.fmt(&mut f, variant)?; }` *)
Definition ya_ocolor_item (v : ya_variant) (c : option ya_color) : list (list N) :=
  match c with Some c => [ya_color_codes v c] | None => [] end.

Lemma g_ya_fmt_prefix_eq st f : ya_attrs st < 512 ->
  g_ya_fmt_prefix st f = Some (f ++ ya_prefix st, inl tt).
Proof.
  intros Hb. unfold g_ya_fmt_prefix, ya_prefix. rewrite g_ya_style_eq_default.
  destruct (ya_is_default st); [now rewrite app_nil_r|].
  cbv zeta. rewrite g_ya_splicer_write_str_eq. cbv beta iota.
  change (iter_drain g_ya_iter_next (S (S (N.to_nat g_ya_attr_MAX_VALUE))) (g_ya_seta_iter (ya_attrs st)))
    with (ya_drain_attrs (ya_attrs st)).
  rewrite (ya_drain_attrs_eq _ Hb).
  match goal with |- context [for_list ?F _ _] => rewrite (ya_attr_loop F) end.
  2:{ intros a buf fl. rewrite g_ya_splice_eq. cbv beta iota. rewrite g_ya_attr_fmt_eq. cbv beta iota.
      now rewrite <- app_assoc. }
  cbv beta iota. rewrite !g_ya_setq_contains_eq.
  unfold ya_items.
  set (A := map (fun a => [ya_attr_code a]) (ya_attr_list (ya_attrs st))).
  set (nb := ya_has (ya_quirks st) YaOnBright). set (nf := ya_has (ya_quirks st) YaBright).
  cbn [orb].
  assert (Hbr : forall c b, (match c, b with Some color1, true => Some (g_ya_to_bright color1) | _, _ => c end) = ya_brighten c b).
  { intros [c|] [|]; cbn [ya_brighten]; rewrite ?g_ya_to_bright_eq; reflexivity. }
  rewrite !Hbr.
  rewrite !ya_spliced_app.
  destruct (ya_brighten (ya_bg st) nb) as [cb|], (ya_brighten (ya_fg st) nf) as [cf|];
    cbn [ya_spliced ya_nonempty orb app];
    rewrite ?g_ya_splice_eq; cbv beta iota; rewrite ?g_ya_color_fmt_eq; cbv beta iota;
    rewrite ?g_ya_splice_eq; cbv beta iota; rewrite ?g_ya_color_fmt_eq; cbv beta iota;
    rewrite ?g_ya_splicer_write_str_eq; cbn [asp_f];
    rewrite ?orb_true_r, ?app_nil_r; repeat (rewrite <- app_assoc; cbn [app]); try reflexivity.
  all: unfold A; destruct (ya_attr_list (ya_attrs st)); reflexivity.
Qed.

Lemma g_ya_fmt_suffix_eq st f : g_ya_fmt_suffix st f = Some (f ++ ya_suffix st, inl tt).
Proof.
  unfold g_ya_fmt_suffix, ya_suffix. rewrite !g_ya_setq_contains_eq, g_ya_style_eq_default.
  destruct (ya_has (ya_quirks st) YaResetting), (ya_has (ya_quirks st) YaClear); cbn [negb andb]; cbv beta iota zeta;
    try reflexivity.
  destruct (ya_has (ya_quirks st) YaLinger), (ya_is_default st); cbn [orb]; rewrite ?app_nil_r; reflexivity.
Qed.

(* ---- Painted ------------------------------------------------------------------ *)

(* is styling emitted?  the global switch and the style's own condition (a Condition = its answer) *)
Definition ya_enabled (ENABLED : bool) (st : ya_style) : bool :=
  ENABLED && match ya_cond st with Some c => c | None => true end.

(* the hand rendering of `format!("{}", text.paint(st))` while neither Wrap path is taken *)
Definition ya_painted_bytes (ENABLED : bool) (text : list N) (st : ya_style) : list N :=
  if ya_enabled ENABLED st then ya_prefix st ++ text ++ ya_suffix st
  else if ya_has (ya_quirks st) YaMask then [] else text.

Lemma g_ya_color_fmt_value_eq o text st f : ya_attrs st < 512 ->
  g_ya_color_fmt_value o (mkYaPainted text st) ya_str_display f = Some (f ++ ya_prefix st ++ text ++ ya_suffix st, inl tt).
Proof.
  intros Hb. unfold g_ya_color_fmt_value. cbn [yp_style yp_value].
  rewrite (g_ya_fmt_prefix_eq _ _ Hb). cbv beta iota zeta.
  unfold ya_str_display, ya_w_write_str. cbv beta iota zeta.
  rewrite g_ya_fmt_suffix_eq. now rewrite <- !app_assoc.
Qed.

Lemma g_ya_painted_fmt_eq o en text st f : ya_attrs st < 512 -> ya_has (ya_quirks st) YaWrap = false ->
  g_ya_painted_fmt o (mkYaPainted text st) en f = Some (f ++ ya_painted_bytes en text st, inl tt).
Proof.
  intros Hb Hw. unfold g_ya_painted_fmt, g_ya_fmt_args, g_ya_painted_enabled, ya_painted_bytes. cbn [yp_style yp_value].
  rewrite !g_ya_setq_contains_eq, Hw. cbv zeta.
  change (g_ya_is_enabled en && match ya_cond st with Some cd1 => ya_cond_call cd1 | None => true end) with (ya_enabled en st).
  destruct (ya_enabled en st).
  - destruct (ya_has (ya_quirks st) YaMask); rewrite (g_ya_color_fmt_value_eq _ _ _ _ Hb); reflexivity.
  - destruct (ya_has (ya_quirks st) YaMask); cbv beta iota; [now rewrite app_nil_r|reflexivity].
Qed.

(* THE entry point: `yansi::enable(); text.paint(st).to_string()`, whatever the global switch held before
   and whatever the oracle of the two Wrap paths answers *)
Definition ya_render_bytes (text : list N) (st : ya_style) : list N :=
  ya_painted_bytes true text st.

Lemma g_yansi_render_text_eq o en0 text st : ya_attrs st < 512 -> ya_has (ya_quirks st) YaWrap = false ->
  g_yansi_render_text o en0 text st = Some (ya_render_bytes text st).
Proof.
  intros Hb Hw. unfold g_yansi_render_text, g_yansi_to_string, g_ya_paint. cbv zeta.
  change (g_ya_enable en0) with true.
  rewrite (g_ya_painted_fmt_eq _ _ _ _ _ Hb Hw). reflexivity.
Qed.
