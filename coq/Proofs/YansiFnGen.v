(* Proofs/YansiFnGen.v -- the RENDERING of a yansi::Style by the third-party crate yansi 1.0.1, translated
   from the pinned registry source (tools/gen_fn_yansi.py -> Generated/YansiFn.v), is (1) equal to the hand
   rendering [ya_render_bytes] -- no panic --, and (2) read back by the terminal model of C05 / C07
   (Spec/Vt + Spec/Sgr, from the default rendition) as exactly the meaning Spec/Targets.v assigns to the
   value; composed with the translated adapter: render (convert s) interprets to project(s). *)
From Coq Require Import NArith Arith List Bool Lia.
From AV Require Import Model.Base Model.Imp Model.YansiRender Generated.YansiFn.
From AV Require Import Spec.Vt Spec.Sgr Spec.Render Spec.Targets Proofs.Render.
Import ListNotations.
Local Open Scope N_scope.

(* ======================================================================== *)
(* 1. the hand rendering                                                      *)

Definition ya_all_attrs : list ya_attr :=
  [YaBold; YaDim; YaItalic; YaUnderline; YaBlink; YaRapidBlink; YaInvert; YaConceal; YaStrike].
Definition ya_attr_list (bits : N) : list ya_attr :=
  filter (fun a => N.testbit bits (ya_attr_disc a)) ya_all_attrs.
Definition ya_attr_code (a : ya_attr) : N := ya_attr_disc a + 1.
Definition ya_has (qs : N) (q : ya_quirk) : bool := N.testbit qs (ya_quirk_disc q).

Definition ya_base (c : ya_color) : N :=
  match c with
  | YaBlack => 30 | YaRed => 31 | YaGreen => 32 | YaYellow => 33 | YaBlue => 34 | YaMagenta => 35 | YaCyan => 36
  | YaWhite => 37 | YaFixed _ | YaRgb _ _ _ => 38 | YaPrimary => 39
  | YaBrightBlack => 90 | YaBrightRed => 91 | YaBrightGreen => 92 | YaBrightYellow => 93 | YaBrightBlue => 94
  | YaBrightMagenta => 95 | YaBrightCyan => 96 | YaBrightWhite => 97
  end.
Definition ya_vbase (v : ya_variant) (c : ya_color) : N := match v with YaFg => ya_base c | YaBg => ya_base c + 10 end.
(* the SGR parameters one colour contributes *)
Definition ya_color_codes (v : ya_variant) (c : ya_color) : list N :=
  match c with
  | YaFixed n => [ya_vbase v c; 5; n]
  | YaRgb r g b => [ya_vbase v c; 2; r; g; b]
  | _ => [ya_vbase v c]
  end.
Definition ya_bright (c : ya_color) : ya_color :=
  match c with
  | YaBlack => YaBrightBlack | YaRed => YaBrightRed | YaGreen => YaBrightGreen | YaYellow => YaBrightYellow
  | YaBlue => YaBrightBlue | YaMagenta => YaBrightMagenta | YaCyan => YaBrightCyan | YaWhite => YaBrightWhite
  | other => other
  end.
Definition ya_brighten (c : option ya_color) (b : bool) : option ya_color :=
  match c, b with Some c, true => Some (ya_bright c) | _, _ => c end.

(* items: one list of SGR parameters per attribute / colour, in the order yansi writes them *)
Definition ya_items (st : ya_style) : list (list N) :=
  map (fun a => [ya_attr_code a]) (ya_attr_list (ya_attrs st))
  ++ match ya_brighten (ya_bg st) (ya_has (ya_quirks st) YaOnBright) with Some c => [ya_color_codes YaBg c] | None => [] end
  ++ match ya_brighten (ya_fg st) (ya_has (ya_quirks st) YaBright) with Some c => [ya_color_codes YaFg c] | None => [] end.

Definition ya_item_bytes (codes : list N) : list N := rn_join 59 (map ya_dec codes).
(* what the AnsiSplicer produces: every item but the first is preceded by ';' *)
Fixpoint ya_spliced (flag : bool) (items : list (list N)) : list N :=
  match items with
  | [] => []
  | it :: rest => (if flag then [59] else []) ++ ya_item_bytes it ++ ya_spliced true rest
  end.

Definition ya_is_default (st : ya_style) : bool :=
  opt_eqb ya_color_eqb (ya_fg st) None && opt_eqb ya_color_eqb (ya_bg st) None && (ya_attrs st =? 0).

Definition ya_prefix (st : ya_style) : list N :=
  if ya_is_default st then [] else [27; 91] ++ ya_spliced false (ya_items st) ++ [109].
Definition ya_suffix (st : ya_style) : list N :=
  if negb (ya_has (ya_quirks st) YaResetting) && negb (ya_has (ya_quirks st) YaClear)
     && (ya_has (ya_quirks st) YaLinger || ya_is_default st)
  then [] else [27; 91; 48; 109].

(* the values the Rust types can hold and the API can build *)
Definition ya_color_ok (c : option ya_color) : Prop :=
  match c with
  | Some (YaFixed n) => n < 256
  | Some (YaRgb r g b) => r < 256 /\ g < 256 /\ b < 256
  | _ => True
  end.
Definition ya_style_ok (st : ya_style) : Prop :=
  ya_color_ok (ya_fg st) /\ ya_color_ok (ya_bg st) /\ ya_attrs st < 512.

(* ======================================================================== *)
(* 2. the translated functions are the hand rendering                         *)

Lemma g_ya_fg_base_eq c : g_ya_fg_base c = ya_base c.
Proof. destruct c; reflexivity. Qed.

Lemma g_ya_to_bright_eq c : g_ya_to_bright c = ya_bright c.
Proof. destruct c; reflexivity. Qed.

Lemma land_pow2_testbit k bits : (N.land (2 ^ k) bits =? 2 ^ k) = N.testbit bits k.
Proof.
  destruct (N.testbit bits k) eqn:E.
  - apply N.eqb_eq. apply N.bits_inj. intros j. rewrite N.land_spec, N.pow2_bits_eqb.
    destruct (N.eqb_spec k j) as [->|]; [now rewrite E|reflexivity].
  - apply N.eqb_neq. intros H. apply (f_equal (fun x => N.testbit x k)) in H.
    rewrite N.land_spec, N.pow2_bits_true, E in H. discriminate.
Qed.

Lemma g_ya_seta_contains_eq bits a : g_ya_seta_contains bits a = Some (N.testbit bits (ya_attr_disc a)).
Proof.
  unfold g_ya_seta_contains, g_ya_attr_sm_bit_mask, g_ya_attr_bit_mask, ya_set_f1.
  destruct a; cbn [ya_attr_disc]; vm_compute (ya_cshl _ _ _); cbv beta iota;
    match goal with |- context [N.land ?m bits] =>
      let k := eval vm_compute in (N.log2 m) in change m with (2 ^ k); rewrite land_pow2_testbit end; reflexivity.
Qed.

Lemma g_ya_setq_contains_eq qs q : g_ya_setq_contains qs q = Some (ya_has qs q).
Proof.
  unfold g_ya_setq_contains, g_ya_quirk_sm_bit_mask, g_ya_quirk_bit_mask, ya_set_f1, ya_has.
  destruct q; cbn [ya_quirk_disc]; vm_compute (ya_cshl _ _ _); cbv beta iota;
    match goal with |- context [N.land ?m qs] =>
      let k := eval vm_compute in (N.log2 m) in change m with (2 ^ k); rewrite land_pow2_testbit end; reflexivity.
Qed.

(* the attribute iterator, drained: exactly the set's members in declaration order *)
Definition ya_attr_list_dec (a b : option (list ya_attr)) : {a = b} + {a <> b}.
Proof. repeat decide equality. Defined.

Definition ya_drain_attrs (bits : N) : option (list ya_attr) :=
  iter_drain g_ya_iter_next (S (S (N.to_nat g_ya_attr_MAX_VALUE))) (g_ya_seta_iter bits).

Lemma ya_drain_all : forallb (fun bits => if ya_attr_list_dec (ya_drain_attrs bits) (Some (ya_attr_list bits)) then true else false)
                             (map N.of_nat (seq 0 512)) = true.
Proof. vm_compute. reflexivity. Qed.

Lemma ya_drain_attrs_eq bits : bits < 512 -> ya_drain_attrs bits = Some (ya_attr_list bits).
Proof.
  intros H. pose proof ya_drain_all as A. rewrite forallb_forall in A.
  specialize (A bits). destruct (ya_attr_list_dec (ya_drain_attrs bits) (Some (ya_attr_list bits))) as [E|]; [exact E|].
  assert (false = true); [|discriminate]. apply A. apply in_map_iff. exists (N.to_nat bits). split; [lia|].
  apply in_seq. lia.
Qed.

(* ---- the splicer's steps --------------------------------------------------- *)

Lemma g_ya_splicer_write_str_eq buf fl s :
  g_ya_splicer_write_str (mkYaSplicer buf fl) s = (mkYaSplicer (buf ++ s) fl, inl tt).
Proof. reflexivity. Qed.

Lemma g_ya_splice_eq buf fl :
  g_ya_splice (mkYaSplicer buf fl) = (mkYaSplicer (buf ++ (if fl then [59] else [])) true, inl tt).
Proof. destruct fl; cbn; [reflexivity|]. now rewrite app_nil_r. Qed.

Lemma g_ya_attr_fmt_eq a buf fl :
  g_ya_attr_fmt a (mkYaSplicer buf fl) = (mkYaSplicer (buf ++ ya_item_bytes [ya_attr_code a]) fl, inl tt).
Proof. destruct a; reflexivity. Qed.

Lemma ya_base_bound c : ya_base c <= 97.
Proof. destruct c; cbn; lia. Qed.

Lemma g_ya_color_fmt_eq c v buf fl :
  g_ya_color_fmt c (mkYaSplicer buf fl) v = Some (mkYaSplicer (buf ++ ya_item_bytes (ya_color_codes v c)) fl, inl tt).
Proof.
  unfold g_ya_color_fmt. rewrite g_ya_fg_base_eq.
  assert (Hc : cadd 8 (ya_base c) 10 = Some (ya_base c + 10)).
  { unfold cadd. pose proof (ya_base_bound c). change (2 ^ 8) with 256.
    destruct (N.ltb_spec (ya_base c + 10) 256); [reflexivity|lia]. }
  destruct v; cbn [ya_vbase]; rewrite ?Hc; cbv beta iota;
    destruct c; cbn [ya_color_codes ya_vbase ya_item_bytes map rn_join];
    rewrite ?g_ya_splicer_write_str_eq; cbv beta iota;
    rewrite ?g_ya_splicer_write_str_eq; cbv beta iota;
    repeat (rewrite g_ya_splicer_write_str_eq; cbv beta iota);
    repeat (rewrite <- app_assoc; cbn [app]); reflexivity.
Qed.

(* the loop over the attributes *)
Lemma ya_spliced_app fl a b :
  ya_spliced fl (a ++ b) = ya_spliced fl a ++ ya_spliced (fl || match a with [] => false | _ => true end) b.
Proof.
  revert fl. induction a as [|x t IH]; intros fl; cbn [app ya_spliced].
  - now rewrite orb_false_r.
  - rewrite IH, orb_true_r. destruct t; cbn [orb]; rewrite <- !app_assoc; reflexivity.
Qed.

Definition ya_nonempty {A} (l : list A) : bool := match l with [] => false | _ => true end.

Lemma ya_attr_loop (F : ya_attr -> ya_splicer -> option (lctl ya_splicer (ya_splicer * (unit + unit)))) :
  (forall a buf fl, F a (mkYaSplicer buf fl) =
      Some (LNext (mkYaSplicer (buf ++ (if fl then [59] else []) ++ ya_item_bytes [ya_attr_code a]) true))) ->
  forall l buf fl,
  for_list F l (mkYaSplicer buf fl) =
  Some (inl (mkYaSplicer (buf ++ ya_spliced fl (map (fun a => [ya_attr_code a]) l)) (fl || ya_nonempty l))).
Proof.
  intros HF. induction l as [|a t IH]; intros buf fl; cbn [for_list map ya_spliced ya_nonempty].
  - now rewrite app_nil_r, orb_false_r.
  - rewrite HF, IH, orb_true_r. cbn [orb]. rewrite <- !app_assoc. reflexivity.
Qed.

Lemma g_ya_style_eq_default st : g_ya_style_eq st g_ya_style_DEFAULT = ya_is_default st.
Proof. reflexivity. Qed.

(* one optional colour: `if let Some(color) = .. { f.splice()?; color.fmt(&mut f, variant)?; }` *)
Definition ya_ocolor_item (v : ya_variant) (c : option ya_color) : list (list N) :=
  match c with Some c => [ya_color_codes v c] | None => [] end.

Lemma g_ya_fmt_prefix_eq st f : ya_attrs st < 512 ->
  g_ya_fmt_prefix st f = Some (f ++ ya_prefix st, inl tt).
Proof.
  intros Hb. unfold g_ya_fmt_prefix, ya_prefix. rewrite g_ya_style_eq_default.
  destruct (ya_is_default st); [now rewrite app_nil_r|].
  cbv zeta. rewrite g_ya_splicer_write_str_eq. cbv beta iota.
  change (iter_drain g_ya_iter_next (S (S (N.to_nat g_ya_attr_MAX_VALUE))) (g_ya_seta_iter (ya_attrs st)))
    with (ya_drain_attrs (ya_attrs st)).
  rewrite (ya_drain_attrs_eq _ Hb).
  match goal with |- context [for_list ?F _ _] => rewrite (ya_attr_loop F) end.
  2:{ intros a buf fl. rewrite g_ya_splice_eq. cbv beta iota. rewrite g_ya_attr_fmt_eq. cbv beta iota.
      now rewrite <- app_assoc. }
  cbv beta iota. rewrite !g_ya_setq_contains_eq.
  unfold ya_items.
  set (A := map (fun a => [ya_attr_code a]) (ya_attr_list (ya_attrs st))).
  set (nb := ya_has (ya_quirks st) YaOnBright). set (nf := ya_has (ya_quirks st) YaBright).
  cbn [orb].
  assert (Hbr : forall c b, (match c, b with Some color1, true => Some (g_ya_to_bright color1) | _, _ => c end) = ya_brighten c b).
  { intros [c|] [|]; cbn [ya_brighten]; rewrite ?g_ya_to_bright_eq; reflexivity. }
  rewrite !Hbr.
  rewrite !ya_spliced_app.
  destruct (ya_brighten (ya_bg st) nb) as [cb|], (ya_brighten (ya_fg st) nf) as [cf|];
    cbn [ya_spliced ya_nonempty orb app];
    rewrite ?g_ya_splice_eq; cbv beta iota; rewrite ?g_ya_color_fmt_eq; cbv beta iota;
    rewrite ?g_ya_splice_eq; cbv beta iota; rewrite ?g_ya_color_fmt_eq; cbv beta iota;
    rewrite ?g_ya_splicer_write_str_eq; cbn [asp_f];
    rewrite ?orb_true_r, ?app_nil_r; repeat (rewrite <- app_assoc; cbn [app]); try reflexivity.
  all: unfold A; destruct (ya_attr_list (ya_attrs st)); reflexivity.
Qed.

Lemma g_ya_fmt_suffix_eq st f : g_ya_fmt_suffix st f = Some (f ++ ya_suffix st, inl tt).
Proof.
  unfold g_ya_fmt_suffix, ya_suffix. rewrite !g_ya_setq_contains_eq, g_ya_style_eq_default.
  destruct (ya_has (ya_quirks st) YaResetting), (ya_has (ya_quirks st) YaClear); cbn [negb andb]; cbv beta iota zeta;
    try reflexivity.
  destruct (ya_has (ya_quirks st) YaLinger), (ya_is_default st); cbn [orb]; rewrite ?app_nil_r; reflexivity.
Qed.

(* ---- Painted ------------------------------------------------------------------ *)

(* is styling emitted?  the global switch and the style's own condition (a Condition = its answer) *)
Definition ya_enabled (ENABLED : bool) (st : ya_style) : bool :=
  ENABLED && match ya_cond st with Some c => c | None => true end.

(* the hand rendering of `format!("{}", text.paint(st))` while neither Wrap path is taken *)
Definition ya_painted_bytes (ENABLED : bool) (text : list N) (st : ya_style) : list N :=
  if ya_enabled ENABLED st then ya_prefix st ++ text ++ ya_suffix st
  else if ya_has (ya_quirks st) YaMask then [] else text.

Lemma g_ya_color_fmt_value_eq o text st f : ya_attrs st < 512 ->
  g_ya_color_fmt_value o (mkYaPainted text st) ya_str_display f = Some (f ++ ya_prefix st ++ text ++ ya_suffix st, inl tt).
Proof.
  intros Hb. unfold g_ya_color_fmt_value. cbn [yp_style yp_value].
  rewrite (g_ya_fmt_prefix_eq _ _ Hb). cbv beta iota zeta.
  unfold ya_str_display, ya_w_write_str. cbv beta iota zeta.
  rewrite g_ya_fmt_suffix_eq. now rewrite <- !app_assoc.
Qed.

Lemma g_ya_painted_fmt_eq o en text st f : ya_attrs st < 512 -> ya_has (ya_quirks st) YaWrap = false ->
  g_ya_painted_fmt o (mkYaPainted text st) en f = Some (f ++ ya_painted_bytes en text st, inl tt).
Proof.
  intros Hb Hw. unfold g_ya_painted_fmt, g_ya_fmt_args, g_ya_painted_enabled, ya_painted_bytes. cbn [yp_style yp_value].
  rewrite !g_ya_setq_contains_eq, Hw. cbv zeta.
  change (g_ya_is_enabled en && match ya_cond st with Some cd1 => ya_cond_call cd1 | None => true end) with (ya_enabled en st).
  destruct (ya_enabled en st).
  - destruct (ya_has (ya_quirks st) YaMask); rewrite (g_ya_color_fmt_value_eq _ _ _ _ Hb); reflexivity.
  - destruct (ya_has (ya_quirks st) YaMask); cbv beta iota; [now rewrite app_nil_r|reflexivity].
Qed.

(* THE entry point: `yansi::enable(); text.paint(st).to_string()`, whatever the global switch held before
   and whatever the oracle of the two Wrap paths answers *)
Definition ya_render_bytes (text : list N) (st : ya_style) : list N :=
  ya_painted_bytes true text st.

Lemma g_yansi_render_text_eq o en0 text st : ya_attrs st < 512 -> ya_has (ya_quirks st) YaWrap = false ->
  g_yansi_render_text o en0 text st = Some (ya_render_bytes text st).
Proof.
  intros Hb Hw. unfold g_yansi_render_text, g_yansi_to_string, g_ya_paint. cbv zeta.
  change (g_ya_enable en0) with true.
  rewrite (g_ya_painted_fmt_eq _ _ _ _ _ Hb Hw). reflexivity.
Qed.

(* ======================================================================== *)
(* 3. the terminal reads the rendering back as the meaning of the value       *)

Definition ya_colour_meaning (c : ya_color) : option colour :=
  match c with
  | YaPrimary => None
  | YaFixed n => Some (CIdx n)
  | YaRgb r g b => Some (CRgb r g b)
  | YaBlack => Some (CAnsi 0) | YaRed => Some (CAnsi 1) | YaGreen => Some (CAnsi 2) | YaYellow => Some (CAnsi 3)
  | YaBlue => Some (CAnsi 4) | YaMagenta => Some (CAnsi 5) | YaCyan => Some (CAnsi 6) | YaWhite => Some (CAnsi 7)
  | YaBrightBlack => Some (CAnsi 8) | YaBrightRed => Some (CAnsi 9) | YaBrightGreen => Some (CAnsi 10)
  | YaBrightYellow => Some (CAnsi 11) | YaBrightBlue => Some (CAnsi 12) | YaBrightMagenta => Some (CAnsi 13)
  | YaBrightCyan => Some (CAnsi 14) | YaBrightWhite => Some (CAnsi 15)
  end.
Definition ya_slot_meaning (c : option ya_color) : option colour :=
  match c with Some c => ya_colour_meaning c | None => None end.
(* the effect (Spec/Sgr numbering) an attribute switches on *)
Definition ya_attr_effect (a : ya_attr) : N :=
  match a with
  | YaBold => BOLD | YaDim => DIMMED | YaItalic => ITALIC | YaUnderline => UNDERLINE | YaBlink => BLINK
  | YaRapidBlink => BLINK | YaInvert => INVERT | YaConceal => HIDDEN | YaStrike => STRIKETHROUGH
  end.
Definition ya_effects (bits : N) : N :=
  fold_right (fun a acc => if N.testbit bits (ya_attr_disc a) then N.lor (bit (ya_attr_effect a)) acc else acc) 0 ya_all_attrs.
Definition ya_meaning (st : ya_style) : sstyle :=
  mkStyle (ya_slot_meaning (ya_fg st)) (ya_slot_meaning (ya_bg st)) None (ya_effects (ya_attrs st)).

(* a style without quirks and without a condition of its own (what every builder chain that does not
   call a quirk / `whenever` method yields; the adapter's image lies inside) *)
Definition ya_plain (st : ya_style) : Prop := ya_quirks st = 0 /\ ya_cond st = None.

Definition ya_codes (st : ya_style) : list N := concat (ya_items st).

(* ---- bytes: the spliced items are one printed parameter list ------------------ *)

Lemma rn_join_app sep (a b : list (list N)) :
  rn_join sep (a ++ b) = rn_join sep a ++ (if ya_nonempty a && ya_nonempty b then [sep] else []) ++ rn_join sep b.
Proof.
  induction a as [|x t IH]; cbn [app ya_nonempty andb]; [reflexivity|].
  destruct t as [|y t'].
  - destruct b as [|z b']; cbn [app rn_join ya_nonempty]; [now rewrite app_nil_r|reflexivity].
  - change ((x :: y :: t') ++ b) with (x :: (y :: t') ++ b). cbn [app] in *.
    rewrite !rn_join_cons2. rewrite IH. cbn [ya_nonempty andb]. now rewrite <- !app_assoc.
Qed.

Lemma ya_spliced_join items : forall fl, Forall (fun it => ya_nonempty it = true) items ->
  ya_spliced fl items = (if fl && ya_nonempty items then [59] else []) ++ rn_join 59 (map ya_dec (concat items)).
Proof.
  induction items as [|it rest IH]; intros fl H; cbn [ya_spliced concat ya_nonempty].
  - now rewrite andb_false_r.
  - inversion H as [|? ? Hit Hrest]; subst. rewrite (IH true Hrest). rewrite andb_true_r. cbn [andb].
    rewrite map_app, rn_join_app. unfold ya_item_bytes.
    assert (E1 : ya_nonempty (map ya_dec it) = true) by (destruct it; [discriminate|reflexivity]).
    assert (E2 : ya_nonempty (map ya_dec (concat rest)) = ya_nonempty rest).
    { destruct rest as [|r0 rr]; [reflexivity|]. inversion Hrest; subst. destruct r0; [discriminate|reflexivity]. }
    rewrite E1, E2. cbn [andb]. rewrite <- ?app_assoc. reflexivity.
Qed.

Lemma ya_items_nonempty st : Forall (fun it => ya_nonempty it = true) (ya_items st).
Proof.
  unfold ya_items. rewrite !Forall_app. repeat split.
  - apply Forall_forall. intros x Hx. apply in_map_iff in Hx. destruct Hx as (a & <- & _). reflexivity.
  - destruct (ya_brighten _ _) as [c|]; [|constructor]. constructor; [|constructor]. destruct c; reflexivity.
  - destruct (ya_brighten _ _) as [c|]; [|constructor]. constructor; [|constructor]. destruct c; reflexivity.
Qed.

(* the decimal printer on a byte *)
Definition ya_u8s : list N := map N.of_nat (seq 0 256).
Lemma ya_u8s_in n : n < 256 -> In n ya_u8s.
Proof. intros H. apply in_map_iff. exists (N.to_nat n). split; [lia|]. apply in_seq. lia. Qed.

Lemma ya_dec_all : forallb (fun n => rn_digits_ok (ya_dec n) && (rn_dec_value (ya_dec n) =? n)) ya_u8s = true.
Proof. vm_compute. reflexivity. Qed.

Lemma ya_dec_ok n : n < 256 -> rn_digits_ok (ya_dec n) = true /\ rn_dec_value (ya_dec n) = n.
Proof.
  intros H. pose proof ya_dec_all as A. rewrite forallb_forall in A. specialize (A n (ya_u8s_in n H)).
  apply andb_true_iff in A. destruct A as [A B]. apply N.eqb_eq in B. auto.
Qed.

(* every parameter yansi prints is a byte *)
Lemma ya_color_codes_u8 v c : ya_color_ok (Some c) -> Forall (fun x => x < 256) (ya_color_codes v c).
Proof.
  intros H. pose proof (ya_base_bound c).
  destruct c, v; cbn [ya_color_codes ya_vbase ya_color_ok] in *; repeat constructor; try lia; cbn; lia.
Qed.

Lemma ya_attr_list_length bits : (length (ya_attr_list bits) <= 9)%nat.
Proof.
  unfold ya_attr_list.
  assert (G : forall (f : ya_attr -> bool) l, (length (filter f l) <= length l)%nat).
  { intros f l. induction l as [|x t IH]; cbn [filter length]; [lia|]. destruct (f x); cbn [length]; lia. }
  apply (G _ ya_all_attrs).
Qed.

Lemma ya_color_codes_length v c : (length (ya_color_codes v c) <= 5)%nat.
Proof. destruct c; cbn; lia. Qed.

Lemma ya_brighten_ok c b : ya_color_ok c -> ya_color_ok (ya_brighten c b).
Proof. destruct c as [c|], b; cbn [ya_brighten]; auto. destruct c; cbn; auto. Qed.

Lemma ya_codes_ok st : ya_style_ok st ->
  Forall (fun x => x < 256) (ya_codes st) /\ (length (ya_codes st) <= 19)%nat.
Proof.
  intros (Hf & Hb & _). unfold ya_codes, ya_items. rewrite !concat_app, !Forall_app, !app_length.
  pose proof (ya_brighten_ok _ (ya_has (ya_quirks st) YaOnBright) Hb) as Hb'.
  pose proof (ya_brighten_ok _ (ya_has (ya_quirks st) YaBright) Hf) as Hf'.
  assert (A : forall l, concat (map (fun a => [ya_attr_code a]) l) = map ya_attr_code l).
  { induction l as [|x t IH]; cbn; [reflexivity|now rewrite IH]. }
  rewrite A, map_length. pose proof (ya_attr_list_length (ya_attrs st)).
  repeat split.
  - apply Forall_forall. intros x Hx. apply in_map_iff in Hx. destruct Hx as (a & <- & _). destruct a; cbn; lia.
  - destruct (ya_brighten (ya_bg st) _) as [c|]; cbn [concat]; [|constructor]. rewrite app_nil_r. now apply ya_color_codes_u8.
  - destruct (ya_brighten (ya_fg st) _) as [c|]; cbn [concat]; [|constructor]. rewrite app_nil_r. now apply ya_color_codes_u8.
  - assert (B : forall v o, (length (concat (match o with Some c => [ya_color_codes v c] | None => [] end)) <= 5)%nat).
    { intros v [c|]; cbn [concat length]; [|lia]. rewrite app_nil_r. apply ya_color_codes_length. }
    pose proof (B YaBg (ya_brighten (ya_bg st) (ya_has (ya_quirks st) YaOnBright))).
    pose proof (B YaFg (ya_brighten (ya_fg st) (ya_has (ya_quirks st) YaBright))). lia.
Qed.

(* the prefix is ONE control sequence `ESC [ p ; p ; .. m` whose parameters are the codes *)
Definition ya_groups (codes : list N) : list (list (list N)) := map (fun c => [ya_dec c]) codes.

Lemma ya_prefix_csi st : ya_is_default st = false -> ya_prefix st = rn_csi (ya_groups (ya_codes st)) 109.
Proof.
  intros Hd. unfold ya_prefix, rn_csi, rn_print_params, ya_groups. rewrite Hd.
  rewrite (ya_spliced_join _ false (ya_items_nonempty st)). cbn [andb app].
  rewrite map_map. cbn [rn_join]. reflexivity.
Qed.

Lemma ya_groups_ok codes : codes <> [] -> Forall (fun x => x < 256) codes -> (length codes <= 32)%nat ->
  rn_csi_ok (ya_groups codes) = true /\ rn_param_values (ya_groups codes) = map (fun c => [c]) codes.
Proof.
  intros Hne Hall Hlen. split.
  - apply csi_ok_intro.
    + destruct codes; [contradiction|reflexivity].
    + unfold ya_groups. apply Forall_forall. intros g Hg. apply in_map_iff in Hg. destruct Hg as (c & <- & Hc).
      split; [reflexivity|]. constructor; [|constructor]. rewrite Forall_forall in Hall. apply (ya_dec_ok c (Hall c Hc)).
    + unfold ya_groups. assert (A : forall l : list N, concat (map (fun c => [ya_dec c]) l) = map ya_dec l).
      { induction l as [|x t IH]; cbn [map concat app]; [reflexivity|now rewrite IH]. }
      now rewrite A, map_length.
  - unfold rn_param_values, ya_groups. rewrite map_map. apply map_ext_in. intros c Hc. cbn [map].
    rewrite Forall_forall in Hall. now rewrite (proj2 (ya_dec_ok c (Hall c Hc))).
Qed.

Lemma ground_print_x s : ground_st s -> vt_step s 120 = (s, [EPrint 120]).
Proof. intros [Hv Hu]. destruct s as [v i g c u p o un]. cbn in Hv, Hu. subst. reflexivity. Qed.

(* ---- SGR: what the parameters do to the default rendition ------------------------ *)

Definition ya_single (codes : list N) : list (list N) := map (fun c => [c]) codes.

Lemma sgr_simple_codes codes : forall s rest, Forall (fun c => ext_target c = None) codes ->
  sgr_groups s (ya_single codes ++ rest) = sgr_groups (fold_left sgr_code codes s) rest.
Proof.
  induction codes as [|c t IH]; intros s rest H; [reflexivity|].
  inversion H as [|? ? Hc Ht]; subst. cbn [ya_single map app sgr_groups fold_left]. rewrite Hc.
  repeat (match goal with |- (match ?p with _ => _ end) = _ => destruct p end); apply (IH _ _ Ht).
Qed.

Definition ya_set_slot (v : ya_variant) (s : sstyle) (c : option colour) : sstyle :=
  match v with YaFg => set_fg s c | YaBg => set_bg s c end.

Lemma sgr_color_codes v c s rest :
  sgr_groups s (ya_single (ya_color_codes v c) ++ rest) = sgr_groups (ya_set_slot v s (ya_colour_meaning c)) rest.
Proof. destruct c, v; reflexivity. Qed.

Definition sstyle_dec (a b : sstyle) : {a = b} + {a <> b}.
Proof. repeat decide equality. Defined.

Definition ya_bits512 : list N := map N.of_nat (seq 0 512).
Lemma ya_bits512_in n : n < 512 -> In n ya_bits512.
Proof. intros H. apply in_map_iff. exists (N.to_nat n). split; [lia|]. apply in_seq. lia. Qed.

Lemma ya_attr_codes_all :
  forallb (fun bits =>
    (if sstyle_dec (fold_left sgr_code (map ya_attr_code (ya_attr_list bits)) style_default)
                   (mkStyle None None None (ya_effects bits)) then true else false)
    && forallb (fun c => match ext_target c with None => true | Some _ => false end) (map ya_attr_code (ya_attr_list bits))
    && ((bits =? 0) || ya_nonempty (ya_attr_list bits))) ya_bits512 = true.
Proof. vm_compute. reflexivity. Qed.

Lemma ya_attr_codes_eq bits : bits < 512 ->
  fold_left sgr_code (map ya_attr_code (ya_attr_list bits)) style_default = mkStyle None None None (ya_effects bits) /\
  Forall (fun c => ext_target c = None) (map ya_attr_code (ya_attr_list bits)) /\
  (bits <> 0 -> ya_attr_list bits <> []).
Proof.
  intros H. pose proof ya_attr_codes_all as A. rewrite forallb_forall in A. specialize (A bits (ya_bits512_in bits H)).
  apply andb_true_iff in A. destruct A as [A C]. apply andb_true_iff in A. destruct A as [A B].
  repeat split.
  - destruct (sstyle_dec _ _) as [E|]; [exact E|discriminate].
  - apply Forall_forall. intros c Hc. rewrite forallb_forall in B. specialize (B c Hc). destruct (ext_target c); [discriminate|reflexivity].
  - intros Hz. apply orb_true_iff in C. destruct C as [C|C]; [apply N.eqb_eq in C; contradiction|].
    destruct (ya_attr_list bits); [discriminate|discriminate].
Qed.

Lemma ya_has_zero q : ya_has 0 q = false.
Proof. destruct q; reflexivity. Qed.

Lemma ya_codes_plain st : ya_quirks st = 0 ->
  ya_codes st = map ya_attr_code (ya_attr_list (ya_attrs st))
                ++ match ya_bg st with Some c => ya_color_codes YaBg c | None => [] end
                ++ match ya_fg st with Some c => ya_color_codes YaFg c | None => [] end.
Proof.
  intros Hq. unfold ya_codes, ya_items. rewrite Hq, !ya_has_zero, !concat_app.
  assert (A : forall l, concat (map (fun a => [ya_attr_code a]) l) = map ya_attr_code l).
  { induction l as [|x t IH]; cbn [map concat app]; [reflexivity|now rewrite IH]. }
  rewrite A. f_equal. f_equal.
  - destruct (ya_bg st); cbn [ya_brighten concat]; [now rewrite app_nil_r|reflexivity].
  - destruct (ya_fg st); cbn [ya_brighten concat]; [now rewrite app_nil_r|reflexivity].
Qed.

Lemma ya_sgr_meaning st : ya_style_ok st -> ya_quirks st = 0 ->
  sgr_groups style_default (ya_single (ya_codes st)) = ya_meaning st.
Proof.
  intros (_ & _ & Hb) Hq. rewrite (ya_codes_plain _ Hq). unfold ya_single. rewrite !map_app.
  destruct (ya_attr_codes_eq _ Hb) as (E & Hs & _).
  change (map (fun c => [c]) (map ya_attr_code (ya_attr_list (ya_attrs st)))) with (ya_single (map ya_attr_code (ya_attr_list (ya_attrs st)))).
  rewrite (sgr_simple_codes _ _ _ Hs), E. unfold ya_meaning.
  destruct (ya_bg st) as [cb|], (ya_fg st) as [cf|]; cbn [ya_slot_meaning].
  - change (map (fun c => [c]) (ya_color_codes YaBg cb)) with (ya_single (ya_color_codes YaBg cb)). rewrite sgr_color_codes.
    rewrite <- (app_nil_r (map _ (ya_color_codes YaFg cf))).
    change (map (fun c => [c]) (ya_color_codes YaFg cf)) with (ya_single (ya_color_codes YaFg cf)). rewrite sgr_color_codes. reflexivity.
  - cbn [map]. rewrite app_nil_r.
    rewrite <- (app_nil_r (map _ (ya_color_codes YaBg cb))).
    change (map (fun c => [c]) (ya_color_codes YaBg cb)) with (ya_single (ya_color_codes YaBg cb)). rewrite sgr_color_codes. reflexivity.
  - cbn [map app].
    rewrite <- (app_nil_r (map _ (ya_color_codes YaFg cf))).
    change (map (fun c => [c]) (ya_color_codes YaFg cf)) with (ya_single (ya_color_codes YaFg cf)). rewrite sgr_color_codes. reflexivity.
  - reflexivity.
Qed.

(* ---- the events the terminal's parser reports for the rendering -------------------- *)

Lemma ya_default_codes st : ya_style_ok st -> ya_quirks st = 0 -> ya_is_default st = false -> ya_codes st <> [].
Proof.
  intros (_ & _ & Hb) Hq Hd. rewrite (ya_codes_plain _ Hq). unfold ya_is_default in Hd.
  destruct (ya_fg st) as [cf|].
  { intros H. apply (f_equal (@length N)) in H. rewrite !app_length in H. destruct cf; cbn [ya_color_codes length] in H; lia. }
  destruct (ya_bg st) as [cb|].
  { intros H. apply (f_equal (@length N)) in H. rewrite !app_length in H. destruct cb; cbn [ya_color_codes length] in H; lia. }
  cbn [opt_eqb andb] in Hd. apply N.eqb_neq in Hd. rewrite !app_nil_r.
  destruct (ya_attr_codes_eq _ Hb) as (_ & _ & Hne). specialize (Hne Hd).
  destruct (ya_attr_list (ya_attrs st)); [contradiction|discriminate].
Qed.

Lemma ya_render_plain st : ya_plain st ->
  ya_render_bytes [120] st = ya_prefix st ++ [120] ++ (if ya_is_default st then [] else [27; 91; 48; 109]).
Proof.
  intros [Hq Hc]. unfold ya_render_bytes, ya_painted_bytes, ya_enabled, ya_suffix. rewrite Hc, Hq, !ya_has_zero.
  cbn [andb negb orb]. reflexivity.
Qed.

Lemma vt_run_x s : ground_st s -> vt_run s [120] = (s, [EPrint 120]).
Proof. intros G. cbn [vt_run]. rewrite (ground_print_x _ G). reflexivity. Qed.

Lemma ya_render_events st : ya_style_ok st -> ya_plain st ->
  spec_events (ya_render_bytes [120] st) =
  if ya_is_default st then [EPrint 120]
  else [rn_sgr (ya_single (ya_codes st)); EPrint 120; rn_sgr [[0]]].
Proof.
  intros Hok Hp. rewrite (ya_render_plain _ Hp). destruct Hp as [Hq Hc]. unfold spec_events.
  destruct (ya_is_default st) eqn:Hd.
  - unfold ya_prefix. rewrite Hd. reflexivity.
  - rewrite (ya_prefix_csi _ Hd).
    destruct (ya_codes_ok _ Hok) as [Hu8 Hlen].
    destruct (ya_groups_ok (ya_codes st) (ya_default_codes _ Hok Hq Hd) Hu8 ltac:(lia)) as [Hcsi Hval].
    destruct (rn_csi_roundtrip _ vt_init Hcsi ground_init) as (s1 & E1 & G1).
    assert (Hr : rn_csi_ok [[[48]]] = true) by reflexivity.
    destruct (rn_csi_roundtrip _ s1 Hr G1) as (s2 & E2 & _).
    change [27; 91; 48; 109] with (rn_csi [[[48]]] 109).
    rewrite vt_run_app, E1, (vt_run_app s1 [120]), (vt_run_x _ G1), E2. cbn [snd app]. rewrite Hval. reflexivity.
Qed.

(* THE rendering theorem at the level of yansi's own type: for every Style the Rust type can hold that has no quirk
   and no condition, `yansi::enable(); "x".paint(st).to_string()` does not panic and a terminal shows the "x" in exactly
   the rendition [ya_meaning st] *)
Lemma ya_render_interp st : ya_style_ok st -> ya_plain st ->
  ad_interp_x (ya_render_bytes [120] st) = Some (ya_meaning st).
Proof.
  intros Hok Hp. unfold ad_interp_x. rewrite (ya_render_events _ Hok Hp).
  destruct (ya_is_default st) eqn:Hd.
  - cbn. unfold ya_meaning. unfold ya_is_default in Hd.
    destruct (ya_fg st); [discriminate|]. destruct (ya_bg st); [discriminate|]. cbn [opt_eqb andb] in Hd. apply N.eqb_eq in Hd.
    rewrite Hd. reflexivity.
  - rewrite <- (ya_sgr_meaning _ Hok (proj1 Hp)). reflexivity.
Qed.

Theorem yansi_render_is_meaning : forall o en st, ya_style_ok st -> ya_plain st ->
  exists bytes, g_yansi_render o en st = Some bytes /\ ad_interp_x bytes = Some (ya_meaning st).
Proof.
  intros o en st Hok Hp. exists (ya_render_bytes [120] st). split.
  - apply g_yansi_render_text_eq; [apply Hok|]. rewrite (proj1 Hp). apply ya_has_zero.
  - now apply ya_render_interp.
Qed.

(* the restriction to quirk-free styles is needed: with `Quirk::Bright` (builder `.bright()`, which the adapter never
   calls) the same fields render a DIFFERENT colour than the value's plain meaning -- witness: red + Bright shows
   bright red *)
Definition ya_no_oracle : ya_oracle := mkYaOracle (fun _ _ => None) (fun _ _ => None).
Lemma yansi_render_quirk_refuted :
  exists st, ya_style_ok st /\ ya_cond st = None /\ ya_quirks st <> 0 /\
    (bs <- g_yansi_render ya_no_oracle false st ;; ad_interp_x bs) = Some (mkStyle (Some (CAnsi 9)) None None 0) /\
    ya_meaning st = mkStyle (Some (CAnsi 1)) None None 0.
Proof.
  exists (mkYaStyle (Some YaRed) None 0 (2 ^ ya_quirk_disc YaBright) None).
  repeat split; try (cbn; lia); try discriminate; vm_compute; reflexivity.
Qed.
