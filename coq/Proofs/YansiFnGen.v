From Coq Require Import NArith List Bool Lia.
From AV Require Import Model.Base Model.Imp Model.YansiRender Generated.YansiFn.
Import ListNotations.
Local Open Scope N_scope.
