(* Proofs/GitDenote.v -- C11, about the specification itself: the folded effect set
   of [denote] is "attributes as a set where a later negation wins". *)
From Coq Require Import NArith List Bool Lia.
From AV Require Import Spec.StyleRec Spec.SgrCodes Spec.GitSyntax.
Import ListNotations.
Local Open Scope N_scope.

Lemma insert_bit : forall e k i, N.testbit (eff_insert e k) i = N.testbit e i || (k =? i).
Proof. intros e k i. unfold eff_insert. now rewrite N.lor_spec, N.pow2_bits_eqb. Qed.

Lemma remove_bit : forall e k i, N.testbit (eff_remove e k) i = N.testbit e i && negb (k =? i).
Proof. intros e k i. unfold eff_remove. now rewrite N.ldiff_spec, N.pow2_bits_eqb. Qed.

Lemma attr_bit_inj : forall a a', (attr_bit a' =? attr_bit a) = gattr_eqb a a'.
Proof. intros [] []; reflexivity. Qed.

Lemma fold_attr_bit : forall ts e a,
  N.testbit (fold_left apply_attr ts e) (attr_bit a) =
  match last_mention a ts with Some on => on | None => N.testbit e (attr_bit a) end.
Proof.
  induction ts as [|t ts IH]; intros e a; [reflexivity|].
  cbn [fold_left last_mention]. rewrite IH. destruct (last_mention a ts); [reflexivity|].
  destruct t as [c|on a']; [reflexivity|]. cbn [apply_attr].
  destruct on; [rewrite insert_bit | rewrite remove_bit]; rewrite attr_bit_inj;
    destruct (gattr_eqb a a'); cbn; now rewrite ?orb_true_r, ?orb_false_r, ?andb_true_r, ?andb_false_r.
Qed.

(* an attribute is in the denoted set iff it is mentioned and its last mention is
   not negated *)
Theorem denote_later_wins : forall ts a,
  N.testbit (t_eff (denote ts)) (attr_bit a) = match last_mention a ts with Some on => on | None => false end.
Proof. intros ts a. unfold denote. cbn [t_eff]. rewrite fold_attr_bit. now destruct (last_mention a ts). Qed.

(* and nothing but the seven attributes is ever in it *)
Theorem denote_only_attrs : forall ts i, (forall a, attr_bit a <> i) -> N.testbit (t_eff (denote ts)) i = false.
Proof.
  intros ts i Hi. unfold denote. cbn [t_eff].
  assert (G : forall e, N.testbit e i = false -> N.testbit (fold_left apply_attr ts e) i = false).
  { induction ts as [|t ts IH]; intros e He; [exact He|]. cbn [fold_left]. apply IH.
    destruct t as [c|[] a]; cbn [apply_attr]; [exact He | |].
    - rewrite insert_bit, He. cbn. apply N.eqb_neq, Hi.
    - rewrite remove_bit, He. reflexivity. }
  apply G. reflexivity.
Qed.
