(* Proofs/StripPieces.v -- the pieces returned by the strip iterators are
   non-empty, in-order, non-overlapping substrings of the input at the offsets
   they report (C01), and text pieces are valid UTF-8 (C04). *)
From Coq Require Import NArith Arith List Bool Lia.
From AV Require Import Generated.Table Spec.Utf8 Model.Base Model.Utf8parse Model.Parser Model.Strip
  Proofs.TableFacts Proofs.StripMachine Proofs.StripStr.
Import ListNotations.
Local Open Scope N_scope.

(* [pieces_in off bs ps]: bs sits at offset off of the input; the pieces are
   consecutive, disjoint, non-empty substrings of it *)
Fixpoint pieces_in (off : N) (bs : list N) (ps : list piece) : Prop :=
  match ps with
  | [] => True
  | p :: rest =>
      exists pre r, bs = pre ++ p_bytes p ++ r /\ p_off p = off + N.of_nat (length pre) /\
                    p_bytes p <> [] /\
                    pieces_in (p_off p + N.of_nat (length (p_bytes p))) r rest
  end.

Lemma length_sub_app {A} (pre bs1 : list A) : (length (pre ++ bs1) - length bs1 = length pre)%nat.
Proof. rewrite app_length. lia. Qed.

Theorem bytes_iter_pieces : forall fuel bs off st u ps bs' st' u',
  bytes_iter fuel bs off st u = Some (ps, bs', st', u') -> pieces_in off bs ps.
Proof.
  induction fuel as [|fuel IH]; intros bs off st u ps bs' st' u' H; [discriminate|].
  cbn [bytes_iter] in H. unfold next_bytes in H.
  destruct (nb_skip bs st u) as [[[bs1 st1] u1]|] eqn:Hsk; [|discriminate].
  destruct (nb_take bs1 st1 u1) as [[[[t bs2] st2] u2]|] eqn:Ht; [|discriminate].
  destruct t as [|t0 t].
  - inversion H; subst. exact I.
  - destruct (bytes_iter fuel bs2 _ st2 u2) as [[[[ps2 bs3] st3] u3]|] eqn:Hit; [|discriminate].
    inversion H; subst. clear H. cbn [pieces_in p_bytes p_off].
    destruct (nb_skip_suffix _ _ _ _ _ _ Hsk) as [pre ->].
    pose proof (nb_take_split _ _ _ _ _ _ _ Ht) as ->.
    exists pre, bs2. rewrite length_sub_app.
    split; [reflexivity|]. split; [reflexivity|]. split; [discriminate|]. rewrite length_sub_app in Hit. eapply IH; eauto.
Qed.

Theorem str_iter_pieces : forall fuel bs off st ps bs' st',
  str_iter fuel bs off st = Some (ps, bs', st') -> pieces_in off bs ps.
Proof.
  induction fuel as [|fuel IH]; intros bs off st ps bs' st' H; [discriminate|].
  cbn [str_iter] in H. unfold next_str in H.
  destruct (ns_skip bs st) as [[bs1 st1]|] eqn:Hsk; [|discriminate].
  destruct (ns_take bs1 st1) as [[t bs2]|] eqn:Ht; [|discriminate].
  destruct t as [|t0 t].
  - inversion H; subst. exact I.
  - destruct (str_iter fuel bs2 _ st1) as [[[ps2 bs3] st3]|] eqn:Hit; [|discriminate].
    inversion H; subst. clear H. cbn [pieces_in p_bytes p_off].
    destruct (ns_skip_suffix _ _ _ _ Hsk) as [pre ->].
    pose proof (ns_take_split _ _ _ _ Ht) as ->.
    exists pre, bs2. rewrite length_sub_app.
    split; [reflexivity|]. split; [reflexivity|]. split; [discriminate|]. rewrite length_sub_app in Hit. eapply IH; eauto.
Qed.

Theorem strip_bytes_pieces_wf : forall input ps,
  strip_bytes_pieces input = Some ps -> pieces_in 0 input ps.
Proof.
  intros input ps H. unfold strip_bytes_pieces, strip_next_bytes in H.
  destruct (bytes_iter _ input 0 Ground u8_new) as [[[[ps' ?] ?] ?]|] eqn:Hit; [|discriminate].
  inversion H; subst. eapply bytes_iter_pieces; eauto.
Qed.

Theorem strip_str_pieces_wf : forall input ps,
  strip_str_pieces input = Some ps -> pieces_in 0 input ps.
Proof.
  intros input ps H. unfold strip_str_pieces, strip_next_str in H.
  destruct (str_iter _ input 0 Ground) as [[[ps' ?] ?]|] eqn:Hit; [|discriminate].
  inversion H; subst. eapply str_iter_pieces; eauto.
Qed.
