(* Proofs/StripPieces.v -- the pieces returned by the strip iterators are
   non-empty, in-order, non-overlapping substrings of the input at the offsets
   they report (C01), and text pieces are valid UTF-8 (C04). *)
From Coq Require Import NArith Arith List Bool Lia.
From AV Require Import Generated.Table Spec.Utf8 Model.Base Model.Utf8parse Model.Parser Model.Strip
  Proofs.TableFacts Proofs.StripMachine Proofs.StripStr.
Import ListNotations.
Local Open Scope N_scope.

(* [pieces_in off bs ps]: bs sits at offset off of the input; the pieces are
   consecutive, disjoint, non-empty substrings of it *)
Fixpoint pieces_in (off : N) (bs : list N) (ps : list piece) : Prop :=
  match ps with
  | [] => True
  | p :: rest =>
      exists pre r, bs = pre ++ p_bytes p ++ r /\ p_off p = off + N.of_nat (length pre) /\
                    p_bytes p <> [] /\
                    pieces_in (p_off p + N.of_nat (length (p_bytes p))) r rest
  end.

Lemma length_sub_app {A} (pre bs1 : list A) : (length (pre ++ bs1) - length bs1 = length pre)%nat.
Proof. rewrite app_length. lia. Qed.

Theorem bytes_iter_pieces : forall fuel bs off st u ps bs' st' u',
  bytes_iter fuel bs off st u = Some (ps, bs', st', u') -> pieces_in off bs ps.
Proof.
  induction fuel as [|fuel IH]; intros bs off st u ps bs' st' u' H; [discriminate|].
  cbn [bytes_iter] in H. unfold next_bytes in H.
  destruct (nb_skip bs st u) as [[[bs1 st1] u1]|] eqn:Hsk; [|discriminate].
  destruct (nb_take bs1 st1 u1) as [[[[t bs2] st2] u2]|] eqn:Ht; [|discriminate].
  destruct t as [|t0 t].
  - inversion H; subst. exact I.
  - destruct (bytes_iter fuel bs2 _ st2 u2) as [[[[ps2 bs3] st3] u3]|] eqn:Hit; [|discriminate].
    inversion H; subst. clear H. cbn [pieces_in p_bytes p_off].
    destruct (nb_skip_suffix _ _ _ _ _ _ Hsk) as [pre ->].
    pose proof (nb_take_split _ _ _ _ _ _ _ Ht) as ->.
    exists pre, bs2. rewrite length_sub_app.
    split; [reflexivity|]. split; [reflexivity|]. split; [discriminate|]. rewrite length_sub_app in Hit. eapply IH; eauto.
Qed.

Theorem str_iter_pieces : forall fuel bs off st ps bs' st',
  str_iter fuel bs off st = Some (ps, bs', st') -> pieces_in off bs ps.
Proof.
  induction fuel as [|fuel IH]; intros bs off st ps bs' st' H; [discriminate|].
  cbn [str_iter] in H. unfold next_str in H.
  destruct (ns_skip bs st) as [[bs1 st1]|] eqn:Hsk; [|discriminate].
  destruct (ns_take bs1 st1) as [[t bs2]|] eqn:Ht; [|discriminate].
  destruct t as [|t0 t].
  - inversion H; subst. exact I.
  - destruct (str_iter fuel bs2 _ st1) as [[[ps2 bs3] st3]|] eqn:Hit; [|discriminate].
    inversion H; subst. clear H. cbn [pieces_in p_bytes p_off].
    destruct (ns_skip_suffix _ _ _ _ Hsk) as [pre ->].
    pose proof (ns_take_split _ _ _ _ Ht) as ->.
    exists pre, bs2. rewrite length_sub_app.
    split; [reflexivity|]. split; [reflexivity|]. split; [discriminate|]. rewrite length_sub_app in Hit. eapply IH; eauto.
Qed.

Theorem strip_bytes_pieces_wf : forall input ps,
  strip_bytes_pieces input = Some ps -> pieces_in 0 input ps.
Proof.
  intros input ps H. unfold strip_bytes_pieces, strip_next_bytes in H.
  destruct (bytes_iter _ input 0 Ground u8_new) as [[[[ps' ?] ?] ?]|] eqn:Hit; [|discriminate].
  inversion H; subst. eapply bytes_iter_pieces; eauto.
Qed.

Theorem strip_str_pieces_wf : forall input ps,
  strip_str_pieces input = Some ps -> pieces_in 0 input ps.
Proof.
  intros input ps H. unfold strip_str_pieces, strip_next_str in H.
  destruct (str_iter _ input 0 Ground) as [[[ps' ?] ?]|] eqn:Hit; [|discriminate].
  inversion H; subst. eapply str_iter_pieces; eauto.
Qed.

(* ---- C04: text pieces are valid UTF-8 ----------------------------------------- *)

Fixpoint vrun (vu : option ustate) (bs : list N) : option (option ustate) :=
  match bs with
  | [] => Some vu
  | b :: rest => match vnext vu b with Some vu' => vrun vu' rest | None => None end
  end.

Lemma valid_from_vrun vu bs : valid_from vu bs = true <-> vrun vu bs = Some None.
Proof.
  revert vu. induction bs as [|b bs IH]; intros vu.
  - cbn. destruct vu; split; intros H; try discriminate; try reflexivity.
  - rewrite valid_from_cons. cbn [vrun]. destruct (vnext vu b) as [vu'|]; [apply IH|].
    split; discriminate.
Qed.

Lemma vrun_app a b vu : vrun vu (a ++ b) = match vrun vu a with Some vu' => vrun vu' b | None => None end.
Proof.
  revert vu. induction a as [|x a IH]; intros vu; [reflexivity|].
  cbn [app vrun]. destruct (vnext vu x); [apply IH|reflexivity].
Qed.

(* a byte that is neither a continuation byte nor invalid can only follow a complete character *)
Lemma vnext_boundary vu b vu' :
  vnext vu b = Some vu' -> is_utf8_continuation b = false -> vu = None.
Proof.
  intros H Hc. destruct vu as [u|]; [|reflexivity]. cbn [vnext] in H.
  assert (Hnb : utf8_cont u b <> UBad) by (destruct (utf8_cont u b); congruence).
  destruct (utf8_cont_range u b Hnb) as (Hc' & _). congruence.
Qed.

(* the bytes a take phase returns: the first is printable (hence not a
   continuation byte) and what follows the run is not a continuation byte *)
Lemma ns_take_ends_clean : forall bs st t r,
  ns_take bs st = Some (t, r) -> starts_clean r.
Proof.
  induction bs as [|b bs IH]; intros st t r H; cbn [ns_take] in H.
  - inversion H; subst. exact I.
  - destruct (state_change st b) as [[ns a]|]; [|discriminate].
    destruct (is_printable_bytes a b || is_utf8_continuation b) eqn:Hk; cbn [negb] in H.
    + destruct (ns_take bs st) as [[t1 r1]|] eqn:Ht; [|discriminate]. inversion H; subst. eapply IH; eauto.
    + inversion H; subst. cbn. apply orb_false_iff in Hk. tauto.
Qed.

Definition printable_not_cont (s : state) (b : N) : bool :=
  match state_change s b with
  | Some (_, a) => if is_printable_bytes a b then negb (is_utf8_continuation b) else true
  | None => false
  end.

Lemma printable_not_cont_all :
  forallb (fun s => forallb (printable_not_cont s) all_bytes) all_states = true.
Proof. vm_compute. reflexivity. Qed.

Lemma ns_skip_stops_clean : forall bs st bs1 st1,
  bytes_ok bs -> ns_skip bs st = Some (bs1, st1) -> starts_clean bs1.
Proof.
  induction bs as [|b bs IH]; intros st bs1 st1 Hok H; cbn [ns_skip] in H.
  - inversion H; subst. exact I.
  - inversion Hok as [|? ? Hb Hok']; subst.
    destruct (state_change st b) as [[ns a]|] eqn:Hsc; [|discriminate].
    destruct (is_printable_bytes a b) eqn:Hp.
    + inversion H; subst. cbn.
      pose proof (forall_states_bytes _ printable_not_cont_all st b Hb) as Hq.
      unfold printable_not_cont in Hq. rewrite Hsc, Hp in Hq. now apply negb_true_iff in Hq.
    + eapply IH; eauto.
Qed.

(* a slice of valid UTF-8 that starts and ends at clean positions is valid UTF-8 *)
Lemma valid_slice pre t r :
  valid_utf8 (pre ++ t ++ r) = true -> starts_clean t -> starts_clean r -> t <> [] ->
  valid_utf8 t = true.
Proof.
  unfold valid_utf8. intros Hv Ht Hr Hne. apply valid_from_vrun in Hv. apply valid_from_vrun.
  rewrite vrun_app in Hv.
  destruct (vrun None pre) as [v1|] eqn:H1; [|discriminate Hv].
  destruct t as [|t0 t]; [contradiction|]. cbn [starts_clean] in Ht.
  cbn [app vrun] in Hv |- *.
  destruct (vnext v1 t0) as [v1'|] eqn:Hn; [|discriminate Hv].
  pose proof (vnext_boundary _ _ _ Hn Ht) as Hv1. subst v1. rewrite Hn.
  rewrite vrun_app in Hv.
  destruct (vrun v1' t) as [v2|] eqn:H2; [|discriminate Hv].
  destruct r as [|r0 r].
  - cbn [vrun] in Hv. exact Hv.
  - cbn [vrun starts_clean] in Hv, Hr. destruct (vnext v2 r0) as [v3|] eqn:Hn2; [|discriminate Hv].
    now rewrite (vnext_boundary _ _ _ Hn2 Hr).
Qed.

Fixpoint pieces_valid (ps : list piece) : Prop :=
  match ps with [] => True | p :: rest => valid_utf8 (p_bytes p) = true /\ pieces_valid rest end.

Theorem str_iter_pieces_utf8 : forall fuel pre bs off st ps bs' st',
  bytes_ok bs -> valid_utf8 (pre ++ bs) = true -> starts_clean bs ->
  str_iter fuel bs off st = Some (ps, bs', st') -> pieces_valid ps.
Proof.
  induction fuel as [|fuel IH]; intros pre bs off st ps bs' st' Hok Hv Hc H; [discriminate|].
  cbn [str_iter] in H. unfold next_str in H.
  destruct (ns_skip bs st) as [[bs1 st1]|] eqn:Hsk; [|discriminate].
  destruct (ns_take bs1 st1) as [[t bs2]|] eqn:Ht; [|discriminate].
  destruct t as [|t0 t].
  - inversion H; subst. exact I.
  - destruct (str_iter fuel bs2 _ st1) as [[[ps2 bs3] st3]|] eqn:Hit; [|discriminate].
    inversion H; subst. clear H. cbn [pieces_valid p_bytes].
    destruct (ns_skip_suffix _ _ _ _ Hsk) as [pre1 Hpre1].
    pose proof (ns_take_split _ _ _ _ Ht) as Hsp.
    pose proof (ns_skip_stops_clean _ _ _ _ Hok Hsk) as Hc1.
    pose proof (ns_take_ends_clean _ _ _ _ Ht) as Hc2.
    assert (Hok2 : bytes_ok bs2).
    { subst bs. rewrite Hsp in Hok. unfold bytes_ok in *. apply Forall_app in Hok as [_ Hok].
      apply Forall_app in Hok. tauto. }
    split.
    + apply (valid_slice (pre ++ pre1) (t0 :: t) bs2); auto.
      * subst bs. rewrite Hsp in Hv. rewrite <- app_assoc. exact Hv.
      * rewrite Hsp in Hc1. exact Hc1.
      * discriminate.
    + eapply (IH (pre ++ pre1 ++ t0 :: t) bs2); [exact Hok2| |exact Hc2|exact Hit].
      subst bs. rewrite Hsp in Hv. rewrite <- !app_assoc. cbn [app] in *. exact Hv.
Qed.

Theorem strip_str_pieces_utf8 : forall input ps,
  bytes_ok input -> valid_utf8 input = true -> strip_str_pieces input = Some ps -> pieces_valid ps.
Proof.
  intros input ps Hok Hv H. unfold strip_str_pieces, strip_next_str in H.
  destruct (str_iter _ input 0 Ground) as [[[ps' ?] ?]|] eqn:Hit; [|discriminate].
  inversion H; subst.
  apply (str_iter_pieces_utf8 _ [] input 0 Ground ps l s Hok Hv (valid_starts_clean _ Hv) Hit).
Qed.
