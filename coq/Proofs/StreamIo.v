(* Proofs/StreamIo.v -- facts about the scripted inner writers of Spec/Io: what
   one `write` does to the script, the received bytes and the call history; std's
   `write_all` loop (its fuel always suffices, Ok = everything delivered, Err = a
   prefix delivered and the error is the writer's own or WriteZero); accept-all
   writers.  Helper predicates on call histories used by C06 / C08. *)
From Coq Require Import NArith Arith List Bool Lia.
From AV Require Import Spec.Io.
Import ListNotations.
Local Open Scope N_scope.

(* ---- predicates on call histories ----------------------------------------- *)

(* the inner writer took the whole buffer *)
Definition full_accept (c : wcall) : Prop := exists x, c = CWrite x (inl (N.of_nat (length x))).

(* nothing std's write_all would report: a (possibly short) accept, or Interrupted (retried) *)
Definition benign (c : wcall) : Prop :=
  match c with
  | CWrite _ (inl _) => True
  | CWrite _ (inr k) => k = Interrupted
  | CFlush => False
  end.

(* where an error kind may come from: the calls made during the operation are
   benign ones followed by a LAST call that the inner writer answered with
   `Fail k`, or in which it accepted 0 bytes of a non-empty buffer (k = WriteZero) *)
Definition err_calls (cs : list wcall) (k : ekind) : Prop :=
  exists h x, Forall benign h /\
    (cs = h ++ [CWrite x (inr k)] \/
     (k = WriteZero /\ x <> [] /\ cs = h ++ [CWrite x (inl 0)])).

Lemma full_accept_benign c : full_accept c -> benign c.
Proof. intros [x ->]. exact I. Qed.

Lemma err_calls_app a b k : Forall benign a -> err_calls b k -> err_calls (a ++ b) k.
Proof.
  intros Ha (h & x & Hh & Hc). exists (a ++ h), x. split; [apply Forall_app; auto|].
  destruct Hc as [->|(-> & Hx & ->)]; [left|right]; rewrite <- app_assoc; auto.
Qed.

Lemma err_calls_cons c b k : benign c -> err_calls b k -> err_calls (c :: b) k.
Proof. intros Hc Hb. apply (err_calls_app [c] b k); [constructor; [exact Hc|constructor]|exact Hb]. Qed.

(* ---- list / N helpers ----------------------------------------------------- *)

Lemma to_nat_of_nat_add a b : N.to_nat (N.of_nat a + N.of_nat b) = (a + b)%nat.
Proof. rewrite N2Nat.inj_add, !Nat2N.id. reflexivity. Qed.

Lemma to_nat_of_nat_add_n a n : N.to_nat (N.of_nat a + n) = (a + N.to_nat n)%nat.
Proof. rewrite N2Nat.inj_add, Nat2N.id. reflexivity. Qed.

Lemma firstn_le_app {A} (k : nat) (l1 l2 : list A) :
  (k <= length l1)%nat -> firstn k (l1 ++ l2) = firstn k l1.
Proof.
  intros H. rewrite firstn_app. replace (k - length l1)%nat with 0%nat by lia.
  cbn [firstn]. apply app_nil_r.
Qed.

Lemma skipn_length_lt {A} (k : nat) (l : list A) :
  (0 < k)%nat -> l <> [] -> (length (skipn k l) < length l)%nat.
Proof.
  intros Hk Hl. rewrite skipn_length. destruct l; [contradiction|]. cbn [length]. lia.
Qed.

(* ---- one write ------------------------------------------------------------- *)

Lemma w_write_inl w buf w1 n :
  w_write w buf = (w1, inl n) ->
  n <= N.of_nat (length buf) /\
  w_received w1 = w_received w ++ firstn (N.to_nat n) buf /\
  w_calls w1 = w_calls w ++ [CWrite buf (inl n)] /\
  (length (w_script w1) <= length (w_script w))%nat /\
  (w_script w = [] -> n = N.of_nat (length buf) /\ w_script w1 = []).
Proof.
  unfold w_write. destruct (w_script w) as [|[a|e] rest]; intros H; inversion H; subst; clear H;
    cbn [w_received w_calls w_script length].
  - rewrite Nat2N.id, firstn_all. repeat split; auto; lia.
  - repeat split; auto; try lia. discriminate. discriminate.
Qed.

Lemma w_write_inr w buf w1 k :
  w_write w buf = (w1, inr k) ->
  exists rest, w_script w = Fail k :: rest /\ w_script w1 = rest /\
    w_received w1 = w_received w /\ w_calls w1 = w_calls w ++ [CWrite buf (inr k)].
Proof.
  unfold w_write. destruct (w_script w) as [|[a|e] rest]; intros H; inversion H; subst; clear H.
  exists rest. cbn. auto.
Qed.

Lemma w_write_accept_all w buf :
  w_script w = [] ->
  w_write w buf = (mkW [] (w_received w ++ buf) (w_calls w ++ [CWrite buf (inl (N.of_nat (length buf)))]),
                   inl (N.of_nat (length buf))).
Proof. intros Hs. unfold w_write. rewrite Hs. reflexivity. Qed.

(* ---- std's write_all -------------------------------------------------------- *)

Lemma w_write_all_fuel_nil fuel w : w_write_all_fuel fuel w [] = (w, inl tt).
Proof. destruct fuel; reflexivity. Qed.

Definition w_write_all_post (w : writer) (buf : list N) (w1 : writer) (r : unit + ekind) : Prop :=
  (length (w_script w1) <= length (w_script w))%nat /\
  exists cs, w_calls w1 = w_calls w ++ cs /\
  match r with
  | inl _ => w_received w1 = w_received w ++ buf /\ Forall benign cs
  | inr k => (exists p q, buf = p ++ q /\ w_received w1 = w_received w ++ p) /\ err_calls cs k
  end.

Lemma w_write_all_fuel_spec : forall fuel w buf w1 r,
  (length (w_script w) + length buf < fuel)%nat ->
  w_write_all_fuel fuel w buf = (w1, r) ->
  w_write_all_post w buf w1 r.
Proof.
  induction fuel as [|fuel IH]; intros w buf w1 r Hlen H; [lia|].
  destruct buf as [|b bs].
  - cbn in H. inversion H; subst. split; [lia|]. exists []. rewrite !app_nil_r. auto.
  - set (buf := b :: bs) in *.
    assert (Hne : buf <> []) by discriminate.
    cbn [w_write_all_fuel] in H. fold buf in H.
    destruct (w_write w buf) as [wa ra] eqn:Hw.
    destruct ra as [n|e].
    + destruct (w_write_inl _ _ _ _ Hw) as (Hn & Hrec & Hcalls & Hscr & _).
      destruct n as [|p].
      * inversion H; subst. split; [exact Hscr|]. exists [CWrite buf (inl 0)]. split; [exact Hcalls|].
        split.
        -- exists [], buf. split; [reflexivity|]. rewrite Hrec. reflexivity.
        -- exists [], buf. split; [constructor|]. right. auto.
      * assert (Hlt : (length (skipn (N.to_nat (N.pos p)) buf) < length buf)%nat).
        { apply skipn_length_lt; [lia|exact Hne]. }
        assert (Hlen' : (length (w_script wa) + length (skipn (N.to_nat (N.pos p)) buf) < fuel)%nat) by lia.
        destruct (IH _ _ _ _ Hlen' H) as (Hscr' & cs & Hcs & Hr).
        split; [lia|]. exists (CWrite buf (inl (N.pos p)) :: cs).
        split; [rewrite Hcs, Hcalls, <- app_assoc; reflexivity|].
        destruct r as [u|k].
        -- destruct Hr as [Hr Hb]. split.
           ++ rewrite Hr, Hrec, <- app_assoc, firstn_skipn. reflexivity.
           ++ constructor; [exact I|exact Hb].
        -- destruct Hr as [(p1 & q1 & Hpq & Hr) Ho]. split; [|apply err_calls_cons; [exact I|exact Ho]].
           exists (firstn (N.to_nat (N.pos p)) buf ++ p1), q1. split.
           ++ rewrite <- app_assoc, <- Hpq, firstn_skipn. reflexivity.
           ++ rewrite Hr, Hrec, <- app_assoc. reflexivity.
    + destruct (w_write_inr _ _ _ _ Hw) as (rest & Hs & Hs1 & Hrec & Hcalls).
      assert (Hstop : (wa, inr e) = (w1, r) -> w_write_all_post w buf w1 r).
      { intros E. inversion E; subst w1 r. split; [rewrite Hs, Hs1; cbn [length]; lia|].
        exists [CWrite buf (inr e)]. split; [exact Hcalls|]. split.
        - exists [], buf. split; [reflexivity|]. rewrite Hrec, app_nil_r. reflexivity.
        - exists [], buf. split; [constructor|]. left. reflexivity. }
      destruct e; try (apply Hstop; exact H).
      (* Interrupted: retry with the same buffer, one script entry shorter *)
      assert (Hlen' : (length (w_script wa) + length buf < fuel)%nat).
      { rewrite Hs in Hlen. cbn [length] in Hlen. rewrite Hs1. lia. }
      destruct (IH _ _ _ _ Hlen' H) as (Hscr' & cs & Hcs & Hr).
      split; [rewrite Hs; cbn [length]; rewrite Hs1 in Hscr'; lia|].
      exists (CWrite buf (inr Interrupted) :: cs).
      split; [rewrite Hcs, Hcalls, <- app_assoc; reflexivity|].
      destruct r as [u|k].
      * destruct Hr as [Hr Hb]. split; [rewrite Hr, Hrec; reflexivity|].
        constructor; [reflexivity|exact Hb].
      * destruct Hr as [(p1 & q1 & Hpq & Hr) Ho]. split; [|apply err_calls_cons; [reflexivity|exact Ho]].
        exists p1, q1. split; [exact Hpq|]. rewrite Hr, Hrec. reflexivity.
Qed.

Lemma w_write_all_spec w buf w1 r :
  w_write_all w buf = (w1, r) -> w_write_all_post w buf w1 r.
Proof. unfold w_write_all. apply w_write_all_fuel_spec. lia. Qed.

(* an accept-all writer takes everything and stays accept-all *)
Lemma w_write_all_accept_all w buf :
  w_script w = [] ->
  exists w1, w_write_all w buf = (w1, inl tt) /\ w_script w1 = [] /\
             w_received w1 = w_received w ++ buf.
Proof.
  intros Hs. unfold w_write_all. rewrite Hs. cbn [length Nat.add].
  destruct buf as [|b bs].
  - exists w. cbn. rewrite app_nil_r. auto.
  - set (buf := b :: bs). cbn [w_write_all_fuel]. fold buf.
    rewrite (w_write_accept_all w buf Hs).
    destruct (N.of_nat (length buf)) as [|p] eqn:E.
    + exfalso. unfold buf in E. cbn [length] in E. lia.
    + assert (E' : N.to_nat (N.pos p) = length buf) by (rewrite <- E; apply Nat2N.id).
      rewrite E', skipn_all, w_write_all_fuel_nil.
      eexists. split; [reflexivity|]. cbn. auto.
Qed.
