(* Proofs/GlueGen.v -- the anstream glue TRANSLATED from crates/anstream/src/{buffer.rs, stream.rs, lib.rs}
   (Generated/GlueFn.v, written by tools/gen_fn_glue.py on every run) does what the hand models and the
   vocabularies of the other translated areas assume about it:
   * Buffer is an accept-all in-memory writer (it behaves like the scripted writer of Spec/Io.v once the script is
     exhausted: same result, same bytes);
   * every `impl IsTerminal` asks the polyfill about `self` / answers false / forwards to the pointee;
   * `as_locked_write` of Stdout / Stderr takes the lock once and hands out the view of the same stream (what the
     LOCK translation of Generated/AutoFn.v assumes: lr_acquire, lr_w), every other impl hands out `self`;
   * `anstream::stdout()` / `stderr()` are `AutoStream::auto` of the process's stdout / stderr handle.
   A change to one of these Rust functions changes the translation; if it changes the meaning, a proof here fails. *)
From Coq Require Import NArith List Bool Lia.
From AV Require Import Generated.Table Spec.Io Model.Base Model.Imp Model.Utf8parse Model.Parser Model.Strip Model.Stream Model.Glue
  Generated.StreamFn Generated.AutoFn Generated.GlueFn.
Import ListNotations.
Local Open Scope N_scope.

(* ---- buffer.rs ------------------------------------------------------------------------------------ *)
Lemma g_buffer_new_eq : g_buffer_new = [].
Proof. reflexivity. Qed.
Lemma g_buffer_with_capacity_eq n : g_buffer_with_capacity n = [].
Proof. reflexivity. Qed.
Lemma g_buffer_as_bytes_eq b : g_buffer_as_bytes b = b.
Proof. reflexivity. Qed.
Lemma g_buffer_as_ref_eq b : g_buffer_as_ref b = b.
Proof. reflexivity. Qed.
Lemma g_buffer_write_eq b buf : g_buffer_write b buf = (b ++ buf, inl (N.of_nat (length buf))).
Proof. reflexivity. Qed.
Lemma g_buffer_flush_eq b : g_buffer_flush b = (b, inl tt).
Proof. reflexivity. Qed.

(* Buffer against the scripted writer whose script is exhausted (an accept-all Vec writer): one `write` gives the same
   io::Result and keeps the relation "received = content"; `flush` succeeds and changes no byte *)
Theorem buffer_write_simulates_writer b w buf :
  buf_rel b w ->
  let '(b', r) := g_buffer_write b buf in
  let '(w', r') := w_write w buf in
  r = r' /\ buf_rel b' w'.
Proof.
  intros [Hs Hr]. rewrite g_buffer_write_eq. unfold w_write. rewrite Hs. cbn [w_script w_received buf_rel].
  unfold buf_rel. cbn [w_script w_received]. rewrite Hr. repeat split.
Qed.

Theorem buffer_flush_simulates_writer b w :
  buf_rel b w ->
  let '(b', r) := g_buffer_flush b in
  r = inl tt /\ buf_rel b' (w_flush w).
Proof. intros [Hs Hr]. rewrite g_buffer_flush_eq. unfold buf_rel, w_flush. cbn [w_script w_received]. auto. Qed.

(* any sequence of writes: the buffer ends up holding the concatenation, every write answers Ok(len) *)
Fixpoint g_buffer_writes (b : list N) (bufs : list (list N)) : list N * list (N + ekind) :=
  match bufs with
  | [] => (b, [])
  | x :: rest => let '(b1, r) := g_buffer_write b x in let '(b2, rs) := g_buffer_writes b1 rest in (b2, r :: rs)
  end.

Theorem buffer_writes_concat bufs : forall b,
  g_buffer_writes b bufs = (b ++ concat bufs, map (fun x => inl (N.of_nat (length x))) bufs).
Proof.
  induction bufs as [|x rest IH]; intros b; cbn [g_buffer_writes concat map].
  - rewrite app_nil_r. reflexivity.
  - rewrite g_buffer_write_eq, IH, app_assoc. reflexivity.
Qed.

Theorem buffer_new_as_bytes bufs :
  g_buffer_as_bytes (fst (g_buffer_writes g_buffer_new bufs)) = concat bufs.
Proof. rewrite buffer_writes_concat. reflexivity. Qed.

(* ---- stream.rs: IsTerminal ---------------------------------------------------------------------------- *)
(* the streams backed by a descriptor ask the polyfill about THEMSELVES: the answer `raw.is_terminal()` has in the
   vocabulary of Generated/AutoFn.v *)
Definition g_is_terminal_fd_impls : list (acfg -> writer -> bool) :=
  [g_is_terminal_stdout; g_is_terminal_stdoutlock; g_is_terminal_stderr; g_is_terminal_stderrlock; g_is_terminal_file].
(* the in-memory and dyn streams are never a terminal *)
Definition g_is_terminal_mem_impls : list (acfg -> writer -> bool) :=
  [g_is_terminal_dyn; g_is_terminal_dyn_send; g_is_terminal_dyn_send_sync; g_is_terminal_vec; g_is_terminal_buffer].

Theorem translated_is_terminal_fd : forall f, In f g_is_terminal_fd_impls -> forall cf w, f cf w = raw_is_terminal cf w.
Proof. intros f H cf w. cbn [g_is_terminal_fd_impls In] in H. repeat (destruct H as [<-|H]; [reflexivity|]). destruct H. Qed.

Theorem translated_is_terminal_mem : forall f, In f g_is_terminal_mem_impls -> forall cf w, f cf w = false.
Proof. intros f H cf w. cbn [g_is_terminal_mem_impls In] in H. repeat (destruct H as [<-|H]; [reflexivity|]). destruct H. Qed.

(* `&T`, `&mut T`, `Box<T>`: the pointee's answer [tit] *)
Theorem translated_is_terminal_forward : forall cf tit w,
  g_is_terminal_ref cf tit w = tit w /\ g_is_terminal_refmut cf tit w = tit w /\ g_is_terminal_box cf tit w = tit w.
Proof. intros. exact (conj eq_refl (conj eq_refl eq_refl)). Qed.

(* ---- stream.rs: AsLockedWrite ------------------------------------------------------------------------- *)
(* Stdout / Stderr: `self.lock()` -- one Acquire logged at the current length of the inner call history, the guard is
   the view of the SAME stream: exactly the reading of `x.as_locked_write()` in the LOCK translation (gl_* of AutoFn.v) *)
Theorem translated_as_locked_write_std : forall x,
  g_as_locked_write_stdout x = (lr_acquire x, lr_w x) /\ g_as_locked_write_stderr x = (lr_acquire x, lr_w x).
Proof. intros x. exact (conj eq_refl eq_refl). Qed.

(* an already locked handle and every stream that has no lock: the stream itself, no lock event *)
Definition g_as_locked_write_self_impls : list (lraw -> lraw * lraw) :=
  [g_as_locked_write_stdoutlock; g_as_locked_write_stderrlock; g_as_locked_write_dyn; g_as_locked_write_dyn_send;
   g_as_locked_write_dyn_send_sync; g_as_locked_write_vec; g_as_locked_write_file; g_as_locked_write_buffer].

Theorem translated_as_locked_write_self : forall f, In f g_as_locked_write_self_impls -> forall x, f x = (x, x).
Proof. intros f H x. cbn [g_as_locked_write_self_impls In] in H. repeat (destruct H as [<-|H]; [reflexivity|]). destruct H. Qed.

Theorem translated_as_locked_write_forward : forall G (talw : lraw -> lraw * G) x,
  g_as_locked_write_refmut G talw x = talw x /\ g_as_locked_write_box G talw x = talw x.
Proof. intros. unfold g_as_locked_write_refmut, g_as_locked_write_box. destruct (talw x). exact (conj eq_refl eq_refl). Qed.

(* the lock taken by `as_locked_write` and released by the guard's destructor brackets whatever happens in between:
   with the writer [w'] the inner calls leave behind, the log is lock_once (Model/Stream.v) *)
Theorem translated_stdout_lock_once : forall x w',
  let '(x1, g) := g_as_locked_write_stdout x in
  g = lr_w x /\ lr_log (lr_release (set_lr_w x1 w')) = lock_once (lr_log x) (lr_w x) w'.
Proof.
  intros x w'. cbn. split; [reflexivity|]. unfold lock_once. rewrite <- app_assoc. reflexivity.
Qed.

(* ---- lib.rs ------------------------------------------------------------------------------------------- *)
Theorem translated_stdout_is_auto : forall cf so se, g_stdout cf so se = g_as_auto cf so.
Proof. intros. unfold g_stdout. destruct (g_as_auto cf so); reflexivity. Qed.
Theorem translated_stderr_is_auto : forall cf so se, g_stderr cf so se = g_as_auto cf se.
Proof. intros. unfold g_stderr. destruct (g_as_auto cf se); reflexivity. Qed.
