(* Proofs/ParserSim.v -- the hand model of Parser::advance (Model/Parser.v) refines
   the specification Spec/Vt.v: a simulation relation between the array
   bookkeeping of the Rust code and the abstract bookkeeping of the spec, one
   lemma per action, then [advance] against [vt_step] through the table theorem,
   then induction over the byte stream.  In particular the model never returns
   [None]: no array index out of bounds, no underflow, ParamsIter terminates. *)
From Coq Require Import NArith List Bool Lia Arith.
From AV Require Import Generated.Table Spec.Utf8 Spec.Vt Model.Base Model.Utf8parse Model.Parser
  Proofs.TableFacts Proofs.VtFacts Proofs.ParamsSim Proofs.OscSim Proofs.Utf8Sim.
Import ListNotations.
Local Open Scope N_scope.
Local Arguments N.mul : simpl never.
Local Arguments N.add : simpl never.
Local Arguments N.sub : simpl never.
Local Arguments N.min : simpl never.

(* ---- the simulation relation ---------------------------------------------- *)

(* unconditional well-formedness: the fixed-size arrays keep their sizes *)
Record wf (p : parser) : Prop := {
  wf_int : length (intermediates p) = 2%nat;
  wf_sub : length (subparams (pparams p)) = 32%nat;
  wf_val : length (pvals (pparams p)) = 32%nat;
  wf_osc : length (osc_params p) = 16%nat
}.

(* intermediates, flag, pending value and parameter arrays against the spec *)
Record book_ok (p : parser) (s : vt) : Prop := {
  bk_idx : intermediate_idx p = N.of_nat (length (ints s));
  bk_ilen : (length (ints s) <= 2)%nat;
  bk_ints : firstn (length (ints s)) (intermediates p) = ints s;
  bk_ign : ignoring p = ign s;
  bk_pend : pparam p = pend s;
  bk_par : params_rep (pparams p) (closed s) (cur s)
}.

Definition state_rel (p : parser) (s : vt) : Prop :=
  match uni s with
  | Some (u, acc) => pstate p = Utf8 /\ vs s = VGround /\ u8_rel (utf8_parser p) u acc
  | None => abs_state (pstate p) = Some (vs s) /\ utf8_parser p = u8_new
  end.

(* the bookkeeping is related only in the states that read it; the OSC buffers
   only inside an OSC string *)
Record R (p : parser) (s : vt) : Prop := {
  r_wf : wf p;
  r_state : state_rel p s;
  r_book : reads (vs s) = true -> book_ok p s;
  r_osc : vs s = VOsc -> osc_ok p (osc s)
}.

Lemma R_init : R parser_new vt_init.
Proof.
  constructor.
  - constructor; reflexivity.
  - split; reflexivity.
  - discriminate.
  - discriminate.
Qed.

(* what an action leaves alone *)
Definition same_ctl (p p' : parser) : Prop :=
  pstate p' = pstate p /\ utf8_parser p' = utf8_parser p.
Definition same_osc (p p' : parser) : Prop :=
  osc_raw p' = osc_raw p /\ osc_params p' = osc_params p /\ osc_num_params p' = osc_num_params p.
Definition same_book (p p' : parser) : Prop :=
  intermediates p' = intermediates p /\ intermediate_idx p' = intermediate_idx p /\
  pparams p' = pparams p /\ pparam p' = pparam p /\ ignoring p' = ignoring p.

Lemma same_ctl_refl : forall p, same_ctl p p. Proof. split; reflexivity. Qed.
Lemma same_osc_refl : forall p, same_osc p p. Proof. repeat split. Qed.
Lemma same_book_refl : forall p, same_book p p. Proof. repeat split. Qed.

Lemma osc_ok_same : forall p p' pl, same_osc p p' -> osc_ok p pl -> osc_ok p' pl.
Proof.
  intros p p' pl (E1 & E2 & E3) [H1 H2 H3 H4]. constructor; rewrite ?E1, ?E2, ?E3; auto.
Qed.

Lemma book_ok_same : forall p p' s, same_book p p' -> book_ok p s -> book_ok p' s.
Proof.
  intros p p' s (E1 & E2 & E3 & E4 & E5) [H1 H2 H3 H4 H5 H6].
  constructor; rewrite ?E1, ?E2, ?E3, ?E4, ?E5; auto.
Qed.

(* ---- Collect --------------------------------------------------------------- *)

Lemma collect_sim : forall p s b, wf p -> book_ok p s ->
  exists p', perform_action cfg_default p ACollect b = Some (p', []) /\
             book_ok p' (collect s b) /\ wf p' /\ same_ctl p p' /\ same_osc p p'.
Proof.
  intros p s b [W1 W2 W3 W4] [Hidx Hil Hints Hign Hpend Hpar].
  cbn [perform_action]. change MAX_INTERMEDIATES with 2. unfold collect, max_ints.
  destruct (Nat.eqb_spec (length (ints s)) 2) as [E|E].
  - destruct (N.eqb_spec (intermediate_idx p) 2) as [_|E2]; [|lia].
    eexists; split; [reflexivity|].
    split; [constructor; cbn; auto|].
    split; [constructor; cbn; auto|].
    split; repeat split.
  - destruct (N.eqb_spec (intermediate_idx p) 2) as [E2|_]; [lia|].
    destruct (aset_nat_some (intermediates p) (length (ints s)) b) as [i Hi]; [lia|].
    unfold aset. rewrite Hidx, Nat2N.id, Hi.
    eexists; split; [reflexivity|].
    assert (Hl : length (ints s ++ [b]) = S (length (ints s))) by (rewrite app_length; cbn; lia).
    split; [constructor; cbn; rewrite ?Hl; auto|].
    + lia.
    + lia.
    + rewrite (aset_nat_firstn_S _ _ _ _ Hi), Hints. reflexivity.
    + split; [constructor; cbn; auto|].
      * rewrite (aset_nat_length _ _ _ _ Hi). exact W1.
      * split; repeat split.
Qed.

(* ---- Param ----------------------------------------------------------------- *)

Lemma full_test : forall ps closed cur, params_rep ps closed cur ->
  params_is_full ps = Nat.eqb (length (concat closed) + length cur) 32.
Proof.
  intros ps closed cur Hr. unfold params_is_full. rewrite (pr_plen _ _ _ Hr).
  change MAX_PARAMS with 32. pose proof (pr_bound _ _ _ Hr).
  destruct (Nat.eqb_spec (length (concat closed) + length cur) 32);
    destruct (N.eqb_spec (N.of_nat (length (concat closed) + length cur)) 32); try reflexivity; lia.
Qed.

Lemma param_sim : forall p s b, wf p -> book_ok p s -> 48 <= b <= 59 ->
  exists p', perform_action cfg_default p AParam b = Some (p', []) /\
             book_ok p' (param s b) /\ wf p' /\ same_ctl p p' /\ same_osc p p'.
Proof.
  intros p s b [W1 W2 W3 W4] [Hidx Hil Hints Hign Hpend Hpar] Hb.
  cbn [perform_action]. rewrite (full_test _ _ _ Hpar).
  unfold param, count_values, max_values.
  pose proof (pr_bound _ _ _ Hpar) as Hbound.
  destruct (Nat.eqb_spec (length (concat (closed s)) + length (cur s)) 32) as [E|E].
  - eexists; split; [reflexivity|].
    split; [constructor; cbn; auto|].
    split; [constructor; cbn; auto|].
    split; repeat split.
  - destruct (N.eqb_spec b 59) as [E59|E59]; [|destruct (N.eqb_spec b 58) as [E58|E58]].
    + destruct (params_push_rep _ _ _ (pparam p) Hpar) as (ps' & Hps & Hr'); [lia|].
      rewrite Hps. eexists; split; [reflexivity|].
      split; [constructor; cbn; auto; rewrite <- Hpend; exact Hr'|].
      split; [constructor; cbn; auto; [apply (pr_sub_len _ _ _ Hr') | apply (pr_val_len _ _ _ Hr')]|].
      split; repeat split.
    + destruct (params_extend_rep _ _ _ (pparam p) Hpar) as (ps' & Hps & Hr'); [lia|].
      rewrite Hps. eexists; split; [reflexivity|].
      split; [constructor; cbn; auto; rewrite <- Hpend; exact Hr'|].
      split; [constructor; cbn; auto; [apply (pr_sub_len _ _ _ Hr') | apply (pr_val_len _ _ _ Hr')]|].
      split; repeat split.
    + unfold csub. destruct (N.leb_spec 48 b) as [_|Hlt]; [|lia].
      eexists; split; [reflexivity|].
      split; [constructor; cbn; auto|].
      * unfold u16_sat_add, u16_sat_mul, max_value. rewrite Hpend. lia.
      * split; [constructor; cbn; auto|]. split; repeat split.
Qed.

(* ---- CsiDispatch / Hook: the final parameter list -------------------------- *)

Lemma intermediates_sim : forall p s, wf p -> book_ok p s -> intermediates_of p = Some (ints s).
Proof.
  intros p s [W1 _ _ _] [Hidx Hil Hints _ _ _]. unfold intermediates_of, slice.
  destruct (N.leb_spec 0 (intermediate_idx p)) as [_|H]; [|lia].
  destruct (N.leb_spec (intermediate_idx p) (N.of_nat (length (intermediates p)))) as [_|H]; [|lia].
  cbn [andb N.to_nat skipn]. rewrite N.sub_0_r, Hidx, Nat2N.id, Hints. reflexivity.
Qed.

Lemma finish_sim : forall p s, wf p -> book_ok p s ->
  exists p1, finish_params p = Some p1 /\
             params_groups (pparams p1) = Some (fst (final_params s)) /\
             intermediates_of p1 = Some (ints s) /\
             ignoring p1 = snd (final_params s) /\
             wf p1 /\ same_ctl p p1 /\ same_osc p p1.
Proof.
  intros p s W B. pose proof (intermediates_sim _ _ W B) as Hi.
  destruct W as [W1 W2 W3 W4]. destruct B as [Hidx Hil Hints Hign Hpend Hpar].
  unfold finish_params. rewrite (full_test _ _ _ Hpar).
  unfold final_params, count_values, max_values.
  destruct (Nat.eqb_spec (length (concat (closed s)) + length (cur s)) 32) as [E|E].
  - eexists; split; [reflexivity|]. cbn [fst snd].
    split; [cbn [pparams set_ignoring]; apply (params_groups_rep _ _ _ Hpar)|].
    split; [exact Hi|]. split; [reflexivity|].
    split; [constructor; cbn; auto|]. split; repeat split.
  - pose proof (pr_bound _ _ _ Hpar) as Hbound.
    destruct (params_push_rep _ _ _ (pparam p) Hpar) as (ps' & Hps & Hr'); [lia|].
    rewrite Hps. eexists; split; [reflexivity|]. cbn [fst snd].
    split.
    { cbn [pparams set_params]. rewrite (params_groups_rep _ _ _ Hr'). unfold groups_of. rewrite app_nil_r, Hpend. reflexivity. }
    split; [exact Hi|]. split; [exact Hign|].
    split; [constructor; cbn; auto; [apply (pr_sub_len _ _ _ Hr') | apply (pr_val_len _ _ _ Hr')]|].
    split; repeat split.
Qed.

(* ---- OscPut ---------------------------------------------------------------- *)

Lemma oscput_sim : forall p payload b, wf p -> osc_ok p payload ->
  exists p', perform_action cfg_default p AOscPut b = Some (p', []) /\
             osc_ok p' (payload ++ [b]) /\ wf p' /\ same_ctl p p' /\ same_book p p'.
Proof.
  intros p payload b [W1 W2 W3 W4] Hok.
  cbn [perform_action]. unfold osc_full. cbn [osc_cap cfg_default].
  destruct (N.eqb_spec b 59) as [->|Hb].
  - destruct (osc_semi_ok _ _ Hok) as (ops & n & Hs & Hok').
    unfold osc_semi in Hs.
    destruct (osc_num_params p =? MAX_OSC_PARAMS).
    + injection Hs as Hs. exists p. split; [reflexivity|].
      split; [rewrite Hs; exact Hok'|].
      split; [constructor; auto|]. split; repeat split.
    + exists (set_osc p (osc_raw p) ops n).
      assert (Hw : wf (set_osc p (osc_raw p) ops n)).
      { constructor; cbn; auto. exact (oo_len _ _ Hok'). }
      destruct (osc_num_params p =? 0).
      * destruct (aset (osc_params p) (osc_num_params p) (0, N.of_nat (length (osc_raw p)))); [|discriminate].
        injection Hs as Hs1 Hs2. subst.
        split; [reflexivity|]. split; [exact Hok'|]. split; [exact Hw|]. split; repeat split.
      * destruct (csub (osc_num_params p) 1); [|discriminate].
        destruct (aget (osc_params p) n0) as [[x0 begin]|]; [|discriminate].
        destruct (aset (osc_params p) (osc_num_params p) (begin, N.of_nat (length (osc_raw p)))); [|discriminate].
        injection Hs as Hs1 Hs2. subst.
        split; [reflexivity|]. split; [exact Hok'|]. split; [exact Hw|]. split; repeat split.
  - eexists; split; [reflexivity|].
    split; [apply osc_put_other_ok; assumption|].
    split; [constructor; cbn; auto|]. split; repeat split.
Qed.

(* ---- every transition action ----------------------------------------------- *)

Local Ltac triv_case :=
  split; [reflexivity|]; split; [reflexivity|]; split; [assumption|];
  split; [apply same_ctl_refl|]; split; [reflexivity|]; split; [reflexivity|]; split; auto.

Lemma action_sim : forall p s a va b,
  wf p -> abs_action a = Some va -> va <> TUtf8 ->
  (needs_book va = true -> book_ok p s) ->
  (va = TOscPut -> osc_ok p (osc s)) ->
  (va = TParam -> 48 <= b <= 59) ->
  exists p' s' ev,
    perform_action cfg_default p a b = Some (p', ev) /\ do_action s va b = (s', ev) /\
    wf p' /\ same_ctl p p' /\ vs s' = vs s /\ uni s' = uni s /\
    (is_dispatch va = false -> book_ok p s -> book_ok p' s') /\
    (osc_ok p (osc s) -> osc_ok p' (osc s')).
Proof.
  intros p s a va b W Ha Hu Hbook Hosc Hpar.
  destruct a; cbn [abs_action] in Ha; try discriminate; injection Ha as <-;
    cbn [needs_book is_dispatch] in *.
  - (* Nop *) exists p, s, []. triv_case.
  - (* Collect *)
    destruct (collect_sim p s b W (Hbook eq_refl)) as (p' & Hp & Hb' & Hw & Hc & Ho).
    exists p', (collect s b), []. split; [exact Hp|]. split; [reflexivity|].
    split; [exact Hw|]. split; [exact Hc|].
    split; [unfold collect; destruct (Nat.eqb _ _); reflexivity|].
    split; [unfold collect; destruct (Nat.eqb _ _); reflexivity|].
    split; [intros _ _; exact Hb'|].
    intros H. replace (osc (collect s b)) with (osc s) by (unfold collect; destruct (Nat.eqb _ _); reflexivity).
    exact (osc_ok_same _ _ _ Ho H).
  - (* CsiDispatch *)
    destruct (finish_sim p s W (Hbook eq_refl)) as (p1 & Hf & Hg & Hi & Hig & Hw & Hc & Ho).
    exists p1, s, [ECsi (fst (final_params s)) (ints s) (snd (final_params s)) b].
    split; [cbn [perform_action]; rewrite Hf, Hg, Hi, Hig; reflexivity|].
    split; [cbn [do_action]; destruct (final_params s); reflexivity|].
    split; [exact Hw|]. split; [exact Hc|]. split; [reflexivity|]. split; [reflexivity|].
    split; [discriminate|]. intros H. exact (osc_ok_same _ _ _ Ho H).
  - (* EscDispatch *)
    pose proof (Hbook eq_refl) as B.
    exists p, s, [EEsc (ints s) (ign s) b].
    split; [cbn [perform_action]; rewrite (intermediates_sim _ _ W B), (bk_ign _ _ B); reflexivity|].
    split; [reflexivity|]. split; [exact W|]. split; [apply same_ctl_refl|].
    split; [reflexivity|]. split; [reflexivity|]. split; [discriminate | auto].
  - (* Execute *) exists p, s, [EExecute b]. triv_case.
  - (* Ignore *) exists p, s, []. triv_case.
  - (* OscPut *)
    destruct (oscput_sim p (osc s) b W (Hosc eq_refl)) as (p' & Hp & Ho & Hw & Hc & Hb').
    exists p', (osc_put s b), []. split; [exact Hp|]. split; [reflexivity|].
    split; [exact Hw|]. split; [exact Hc|]. split; [reflexivity|]. split; [reflexivity|].
    split; [intros _ B; apply (book_ok_same _ _ _ Hb'); destruct B; constructor; auto|].
    intros _. exact Ho.
  - (* Param *)
    destruct (param_sim p s b W (Hbook eq_refl) (Hpar eq_refl)) as (p' & Hp & Hb' & Hw & Hc & Ho).
    assert (Hfr : vs (param s b) = vs s /\ uni (param s b) = uni s /\ osc (param s b) = osc s).
    { unfold param. destruct (Nat.eqb _ _); [repeat split|].
      destruct (b =? 59); [repeat split|]. destruct (b =? 58); repeat split. }
    destruct Hfr as (F1 & F2 & F3).
    exists p', (param s b), []. split; [exact Hp|]. split; [reflexivity|].
    split; [exact Hw|]. split; [exact Hc|]. split; [exact F1|]. split; [exact F2|].
    split; [intros _ _; exact Hb'|].
    intros H. rewrite F3. exact (osc_ok_same _ _ _ Ho H).
  - (* Print *) exists p, s, [EPrint b]. triv_case.
  - (* Put *) exists p, s, [EPut b]. triv_case.
  - (* BeginUtf8 *) congruence.
Qed.

(* ---- exit and entry actions ------------------------------------------------- *)

Definition exit_action (c : cfg) (p : parser) (b : N) : option (parser * list event) :=
  match pstate p with
  | DcsPassthrough => perform_action c p AUnhook b
  | OscString => perform_action c p AOscEnd b
  | _ => Some (p, [])
  end.

Definition entry_action (c : cfg) (p : parser) (s : state) (b : N) : option (parser * list event) :=
  match s with
  | CsiEntry | DcsEntry | Escape => perform_action c p AClear b
  | DcsPassthrough => perform_action c p AHook b
  | OscString => perform_action c p AOscStart b
  | _ => Some (p, [])
  end.

Lemma trans_action_eq : forall c p a b,
  match a with ANop => Some (p, []) | _ => perform_action c p a b end = perform_action c p a b.
Proof. intros c p a b. destruct a; reflexivity. Qed.

Lemma psc_unfold : forall c p s a b, s <> Anywhere ->
  perform_state_change c p s a b =
  ('(p1, e1) <- exit_action c p b ;;
   '(p2, e2) <- perform_action c p1 a b ;;
   '(p3, e3) <- entry_action c p2 s b ;;
   Some (set_state p3 s, e1 ++ e2 ++ e3)).
Proof.
  intros c p s a b Hs. unfold perform_state_change, exit_action, entry_action.
  destruct s; try congruence;
    (destruct (match pstate p with
               | DcsPassthrough => perform_action c p AUnhook b
               | OscString => perform_action c p AOscEnd b
               | _ => Some (p, [])
               end) as [[p1 e1]|]; [|reflexivity]);
    rewrite trans_action_eq; reflexivity.
Qed.

Lemma exit_sim : forall p s b,
  wf p -> abs_state (pstate p) = Some (vs s) -> (vs s = VOsc -> osc_ok p (osc s)) ->
  exists p1, exit_action cfg_default p b = Some (p1, exit_events s b) /\
             wf p1 /\ same_ctl p p1 /\ same_book p p1.
Proof.
  intros p s b W Hst Hosc. unfold exit_action, exit_events.
  destruct (pstate p) eqn:Ep; cbn [abs_state] in Hst; try discriminate;
    injection Hst as Hst; rewrite <- Hst;
    try (exists p; split; [reflexivity|]; split; [exact W|]; split; repeat split).
  - (* OscString *)
    destruct (osc_end_ok p (osc s) b (Hosc (eq_sym Hst))) as (ops & n & Hs & Hl & Hd).
    exists (set_osc p (osc_raw p) ops n). split.
    + cbn [perform_action]. unfold osc_semi in Hs. rewrite Hs, Hd. reflexivity.
    + split; [destruct W; constructor; cbn; auto|]. split; repeat split.
Qed.

Lemma entry_sim : forall p s st t b,
  wf p -> abs_state st = Some t ->
  (clears t = false -> reads t = true \/ t = VDcsPass -> book_ok p s) ->
  exists p3, entry_action cfg_default p st b = Some (p3, snd (enter s t b)) /\
             wf p3 /\ same_ctl p p3 /\
             vs (fst (enter s t b)) = t /\ uni (fst (enter s t b)) = uni s /\
             (reads t = true -> book_ok p3 (fst (enter s t b))) /\
             (t = VOsc -> osc_ok p3 (osc (fst (enter s t b)))).
Proof.
  intros p s st t b W Hst Hbook.
  assert (Hclear : forall t', clears t' = true ->
    exists p3, perform_action cfg_default p AClear b = Some (p3, snd (enter s t' b)) /\
               wf p3 /\ same_ctl p p3 /\
               vs (fst (enter s t' b)) = t' /\ uni (fst (enter s t' b)) = uni s /\
               (reads t' = true -> book_ok p3 (fst (enter s t' b))) /\
               (t' = VOsc -> osc_ok p3 (osc (fst (enter s t' b))))).
  { intros t' Hc. eexists. split.
    - cbn [perform_action]. destruct t'; try discriminate; reflexivity.
    - destruct W as [W1 W2 W3 W4].
      split; [constructor; cbn; auto|]. split; [split; reflexivity|].
      split; [destruct t'; try discriminate; reflexivity|].
      split; [destruct t'; try discriminate; reflexivity|].
      split.
      + intros _. destruct t'; try discriminate; cbn [enter fst];
          (constructor; cbn; auto; apply params_rep_clear; assumption).
      + intros ->. discriminate. }
  assert (Hplain : forall t', clears t' = false -> t' <> VDcsPass -> t' <> VOsc ->
    (reads t' = true -> book_ok p s) ->
    vs (fst (enter s t' b)) = t' /\ uni (fst (enter s t' b)) = uni s /\
    snd (enter s t' b) = [] /\
    (reads t' = true -> book_ok p (fst (enter s t' b)))).
  { intros t' H1 H2 H3 H4.
    destruct t'; try discriminate; try congruence; cbn [enter fst snd set_vs vs uni];
      (split; [reflexivity|]; split; [reflexivity|]; split; [reflexivity|]);
      intros Hr; try discriminate; specialize (H4 Hr); destruct H4; constructor; auto. }
  destruct st; cbn [abs_state] in Hst; try discriminate; injection Hst as <-; cbn [entry_action].
  all: try (apply Hclear; reflexivity).
  all: try (match goal with |- context [enter _ ?t _] =>
              destruct (Hplain t eq_refl) as (F1 & F2 & F3 & F4);
              [discriminate | discriminate
               | intros Hr; apply Hbook; [reflexivity | left; exact Hr] | ]
            end;
            exists p; rewrite F3; split; [reflexivity|]; split; [exact W|];
            split; [apply same_ctl_refl|]; split; [exact F1|]; split; [exact F2|];
            split; [exact F4|]; discriminate).
  - (* DcsPassthrough: Hook *)
    assert (B : book_ok p s) by (apply Hbook; [reflexivity | right; reflexivity]).
    destruct (finish_sim p s W B) as (p1 & Hf & Hg & Hi & Hig & Hw & Hc & Ho).
    exists p1. split.
    + cbn [perform_action enter]. rewrite Hf, Hg, Hi, Hig. destruct (final_params s); reflexivity.
    + split; [exact Hw|]. split; [exact Hc|].
      cbn [enter]. destruct (final_params s). cbn [fst set_vs vs uni].
      split; [reflexivity|]. split; [reflexivity|]. split; discriminate.
  - (* OscString: OscStart *)
    eexists. split; [reflexivity|].
    destruct W as [W1 W2 W3 W4].
    split; [constructor; cbn; auto|]. split; [split; reflexivity|].
    cbn [enter fst set_vs osc_start vs uni osc].
    split; [reflexivity|]. split; [reflexivity|]. split; [discriminate|].
    intros _. apply osc_start_ok. exact W4.
Qed.

(* ---- the table ---------------------------------------------------------------- *)

Lemma abs_action_utf8 : forall a, abs_action a = Some TUtf8 -> a = ABeginUtf8.
Proof. destruct a; cbn; intros H; try discriminate; reflexivity. Qed.

Lemma opt_vact_eqb_eq : forall o va, opt_vact_eqb o va = true -> o = Some va.
Proof. intros [x|] va H; cbn in H; [apply vact_eqb_eq in H; now subst | discriminate]. Qed.

Lemma opt_vstate_eqb_eq : forall a b, opt_vstate_eqb a b = true -> a = b.
Proof.
  intros [x|] [y|] H; cbn in H; try discriminate; [apply vstate_eqb_eq in H; now subst | reflexivity].
Qed.

Lemma table_step : forall st v b, abs_state st = Some v -> b < 256 ->
  exists s' a tgt va,
    state_change st b = Some (s', a) /\ vt_trans v b = (tgt, va) /\ abs_action a = Some va /\
    ((s' = Anywhere /\ tgt = None /\ va <> TUtf8) \/
     (s' = Utf8 /\ tgt = None /\ a = ABeginUtf8 /\ va = TUtf8) \/
     (exists t, abs_state s' = Some t /\ tgt = Some t /\ va <> TUtf8 /\ s' <> Anywhere)).
Proof.
  intros st v b Hv Hb.
  pose proof (table_is_williams st b Hb) as H. unfold trans_matches in H. rewrite Hv in H.
  pose proof (forall_states_bytes _ utf8_only_ground_all st b Hb) as U. unfold utf8_only_ground in U.
  destruct (state_change st b) as [[s' a]|]; [|discriminate].
  destruct (vt_trans v b) as [tgt va].
  exists s', a, tgt, va. split; [reflexivity|]. split; [reflexivity|].
  apply andb_true_iff in U. destruct U as [U _].
  assert (Hnu : abs_action a = Some va -> state_eqb s' Utf8 = false -> va <> TUtf8).
  { intros HA Hs ->. apply abs_action_utf8 in HA. subst a.
    change (action_eqb ABeginUtf8 ABeginUtf8) with true in U. cbv iota in U.
    apply andb_true_iff in U. destruct U as [_ U]. congruence. }
  destruct s'; cbn [abs_state] in H; repeat rewrite andb_true_iff in H.
  all: try (destruct H as [H1 H2]; apply opt_vstate_eqb_eq in H1; apply opt_vact_eqb_eq in H2;
            split; [exact H2|]).
  all: try (right; right; eexists; split; [reflexivity|]; split; [exact H1|];
            split; [apply Hnu; [exact H2 | reflexivity] | discriminate]).
  - left. split; [reflexivity|]. split; [exact H1|]. apply Hnu; [exact H2 | reflexivity].
  - (* Utf8 *)
    destruct H as [[H1 H2] H3]. apply opt_vstate_eqb_eq in H1. apply opt_vact_eqb_eq in H2.
    apply vact_eqb_eq in H3. subst va. split; [exact H2|].
    right; left. split; [reflexivity|]. split; [exact H1|]. split; [apply abs_action_utf8; exact H2 | reflexivity].
Qed.

(* ---- one byte ------------------------------------------------------------------- *)

Lemma advance_non_utf8 : forall c p b, pstate p <> Utf8 ->
  advance c p b = ('(s, a) <- state_change (pstate p) b ;; perform_state_change c p s a b).
Proof. intros c p b H. unfold advance. destruct (pstate p); try reflexivity. congruence. Qed.

Lemma abs_state_ground : forall st, abs_state st = Some VGround -> st = Ground.
Proof. destruct st; cbn; intros H; try discriminate; reflexivity. Qed.

Lemma abs_state_not_utf8 : forall st v, abs_state st = Some v -> st <> Utf8.
Proof. intros st v H ->. discriminate. Qed.

Lemma step_sim : forall p s b, R p s -> b < 256 ->
  exists p', advance cfg_default p b = Some (p', snd (vt_step s b)) /\ R p' (fst (vt_step s b)).
Proof.
  intros p s b [W St Bk Os] Hb. unfold state_rel in St. unfold vt_step.
  destruct (uni s) as [[u acc]|] eqn:Eu.
  - (* inside a multi-byte character *)
    destruct St as (Hp & Hv & Hu).
    unfold advance. rewrite Hp. unfold process_utf8, char_add. cbn [utf8_on cfg_default].
    destruct (utf8_cont u b) as [u'| |] eqn:Ec.
    + destruct (u8_more _ _ _ _ _ Hu Ec) as (up' & Ha & Hr). rewrite Ha.
      eexists; split; [reflexivity|]. cbn [fst].
      destruct W. constructor; [constructor; cbn; auto | | |].
      * unfold state_rel. cbn. auto.
      * cbn. rewrite Hv. discriminate.
      * cbn. rewrite Hv. discriminate.
    + rewrite (u8_done _ _ _ _ Hu Ec).
      eexists; split; [reflexivity|]. cbn [fst].
      destruct W. constructor; [constructor; cbn; auto | | |].
      * unfold state_rel. cbn. rewrite Hv. auto.
      * cbn. rewrite Hv. discriminate.
      * cbn. rewrite Hv. discriminate.
    + rewrite (u8_bad _ _ _ _ Hu Ec).
      eexists; split; [reflexivity|]. cbn [fst].
      destruct W. constructor; [constructor; cbn; auto | | |].
      * unfold state_rel. cbn. rewrite Hv. auto.
      * cbn. rewrite Hv. discriminate.
      * cbn. rewrite Hv. discriminate.
  - destruct St as (Hst & Hidle).
    rewrite (advance_non_utf8 _ _ _ (abs_state_not_utf8 _ _ Hst)).
    destruct (table_step _ _ b Hst Hb) as (s' & a & tgt & va & Hsc & Hvt & Ha & Hcase).
    pose proof (vt_trans_facts (vs s) b Hb) as F.
    pose proof (vt_trans_oscput_stays (vs s) b Hb) as Fo.
    destruct F as [F1 F2 F3 F4 F5 F6]. rewrite Hvt in *. cbn [fst snd] in *.
    rewrite Hsc.
    destruct Hcase as [(-> & -> & Hnu) | [(-> & -> & -> & ->) | (t & Ht & -> & Hnu & Hna)]].
    + (* no transition *)
      cbn [perform_state_change].
      destruct (action_sim p s a va b W Ha Hnu) as (p' & s1 & ev & Hp & Hd & Hw & Hc & Hvs & Hun & Hbk & Hos).
      * intros Hn. apply Bk, F1, Hn.
      * intros Ho. apply Os, F3, Ho.
      * exact F2.
      * rewrite Hp, Hd. eexists; split; [reflexivity|]. cbn [fst].
        destruct Hc as [Hc1 Hc2].
        constructor; [exact Hw | | |].
        -- unfold state_rel. rewrite Hun, Eu, Hc1, Hc2, Hvs. auto.
        -- rewrite Hvs. intros Hr. apply Hbk; [|apply Bk, Hr].
           destruct (is_dispatch va) eqn:Ed; [|reflexivity]. specialize (F4 eq_refl). discriminate.
        -- rewrite Hvs. intros Hr. apply Hos, Os, Hr.
    + (* a multi-byte character begins *)
      destruct (F5 eq_refl) as (Hg & _ & u & Hu).
      rewrite Hg in Hst. apply abs_state_ground in Hst.
      destruct (u8_begin _ _ Hu) as (up & Hup & Hrel).
      cbn [perform_state_change]. rewrite Hst.
      cbn [perform_action]. unfold process_utf8, char_add. cbn [utf8_on cfg_default].
      rewrite Hidle, Hup. cbn [do_action]. rewrite Hu.
      eexists; split; [reflexivity|]. cbn [fst].
      destruct W. constructor; [constructor; cbn; auto | | |].
      * unfold state_rel. cbn. auto.
      * cbn. rewrite Hg. discriminate.
      * cbn. rewrite Hg. discriminate.
    + (* a transition: exit action, action, entry action *)
      rewrite (psc_unfold _ _ _ _ _ Hna).
      destruct (exit_sim p s b W Hst Os) as (p1 & He & Hw1 & Hc1 & Hb1). rewrite He.
      destruct (action_sim p1 s a va b Hw1 Ha Hnu) as (p2 & s1 & ev & Hp & Hd & Hw2 & Hc2 & Hvs & Hun & Hbk & Hos).
      * intros Hn. apply (book_ok_same _ _ _ Hb1), Bk, F1, Hn.
      * intros Ho. specialize (Fo Ho). discriminate.
      * exact F2.
      * rewrite Hp, Hd.
        destruct (entry_sim p2 s1 s' t b Hw2 Ht) as (p3 & Hen & Hw3 & Hc3 & Ev & Eun & Ebk & Eos).
        { intros Hcl Hrd.
          destruct (F6 t eq_refl) as [Hr Hnd].
          { destruct Hrd as [Hrd| ->]; [left; split; assumption | right; reflexivity]. }
          apply Hbk; [exact Hnd|]. apply (book_ok_same _ _ _ Hb1), Bk, Hr. }
        rewrite Hen. destruct (enter s1 t b) as [s2 e3] eqn:Een. cbn [fst snd] in *.
        eexists; split; [reflexivity|].
        destruct Hc1 as [C1 C1']. destruct Hc2 as [C2 C2']. destruct Hc3 as [C3 C3'].
        destruct Hw3. constructor; [constructor; cbn; auto | | |].
        -- unfold state_rel. rewrite Eun, Hun, Eu. cbn. rewrite Ev, C3', C2', C1'. auto.
        -- rewrite Ev. intros Hr. specialize (Ebk Hr). destruct Ebk. constructor; auto.
        -- rewrite Ev. intros Hr. specialize (Eos Hr). destruct Eos. constructor; auto.
Qed.

(* ---- the whole stream --------------------------------------------------------------- *)

Lemma run_sim : forall bs p s, Forall (fun b => b < 256) bs -> R p s ->
  exists p', run cfg_default p bs = Some (p', snd (vt_run s bs)) /\ R p' (fst (vt_run s bs)).
Proof.
  induction bs as [|b bs IH]; intros p s Hbs HR.
  - exists p. split; [reflexivity | exact HR].
  - inversion Hbs as [|? ? Hb Hrest]; subst.
    destruct (step_sim p s b HR Hb) as (p1 & Ha & HR1).
    cbn [run vt_run]. rewrite Ha.
    destruct (vt_step s b) as [s1 e1]. cbn [fst snd] in *.
    destruct (IH p1 s1 Hrest HR1) as (p2 & Hr & HR2). rewrite Hr.
    destruct (vt_run s1 bs) as [s2 e2]. cbn [fst snd] in *.
    exists p2. split; [reflexivity | exact HR2].
Qed.

Theorem parser_refines_spec : forall bs, Forall (fun b => b < 256) bs ->
  events_model bs = Some (spec_events bs).
Proof.
  intros bs Hbs. destruct (run_sim bs _ _ Hbs R_init) as (p' & Hr & _).
  unfold events_model, spec_events. rewrite Hr. reflexivity.
Qed.

(* the model never panics *)
Corollary parser_never_panics : forall bs, Forall (fun b => b < 256) bs -> events_model bs <> None.
Proof. intros bs Hbs. rewrite (parser_refines_spec bs Hbs). discriminate. Qed.
