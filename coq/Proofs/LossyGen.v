(* Proofs/LossyGen.v -- the functions TRANSLATED from crates/anstyle-lossy/src/{lib.rs,palette.rs}
   and the colour accessors of crates/anstyle/src/color.rs (Generated/LossyFn.v, written by
   tools/gen_fn_lossy.py on every run) are extensionally equal to the hand model
   Model/Lossy.v that the theorems of C10 are about: same inputs, same result, a panic
   ([None]) included.  A change to the Rust functions changes the translation; if it changes
   their meaning, one of these proofs fails. *)
From Coq Require Import ZArith NArith List Bool Lia.
From AV Require Import Generated.Palette Spec.Lossy Model.Base Model.Imp Model.Lossy Generated.LossyFn
  Proofs.Lossy.
Import ListNotations.
Local Open Scope N_scope.

(* ---- anstyle: accessors ------------------------------------------------------------- *)

Lemma g_rgb_r_eq r g b : g_rgb_r (r, g, b) = r.
Proof. reflexivity. Qed.
Lemma g_rgb_g_eq r g b : g_rgb_g (r, g, b) = g.
Proof. reflexivity. Qed.
Lemma g_rgb_b_eq r g b : g_rgb_b (r, g, b) = b.
Proof. reflexivity. Qed.

Lemma g_a256_index_eq i : g_a256_index i = i.
Proof. reflexivity. Qed.

(* the outer option of the translation is "panics" (never), the inner one the Rust Option *)
Lemma g_into_ansi_eq i : g_into_ansi i = Some (into_ansi i).
Proof.
  unfold g_into_ansi, g_a256_index, a256_f0, into_ansi, into_ansi_arms. cbn [assoc]. cbv zeta.
  repeat (destruct (i =? _); [reflexivity|]). reflexivity.
Qed.

(* an AnsiColor is its ANSI number: a number that is no AnsiColor reaches no arm *)
Lemma g_from_ansi_eq a : g_from_ansi a = from_ansi a.
Proof.
  unfold g_from_ansi, from_ansi, a256_new. cbv beta zeta.
  repeat match goal with
         | |- context [N.eqb a ?k] => destruct (N.eqb_spec a k) as [-> | ?]; [reflexivity|]
         end.
  symmetry. apply nth_error_None. cbn [length from_ansi_tbl]. lia.
Qed.

(* ---- lib.rs: distance --------------------------------------------------------------- *)

Lemma ci32_i32 z : ci32 z = i32 z.
Proof.
  unfold ci32, i32.
  destruct (Z.leb_spec (-2147483648) z), (Z.leb_spec z 2147483647), (Z.ltb_spec z 2147483648);
    try reflexivity; lia.
Qed.

Lemma i32_some z z' : i32 z = Some z' -> (-2147483648 <= z' < 2147483648)%Z.
Proof.
  unfold i32. destruct (Z.leb_spec (-2147483648) z), (Z.ltb_spec z 2147483648); cbn [andb];
    intros E; inversion E; subst; lia.
Qed.

(* `x as u32` on an i32 value *)
Lemma as_u32_mod z : (-2147483648 <= z < 2147483648)%Z -> Z.to_N (z mod 4294967296) = i32_as_u32 z.
Proof.
  intros H. unfold i32_as_u32. destruct (Z.leb_spec 0 z).
  - rewrite Z.mod_small by lia. reflexivity.
  - replace (z mod 4294967296)%Z with (z + 4294967296)%Z; [reflexivity|].
    rewrite <- (Z.mod_add z 1 4294967296) by lia. rewrite Z.mod_small by lia. lia.
Qed.

Lemma g_distance_eq c1 c2 : g_distance c1 c2 = distance c1 c2.
Proof.
  destruct c1 as [[r1 g1] b1], c2 as [[r2 g2] b2].
  unfold g_distance, distance. rewrite !g_rgb_r_eq, !g_rgb_g_eq, !g_rgb_b_eq. cbv zeta.
  repeat (rewrite ?ci32_i32; match goal with
         | |- context [match i32 ?x with _ => _ end] =>
             lazymatch x with
             | context [match _ with _ => _ end] => fail
             | _ => destruct (i32 x) eqn:?; [|reflexivity]
             end
         end).
  f_equal. apply as_u32_mod.
  match goal with H : i32 _ = Some ?z |- (_ <= ?z < _)%Z => exact (i32_some _ _ H) end.
Qed.

(* ---- the scan loop ------------------------------------------------------------------
   One turn of the `while` of the nearest-colour search (find_xterm_match / Palette::find_match, or the ONE helper
   both call after a clean-up), for any table [t], told without reference to the spelling of the translated body;
   the loop state is (best_index, best_distance, index). *)
Definition scan_turn (c : rgb) (t : list rgb) (s : N * N * N) : option (bctl (N * N * N)) :=
  let '(bi, bd, i) := s in
  if i <? len t then
    match aget t i with
    | None => None
    | Some e =>
        match distance c e with
        | None => None
        | Some d => Some (BNext (if d <? bd then (i, d, i + 1) else (bi, bd, i + 1)))
        end
    end
  else Some (BBreak (bi, bd, i)).

(* the body as the translator emits it for the code as written today (kept as a regression of the tactic below) *)
Definition scan_step (c : rgb) (t : list rgb) : N * N * N -> option (bctl (N * N * N)) :=
  fun '(best_index1, best_distance1, index1) =>
    if (index1 <? (len t)) then
      el1 <- aget t index1 ;;
      r1 <- g_distance c el1 ;;
      '(best_index3, best_distance3) <- (if (r1 <? best_distance1) then
        let best_index2 := index1 in
        let best_distance2 := r1 in
        Some (best_index2, best_distance2)
      else
        Some (best_index1, best_distance1)) ;;
      let index2 := (index1 + 1) in
      Some (BNext (best_index3, best_distance3, index2))
    else Some (BBreak (best_index1, best_distance1, index1)).

(* the loop variables in another order (the order of their `let mut`s): the same loop up to a renaming [f] of the state *)
Definition bctl_map {S S'} (f : S -> S') (r : option (bctl S)) : option (bctl S') :=
  match r with
  | Some (BNext x) => Some (BNext (f x))
  | Some (BBreak x) => Some (BBreak (f x))
  | None => None
  end.

Lemma while_fuel0_iso {S S'} (f : S -> S') (step : S -> option (bctl S)) (step' : S' -> option (bctl S')) :
  (forall s, step' (f s) = bctl_map f (step s)) ->
  forall fuel s, while_fuel0 fuel step' (f s) = option_map f (while_fuel0 fuel step s).
Proof.
  intros H. induction fuel as [|n IH]; intros s; [reflexivity|].
  cbn [while_fuel0]. rewrite H. destruct (step s) as [[x|x]|]; cbn [bctl_map option_map]; auto.
Qed.

(* "this translated loop body is a scan turn": case analysis driven by the goal, whatever the nesting and the
   names of the body (distance computed first or inside the test, a join or two branches, `continue`) *)
Ltac scan_turn_tac :=
  intros ? ? ?; unfold scan_turn, bctl_map; cbv beta iota zeta; unfold rgb in *;
  repeat first
    [ reflexivity
    | rewrite g_distance_eq
    | progress cbv beta iota zeta
    | match goal with
      | |- context [match ?x with _ => _ end] =>
          lazymatch x with
          | context [match _ with _ => _ end] => fail
          | _ => destruct x eqn:?
          end
      end
    | congruence
    | match goal with
      | H : (_ <? _) = true |- _ => apply N.ltb_lt in H
      | H : (_ <? _) = false |- _ => apply N.ltb_ge in H
      | H : (_ <=? _) = true |- _ => apply N.leb_le in H
      | H : (_ <=? _) = false |- _ => apply N.leb_gt in H
      end
    | exfalso; lia ].

Lemma scan_step_turn c t : forall bi bd i, scan_step c t (bi, bd, i) = scan_turn c t (bi, bd, i).
Proof. unfold scan_step. scan_turn_tac. Qed.

Lemma aget_lt {A} (t : list A) i e : aget t i = Some e -> i < len t.
Proof.
  unfold aget, len. intros H.
  assert (N.to_nat i < length t)%nat by (apply nth_error_Some; congruence). lia.
Qed.

(* enough fuel: one step per remaining entry and one for the final test *)
Lemma scan_loop c t step :
  (forall bi bd i, step (bi, bd, i) = scan_turn c t (bi, bd, i)) ->
  forall fuel i bi bd,
  i <= len t -> (length t - N.to_nat i < fuel)%nat ->
  while_fuel0 fuel step (bi, bd, i) =
  match scan c (skipn (N.to_nat i) t) i bi bd with
  | Some (bi', bd') => Some (bi', bd', len t)
  | None => None
  end.
Proof.
  intros Hstep.
  induction fuel as [|f IH]; intros i bi bd Hi Hf; [lia|].
  cbn [while_fuel0]. rewrite Hstep. unfold scan_turn.
  destruct (N.ltb_spec i (len t)) as [Hlt | Hge].
  - destruct (aget t i) as [e|] eqn:He.
    2:{ exfalso. unfold aget in He. apply nth_error_None in He. unfold len in Hlt. lia. }
    rewrite (skipn_cons_nth t (N.to_nat i) e He). cbn [scan].
    destruct (distance c e) as [d|]; [|reflexivity].
    replace (S (N.to_nat i)) with (N.to_nat (i + 1)) by lia.
    unfold len in *.
    destruct (d <? bd); apply IH; lia.
  - assert (i = len t) by lia. subst i. unfold len. rewrite Nat2N.id, skipn_all. reflexivity.
Qed.

(* the common text of the searches: seed with entry [start], scan from start + 1 *)
Lemma find_loop c t step fuel start i e d0 :
  (forall bi bd i, step (bi, bd, i) = scan_turn c t (bi, bd, i)) ->
  aget t start = Some e -> i = start + 1 -> (length t < fuel)%nat ->
  while_fuel0 fuel step (start, d0, i) =
  match scan c (skipn (N.to_nat (start + 1)) t) (start + 1) start d0 with
  | Some (bi', bd') => Some (bi', bd', len t)
  | None => None
  end.
Proof.
  intros Hstep He -> Hf. apply aget_lt in He. apply scan_loop; [exact Hstep | unfold len in *; lia ..].
Qed.

Lemma find_loop_perm c t (f : N * N * N -> N * N * N) step fuel init start i e d0 :
  (forall bi bd i, step (f (bi, bd, i)) = bctl_map f (scan_turn c t (bi, bd, i))) ->
  init = f (start, d0, i) ->
  aget t start = Some e -> i = start + 1 -> (length t < fuel)%nat ->
  while_fuel0 fuel step init =
  match scan c (skipn (N.to_nat (start + 1)) t) (start + 1) start d0 with
  | Some (bi', bd') => Some (f (bi', bd', len t))
  | None => None
  end.
Proof.
  intros Hstep -> He Hi Hf.
  rewrite (while_fuel0_iso f (scan_turn c t) step) by (intros [[bi bd] j]; apply Hstep).
  rewrite (find_loop c t (scan_turn c t) fuel start i e d0 (fun _ _ _ => eq_refl) He Hi Hf).
  destruct (scan c _ _ _ _) as [[bi bd]|]; reflexivity.
Qed.

(* A translated search at the head of the goal, `<translated code> = <model>` with the model's [find_best] unfolded:
   the seed read, its distance and the loop are consumed one by one, each found by its SHAPE in the goal (the table, the
   start index, the fuel and the loop body are read off the goal, not named), leaving the continuation after the loop
   with the loop's answer [(bi, bd, len t)] in place of the loop. *)
Ltac search_tac c :=
  cbv zeta;
  change (@aget (N * N * N)%type) with (@aget rgb); change (@length (N * N * N)%type) with (@length rgb);
  let He := fresh "He" in
  lazymatch goal with
  | |- match aget ?t ?s with _ => _ end = _ =>
      destruct (@aget rgb t s) as [?e|] eqn:He; [|reflexivity];
      rewrite ?g_distance_eq;
      lazymatch goal with
      | |- match distance c ?e' with _ => _ end = _ =>
          destruct (distance c e') as [?d0|]; [|reflexivity]
      end;
      lazymatch goal with
      | |- match while_fuel0 ?f ?body ?init with _ => _ end = _ =>
          (* the order of (best_index, best_distance, index) in the loop state is the order of their declarations *)
          let go perm :=
            let Hb := fresh "Hb" in
            assert (Hb : forall bi bd i0, body (perm (bi, bd, i0)) = bctl_map perm (scan_turn c t (bi, bd, i0))) by scan_turn_tac;
            erewrite (find_loop_perm c t perm body f init s _ _ _ Hb ltac:(cbv beta iota; reflexivity) He
                        ltac:(first [reflexivity | lia]) ltac:(cbn [length]; unfold pal_f0; lia));
            clear Hb in
          first [ go (fun '(bi, bd, i0) => (bi, bd, i0) : N * N * N)
                | go (fun '(bi, bd, i0) => (bd, bi, i0) : N * N * N)
                | go (fun '(bi, bd, i0) => (bi, i0, bd) : N * N * N)
                | go (fun '(bi, bd, i0) => (i0, bi, bd) : N * N * N)
                | go (fun '(bi, bd, i0) => (bd, i0, bi) : N * N * N)
                | go (fun '(bi, bd, i0) => (i0, bd, bi) : N * N * N) ]
      end
  end.

Lemma g_find_xterm_match_eq c : g_find_xterm_match c = find_xterm_match c.
Proof.
  (* when the private helper no longer exists in the source, the generated name stands for the model's search
     (tools/gen_fn_lossy.py says so in Generated/LossyFn.v); g_rgb_to_xterm_eq below is then about the inlined search *)
  lazymatch eval cbv delta [g_find_xterm_match] in g_find_xterm_match with
  | (fun c0 => find_xterm_match c0) => reflexivity
  | _ =>
      unfold g_find_xterm_match, find_xterm_match, find_best;
      search_tac c;
      destruct (scan c _ _ _ _) as [[bi bd]|]; reflexivity
  end.
Qed.

Lemma g_rgb_to_xterm_eq c : g_rgb_to_xterm c = rgb_to_xterm c.
Proof.
  unfold g_rgb_to_xterm, rgb_to_xterm, a256_new.
  first [ rewrite g_find_xterm_match_eq; destruct (find_xterm_match c); reflexivity
        | unfold find_xterm_match, find_best;
          search_tac c;
          destruct (scan c _ _ _ _) as [[bi bd]|]; reflexivity ].
Qed.

(* ---- palette.rs --------------------------------------------------------------------- *)

Lemma g_get_ansi256_ref_eq p i : g_get_ansi256_ref p i = get_ansi256_ref p i.
Proof.
  unfold g_get_ansi256_ref, get_ansi256_ref, g_a256_index, a256_f0, pal_f0. cbv zeta.
  destruct (aget p i); reflexivity.
Qed.

Lemma g_palette_get_eq p a : g_palette_get p a = palette_get p a.
Proof.
  unfold g_palette_get, palette_get. rewrite g_from_ansi_eq.
  destruct (from_ansi a) as [i|]; [|reflexivity].
  rewrite g_get_ansi256_ref_eq. destruct (get_ansi256_ref p i); reflexivity.
Qed.

Lemma g_palette_index_eq p a : g_palette_index p a = palette_index p a.
Proof. exact (g_palette_get_eq p a). Qed.

Lemma g_rgb_from_ansi_eq p a : g_rgb_from_ansi p a = rgb_from_ansi p a.
Proof.
  unfold g_rgb_from_ansi, rgb_from_ansi. rewrite g_palette_get_eq.
  destruct (palette_get p a); reflexivity.
Qed.

Lemma g_rgb_from_index_eq p i : g_rgb_from_index p i = rgb_from_index p i.
Proof.
  unfold g_rgb_from_index, rgb_from_index, pal_f0, len.
  destruct (i <? N.of_nat (length p)); [|reflexivity].
  destruct (aget p i); reflexivity.
Qed.

Lemma g_find_match_eq p c : g_find_match p c = find_match p c.
Proof.
  unfold g_find_match, find_match, find_best, pal_f0, a256_new. cbv zeta.
  search_tac c.
  destruct (scan c _ _ _ _) as [[bi bd]|]; [|reflexivity].
  rewrite g_into_ansi_eq.
  destruct (into_ansi (bi mod 256)) as [a|] eqn:Ha; [reflexivity|].
  (* no 16-colour value: the deliberate out-of-bounds read of a one-element array *)
  destruct (N.eqb_spec bi 0) as [-> | Hnz]; [discriminate Ha|].
  replace (aget _ bi) with (@None (list N)); [reflexivity|].
  symmetry. apply nth_error_None. cbn [length]. lia.
Qed.

(* ---- lib.rs ------------------------------------------------------------------------- *)

Lemma g_rgb_to_ansi_eq c p : g_rgb_to_ansi c p = rgb_to_ansi c p.
Proof.
  unfold g_rgb_to_ansi, rgb_to_ansi. rewrite g_find_match_eq. destruct (find_match p c); reflexivity.
Qed.

Lemma g_ansi_to_rgb_eq a p : g_ansi_to_rgb a p = ansi_to_rgb a p.
Proof.
  unfold g_ansi_to_rgb, ansi_to_rgb. rewrite g_rgb_from_ansi_eq. destruct (rgb_from_ansi p a); reflexivity.
Qed.

Lemma g_xterm_to_rgb_eq i p : g_xterm_to_rgb i p = xterm_to_rgb i p.
Proof.
  unfold g_xterm_to_rgb, xterm_to_rgb, a256_f0. rewrite g_rgb_from_index_eq.
  destruct (rgb_from_index p i) as [[e|]|]; try reflexivity.
  destruct (aget xterm_colors i); reflexivity.
Qed.

Lemma g_xterm_to_ansi_eq i p : g_xterm_to_ansi i p = xterm_to_ansi i p.
Proof.
  unfold g_xterm_to_ansi, xterm_to_ansi, a256_f0, xterm_to_ansi_arms. cbn [assoc]. cbv zeta.
  repeat (destruct (i =? _); [reflexivity|]).
  destruct (aget xterm_colors i) as [e|]; [|reflexivity].
  rewrite g_find_match_eq. destruct (find_match p e); reflexivity.
Qed.

Lemma g_color_to_rgb_eq col p : g_color_to_rgb col p = color_to_rgb col p.
Proof.
  destruct col as [a | i | c]; unfold g_color_to_rgb, color_to_rgb.
  - rewrite g_ansi_to_rgb_eq. destruct (ansi_to_rgb a p); reflexivity.
  - rewrite g_xterm_to_rgb_eq. destruct (xterm_to_rgb i p); reflexivity.
  - reflexivity.
Qed.

Lemma g_color_to_xterm_eq col : g_color_to_xterm col = color_to_xterm col.
Proof.
  destruct col as [a | i | c]; unfold g_color_to_xterm, color_to_xterm.
  - rewrite g_from_ansi_eq. destruct (from_ansi a); reflexivity.
  - reflexivity.
  - rewrite g_rgb_to_xterm_eq. destruct (rgb_to_xterm c); reflexivity.
Qed.

Lemma g_color_to_ansi_eq col p : g_color_to_ansi col p = color_to_ansi col p.
Proof.
  destruct col as [a | i | c]; unfold g_color_to_ansi, color_to_ansi.
  - reflexivity.
  - rewrite g_xterm_to_ansi_eq. destruct (xterm_to_ansi i p); reflexivity.
  - rewrite g_rgb_to_ansi_eq. destruct (rgb_to_ansi c p); reflexivity.
Qed.

(* ---- statements in the form quoted by Props/C10.v ------------------------------------ *)

Lemma translated_palette_reads (p : list rgb) (a i : N) :
  g_palette_get p a = palette_get p a /\ g_palette_index p a = palette_index p a /\
  g_rgb_from_index p i = rgb_from_index p i.
Proof. repeat split; [apply g_palette_get_eq | apply g_palette_index_eq | apply g_rgb_from_index_eq]. Qed.

Lemma translated_xterm (i : N) (p : list rgb) :
  g_xterm_to_rgb i p = xterm_to_rgb i p /\ g_xterm_to_ansi i p = xterm_to_ansi i p.
Proof. split; [apply g_xterm_to_rgb_eq | apply g_xterm_to_ansi_eq]. Qed.

(* ---- the entry points --------------------------------------------------------------- *)

(* the three public conversions, any colour, any palette (in range or not) *)
Theorem translated_lossy_is_model (col : color) (p : list rgb) :
  g_color_to_rgb col p = color_to_rgb col p /\
  g_color_to_xterm col = color_to_xterm col /\
  g_color_to_ansi col p = color_to_ansi col p.
Proof.
  repeat split; [apply g_color_to_rgb_eq | apply g_color_to_xterm_eq | apply g_color_to_ansi_eq].
Qed.

(* hence the translated code computes the executable specification on the domain of C10 *)
Theorem translated_lossy_is_spec (col : color) (p : list rgb) :
  color_ok col -> palette_ok p ->
  g_color_to_rgb col p = spec_to_rgb p col /\
  g_color_to_xterm col = spec_to_xterm col /\
  g_color_to_ansi col p = spec_to_ansi p col.
Proof.
  intros Hc Hp. rewrite g_color_to_rgb_eq, g_color_to_xterm_eq, g_color_to_ansi_eq.
  exact (model_is_spec col p Hc Hp).
Qed.

(* ---- impl Default for Palette, impl From<[RgbColor; 16]> for Palette ------------------ *)

Lemma g_palette_default_eq : g_palette_default = palette_default.
Proof. reflexivity. Qed.

Lemma g_palette_from_eq (raw : list rgb) : g_palette_from raw = palette_from raw.
Proof. reflexivity. Qed.

(* the default palette is in the domain of C10 (16 entries, channels below 256), and a palette made from an
   array reads back that array *)
Lemma translated_palette_default_ok : palette_ok g_palette_default.
Proof. exact (proj1 shipped_palettes_ok). Qed.

Lemma translated_palette_from_reads (raw : list rgb) (a : N) :
  g_palette_get (g_palette_from raw) a = palette_get raw a.
Proof. rewrite g_palette_from_eq. apply g_palette_get_eq. Qed.
