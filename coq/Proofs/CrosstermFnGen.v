(* Proofs/CrosstermFnGen.v -- the rendering of crossterm 0.28.1 as TRANSLATED from the registry source
   (Generated/CrosstermFn.v, tools/gen_fn_crossterm.py), for C16:
   1. shape: for EVERY value `v : ContentStyle` and text, `v.apply(text).to_string()` does not panic and
      is  SGR sequences (background, foreground, underline colour, one per attribute in declaration
      order) ++ text ++ SGR sequences (reset)  ([ct_render_eq], [g_crossterm_render_eq]);
   2. what Spec/Vt + Spec/Sgr make of those bytes from the terminal's default state ([ct_interp_x]);
   3. on the values the adapter builds ([ad_to_crossterm s]): the rendition of "x" is the projection of
      the source style, modulo the identification of palette entries 0-15 with the 16 ANSI colours and,
      when several underline kinds are set at once, modulo the underline kind (a terminal has one
      underline attribute: the last sequence wins; refuted otherwise by a witness). *)
From Coq Require Import NArith Arith List Bool Lia.
From AV Require Import Spec.Vt Spec.Sgr Spec.Render Spec.Targets Model.Base Model.Imp
  Generated.Adapters Model.Adapters Generated.AdaptersFn Proofs.Adapters Proofs.AdaptersGen
  Model.Crossterm Generated.CrosstermFn Proofs.CrosstermVt.
Import ListNotations.
Local Open Scope N_scope.

(* ======================================================================== *)
(* 0. small helpers                                                           *)

Lemma lt_in_seq n k : n < N.of_nat k -> In n (map N.of_nat (seq 0 k)).
Proof.
  intros H. apply in_map_iff. exists (N.to_nat n). split; [apply N2Nat.id|].
  apply in_seq. lia.
Qed.

Lemma forall_below (P : N -> bool) k :
  forallb P (map N.of_nat (seq 0 k)) = true -> forall n, n < N.of_nat k -> P n = true.
Proof. intros H n Hn. rewrite forallb_forall in H. apply H. now apply lt_in_seq. Qed.

(* ======================================================================== *)
(* 1. the hand model of the rendering: printed parameter lists                *)

(* a control sequence is written as its printed parameters (Spec/Render rn_csi): parameters, each a list
   of sub-parameters, each a digit string *)
Definition ct_pr : Type := list (list (list N)).

(* the palette index crossterm prints for its named colours *)
Definition ct_named_index (c : ct_color) : N :=
  match c with
  | CtBlack => 0 | CtDarkRed => 1 | CtDarkGreen => 2 | CtDarkYellow => 3 | CtDarkBlue => 4 | CtDarkMagenta => 5
  | CtDarkCyan => 6 | CtGrey => 7 | CtDarkGrey => 8 | CtRed => 9 | CtGreen => 10 | CtYellow => 11 | CtBlue => 12
  | CtMagenta => 13 | CtCyan => 14 | CtWhite => 15
  | _ => 0
  end.

Definition ct_color_tail (c : ct_color) : ct_pr :=
  match c with
  | CtReset => []
  | CtRgb r g b => [[[50]]; [ct_dec r]; [ct_dec g]; [ct_dec b]]
  | CtAnsiValue n => [[[53]]; [ct_dec n]]
  | named => [[[53]]; [ct_dec (ct_named_index named)]]
  end.

Definition ct_colored_parts (cl : ct_colored) : N * ct_color :=
  match cl with CtForeground c => (51, c) | CtBackground c => (52, c) | CtUnderline c => (53, c) end.

(* <Colored as Display>::fmt, colours enabled *)
Definition ct_colored_pr (cl : ct_colored) : ct_pr :=
  let '(base, c) := ct_colored_parts cl in
  if ct_color_eqb c CtReset then [[[base; 57]]] else [[base; 56]] :: ct_color_tail c.

(* Attribute::sgr *)
Definition ct_attr_pr (x : N) : ct_pr :=
  let c := nth (N.to_nat x) g_ct_SGR 0 in
  if (4 <? x) && (x <? 9) then [[[52]; ct_dec c]] else [[ct_dec c]].

(* Attributes::has *)
Definition ct_has (a x : N) : bool := negb (N.land a (N.shiftl 1 (x + 1)) =? 0).

Definition ct_csis (prs : list ct_pr) : list N := concat (map (fun pr => rn_csi pr 109) prs).

Definition ct_olist (mk : ct_color -> ct_colored) (o : option ct_color) : list ct_pr :=
  match o with Some c => [ct_colored_pr (mk c)] | None => [] end.

Definition ct_attrs_prs (a : N) : list ct_pr := map ct_attr_pr (filter (ct_has a) g_ct_attr_iterator).

(* the commands PrintStyledContent issues before the text ... *)
Definition ct_before (v : ct_style) : list ct_pr :=
  ct_olist CtBackground (ct_bg v) ++ ct_olist CtForeground (ct_fg v) ++ ct_olist CtUnderline (ct_ul v)
  ++ (if ct_attrs v =? 0 then [] else ct_attrs_prs (ct_attrs v)).

(* ... and after it: ESC[0m when an attribute was set, else the colours that were set go back to the
   default (the underline colour is "reset" by ESC[39m, the foreground's sequence) *)
Definition ct_is_some {A} (o : option A) : bool := match o with Some _ => true | None => false end.
Definition ct_after (v : ct_style) : list ct_pr :=
  if ct_attrs v =? 0 then
    (if ct_is_some (ct_bg v) then [[[[52; 57]]]] else []) ++
    (if ct_is_some (ct_fg v) || ct_is_some (ct_ul v) then [[[[51; 57]]]] else [])
  else [[[[48]]]].

(* the bytes of `v.apply(text).to_string()` *)
Definition ct_obytes (mk : ct_color -> ct_colored) (o : option ct_color) : list N :=
  match o with Some c => rn_csi (ct_colored_pr (mk c)) 109 | None => [] end.
Definition ct_render_bytes (v : ct_style) (text : list N) : list N :=
  ct_obytes CtBackground (ct_bg v) ++ ct_obytes CtForeground (ct_fg v) ++ ct_obytes CtUnderline (ct_ul v)
  ++ (if ct_attrs v =? 0 then [] else ct_csis (ct_attrs_prs (ct_attrs v)))
  ++ text
  ++ (if ct_attrs v =? 0 then
        (if ct_is_some (ct_bg v) then rn_csi [[[52; 57]]] 109 else []) ++
        (if ct_is_some (ct_fg v) || ct_is_some (ct_ul v) then rn_csi [[[51; 57]]] 109 else [])
      else rn_csi [[[48]]] 109).

(* ---- the translated functions are that model ------------------------------ *)

Lemma g_ct_colored_fmt_eq cl f :
  g_ct_colored_fmt false cl f = Some (f ++ rn_print_params (ct_colored_pr cl), inl tt).
Proof.
  unfold g_ct_colored_fmt, ct_colored_pr.
  destruct cl as [c|c|c]; destruct c; cbn [ct_colored_parts ct_color_eqb ct_color_tail];
    cbv beta iota zeta delta [ct_write_str ct_write_fmt ct_lit];
    unfold rn_print_params; cbn [map rn_join app];
    repeat rewrite <- app_assoc; cbn [app]; reflexivity.
Qed.

(* SetForegroundColor / SetBackgroundColor / SetUnderlineColor: `write!(f, csi!("{}m"), Colored::X(c))` *)
Lemma write_csi_colored cl f :
  ct_write_fmt [ct_lit [27; 91]; (fun f0 => g_ct_colored_fmt false cl f0); ct_lit [109]] f =
  Some (f ++ rn_csi (ct_colored_pr cl) 109, inl tt).
Proof.
  cbn [ct_write_fmt]. unfold ct_lit at 1. unfold ct_write_str at 1.
  rewrite g_ct_colored_fmt_eq. unfold ct_lit, ct_write_str. unfold rn_csi.
  repeat rewrite <- app_assoc. reflexivity.
Qed.

Lemma g_ct_set_fg_eq c f :
  g_ct_set_fg_write_ansi false c f = Some (f ++ rn_csi (ct_colored_pr (CtForeground c)) 109, inl tt).
Proof. unfold g_ct_set_fg_write_ansi, ct_cmd_f0. rewrite write_csi_colored. reflexivity. Qed.
Lemma g_ct_set_bg_eq c f :
  g_ct_set_bg_write_ansi false c f = Some (f ++ rn_csi (ct_colored_pr (CtBackground c)) 109, inl tt).
Proof. unfold g_ct_set_bg_write_ansi, ct_cmd_f0. rewrite write_csi_colored. reflexivity. Qed.
Lemma g_ct_set_ul_eq c f :
  g_ct_set_ul_write_ansi false c f = Some (f ++ rn_csi (ct_colored_pr (CtUnderline c)) 109, inl tt).
Proof. unfold g_ct_set_ul_write_ansi, ct_cmd_f0. rewrite write_csi_colored. reflexivity. Qed.

(* ---- attributes: finite facts about the 28 declared ones ------------------- *)

Definition ct_nattrs : nat := length g_ct_attr_names.

Fixpoint bytes_eqb (l1 l2 : list N) : bool :=
  match l1, l2 with
  | [], [] => true
  | a :: t, b :: u => (a =? b) && bytes_eqb t u
  | _, _ => false
  end.

Definition attr_fact (x : N) : bool :=
  match g_ct_attr_bytes x, g_ct_attr_sgr x with
  | Some b, Some s => (b =? N.shiftl 1 (x + 1)) && bytes_eqb s (rn_print_params (ct_attr_pr x))
  | _, _ => false
  end.

Lemma bytes_eqb_eq l1 l2 : bytes_eqb l1 l2 = true -> l1 = l2.
Proof.
  revert l2. induction l1 as [|a t IH]; destruct l2 as [|b u]; cbn; try discriminate; auto.
  intros H. apply andb_true_iff in H. destruct H as [A B]. apply N.eqb_eq in A. subst. f_equal. auto.
Qed.

Lemma attr_facts : forallb attr_fact (map N.of_nat (seq 0 ct_nattrs)) = true.
Proof. vm_compute. reflexivity. Qed.

Lemma attr_iterator_is : g_ct_attr_iterator = map N.of_nat (seq 0 ct_nattrs).
Proof. reflexivity. Qed.

Lemma attr_bytes_ok x : x < N.of_nat ct_nattrs -> g_ct_attr_bytes x = Some (N.shiftl 1 (x + 1)).
Proof.
  intros H. pose proof (forall_below _ _ attr_facts x H) as F. unfold attr_fact in F.
  destruct (g_ct_attr_bytes x) as [b|]; [|discriminate]. destruct (g_ct_attr_sgr x); [|discriminate].
  apply andb_true_iff in F. destruct F as [F _]. apply N.eqb_eq in F. now subst.
Qed.

Lemma attr_sgr_ok x : x < N.of_nat ct_nattrs -> g_ct_attr_sgr x = Some (rn_print_params (ct_attr_pr x)).
Proof.
  intros H. pose proof (forall_below _ _ attr_facts x H) as F. unfold attr_fact in F.
  destruct (g_ct_attr_bytes x) as [b|]; [|discriminate]. destruct (g_ct_attr_sgr x); [|discriminate].
  apply andb_true_iff in F. destruct F as [_ F]. apply bytes_eqb_eq in F. now subst.
Qed.

Lemma g_ct_attrs_has_eq a x : x < N.of_nat ct_nattrs -> g_ct_attrs_has a x = Some (ct_has a x).
Proof. intros H. unfold g_ct_attrs_has. rewrite (attr_bytes_ok x H). reflexivity. Qed.

Lemma g_ct_set_attr_eq x f : x < N.of_nat ct_nattrs ->
  g_ct_set_attr_write_ansi false x f = Some (f ++ rn_csi (ct_attr_pr x) 109, inl tt).
Proof.
  intros H. unfold g_ct_set_attr_write_ansi, ct_cmd_f0. rewrite (attr_sgr_ok x H).
  cbn [ct_write_fmt]. unfold ct_lit, ct_write_str, rn_csi. repeat rewrite <- app_assoc. reflexivity.
Qed.

(* SetAttributes: one sequence per attribute that is set, in declaration order *)
Lemma g_ct_set_attrs_eq a f :
  g_ct_set_attrs_write_ansi false a f = Some (f ++ ct_csis (ct_attrs_prs a), inl tt).
Proof.
  unfold g_ct_set_attrs_write_ansi, ct_cmd_f0, ct_attrs_prs.
  match goal with |- context [for_list ?F _ _] => set (step := F) end.
  assert (L : forall l, Forall (fun x => x < N.of_nat ct_nattrs) l -> forall acc,
            for_list step l acc = Some (inl (acc ++ ct_csis (map ct_attr_pr (filter (ct_has a) l))))).
  { induction l as [|x t IH]; intros Hl acc.
    - cbn. now rewrite app_nil_r.
    - inversion Hl as [|? ? Hx Ht]; subst. cbn [for_list filter]. unfold step at 1.
      rewrite (g_ct_attrs_has_eq a x Hx).
      destruct (ct_has a x).
      + rewrite (g_ct_set_attr_eq x acc Hx). cbv beta iota. rewrite (IH Ht).
        cbn [map]. unfold ct_csis. cbn [map concat]. now rewrite <- app_assoc.
      + cbv beta iota. apply (IH Ht). }
  rewrite L; [reflexivity|].
  rewrite attr_iterator_is. apply Forall_forall. intros x Hx.
  apply in_map_iff in Hx. destruct Hx as (n & <- & Hn). apply in_seq in Hn. lia.
Qed.

Lemma g_ct_reset_eq f : g_ct_reset_color_write_ansi false tt f = (f ++ rn_csi [[[48]]] 109, inl tt).
Proof. reflexivity. Qed.

(* ---- PrintStyledContent / Display for StyledContent / to_string -------------- *)

Lemma ct_csis_app a b : ct_csis (a ++ b) = ct_csis a ++ ct_csis b.
Proof. unfold ct_csis. now rewrite map_app, concat_app. Qed.

Lemma csis_cons x l : ct_csis (x :: l) = rn_csi x 109 ++ ct_csis l.
Proof. reflexivity. Qed.
Lemma csis_nil : ct_csis [] = [].
Proof. reflexivity. Qed.
Lemma reset_bg_pr : rn_csi (ct_colored_pr (CtBackground CtReset)) 109 = rn_csi [[[52; 57]]] 109.
Proof. reflexivity. Qed.
Lemma reset_fg_pr : rn_csi (ct_colored_pr (CtForeground CtReset)) 109 = rn_csi [[[51; 57]]] 109.
Proof. reflexivity. Qed.

(* the symbolic pieces are generalised before the lists are normalised: with them in place the kernel's
   conversion check of the `cbn` steps at Qed did not return *)
Ltac ct_abstract_pieces a :=
  repeat match goal with |- context [rn_csi ?p 109] => generalize (rn_csi p 109); intro end;
  try generalize (ct_csis (ct_attrs_prs a)); intros.

Lemma ct_render_eq v text f :
  g_ct_print_styled_write_ansi false (mkCtStyled v text) f = Some (f ++ ct_render_bytes v text, inl tt).
Proof.
  unfold g_ct_print_styled_write_ansi, g_ct_styled_style, g_ct_styled_content, ct_cmd_f0, ct_render_bytes.
  cbn [ct_sc_style ct_sc_content]. unfold g_ct_attrs_is_empty, ct_attrs_f0.
  destruct v as [fg bg ul a]. cbn [ct_fg ct_bg ct_ul ct_attrs].
  destruct bg as [bg|], fg as [fg|], ul as [ul|]; cbv beta iota zeta;
    rewrite ?g_ct_set_bg_eq; cbv beta iota zeta;
    rewrite ?g_ct_set_fg_eq; cbv beta iota zeta;
    rewrite ?g_ct_set_ul_eq; cbv beta iota zeta;
    (destruct (a =? 0); cbn [negb]; cbv beta iota zeta;
     rewrite ?g_ct_set_attrs_eq; cbv beta iota zeta;
     cbn [ct_write_fmt]; unfold ct_lit, ct_write_str; cbv beta iota zeta;
     rewrite ?g_ct_reset_eq; cbv beta iota zeta;
     rewrite ?g_ct_set_bg_eq; cbv beta iota zeta;
     rewrite ?g_ct_set_fg_eq; cbv beta iota zeta;
     rewrite ?reset_bg_pr, ?reset_fg_pr;
     cbn [ct_obytes ct_is_some orb];
     ct_abstract_pieces a;
     rewrite ?app_nil_r; cbn [app]; repeat rewrite <- app_assoc; reflexivity).
Qed.

(* the same bytes as sequences before / after the text *)
Lemma ct_render_bytes_csis v text :
  ct_render_bytes v text = ct_csis (ct_before v) ++ text ++ ct_csis (ct_after v).
Proof.
  unfold ct_render_bytes, ct_before, ct_after.
  destruct v as [fg bg ul a]. cbn [ct_fg ct_bg ct_ul ct_attrs].
  destruct bg as [bg|], fg as [fg|], ul as [ul|]; (destruct (a =? 0);
    cbn [ct_obytes ct_olist ct_is_some orb];
    rewrite ?ct_csis_app, ?csis_cons, ?csis_nil;
    ct_abstract_pieces a;
    rewrite ?app_nil_r; cbn [app]; repeat rewrite <- app_assoc; reflexivity).
Qed.

(* `v.apply(text).to_string()` for EVERY value: no panic, and exactly these bytes *)
Theorem g_crossterm_render_str_eq v text :
  g_crossterm_render_str false v text = Some (ct_render_bytes v text).
Proof.
  unfold g_crossterm_render_str, g_ct_apply, g_ct_styled_new, g_ct_styled_fmt. cbn [ct_sc_style ct_sc_content].
  rewrite ct_render_eq. reflexivity.
Qed.

Theorem g_crossterm_render_eq v : g_crossterm_render v = Some (ct_render_bytes v [120]).
Proof. apply g_crossterm_render_str_eq. Qed.

(* ======================================================================== *)
(* 2. what Spec/Vt + Spec/Sgr make of such bytes                              *)

Definition pr_ok (pr : ct_pr) : Prop := rn_csi_ok pr = true.

Lemma csis_events prs : Forall pr_ok prs -> forall s, ground_st s ->
  exists s', vt_run s (ct_csis prs) = (s', map rn_sgr (map rn_param_values prs)) /\ ground_st s'.
Proof.
  induction prs as [|pr t IH]; intros H s Hs.
  - exists s. split; [reflexivity|exact Hs].
  - inversion H as [|? ? Hp Ht]; subst.
    destruct (rn_csi_roundtrip pr s Hp Hs) as (s1 & E1 & H1).
    destruct (IH Ht s1 H1) as (s2 & E2 & H2).
    exists s2. split; [|exact H2]. rewrite csis_cons, vt_run_app, E1, E2. reflexivity.
Qed.

(* sequences, the character "x", sequences: "x" is shown in the rendition the first sequences select *)
Lemma ct_interp_x B A : Forall pr_ok B -> Forall pr_ok A ->
  ad_interp_x (ct_csis B ++ [120] ++ ct_csis A) = Some (fold_left sgr_apply (map rn_param_values B) style_default).
Proof.
  intros HB HA. unfold ad_interp_x, spec_events.
  destruct (csis_events B HB vt_init ground_init) as (s1 & E1 & H1).
  destruct (csis_events A HA s1 H1) as (s2 & E2 & H2).
  rewrite vt_run_app, E1. cbn [app vt_run]. rewrite (step_print_x s1 H1), E2. cbn [snd app].
  rewrite interp_app_sgr. cbn [interp]. rewrite interp_sgr_only. reflexivity.
Qed.

(* ---- colours --------------------------------------------------------------- *)

Definition ct_u8_color (c : ct_color) : Prop :=
  match c with CtRgb r g b => r < 256 /\ g < 256 /\ b < 256 | CtAnsiValue n => n < 256 | _ => True end.
Definition ct_u8_slot (o : option ct_color) : Prop := match o with Some c => ct_u8_color c | None => True end.

(* the colour a terminal shows for a crossterm colour as crossterm prints it: the named colours are printed
   as entries 0..15 of the 256-colour palette *)
Definition ct_color_colour (c : ct_color) : option colour :=
  match c with
  | CtReset => None
  | CtRgb r g b => Some (CRgb r g b)
  | CtAnsiValue n => Some (CIdx n)
  | named => Some (CIdx (ct_named_index named))
  end.
Definition ct_slot_colour (o : option ct_color) : option colour :=
  match o with Some c => ct_color_colour c | None => None end.

Definition dec_fact (n : N) : bool :=
  forallb rn_is_digit (ct_dec n) && (rn_dec_value (ct_dec n) =? n).
Lemma dec_facts : forallb dec_fact (map N.of_nat (seq 0 256)) = true.
Proof. vm_compute. reflexivity. Qed.

Lemma dec_u8 n : n < 256 -> forallb rn_is_digit (ct_dec n) = true /\ rn_dec_value (ct_dec n) = n.
Proof.
  intros H. pose proof (forall_below _ 256 dec_facts n H) as F. unfold dec_fact in F.
  apply andb_true_iff in F. destruct F as [A B]. apply N.eqb_eq in B. auto.
Qed.

Lemma dec_value_u8 n : n < 256 -> rn_dec_value (ct_dec n) = n.
Proof. intros H. apply (dec_u8 n H). Qed.

Lemma digits_ok_u8 n : n < 256 -> rn_digits_ok (ct_dec n) = true.
Proof.
  intros H. destruct (dec_u8 n H) as [A B]. unfold rn_digits_ok. rewrite A, B. cbn [andb].
  apply N.ltb_lt. lia.
Qed.

Definition ct_colored_target (cl : ct_colored) : target :=
  match cl with CtForeground _ => TFg | CtBackground _ => TBg | CtUnderline _ => TUl end.

Lemma colored_ok cl : ct_u8_color (snd (ct_colored_parts cl)) -> pr_ok (ct_colored_pr cl).
Proof.
  unfold pr_ok, ct_colored_pr.
  destruct cl as [c|c|c]; destruct c; cbn [ct_colored_parts snd ct_color_eqb ct_color_tail ct_u8_color]; intros H;
    try reflexivity;
    unfold rn_csi_ok; cbn [rn_nonempty forallb andb concat app length];
    try (destruct H as (Hr & Hg & Hb)); rewrite ?digits_ok_u8 by assumption; reflexivity.
Qed.

Lemma colored_apply cl s : ct_u8_color (snd (ct_colored_parts cl)) ->
  sgr_apply s (rn_param_values (ct_colored_pr cl)) =
  set_target (ct_colored_target cl) s (ct_color_colour (snd (ct_colored_parts cl))).
Proof.
  unfold ct_colored_pr.
  destruct cl as [c|c|c]; destruct c;
    cbn [ct_colored_parts snd ct_color_eqb ct_color_tail ct_u8_color ct_colored_target ct_color_colour]; intros H;
    try reflexivity;
    unfold rn_param_values; cbn [map];
    try (destruct H as (Hr & Hg & Hb)); rewrite ?dec_value_u8 by assumption; reflexivity.
Qed.

Lemma olist_ok mk o : (forall c, ct_u8_color c -> ct_u8_color (snd (ct_colored_parts (mk c)))) ->
  ct_u8_slot o -> Forall pr_ok (ct_olist mk o).
Proof.
  intros Hm H. destruct o as [c|]; cbn [ct_olist]; [|constructor].
  constructor; [|constructor]. apply colored_ok. apply Hm. exact H.
Qed.

Lemma before_colours fg bg ul : ct_u8_slot fg -> ct_u8_slot bg -> ct_u8_slot ul ->
  fold_left sgr_apply
    (map rn_param_values (ct_olist CtBackground bg ++ ct_olist CtForeground fg ++ ct_olist CtUnderline ul))
    style_default
  = mkStyle (ct_slot_colour fg) (ct_slot_colour bg) (ct_slot_colour ul) 0.
Proof.
  intros Hf Hb Hu.
  destruct bg as [bg|], fg as [fg|], ul as [ul|]; cbn [ct_olist app map fold_left ct_slot_colour];
    rewrite ?colored_apply by assumption; reflexivity.
Qed.

(* ---- attributes ------------------------------------------------------------ *)

(* the attributes that denote an anstyle effect (Bold .. CrossedOut): their sequences change the effects only *)
Definition attr_plain (x : N) : bool := (1 <=? x) && (x <=? 13).
Definition ct_attr_eff (x e : N) : N :=
  s_eff (sgr_apply (mkStyle None None None e) (rn_param_values (ct_attr_pr x))).

Lemma attr_plain_cases x : attr_plain x = true ->
  x = 1 \/ x = 2 \/ x = 3 \/ x = 4 \/ x = 5 \/ x = 6 \/ x = 7 \/ x = 8 \/ x = 9 \/ x = 10 \/ x = 11 \/ x = 12 \/ x = 13.
Proof. unfold attr_plain. intros H. apply andb_true_iff in H. destruct H as [A B]. apply N.leb_le in A, B. lia. Qed.

Lemma attr_apply x s : attr_plain x = true ->
  sgr_apply s (rn_param_values (ct_attr_pr x)) = mkStyle (s_fg s) (s_bg s) (s_ul s) (ct_attr_eff x (s_eff s)) /\
  pr_ok (ct_attr_pr x).
Proof.
  intros H. apply attr_plain_cases in H. destruct s as [f b u e]. unfold pr_ok.
  repeat (destruct H as [->|H]; [split; reflexivity|]). subst. split; reflexivity.
Qed.

Lemma attrs_fold xs : forallb attr_plain xs = true -> forall s,
  fold_left sgr_apply (map rn_param_values (map ct_attr_pr xs)) s =
  mkStyle (s_fg s) (s_bg s) (s_ul s) (fold_left (fun e x => ct_attr_eff x e) xs (s_eff s)).
Proof.
  induction xs as [|x t IH]; intros H s; cbn [map fold_left].
  - now destruct s.
  - cbn [forallb] in H. apply andb_true_iff in H. destruct H as [Hx Ht].
    rewrite (proj1 (attr_apply x s Hx)), (IH Ht). reflexivity.
Qed.

Lemma attrs_ok xs : forallb attr_plain xs = true -> Forall pr_ok (map ct_attr_pr xs).
Proof.
  induction xs as [|x t IH]; intros H; cbn [map]; [constructor|].
  cbn [forallb] in H. apply andb_true_iff in H. destruct H as [Hx Ht].
  constructor; [apply (attr_apply x style_default Hx)|auto].
Qed.

(* ======================================================================== *)
(* 3. the values the adapter builds                                           *)

(* the crossterm colour the adapter model chooses, as a value of the Rust enum *)
Definition ct_ansi_ctors : list ct_color :=
  [CtBlack; CtDarkRed; CtDarkGreen; CtDarkYellow; CtDarkBlue; CtDarkMagenta; CtDarkCyan; CtGrey;
   CtDarkGrey; CtRed; CtGreen; CtYellow; CtBlue; CtMagenta; CtCyan; CtWhite].
Definition ct_of_colour (c : colour) : ct_color :=
  match c with
  | CAnsi i => nth (N.to_nat i) ct_ansi_ctors CtReset
  | CIdx n => CtAnsiValue n
  | CRgb r g b => CtRgb r g b
  end.

Lemma lt16_cases i : i < 16 ->
  i = 0 \/ i = 1 \/ i = 2 \/ i = 3 \/ i = 4 \/ i = 5 \/ i = 6 \/ i = 7 \/ i = 8 \/ i = 9 \/ i = 10 \/ i = 11 \/
  i = 12 \/ i = 13 \/ i = 14 \/ i = 15.
Proof. lia. Qed.

(* by name, the constructor of the adapter model IS that variant; it is printed as the palette entry with
   the ANSI colour's number *)
Lemma image_colour c : ad_colour_ok (Some c) ->
  ct_color_of (ad_conv_colour ad_gen_crossterm_colors c) = Some (ct_of_colour c) /\
  ad_norm_colour (ct_color_colour (ct_of_colour c)) = ad_norm_colour (ad_project_colour AdCrossterm (Some c)).
Proof.
  destruct c as [i|n|r g b]; cbn [ad_colour_ok]; intros H.
  - apply lt16_cases in H. repeat (destruct H as [->|H]; [split; reflexivity|]). subst. split; reflexivity.
  - split; reflexivity.
  - split; reflexivity.
Qed.

Lemma image_slot o : ad_colour_ok o ->
  ct_slot_of (option_map (ad_conv_colour ad_gen_crossterm_colors) o) = Some (option_map ct_of_colour o) /\
  ad_norm_colour (ct_slot_colour (option_map ct_of_colour o)) = ad_norm_colour (ad_project_colour AdCrossterm o).
Proof.
  destruct o as [c|]; intros H; [|split; reflexivity].
  destruct (image_colour c H) as [A B]. cbn [option_map ct_slot_of ct_slot_colour]. rewrite A. split; [reflexivity|exact B].
Qed.

Lemma image_u8 o : ad_colour_ok o -> ct_u8_colour o -> ct_u8_slot (option_map ct_of_colour o).
Proof.
  destruct o as [[i|n|r g b]|]; cbn; auto. intros H _.
  apply lt16_cases in H. repeat (destruct H as [->|H]; [exact I|]). subst. exact I.
Qed.

(* the attribute set `attributes.set(..)` builds for an effect set, through the translated `Attributes::set` *)
Definition ct_image_attrs (e : N) : option N :=
  ct_attrs_of g_ct_attrs_set g_ct_attr_names (ad_conv_effects ad_gen_crossterm_effects e) 0.

Definition ct_rendered_eff (a : N) : N :=
  fold_left (fun e x => ct_attr_eff x e) (filter (ct_has a) g_ct_attr_iterator) 0.

(* for each of the 4096 effect sets: the attribute set exists (no overflow panic), only Bold .. CrossedOut are set, it is
   empty exactly when nothing is printed, and the effects a terminal ends up with are the source's (= the projection
   onto what crossterm can express) -- up to the underline kind when several are set at once *)
Definition eff_fact (e : N) : bool :=
  match ct_image_attrs e with
  | Some a =>
      forallb attr_plain (filter (ct_has a) g_ct_attr_iterator)
      && (if a =? 0 then match filter (ct_has a) g_ct_attr_iterator with [] => true | _ => false end else true)
      && (ad_project_effects AdCrossterm (mkStyle None None None e) =? e)
      && (N.ldiff (ct_rendered_eff a) underline_mask =? N.ldiff e underline_mask)
      && (if ad_one_underline e then ct_rendered_eff a =? e else true)
  | None => false
  end.

Lemma eff_facts : forallb eff_fact (map N.of_nat (seq 0 4096)) = true.
Proof. vm_compute. reflexivity. Qed.

(* the crossterm value of a source style *)
Definition ct_image (s : sstyle) (a : N) : ct_style :=
  mkCtStyle (option_map ct_of_colour (s_fg s)) (option_map ct_of_colour (s_bg s)) (option_map ct_of_colour (s_ul s)) a.

Lemma project_effects_eq s : ad_project_effects AdCrossterm s = ad_project_effects AdCrossterm (mkStyle None None None (s_eff s)).
Proof. reflexivity. Qed.

Lemma sstyle_eqb_refl a : sstyle_eqb a a = true.
Proof.
  assert (C : forall c, colour_eqb c c = true).
  { intros [i|i|r g b]; cbn; rewrite ?N.eqb_refl; reflexivity. }
  assert (O : forall o, opt_colour_eqb o o = true) by (intros [c|]; cbn; auto).
  unfold sstyle_eqb. rewrite !O, N.eqb_refl. reflexivity.
Qed.

(* THE theorem about the image: the adapter's value, read as a crossterm value, renders (no panic) to bytes that
   Spec/Vt + Spec/Sgr interpret, from the terminal's default state, as "x" in the projection of the source style *)
Theorem crossterm_render_image s : ad_src_ok s -> ct_src_u8 s ->
  exists v bytes,
    g_ct_of_tstyle (ad_to_crossterm s) = Some v /\ g_crossterm_render v = Some bytes /\
    ad_render_ok_but_underline (ad_project AdCrossterm s) bytes = true /\
    (ad_one_underline (s_eff s) = true -> ad_render_ok (ad_project AdCrossterm s) bytes = true).
Proof.
  intros (Hfg & Hbg & Hul & He) (Ufg & Ubg & Uul).
  pose proof (forall_below _ 4096 eff_facts (s_eff s) He) as F. unfold eff_fact in F.
  fold (ct_image_attrs (s_eff s)) in F.
  destruct (ct_image_attrs (s_eff s)) as [a|] eqn:EA; [|discriminate].
  repeat (apply andb_true_iff in F; destruct F as [F ?]).
  rename F into Fplain, H into Fone, H0 into Fmask, H1 into Fproj, H2 into Fzero.
  apply N.eqb_eq in Fmask, Fproj.
  destruct (image_slot _ Hfg) as [Sfg Nfg], (image_slot _ Hbg) as [Sbg Nbg], (image_slot _ Hul) as [Sul Nul].
  exists (ct_image s a), (ct_render_bytes (ct_image s a) [120]).
  split.
  { unfold g_ct_of_tstyle, ct_of_tstyle, ad_to_crossterm. cbn [ad_t_fg ad_t_bg ad_t_ul ad_t_attrs].
    rewrite Sfg, Sbg, Sul. unfold ct_image_attrs in EA. rewrite EA. reflexivity. }
  split; [apply g_crossterm_render_eq|].
  (* the rendition of "x" *)
  assert (I : ad_interp_x (ct_render_bytes (ct_image s a) [120]) =
              Some (mkStyle (ct_slot_colour (option_map ct_of_colour (s_fg s))) (ct_slot_colour (option_map ct_of_colour (s_bg s)))
                            (ct_slot_colour (option_map ct_of_colour (s_ul s))) (ct_rendered_eff a))).
  { rewrite ct_render_bytes_csis.
    assert (Battrs : (if ct_attrs (ct_image s a) =? 0 then [] else ct_attrs_prs (ct_attrs (ct_image s a))) = ct_attrs_prs a).
    { cbn [ct_image ct_attrs]. destruct (a =? 0); [|reflexivity].
      unfold ct_attrs_prs. destruct (filter (ct_has a) g_ct_attr_iterator); [reflexivity|discriminate]. }
    rewrite ct_interp_x.
    - unfold ct_before. rewrite Battrs. cbn [ct_image ct_fg ct_bg ct_ul].
      rewrite !app_assoc, map_app, fold_left_app, <- !app_assoc.
      rewrite before_colours by (apply image_u8; assumption).
      unfold ct_attrs_prs, ct_rendered_eff. rewrite (attrs_fold _ Fplain). cbn [s_fg s_bg s_ul s_eff]. reflexivity.
    - unfold ct_before. rewrite Battrs. cbn [ct_image ct_fg ct_bg ct_ul].
      apply Forall_app; split; [apply olist_ok; [intros c Hc; exact Hc|apply image_u8; assumption]|].
      apply Forall_app; split; [apply olist_ok; [intros c Hc; exact Hc|apply image_u8; assumption]|].
      apply Forall_app; split; [apply olist_ok; [intros c Hc; exact Hc|apply image_u8; assumption]|].
      apply attrs_ok. exact Fplain.
    - unfold ct_after. destruct (ct_attrs (ct_image s a) =? 0).
      + apply Forall_app. split; [destruct (ct_is_some _)|destruct (_ || _)]; repeat constructor.
      + repeat constructor. }
  assert (P : ad_project AdCrossterm s =
              mkStyle (ad_project_colour AdCrossterm (s_fg s)) (ad_project_colour AdCrossterm (s_bg s))
                      (ad_project_colour AdCrossterm (s_ul s)) (s_eff s)).
  { unfold ad_project. cbn [ad_has_ul]. rewrite project_effects_eq, Fproj. reflexivity. }
  split.
  - unfold ad_render_ok_but_underline. rewrite I, P. unfold ad_norm_style, eff_off_mask. cbn [s_fg s_bg s_ul s_eff].
    rewrite Nfg, Nbg, Nul, Fmask. apply sstyle_eqb_refl.
  - intros One. rewrite One in Fone. apply N.eqb_eq in Fone.
    unfold ad_render_ok. rewrite I, P. unfold ad_norm_style. cbn [s_fg s_bg s_ul s_eff].
    rewrite Nfg, Nbg, Nul, Fone. apply sstyle_eqb_refl.
Qed.

(* ---- composition with the translated adapter and with the meaning tables ------ *)

(* anstyle_crossterm::to_crossterm (translated, Generated/AdaptersFn.v), the reading of its result as a crossterm
   value, crossterm's rendering (translated): one pipeline from an anstyle style to bytes *)
Definition g_crossterm_pipeline (s : sstyle) : option (list N) :=
  t <- g_to_crossterm s ;; v <- g_ct_of_tstyle t ;; g_crossterm_render v.

Theorem crossterm_rendered_is_projection s : ad_src_ok s -> ct_src_u8 s ->
  exists bytes, g_crossterm_pipeline s = Some bytes /\
    ad_render_ok_but_underline (ad_project AdCrossterm s) bytes = true /\
    (ad_one_underline (s_eff s) = true -> ad_render_ok (ad_project AdCrossterm s) bytes = true).
Proof.
  intros H U. destruct (crossterm_render_image s H U) as (v & bytes & Ev & Eb & R).
  exists bytes. split; [|exact R].
  unfold g_crossterm_pipeline. rewrite (g_to_crossterm_eq s H), Ev. exact Eb.
Qed.

(* the same against the meaning table of Spec/Targets.v: what the library renders for the adapter's value is what
   the table says that value means *)
Theorem crossterm_rendered_is_meaning s : ad_src_ok s -> ct_src_u8 s -> ad_one_underline (s_eff s) = true ->
  exists t m bytes, g_to_crossterm s = Some t /\ ad_meaning AdCrossterm t = Some m /\
    (v <- g_ct_of_tstyle t ;; g_crossterm_render v) = Some bytes /\ ad_render_ok m bytes = true.
Proof.
  intros H U One. destruct (crossterm_render_image s H U) as (v & bytes & Ev & Eb & _ & R).
  exists (ad_to_crossterm s), (ad_project AdCrossterm s), bytes.
  split; [exact (g_to_crossterm_eq s H)|]. split; [exact (ad_convert_meaning AdCrossterm s H)|].
  split; [rewrite Ev; exact Eb|exact (R One)].
Qed.

(* with two underline kinds at once the full comparison FAILS (UNDERLINE + DOUBLE_UNDERLINE: the terminal shows the
   double underline only, the meaning table has both): the hypothesis [ad_one_underline] cannot be dropped *)
Theorem crossterm_rendered_two_underlines_refuted :
  exists s bytes, ad_src_ok s /\ ct_src_u8 s /\ g_crossterm_pipeline s = Some bytes /\
    ad_render_ok (ad_project AdCrossterm s) bytes = false.
Proof.
  exists (mkStyle None None None 24). eexists.
  split; [unfold ad_src_ok; cbn; repeat split; lia|].
  split; [unfold ct_src_u8; cbn; auto|].
  split; [vm_compute; reflexivity|vm_compute; reflexivity].
Qed.

(* colours switched off (NO_COLOR, or force_color_output(false)): every colour command prints "ESC [ m" -- an SGR
   reset -- before the attributes; the text then shows the attributes only *)
Theorem crossterm_colours_disabled_witness :
  g_crossterm_render_str true (mkCtStyle (Some CtRed) None None 4) [120] =
  Some [27; 91; 109; 27; 91; 49; 109; 120; 27; 91; 48; 109].
Proof. vm_compute. reflexivity. Qed.
