From Coq Require Import NArith Arith List Bool Lia.
From AV Require Import Spec.Vt Spec.Sgr Spec.Render Spec.Targets Model.Base Model.Imp Model.Crossterm Generated.CrosstermFn Proofs.CrosstermVt.
