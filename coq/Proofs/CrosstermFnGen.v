(* Proofs/CrosstermFnGen.v -- the rendering of crossterm 0.28.1 as TRANSLATED from the registry source
   (Generated/CrosstermFn.v, tools/gen_fn_crossterm.py), for C16:
   1. shape: for EVERY value `v : ContentStyle` and text, `v.apply(text).to_string()` does not panic and
      is  SGR sequences (background, foreground, underline colour, one per attribute in declaration
      order) ++ text ++ SGR sequences (reset)  ([ct_render_eq], [g_crossterm_render_eq]);
   2. what Spec/Vt + Spec/Sgr make of those bytes from the terminal's default state ([ct_interp_x]);
   3. on the values the adapter builds ([ad_to_crossterm s]): the rendition of "x" is the projection of
      the source style, modulo the identification of palette entries 0-15 with the 16 ANSI colours and,
      when several underline kinds are set at once, modulo the underline kind (a terminal has one
      underline attribute: the last sequence wins; refuted otherwise by a witness). *)
From Coq Require Import NArith Arith List Bool Lia.
From AV Require Import Spec.Vt Spec.Sgr Spec.Render Spec.Targets Model.Base Model.Imp
  Generated.Adapters Model.Adapters Model.Crossterm Generated.CrosstermFn Proofs.CrosstermVt.
Import ListNotations.
Local Open Scope N_scope.

(* ======================================================================== *)
(* 0. small helpers                                                           *)

Lemma lt_in_seq n k : n < N.of_nat k -> In n (map N.of_nat (seq 0 k)).
Proof.
  intros H. apply in_map_iff. exists (N.to_nat n). split; [apply N2Nat.id|].
  apply in_seq. lia.
Qed.

Lemma forall_below (P : N -> bool) k :
  forallb P (map N.of_nat (seq 0 k)) = true -> forall n, n < N.of_nat k -> P n = true.
Proof. intros H n Hn. rewrite forallb_forall in H. apply H. now apply lt_in_seq. Qed.

(* ======================================================================== *)
(* 1. the hand model of the rendering: printed parameter lists                *)

(* a control sequence is written as its printed parameters (Spec/Render rn_csi): parameters, each a list
   of sub-parameters, each a digit string *)
Definition ct_pr : Type := list (list (list N)).

(* the palette index crossterm prints for its named colours *)
Definition ct_named_index (c : ct_color) : N :=
  match c with
  | CtBlack => 0 | CtDarkRed => 1 | CtDarkGreen => 2 | CtDarkYellow => 3 | CtDarkBlue => 4 | CtDarkMagenta => 5
  | CtDarkCyan => 6 | CtGrey => 7 | CtDarkGrey => 8 | CtRed => 9 | CtGreen => 10 | CtYellow => 11 | CtBlue => 12
  | CtMagenta => 13 | CtCyan => 14 | CtWhite => 15
  | _ => 0
  end.

Definition ct_color_tail (c : ct_color) : ct_pr :=
  match c with
  | CtReset => []
  | CtRgb r g b => [[[50]]; [ct_dec r]; [ct_dec g]; [ct_dec b]]
  | CtAnsiValue n => [[[53]]; [ct_dec n]]
  | named => [[[53]]; [ct_dec (ct_named_index named)]]
  end.

Definition ct_colored_parts (cl : ct_colored) : N * ct_color :=
  match cl with CtForeground c => (51, c) | CtBackground c => (52, c) | CtUnderline c => (53, c) end.

(* <Colored as Display>::fmt, colours enabled *)
Definition ct_colored_pr (cl : ct_colored) : ct_pr :=
  let '(base, c) := ct_colored_parts cl in
  if ct_color_eqb c CtReset then [[[base; 57]]] else [[base; 56]] :: ct_color_tail c.

(* Attribute::sgr *)
Definition ct_attr_pr (x : N) : ct_pr :=
  let c := nth (N.to_nat x) g_ct_SGR 0 in
  if (4 <? x) && (x <? 9) then [[[52]; ct_dec c]] else [[ct_dec c]].

(* Attributes::has *)
Definition ct_has (a x : N) : bool := negb (N.land a (N.shiftl 1 (x + 1)) =? 0).

Definition ct_csis (prs : list ct_pr) : list N := concat (map (fun pr => rn_csi pr 109) prs).

Definition ct_olist (mk : ct_color -> ct_colored) (o : option ct_color) : list ct_pr :=
  match o with Some c => [ct_colored_pr (mk c)] | None => [] end.

Definition ct_attrs_prs (a : N) : list ct_pr := map ct_attr_pr (filter (ct_has a) g_ct_attr_iterator).

(* the commands PrintStyledContent issues before the text ... *)
Definition ct_before (v : ct_style) : list ct_pr :=
  ct_olist CtBackground (ct_bg v) ++ ct_olist CtForeground (ct_fg v) ++ ct_olist CtUnderline (ct_ul v)
  ++ (if ct_attrs v =? 0 then [] else ct_attrs_prs (ct_attrs v)).

(* ... and after it: ESC[0m when an attribute was set, else the colours that were set go back to the
   default (the underline colour is "reset" by ESC[39m, the foreground's sequence) *)
Definition ct_is_some {A} (o : option A) : bool := match o with Some _ => true | None => false end.
Definition ct_after (v : ct_style) : list ct_pr :=
  if ct_attrs v =? 0 then
    (if ct_is_some (ct_bg v) then [[[[52; 57]]]] else []) ++
    (if ct_is_some (ct_fg v) || ct_is_some (ct_ul v) then [[[[51; 57]]]] else [])
  else [[[[48]]]].

(* the bytes of `v.apply(text).to_string()` *)
Definition ct_obytes (mk : ct_color -> ct_colored) (o : option ct_color) : list N :=
  match o with Some c => rn_csi (ct_colored_pr (mk c)) 109 | None => [] end.
Definition ct_render_bytes (v : ct_style) (text : list N) : list N :=
  ct_obytes CtBackground (ct_bg v) ++ ct_obytes CtForeground (ct_fg v) ++ ct_obytes CtUnderline (ct_ul v)
  ++ (if ct_attrs v =? 0 then [] else ct_csis (ct_attrs_prs (ct_attrs v)))
  ++ text
  ++ (if ct_attrs v =? 0 then
        (if ct_is_some (ct_bg v) then rn_csi [[[52; 57]]] 109 else []) ++
        (if ct_is_some (ct_fg v) || ct_is_some (ct_ul v) then rn_csi [[[51; 57]]] 109 else [])
      else rn_csi [[[48]]] 109).

(* ---- the translated functions are that model ------------------------------ *)

Lemma g_ct_colored_fmt_eq cl f :
  g_ct_colored_fmt false cl f = Some (f ++ rn_print_params (ct_colored_pr cl), inl tt).
Proof.
  unfold g_ct_colored_fmt, ct_colored_pr.
  destruct cl as [c|c|c]; destruct c; cbn [ct_colored_parts ct_color_eqb ct_color_tail];
    cbv beta iota zeta delta [ct_write_str ct_write_fmt ct_lit];
    unfold rn_print_params; cbn [map rn_join app];
    repeat rewrite <- app_assoc; cbn [app]; reflexivity.
Qed.

(* SetForegroundColor / SetBackgroundColor / SetUnderlineColor: `write!(f, csi!("{}m"), Colored::X(c))` *)
Lemma write_csi_colored cl f :
  ct_write_fmt [ct_lit [27; 91]; (fun f0 => g_ct_colored_fmt false cl f0); ct_lit [109]] f =
  Some (f ++ rn_csi (ct_colored_pr cl) 109, inl tt).
Proof.
  cbn [ct_write_fmt]. unfold ct_lit at 1. unfold ct_write_str at 1.
  rewrite g_ct_colored_fmt_eq. unfold ct_lit, ct_write_str. unfold rn_csi.
  repeat rewrite <- app_assoc. reflexivity.
Qed.

Lemma g_ct_set_fg_eq c f :
  g_ct_set_fg_write_ansi false c f = Some (f ++ rn_csi (ct_colored_pr (CtForeground c)) 109, inl tt).
Proof. unfold g_ct_set_fg_write_ansi, ct_cmd_f0. rewrite write_csi_colored. reflexivity. Qed.
Lemma g_ct_set_bg_eq c f :
  g_ct_set_bg_write_ansi false c f = Some (f ++ rn_csi (ct_colored_pr (CtBackground c)) 109, inl tt).
Proof. unfold g_ct_set_bg_write_ansi, ct_cmd_f0. rewrite write_csi_colored. reflexivity. Qed.
Lemma g_ct_set_ul_eq c f :
  g_ct_set_ul_write_ansi false c f = Some (f ++ rn_csi (ct_colored_pr (CtUnderline c)) 109, inl tt).
Proof. unfold g_ct_set_ul_write_ansi, ct_cmd_f0. rewrite write_csi_colored. reflexivity. Qed.

(* ---- attributes: finite facts about the 28 declared ones ------------------- *)

Definition ct_nattrs : nat := length g_ct_attr_names.

Fixpoint bytes_eqb (l1 l2 : list N) : bool :=
  match l1, l2 with
  | [], [] => true
  | a :: t, b :: u => (a =? b) && bytes_eqb t u
  | _, _ => false
  end.

Definition attr_fact (x : N) : bool :=
  match g_ct_attr_bytes x, g_ct_attr_sgr x with
  | Some b, Some s => (b =? N.shiftl 1 (x + 1)) && bytes_eqb s (rn_print_params (ct_attr_pr x))
  | _, _ => false
  end.

Lemma bytes_eqb_eq l1 l2 : bytes_eqb l1 l2 = true -> l1 = l2.
Proof.
  revert l2. induction l1 as [|a t IH]; destruct l2 as [|b u]; cbn; try discriminate; auto.
  intros H. apply andb_true_iff in H. destruct H as [A B]. apply N.eqb_eq in A. subst. f_equal. auto.
Qed.

Lemma attr_facts : forallb attr_fact (map N.of_nat (seq 0 ct_nattrs)) = true.
Proof. vm_compute. reflexivity. Qed.

Lemma attr_iterator_is : g_ct_attr_iterator = map N.of_nat (seq 0 ct_nattrs).
Proof. reflexivity. Qed.

Lemma attr_bytes_ok x : x < N.of_nat ct_nattrs -> g_ct_attr_bytes x = Some (N.shiftl 1 (x + 1)).
Proof.
  intros H. pose proof (forall_below _ _ attr_facts x H) as F. unfold attr_fact in F.
  destruct (g_ct_attr_bytes x) as [b|]; [|discriminate]. destruct (g_ct_attr_sgr x); [|discriminate].
  apply andb_true_iff in F. destruct F as [F _]. apply N.eqb_eq in F. now subst.
Qed.

Lemma attr_sgr_ok x : x < N.of_nat ct_nattrs -> g_ct_attr_sgr x = Some (rn_print_params (ct_attr_pr x)).
Proof.
  intros H. pose proof (forall_below _ _ attr_facts x H) as F. unfold attr_fact in F.
  destruct (g_ct_attr_bytes x) as [b|]; [|discriminate]. destruct (g_ct_attr_sgr x); [|discriminate].
  apply andb_true_iff in F. destruct F as [_ F]. apply bytes_eqb_eq in F. now subst.
Qed.

Lemma g_ct_attrs_has_eq a x : x < N.of_nat ct_nattrs -> g_ct_attrs_has a x = Some (ct_has a x).
Proof. intros H. unfold g_ct_attrs_has. rewrite (attr_bytes_ok x H). reflexivity. Qed.

Lemma g_ct_set_attr_eq x f : x < N.of_nat ct_nattrs ->
  g_ct_set_attr_write_ansi false x f = Some (f ++ rn_csi (ct_attr_pr x) 109, inl tt).
Proof.
  intros H. unfold g_ct_set_attr_write_ansi, ct_cmd_f0. rewrite (attr_sgr_ok x H).
  cbn [ct_write_fmt]. unfold ct_lit, ct_write_str, rn_csi. repeat rewrite <- app_assoc. reflexivity.
Qed.

(* SetAttributes: one sequence per attribute that is set, in declaration order *)
Lemma g_ct_set_attrs_eq a f :
  g_ct_set_attrs_write_ansi false a f = Some (f ++ ct_csis (ct_attrs_prs a), inl tt).
Proof.
  unfold g_ct_set_attrs_write_ansi, ct_cmd_f0, ct_attrs_prs.
  match goal with |- context [for_list ?F _ _] => set (step := F) end.
  assert (L : forall l, Forall (fun x => x < N.of_nat ct_nattrs) l -> forall acc,
            for_list step l acc = Some (inl (acc ++ ct_csis (map ct_attr_pr (filter (ct_has a) l))))).
  { induction l as [|x t IH]; intros Hl acc.
    - cbn. now rewrite app_nil_r.
    - inversion Hl as [|? ? Hx Ht]; subst. cbn [for_list filter]. unfold step at 1.
      rewrite (g_ct_attrs_has_eq a x Hx).
      destruct (ct_has a x).
      + rewrite (g_ct_set_attr_eq x acc Hx). cbv beta iota. rewrite (IH Ht).
        cbn [map]. unfold ct_csis. cbn [map concat]. now rewrite <- app_assoc.
      + cbv beta iota. apply (IH Ht). }
  rewrite L; [reflexivity|].
  rewrite attr_iterator_is. apply Forall_forall. intros x Hx.
  apply in_map_iff in Hx. destruct Hx as (n & <- & Hn). apply in_seq in Hn. lia.
Qed.

Lemma g_ct_reset_eq f : g_ct_reset_color_write_ansi false tt f = (f ++ rn_csi [[[48]]] 109, inl tt).
Proof. reflexivity. Qed.

(* ---- PrintStyledContent / Display for StyledContent / to_string -------------- *)

Lemma ct_csis_app a b : ct_csis (a ++ b) = ct_csis a ++ ct_csis b.
Proof. unfold ct_csis. now rewrite map_app, concat_app. Qed.

Lemma csis_cons x l : ct_csis (x :: l) = rn_csi x 109 ++ ct_csis l.
Proof. reflexivity. Qed.
Lemma csis_nil : ct_csis [] = [].
Proof. reflexivity. Qed.
Lemma reset_bg_pr : rn_csi (ct_colored_pr (CtBackground CtReset)) 109 = rn_csi [[[52; 57]]] 109.
Proof. reflexivity. Qed.
Lemma reset_fg_pr : rn_csi (ct_colored_pr (CtForeground CtReset)) 109 = rn_csi [[[51; 57]]] 109.
Proof. reflexivity. Qed.

(* the symbolic pieces are generalised before the lists are normalised: with them in place the kernel's
   conversion check of the `cbn` steps at Qed did not return *)
Ltac ct_abstract_pieces a :=
  repeat match goal with |- context [rn_csi ?p 109] => generalize (rn_csi p 109); intro end;
  try generalize (ct_csis (ct_attrs_prs a)); intros.

Lemma ct_render_eq v text f :
  g_ct_print_styled_write_ansi false (mkCtStyled v text) f = Some (f ++ ct_render_bytes v text, inl tt).
Proof.
  unfold g_ct_print_styled_write_ansi, g_ct_styled_style, g_ct_styled_content, ct_cmd_f0, ct_render_bytes.
  cbn [ct_sc_style ct_sc_content]. unfold g_ct_attrs_is_empty, ct_attrs_f0.
  destruct v as [fg bg ul a]. cbn [ct_fg ct_bg ct_ul ct_attrs].
  destruct bg as [bg|], fg as [fg|], ul as [ul|]; cbv beta iota zeta;
    rewrite ?g_ct_set_bg_eq; cbv beta iota zeta;
    rewrite ?g_ct_set_fg_eq; cbv beta iota zeta;
    rewrite ?g_ct_set_ul_eq; cbv beta iota zeta;
    (destruct (a =? 0); cbn [negb]; cbv beta iota zeta;
     rewrite ?g_ct_set_attrs_eq; cbv beta iota zeta;
     cbn [ct_write_fmt]; unfold ct_lit, ct_write_str; cbv beta iota zeta;
     rewrite ?g_ct_reset_eq; cbv beta iota zeta;
     rewrite ?g_ct_set_bg_eq; cbv beta iota zeta;
     rewrite ?g_ct_set_fg_eq; cbv beta iota zeta;
     rewrite ?reset_bg_pr, ?reset_fg_pr;
     cbn [ct_obytes ct_is_some orb];
     ct_abstract_pieces a;
     rewrite ?app_nil_r; cbn [app]; repeat rewrite <- app_assoc; reflexivity).
Qed.

(* the same bytes as sequences before / after the text *)
Lemma ct_render_bytes_csis v text :
  ct_render_bytes v text = ct_csis (ct_before v) ++ text ++ ct_csis (ct_after v).
Proof.
  unfold ct_render_bytes, ct_before, ct_after.
  destruct v as [fg bg ul a]. cbn [ct_fg ct_bg ct_ul ct_attrs].
  destruct bg as [bg|], fg as [fg|], ul as [ul|]; (destruct (a =? 0);
    cbn [ct_obytes ct_olist ct_is_some orb];
    rewrite ?ct_csis_app, ?csis_cons, ?csis_nil;
    ct_abstract_pieces a;
    rewrite ?app_nil_r; cbn [app]; repeat rewrite <- app_assoc; reflexivity).
Qed.

(* `v.apply(text).to_string()` for EVERY value: no panic, and exactly these bytes *)
Theorem g_crossterm_render_str_eq v text :
  g_crossterm_render_str false v text = Some (ct_render_bytes v text).
Proof.
  unfold g_crossterm_render_str, g_ct_apply, g_ct_styled_new, g_ct_styled_fmt. cbn [ct_sc_style ct_sc_content].
  rewrite ct_render_eq. reflexivity.
Qed.

Theorem g_crossterm_render_eq v : g_crossterm_render v = Some (ct_render_bytes v [120]).
Proof. apply g_crossterm_render_str_eq. Qed.
