(* Proofs/ParserCor.v -- what the refinement theorem transports from the
   specification to the model of Parser::advance: the limits, the cancel property
   and the CSI round trip, stated on [events_model]. *)
From Coq Require Import NArith List Bool Lia.
From AV Require Import Generated.Table Spec.Utf8 Spec.Vt Model.Base Model.Parser
  Proofs.ParserSim Proofs.VtLimits Proofs.VtCancel Proofs.VtCsi.
Import ListNotations.
Local Open Scope N_scope.

Definition bytes_ok (bs : list N) : Prop := Forall (fun b => b < 256) bs.

Lemma model_limits : forall bs, bytes_ok bs ->
  exists evs, events_model bs = Some evs /\ Forall event_ok evs.
Proof.
  intros bs Hbs. exists (spec_events bs). split; [apply parser_refines_spec, Hbs | apply spec_limits].
Qed.

(* after CAN / SUB the model parses the rest of the stream as a fresh parser would *)
Lemma model_cancel : forall prefix rest c, (c = 24 \/ c = 26) -> bytes_ok prefix -> bytes_ok rest ->
  exists e1 e2, events_model (prefix ++ [c]) = Some e1 /\ events_model rest = Some e2 /\
                events_model (prefix ++ [c] ++ rest) = Some (e1 ++ e2).
Proof.
  intros prefix rest c Hc Hp Hr.
  assert (Hc256 : c < 256) by (destruct Hc; subst; reflexivity).
  assert (H1 : bytes_ok (prefix ++ [c])).
  { apply Forall_app. split; [exact Hp | constructor; [exact Hc256 | constructor]]. }
  assert (H2 : bytes_ok (prefix ++ [c] ++ rest)).
  { rewrite app_assoc. apply Forall_app. split; assumption. }
  exists (spec_events (prefix ++ [c])), (spec_events rest).
  split; [apply parser_refines_spec, H1|]. split; [apply parser_refines_spec, Hr|].
  rewrite (parser_refines_spec _ H2). f_equal. apply cancel_splits_stream; assumption.
Qed.

Lemma print_params_bytes : forall ps, Forall (fun b => 48 <= b <= 59) (print_params ps).
Proof.
  intros ps. unfold print_params. apply print_digit_params_bytes.
  apply Forall_map. apply Forall_forall. intros g _.
  apply Forall_map. apply Forall_forall. intros v _. apply print_u16_digits_all.
Qed.

Lemma model_csi_roundtrip : forall ps f,
  ps <> [] -> Forall (fun g => g <> []) ps -> (length (concat ps) <= 32)%nat ->
  Forall (Forall (fun v => v <= 65535)) ps -> 64 <= f <= 126 ->
  events_model ([27; 91] ++ print_params ps ++ [f]) = Some [ECsi ps [] false f].
Proof.
  intros ps f H1 H2 H3 H4 Hf.
  rewrite parser_refines_spec.
  - f_equal. apply csi_roundtrip; assumption.
  - repeat constructor. apply Forall_app. split.
    + eapply Forall_impl; [|apply print_params_bytes]. intros b Hb. cbn beta in Hb. lia.
    + constructor; [lia | constructor].
Qed.

(* the flag is set exactly when something is discarded (collected in one statement) *)
Lemma flag_exact :
  (forall s b, ign (collect s b) = ign s || Nat.eqb (length (ints s)) 2) /\
  (forall s b, ints (collect s b) = if Nat.eqb (length (ints s)) 2 then ints s else ints s ++ [b]) /\
  (forall s b, ign (param s b) = ign s || Nat.eqb (count_values s) 32) /\
  (forall s b, Nat.eqb (count_values s) 32 = true ->
     closed (param s b) = closed s /\ cur (param s b) = cur s /\ pend (param s b) = pend s) /\
  (forall s, snd (final_params s) = ign s || Nat.eqb (count_values s) 32) /\
  (forall s a b, a <> TCollect -> a <> TParam -> ign (fst (do_action s a b)) = ign s) /\
  (forall s t b, ign (fst (enter s t b)) =
     match t with VEscape | VCsiEntry | VDcsEntry => false | _ => ign s end).
Proof.
  exact (conj collect_flag (conj collect_discards (conj param_flag (conj param_discards
        (conj final_params_flag (conj do_action_flag enter_flag)))))).
Qed.
